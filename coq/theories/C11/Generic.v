(* C11/Generic.v — facts about FindVisible that hold in the timestamp regime (commit times
   unknown: timestamp +- threshold, same-changeset forward grouping), the coverage of
   nextVersionIndex in both regimes, and the regime-independent form of the update lists. *)
From Coq Require Import ZArith List Bool Lia Permutation Sorted Arith.
From Verif Require Import Annotate.Model Annotate.SortProofs Annotate.Plans Annotate.Determinism
  C11.Spec C11.Proofs C11.Exact C11.TimeTravel.
Import ListNotations.
Open Scope Z_scope.

(* ------------------------------------------------------------------------- *)
(* FindVisible always returns a version of the list (every regime) *)

Lemma fv_step_nearest : forall cis cid at_ eps st c,
  fv_nearest (fv_step cis cid at_ eps st c) = fv_nearest st \/
  fv_nearest (fv_step cis cid at_ eps st c) = Some c \/
  fv_nearest (fv_step cis cid at_ eps st c) = None.
Proof.
  intros. unfold fv_step, vis_opt.
  repeat match goal with |- context [if ?b then _ else _] => destruct b end;
    cbn [fv_nearest]; auto.
Qed.

Lemma fv_fold_in : forall cis cid at_ eps (P : child -> Prop) l st,
  (forall x, fv_nearest st = Some x -> P x) -> (forall c, In c l -> P c) ->
  forall x, fv_nearest (fold_left (fv_step cis cid at_ eps) l st) = Some x -> P x.
Proof.
  intros cis cid at_ eps P l. induction l as [|c r IH]; intros st Hst Hl x H; cbn [fold_left] in H.
  - apply Hst. exact H.
  - eapply IH; [| |exact H].
    + intros y Hy. destruct (fv_step_nearest cis cid at_ eps st c) as [E|[E|E]]; rewrite E in Hy.
      * apply Hst. exact Hy.
      * inversion Hy; subst. apply Hl. left. reflexivity.
      * discriminate.
    + intros c' Hc'. apply Hl. right. exact Hc'.
Qed.

Lemma find_visible_in : forall cis cl cid at_ eps x,
  find_visible cis cl cid at_ eps = Some x -> In x cl.
Proof.
  intros cis cl cid at_ eps x H. unfold find_visible in H.
  eapply (fv_fold_in cis cid at_ eps (fun y => In y cl)); [|intros c Hc; exact Hc|exact H].
  intros y Hy. discriminate.
Qed.

(* ------------------------------------------------------------------------- *)
(* timestamp regime: the selected version is not older than any version before the window *)

Definition ts_child (cis : Z) (c : child) : bool := c_committed c <? cis.

Lemma ts_child_stamp : forall cis c, ts_child cis c = true -> stamp cis c = c_timestamp c.
Proof. intros cis c H. unfold ts_child in H. unfold stamp, time_threshold. rewrite H. lia. Qed.

(* invariant of the loop after k elements *)
Definition fv_inv (cis : Z) (cl : list child) (start : Z) (k : nat) (st : fv_state) : Prop :=
  (forall x, fv_nearest st = Some x ->
     exists i, (i < k)%nat /\ nth_error cl i = Some x /\
       forall i' c', (i' < k)%nat -> nth_error cl i' = Some c' -> stamp cis c' < start -> (i' <= i)%nat) /\
  (fv_done st = true -> forall i' c', (k <= i')%nat -> nth_error cl i' = Some c' -> start <= stamp cis c').

Lemma fv_step_inv : forall cis cid at_ eps cl k c st,
  0 <= eps -> mono cis cl -> nth_error cl k = Some c -> ts_child cis c = true ->
  fv_inv cis cl (at_ - eps) k st ->
  fv_inv cis cl (at_ - eps) (S k) (fv_step cis cid at_ eps st c).
Proof.
  intros cis cid at_ eps cl k c st Heps Hm Hk Hts [Hn Hd].
  pose proof (ts_child_stamp cis c Hts) as Hst.
  unfold fv_step. destruct (fv_done st) eqn:Ed.
  - (* already stopped *)
    split.
    + intros x Hx. destruct (Hn x Hx) as [i [Hi [Hxi Hle]]]. exists i. split; [lia|]. split; [exact Hxi|].
      intros i' c' Hi' Hc' Hlt. destruct (Nat.eq_dec i' k) as [E|E].
      * subst i'. pose proof (Hd eq_refl k c' ltac:(lia) Hc'). lia.
      * apply (Hle i' c'); [lia|exact Hc'|exact Hlt].
    + intros _ i' c' Hi' Hc'. apply (Hd eq_refl i' c'); [lia|exact Hc'].
  - unfold ts_child in Hts. rewrite Hts. rewrite <- Hst.
    (* a generic way to extend the first component when the new nearest is c itself *)
    assert (forall i' c', (i' < S k)%nat -> nth_error cl i' = Some c' -> (i' <= k)%nat) as Hpos by (intros; lia).
    assert (Hkeep : forall st', fv_nearest st' = fv_nearest st -> fv_done st' = false ->
                                at_ - eps <= stamp cis c -> fv_inv cis cl (at_ - eps) (S k) st').
    { intros st' En Ed' Hge. split.
      - intros x Hx. rewrite En in Hx. destruct (Hn x Hx) as [i [Hi [Hxi Hle]]].
        exists i. split; [lia|]. split; [exact Hxi|]. intros i' c' Hi' Hc' Hlt.
        destruct (Nat.eq_dec i' k) as [E|E]; [subst i'; rewrite Hk in Hc'; inversion Hc'; subst c'; lia|].
        apply (Hle i' c'); [lia|exact Hc'|exact Hlt].
      - rewrite Ed'. discriminate. }
    assert (Hself : forall st', fv_nearest st' = Some c -> fv_done st' = false ->
                                fv_inv cis cl (at_ - eps) (S k) st').
    { intros st' En Ed'. split.
      - intros x Hx. rewrite En in Hx. inversion Hx; subst x. exists k. split; [lia|]. split; [exact Hk|].
        intros i' c' Hi' _ _. lia.
      - rewrite Ed'. discriminate. }
    assert (Hnone : forall st', fv_nearest st' = None -> fv_done st' = false ->
                                fv_inv cis cl (at_ - eps) (S k) st').
    { intros st' En Ed'. split; [intros x Hx; rewrite En in Hx; discriminate|rewrite Ed'; discriminate]. }
    destruct (stamp cis c - (at_ - eps) >? 2 * eps) eqn:E1.
    + (* break *)
      split.
      * cbn [fv_nearest]. intros x Hx. destruct (Hn x Hx) as [i [Hi [Hxi Hle]]].
        exists i. split; [lia|]. split; [exact Hxi|]. intros i' c' Hi' Hc' Hlt.
        destruct (Nat.eq_dec i' k) as [E|E]; [subst i'; rewrite Hk in Hc'; inversion Hc'; subst c'; lia|].
        apply (Hle i' c'); [lia|exact Hc'|exact Hlt].
      * intros _ i' c' Hi' Hc'. pose proof (Hm k i' c c' Hk Hc' ltac:(lia)). lia.
    + destruct (stamp cis c - (at_ - eps) <? 0) eqn:E2.
      * (* before the window *)
        unfold vis_opt. destruct (c_visible c); [apply Hself; reflexivity|apply Hnone; reflexivity].
      * assert (at_ - eps <= stamp cis c) as Hge by lia.
        destruct ((fv_diff st <? 0) || (Z.abs (stamp cis c - (at_ - eps) - eps) <=? fv_diff st)).
        -- destruct (c_visible c).
           ++ destruct (stamp cis c - (at_ - eps) <=? eps); [apply Hself; reflexivity|].
              destruct (c_changeset c =? cid); [apply Hself; reflexivity|].
              cbn [negb]. rewrite andb_false_r. cbn [andb]. apply Hkeep; [reflexivity|reflexivity|exact Hge].
           ++ cbn [negb]. rewrite andb_true_r. destruct ((fv_diff st =? -1) && (stamp cis c - (at_ - eps) =? 0)).
              ** apply Hnone; reflexivity.
              ** apply Hkeep; [reflexivity|reflexivity|exact Hge].
        -- apply Hkeep; [reflexivity|exact Ed|exact Hge].
Qed.

Lemma fv_fold_inv : forall cis cid at_ eps cl l2 l1 st,
  0 <= eps -> mono cis cl -> forallb (ts_child cis) cl = true ->
  cl = l1 ++ l2 -> fv_inv cis cl (at_ - eps) (length l1) st ->
  fv_inv cis cl (at_ - eps) (length cl) (fold_left (fv_step cis cid at_ eps) l2 st).
Proof.
  intros cis cid at_ eps cl l2. induction l2 as [|c r IH]; intros l1 st Heps Hm Hts Hcl Hinv; cbn [fold_left].
  - rewrite app_nil_r in Hcl. subst l1. exact Hinv.
  - assert (nth_error cl (length l1) = Some c) as Hk by (subst cl; rewrite nth_error_app2, Nat.sub_diag by lia; reflexivity).
    assert (ts_child cis c = true) as Hc.
    { rewrite forallb_forall in Hts. apply Hts. eapply nth_error_In. exact Hk. }
    apply (IH (l1 ++ [c])); try assumption.
    + subst cl. rewrite <- app_assoc. reflexivity.
    + rewrite app_length. cbn [length]. replace (length l1 + 1)%nat with (S (length l1)) by lia.
      apply fv_step_inv; assumption.
Qed.

(* G1: in the timestamp regime, every version stamped before the window start is not later than
   the selected one *)
Lemma find_visible_ts_covers : forall cis cl cid at_ eps x,
  0 <= eps -> vidx_ok cl -> mono cis cl -> forallb (ts_child cis) cl = true ->
  find_visible cis cl cid at_ eps = Some x ->
  forall i c, nth_error cl i = Some c -> stamp cis c < at_ - eps -> (i <= c_vidx x)%nat.
Proof.
  intros cis cl cid at_ eps x Heps Hv Hm Hts H i c Hi Hlt. unfold find_visible in H.
  destruct (fv_fold_inv cis cid at_ eps cl cl [] (mkFv (-1) None false) Heps Hm Hts eq_refl) as [Hn _].
  - split; [intros y Hy; discriminate|intros Hd; discriminate].
  - destruct (Hn x H) as [ix [_ [Hx Hle]]]. rewrite (Hv _ _ Hx).
    apply (Hle i c); [apply nth_error_Some; congruence|exact Hi|exact Hlt].
Qed.

(* ------------------------------------------------------------------------- *)
(* nextVersionIndex covers every version stamped before the bound of the next parent version:
   its commit time when known, else its timestamp less the threshold *)

Definition pbound (cis : Z) (o : opts) (n : parent) : Z := time_threshold_parent cis n (- o_threshold o).

Definition np_ts (cis : Z) (np : option parent) : Prop :=
  match np with Some n => p_committed n <? cis = true | None => True end.

Definition regime_ok (cis : Z) (cl : list child) (np : option parent) : Prop :=
  (forallb (commit_child cis) cl = true /\ np_commit cis np) \/
  (forallb (ts_child cis) cl = true /\ np_ts cis np).

Definition before_bound (cis : Z) (o : opts) (np : option parent) (x : Z) : Prop :=
  match np with Some n => x < pbound cis o n | None => True end.

Lemma nv_covers : forall cis o cl np s nv,
  0 <= o_threshold o -> vidx_ok cl -> stamps_monotone cis cl = true -> cl <> [] ->
  regime_ok cis cl np -> nth_error cl (c_vidx s) = Some s ->
  next_version_index cis (Some s) cl np o = Ok nv ->
  forall i ck, nth_error cl i = Some ck -> (c_vidx s < i)%nat ->
  before_bound cis o np (stamp cis ck) -> (i < nv)%nat.
Proof.
  intros cis o cl np s nv Heps Hv Hsm Hne Hreg Hs Hnv i ck Hi Hsi Hb.
  pose proof (stamps_monotone_mono _ _ Hsm) as Hm.
  destruct Hreg as [[Hc Hnp]|[Hts Hnp]].
  - (* commit regime *)
    apply (next_version_commit cis o cl np s nv Hv Hsm Hc Hne Hnp Hs Hnv i ck Hi Hsi).
    apply (bound_ok_before cis cl np i ck Hv Hm Hi).
    destruct np as [n|]; [|exact I]. cbn [np_commit] in Hnp. cbn [before_bound] in Hb.
    unfold pbound in Hb. rewrite (commit_parent_threshold cis n _ Hnp) in Hb.
    unfold pstamp. rewrite (commit_parent_threshold cis n 0 Hnp). exact Hb.
  - (* timestamp regime *)
    unfold next_version_index in Hnv. destruct np as [n|].
    + cbn [np_ts] in Hnp. cbn [before_bound] in Hb. unfold pbound in Hb.
      assert (time_threshold_parent cis n (- o_threshold o) = time_threshold_parent cis n 0 - o_threshold o) as EB
        by (unfold time_threshold_parent; rewrite Hnp; lia).
      rewrite EB in Hb, Hnv.
      destruct (find_visible cis cl (p_changeset n) (time_threshold_parent cis n 0) (o_threshold o)) as [nx|] eqn:Ef.
      * pose proof (find_visible_ts_covers cis cl _ _ _ nx Heps Hv Hm Hts Ef i ck Hi Hb) as Hle.
        fold (stamp cis nx) in Hnv.
        destruct (stamp cis nx <? time_threshold_parent cis n 0 - o_threshold o) eqn:E; inversion Hnv; subst nv; [lia|].
        apply Z.ltb_ge in E.
        destruct (Nat.eq_dec i (c_vidx nx)) as [Eq|Hneq]; [|lia]. exfalso.
        pose proof (find_visible_in _ _ _ _ _ _ Ef) as Hin. apply In_nth_error in Hin. destruct Hin as [ix Hix].
        rewrite (Hv _ _ Hix) in Eq. subst ix. rewrite Hi in Hix. inversion Hix; subst nx. lia.
      * fold (stamp cis s) in Hnv.
        destruct (negb (time_threshold_parent cis n 0 - o_threshold o >? stamp cis s)) eqn:Ew.
        -- exfalso. pose proof (Hm (c_vidx s) i s ck Hs Hi ltac:(lia)). apply negb_true_iff in Ew. lia.
        -- rewrite version_before_pos in Hnv.
           set (B := time_threshold_parent cis n 0 - o_threshold o) in *.
           assert (i < pre (lt_T cis B) cl)%nat as Hpos.
           { destruct (Nat.lt_ge_cases i (pre (lt_T cis B) cl)) as [H|H]; [exact H|]. exfalso.
             pose proof (pre_ge _ cl i ck (lt_T_closed cis B cl Hm) H Hi) as Hf.
             unfold lt_T in Hf. apply Z.ltb_ge in Hf. lia. }
           destruct (pre (lt_T cis B) cl) as [|m] eqn:Ep; [lia|]. cbn [at_pos] in Hnv.
           assert (m < pre (lt_T cis B) cl)%nat as Hmlt by (rewrite Ep; lia).
           destruct (pre_lt _ cl m Hmlt) as [nx [Hnx _]]. rewrite Hnx in Hnv.
           inversion Hnv; subst nv. rewrite (Hv _ _ Hnx). lia.
    + rewrite last_map_some in Hnv.
      destruct (at_pos cl (length cl)) as [c|] eqn:E.
      * destruct (at_pos_some _ _ _ E) as [m [Em Hm']]. pose proof (Hv _ _ Hm') as Hvm.
        inversion Hnv; subst nv. assert (i < length cl)%nat by (apply nth_error_Some; congruence). lia.
      * discriminate.
Qed.

(* ------------------------------------------------------------------------- *)
(* the update list of one reference, every regime: the visible versions at positions
   (position of the selected version) + 1 .. nextVersion - 1 *)

Lemma group_updates_slice : forall cis o fid cl par np locs s ups,
  group_plan cis o fid cl par np locs = Ok (Some s, ups) ->
  find_visible cis cl (p_changeset par) (pstamp cis par) (o_threshold o) = Some s /\
  exists nv, next_version_index cis (Some s) cl np o = Ok nv /\
  forall u, In u ups <->
    exists ck i l, nth_error cl i = Some ck /\ c_visible ck = true /\ (c_vidx s < i)%nat /\ (i < nv)%nat /\
                   In l locs /\ u = child_update cis ck (snd l).
Proof.
  intros cis o fid cl par np locs s ups H. unfold group_plan in H. fold (pstamp cis par) in H.
  destruct (find_visible cis cl (p_changeset par) (pstamp cis par) (o_threshold o)) as [s0|] eqn:Es.
  2:{ destruct (o_ignore_incons o); [|discriminate].
      destruct (next_version_index cis None cl np o); [|discriminate].
      match type of H with context [updates_loop ?a ?b ?c ?d ?e ?f ?g ?h] =>
        destruct (updates_loop a b c d e f g h) end; inversion H. }
  destruct (next_version_index cis (Some s0) cl np o) as [nv|] eqn:Env; [|discriminate].
  destruct (updates_loop cis o fid cl locs (S (c_vidx s0)) (nv - S (c_vidx s0)) []) as [ups0|] eqn:Eu; [|discriminate].
  inversion H; subst s0 ups0. clear H. split; [reflexivity|]. exists nv. split; [exact Env|].
  pose proof (updates_loop_exact _ _ _ _ _ _ _ _ _ Eu) as Hups. cbn [app] in Hups. subst ups.
  intros u. rewrite in_flat_map. split.
  - intros [ck [Hck Hu]]. apply in_version_updates in Hu. destruct Hu as [Hvis [l [Hl Eu']]].
    apply in_slice in Hck. destruct Hck as [i [H1 [H2 H3]]].
    exists ck, i, l. repeat split; try assumption; lia.
  - intros [ck [i [l [Hi [Hvis [H1 [H2 [Hl Eu']]]]]]]].
    exists ck. split.
    + apply in_slice. exists i. split; [lia|]. split; [lia|exact Hi].
    + apply in_version_updates. split; [exact Hvis|]. exists l. split; [exact Hl|exact Eu'].
Qed.

Lemma updates_slice : forall cis o ps hist entries sortf ps' results p par j r cl s,
  valid_order o ps entries -> sort_spec less sortf ->
  compute_with cis o ps hist entries sortf = Ok (ps', results) ->
  nth_error ps p = Some par -> p_visible par = true ->
  nth_error (p_refs par) j = Some r -> filtered_out (o_filter o) r = false ->
  hist (r_id r) = HFound cl -> cl <> [] ->
  find_visible cis cl (p_changeset par) (pstamp cis par) (o_threshold o) = Some s ->
  exists us nv,
    nth_error results p = Some us /\
    next_version_index cis (Some s) cl (nth_error ps (S p)) o = Ok nv /\
    forall u, (In u us /\ u_index u = j) <->
      exists ck i, nth_error cl i = Some ck /\ c_visible ck = true /\ (c_vidx s < i)%nat /\ (i < nv)%nat /\
                   u = child_update cis ck j.
Proof.
  intros cis o ps hist entries sortf ps' results p par j r cl s Hv Hs Hc Hp Hvis Hj Hf Hh Hne Hsel.
  rewrite compute_with_plans in Hc.
  destruct (all_plans cis o ps hist entries) as [pls|] eqn:E; [|discriminate].
  cbv zeta in Hc. inversion Hc; subst ps' results. clear Hc.
  pose proof (all_plans_src cis o ps hist entries pls (valid_order_ok o ps entries Hv) E) as Hsrc.
  (* the plan of this reference *)
  destruct (plan_exists cis o ps hist entries pls p par j r cl Hv E Hp Hvis Hj Hf Hh Hne)
    as [pl0 [Hpl0 [Epl0 [Hloc0 Hchild0]]]].
  destruct (Hsrc pl0 Hpl0) as [fid0 [cl0 [par0 [Hh0 [_ [Hp0 [_ [Hgp0 Hlocs0]]]]]]]].
  rewrite Epl0, Hp in Hp0. inversion Hp0; subst par0. rewrite Epl0 in Hgp0.
  destruct (Hlocs0 _ Hloc0) as [_ Hfid0]. unfold loc_fid in Hfid0. cbn [fst snd] in Hfid0.
  rewrite Hp, Hj in Hfid0. cbn [option_map] in Hfid0. inversion Hfid0; subst fid0.
  rewrite Hh in Hh0. inversion Hh0; subst cl0.
  fold (pstamp cis par) in Hchild0. rewrite Hsel in Hchild0. rewrite Hchild0 in Hgp0.
  destruct (group_updates_slice _ _ _ _ _ _ _ _ _ Hgp0) as [_ [nv [Hnv Hiff0]]].
  exists (sortf (flat_map (ups_for p) pls)), nv. split.
  - rewrite nth_error_map, run_plans_snd_nth. cbn [snd]. rewrite nth_error_map, Hp. reflexivity.
  - split; [exact Hnv|].
    destruct (Hs (flat_map (ups_for p) pls)) as [Hperm _].
    intros u. split.
    + intros [Hin Hidx].
      apply (Permutation_in _ (Permutation_sym Hperm)) in Hin.
      apply in_flat_map in Hin. destruct Hin as [pl [Hpl Hu]]. unfold ups_for in Hu.
      destruct (Nat.eqb (pl_pidx pl) p) eqn:Epp; [|destruct Hu]. apply Nat.eqb_eq in Epp.
      destruct (Hsrc pl Hpl) as [fid [cl' [par' [Hh' [Hne' [Hp' [Hvis' [Hgp Hlocs]]]]]]]].
      rewrite Epp, Hp in Hp'. inversion Hp'; subst par'. rewrite Epp in Hgp.
      assert (exists ck0 l0, In l0 (pl_locs pl) /\ u = child_update cis ck0 (snd l0)) as [ck0 [l0 [Hl0 Eu0]]].
      { unfold group_plan in Hgp.
        destruct (find_visible cis cl' (p_changeset par) (time_threshold_parent cis par 0) (o_threshold o)) as [c0|];
          [|destruct (o_ignore_incons o); [|discriminate]];
          (destruct (next_version_index cis _ cl' (nth_error ps (S p)) o); [|discriminate]);
          (match type of Hgp with context [updates_loop ?a ?b ?c ?d ?e ?f ?g ?h] =>
             destruct (updates_loop a b c d e f g h) as [ups0|] eqn:Eu end; [|discriminate]);
          inversion Hgp as [[Ec Eups]]; rewrite <- Eups in Hu;
          destruct (updates_loop_from _ _ _ _ _ _ _ _ _ Eu (fun u0 (H0 : In u0 []) => match H0 with end) u Hu)
            as [ck0 [l0 [_ [Hl0 Eu0]]]]; exists ck0, l0; split; assumption. }
      destruct (Hlocs l0 Hl0) as [Hfl Hfid].
      assert (l0 = (p, j)) as El0.
      { destruct l0 as [a b]. cbn [fst snd] in *. subst u. cbn [child_update u_index] in Hidx. congruence. }
      subst l0. unfold loc_fid in Hfid. cbn [fst snd] in Hfid. rewrite Hp, Hj in Hfid. cbn [option_map] in Hfid.
      inversion Hfid; subst fid. rewrite Hh in Hh'. inversion Hh'; subst cl'.
      assert (pl_child pl = Some s) as Ech.
      { unfold group_plan in Hgp. fold (pstamp cis par) in Hgp. rewrite Hsel in Hgp.
        destruct (next_version_index cis (Some s) cl (nth_error ps (S p)) o); [|discriminate].
        match type of Hgp with context [updates_loop ?a ?b ?c ?d ?e ?f ?g ?h] =>
          destruct (updates_loop a b c d e f g h) end; [|discriminate]. inversion Hgp. reflexivity. }
      rewrite Ech in Hgp.
      destruct (group_updates_slice _ _ _ _ _ _ _ _ _ Hgp) as [_ [nv' [Hnv' Hiff]]].
      rewrite Hnv in Hnv'. inversion Hnv'; subst nv'.
      destruct (proj1 (Hiff u) Hu) as [ck [i [l [Hi [Hvck [H1 [H2 [Hl Eu]]]]]]]].
      exists ck, i. repeat split; try assumption.
      pose proof (f_equal u_index Eu) as Ei. cbn [child_update u_index] in Ei.
      rewrite Eu. f_equal. congruence.
    + intros [ck [i [Hi [Hvck [H1 [H2 Eu]]]]]].
      split; [|subst u; reflexivity].
      apply (Permutation_in _ Hperm). apply in_flat_map. exists pl0. split; [exact Hpl0|].
      unfold ups_for. rewrite Epl0, Nat.eqb_refl. apply Hiff0.
      exists ck, i, (p, j). repeat split; assumption.
Qed.

(* ------------------------------------------------------------------------- *)
(* time_travel_generic: both pure regimes, whatever FindVisible selected *)

Section Generic.
Variables (cis : Z) (o : opts) (ps : list parent) (hist : Z -> hres).
Variables (entries : list (Z * list loc)) (sortf : list update -> list update).
Variables (ps' : list parent) (results : list (list update)).
Variables (p : nat) (par : parent) (j : nat) (r : ref) (cl : list child) (s : child).

Hypothesis Hhist : hist_ok hist.
Hypothesis Hv : valid_order o ps entries.
Hypothesis Hs : sort_spec less sortf.
Hypothesis Hc : compute_with cis o ps hist entries sortf = Ok (ps', results).
Hypothesis Hp : nth_error ps p = Some par.
Hypothesis Hvis : p_visible par = true.
Hypothesis Hj : nth_error (p_refs par) j = Some r.
Hypothesis Hf : filtered_out (o_filter o) r = false.
Hypothesis Hh : hist (r_id r) = HFound cl.
Hypothesis Hne : cl <> [].
Hypothesis Hvx : vidx_ok cl.
Hypothesis Hsm : stamps_monotone cis cl = true.
Hypothesis Hvm : versions_mono cl.
Hypothesis Hsc : forall ck, In ck cl -> stamp_consistent cis ck = true.
Hypothesis Heps : 0 <= o_threshold o.
Hypothesis Hreg : regime_ok cis cl (nth_error ps (S p)).
Hypothesis Hsel : find_visible cis cl (p_changeset par) (pstamp cis par) (o_threshold o) = Some s.

Lemma time_travel_generic : forall is_rel t par' us refs' pend,
  before_bound cis o (nth_error ps (S p)) t ->
  (forall e, current_at cis cl t = Some e -> (c_vidx s < c_vidx e)%nat -> c_visible e = true) ->
  nth_error ps' p = Some par' -> nth_error results p = Some us ->
  apply_updates_up_to is_rel t (p_refs par') us = ApplyOk refs' pend ->
  exists e r', later (Some s) (current_at cis cl t) = Some e /\ nth_error refs' j = Some r' /\ ref_carries r' e.
Proof.
  intros is_rel t par' us refs' pend Hbb Hbetween Hpar' Hus Happ.
  pose proof (stamps_monotone_mono _ _ Hsm) as Hm.
  destruct (annotate_child_selected cis o ps hist entries sortf ps' results p par j r cl
              Hv Hc Hp Hvis Hj Hf Hh Hne) as [par'' [r0 [H1 [H2 H3]]]].
  rewrite Hpar' in H1. inversion H1; subst par''. rewrite Hsel in H3. subst r0.
  destruct (updates_slice cis o ps hist entries sortf ps' results p par j r cl s
              Hv Hs Hc Hp Hvis Hj Hf Hh Hne Hsel) as [us' [nv [Hus' [Hnv Hmem]]]].
  rewrite Hus in Hus'. inversion Hus'; subst us'. clear Hus'.
  pose proof (apply_ok_exact _ _ _ _ _ _ Happ j _ H2) as Href.
  assert (StronglySorted itv_le us) as Hsorted.
  { eapply (updates_sorted_index_time_version cis o ps hist entries sortf ps' results Hs Hc).
    eapply nth_error_In. exact Hus. }
  (* position of the selected version *)
  pose proof (find_visible_in _ _ _ _ _ _ Hsel) as Hsin. apply In_nth_error in Hsin.
  destruct Hsin as [ms Hms]. pose proof (Hvx _ _ Hms) as Hvs.
  assert (nth_error cl (c_vidx s) = Some s) as Hspos by (rewrite Hvs; exact Hms).
  (* applicable updates of index j are versions at positions ms < i < pre(<= t) *)
  assert (forall u, In u us -> applicable t j u = true ->
            exists ck i, nth_error cl i = Some ck /\ u = child_update cis ck j /\ (ms < i)%nat /\
                         (i < pre (le_T cis t) cl)%nat) as Happl.
  { intros u Hu Ha. unfold applicable in Ha. apply andb_true_iff in Ha. destruct Ha as [Ha1 Ha2].
    apply Nat.eqb_eq in Ha2.
    destruct (proj1 (Hmem u) (conj Hu Ha2)) as [ck [i [Hi [Hvck [Hlt [_ Eu]]]]]].
    exists ck, i. split; [exact Hi|]. split; [exact Eu|]. split; [lia|].
    assert (stamp cis ck <= t) as Hst.
    { subst u. rewrite child_update_stamp in Ha1 by (apply Hsc; eapply nth_error_In; exact Hi).
      apply negb_true_iff in Ha1. lia. }
    exact (pos_lt_pre cis t cl i ck Hm Hi Hst). }
  assert (Hnone_case : (forall i, (ms < i)%nat -> (i < pre (le_T cis t) cl)%nat -> False) ->
                       ref_carries (applied_ref is_rel t us j (set_ref s r)) s).
  { intros Hno. rewrite applied_none.
    - unfold ref_carries. cbn. repeat split; reflexivity.
    - intros u Hu. destruct (applicable t j u) eqn:Ea; [|reflexivity]. exfalso.
      destruct (Happl u Hu Ea) as [ck [i [_ [_ [H4 H5]]]]]. exact (Hno i H4 H5). }
  rewrite (current_at_pos cis t cl Hm).
  destruct (pre (le_T cis t) cl) as [|m] eqn:Epre.
  - (* no version stamped <= t at all *)
    exists s, (applied_ref is_rel t us j (set_ref s r)). cbn [at_pos later].
    split; [reflexivity|]. split; [exact Href|]. apply Hnone_case. intros i _ Hi. lia.
  - cbn [at_pos].
    assert (m < pre (le_T cis t) cl)%nat as Hm_lt by (rewrite Epre; lia).
    destruct (pre_lt _ cl m Hm_lt) as [e [He Hpe]]. unfold le_T in Hpe. apply Z.leb_le in Hpe.
    pose proof (Hvx _ _ He) as Hve. rewrite He. cbn [later]. rewrite Hvs, Hve.
    destruct (Nat.ltb ms m) eqn:Elt.
    + (* the version current at t is later than the selected one *)
      apply Nat.ltb_lt in Elt.
      exists e, (applied_ref is_rel t us j (set_ref s r)). split; [reflexivity|]. split; [exact Href|].
      set (ue := child_update cis e j).
      assert (m < nv)%nat as Hmnv.
      { apply (nv_covers cis o cl (nth_error ps (S p)) s nv Heps Hvx Hsm Hne Hreg Hspos Hnv m e He); [lia|].
        unfold before_bound in *. destruct (nth_error ps (S p)); [lia|exact I]. }
      assert (In ue us /\ u_index ue = j) as [Hue _].
      { apply (proj2 (Hmem ue)). exists e, m. split; [exact He|].
        split; [apply (Hbetween e); [rewrite (current_at_pos cis t cl Hm), Epre; exact He|lia]|].
        split; [lia|]. split; [exact Hmnv|reflexivity]. }
      assert (applicable t j ue = true) as Haue.
      { unfold applicable. apply andb_true_iff. split; [|apply Nat.eqb_refl].
        unfold ue. rewrite child_update_stamp by (apply Hsc; eapply nth_error_In; exact He).
        apply negb_true_iff. lia. }
      assert (forall u', In u' us -> applicable t j u' = true -> itv_le u' ue) as Hmax.
      { intros u' Hu' Ha'. destruct (Happl u' Hu' Ha') as [ck [i [Hi [Eu' [H4 H5]]]]]. subst u'.
        unfold itv_le, ukey, ue. cbn [child_update u_index u_timestamp u_version].
        change (update_timestamp cis (c_timestamp ck) (c_committed ck)) with (u_timestamp (child_update cis ck j)).
        change (update_timestamp cis (c_timestamp e) (c_committed e)) with (u_timestamp (child_update cis e j)).
        rewrite !child_update_stamp by (apply Hsc; eapply nth_error_In; eassumption).
        assert (i <= m)%nat as Him by lia.
        pose proof (Hm i m ck e Hi He Him). pose proof (Hvm i m ck e Hi He Him). right. split; [reflexivity|lia]. }
      assert (forall a b, In a us -> In b us -> applicable t j a = true -> applicable t j b = true ->
                          ukey a = ukey b -> a = b) as Hkf.
      { intros a b Ha Hb Haa Hab Hkey.
        destruct (Happl a Ha Haa) as [ca [ia [Hia [Ea _]]]]. destruct (Happl b Hb Hab) as [cb [ib [Hib [Eb _]]]].
        subst a b. apply child_update_key in Hkey. destruct Hkey as [_ Hver].
        rewrite (Hhist _ _ Hh ca cb (nth_error_In _ _ Hia) (nth_error_In _ _ Hib) Hver). reflexivity. }
      destruct (applied_sorted_max' is_rel t j us Hsorted Hkf (set_ref s r) ue Hue Haue Hmax) as [E1 [E2 [E3 E4]]].
      unfold ref_carries. rewrite E1, E2, E3, E4. unfold ue. cbn. repeat split; reflexivity.
    + (* the selected version is the current one or a later (forward-grouped) one *)
      apply Nat.ltb_ge in Elt.
      exists s, (applied_ref is_rel t us j (set_ref s r)). split; [reflexivity|]. split; [exact Href|].
      apply Hnone_case. intros i H4 H5. lia.
Qed.

End Generic.

(* ------------------------------------------------------------------------- *)
(* a witness in the timestamp regime with same-changeset forward grouping:
   way (changeset 7) stamped T; node 100: v1 long before, v2 ten minutes AFTER the way but in the
   way's changeset (selected by forward grouping, threshold 30 min), v3 two hours later. *)
Definition g_cis : Z := 1347442203000000000.
Definition g_t (s : Z) : Z := g_cis - 100 * 86400000000000 + s * 1000000000.
Definition g_versions : list hver :=
  [ mkHver 1 3 (g_t (-7200)) zero_time 1 0 false true;
    mkHver 2 7 (g_t 600) zero_time 2 0 false true;
    mkHver 3 9 (g_t 7200) zero_time 3 0 false true ].
Definition g_cl := to_child_list 100 g_versions.
Definition g_hist (fid : Z) : hres := if fid =? 100 then HFound g_cl else HNotFound.
Definition g_parents : list parent := [ mkParent 7 true (g_t 0) zero_time [mkRef 100 0 0 0 0 0] ].
Definition g_opts : opts := mkOpts 1800000000000 false false None.
Definition g_entries := map_child_locs g_parents None.

Lemma g_hist_ok : hist_ok g_hist.
Proof.
  intros fid cl H a b Ha Hb Hv. unfold g_hist in H.
  destruct (fid =? 100); [|discriminate]. inversion H; subst cl. clear H.
  vm_compute in Ha, Hb.
  destruct Ha as [<-|[<-|[<-|[]]]]; destruct Hb as [<-|[<-|[<-|[]]]];
    try reflexivity; vm_compute in Hv; discriminate Hv.
Qed.
