(* C11/FindVisibleSpec.v — declarative characterisation of FindVisible in the timestamp regime
   (commit times unknown), for windows without deleted versions:
   the closest candidate within [at - eps, at + eps], where versions stamped after [at] are
   candidates only if they belong to the parent's changeset (ties: the later version);
   if there is no candidate, the previous version (the last one before the window) if visible. *)
From Coq Require Import ZArith List Bool Lia Permutation Sorted Arith.
From Verif Require Import Annotate.Model Annotate.SortProofs Annotate.Plans Annotate.Determinism
  C11.Spec C11.Proofs C11.Exact C11.TimeTravel C11.Generic.
Import ListNotations.
Open Scope Z_scope.

Section Spec.
Variables (cis cid at_ eps : Z) (cl : list child).

Definition in_win (c : child) : Prop := at_ - eps <= stamp cis c <= at_ + eps.
Definition cand (c : child) : Prop := in_win c /\ (stamp cis c <= at_ \/ c_changeset c = cid).
Definition dist (c : child) : Z := Z.abs (stamp cis c - at_).

(* SPEC *)
Definition closest_candidate (x : child) (ix : nat) : Prop :=
  nth_error cl ix = Some x /\ cand x /\
  forall i c, nth_error cl i = Some c -> cand c -> dist x <= dist c /\ (dist c = dist x -> (i <= ix)%nat).

Definition find_visible_spec (res : option child) : Prop :=
  (exists x ix, res = Some x /\ closest_candidate x ix) \/
  ((forall c, In c cl -> ~ cand c) /\ res = visible_only (version_before cis cl (at_ - eps))).

Hypothesis Heps : 0 <= eps.
Hypothesis Hm : mono cis cl.
Hypothesis Hts : forallb (ts_child cis) cl = true.
Hypothesis Hwin : forall c, In c cl -> in_win c -> c_visible c = true.

Let M := pre (lt_T cis (at_ - eps)) cl.

(* loop invariant after k elements, loop still running *)
Definition J (k : nat) (st : fv_state) : Prop :=
  ((forall i c, (i < k)%nat -> nth_error cl i = Some c -> ~ cand c) /\
   fv_diff st = -1 /\ fv_nearest st = visible_only (at_pos cl (Nat.min k M)))
  \/
  (exists x ix, (ix < k)%nat /\ nth_error cl ix = Some x /\ cand x /\
     fv_nearest st = Some x /\ fv_diff st = dist x /\
     forall i c, (i < k)%nat -> nth_error cl i = Some c -> cand c ->
       dist x <= dist c /\ (dist c = dist x -> (i <= ix)%nat)).

Lemma before_pos : forall k c, nth_error cl k = Some c -> (stamp cis c < at_ - eps <-> (k < M)%nat).
Proof.
  intros k c Hk. split.
  - intros Hlt. destruct (Nat.lt_ge_cases k M) as [H|H]; [exact H|]. exfalso.
    pose proof (pre_ge _ cl k c (lt_T_closed cis _ cl Hm) H Hk) as Hf.
    unfold lt_T in Hf. apply Z.ltb_ge in Hf. lia.
  - intros Hlt. destruct (pre_lt _ cl k Hlt) as [c' [Hc' Hp]]. rewrite Hk in Hc'. inversion Hc'; subst c'.
    unfold lt_T in Hp. apply Z.ltb_lt in Hp. exact Hp.
Qed.

Lemma J_final : forall k st,
  J k st -> (forall i c, (k <= i)%nat -> nth_error cl i = Some c -> at_ + eps < stamp cis c) ->
  find_visible_spec (fv_nearest st).
Proof.
  intros k st [[Hno [Hd Hn]]|[x [ix [Hix [Hx [Hcx [Hn [Hd Hmin]]]]]]]] Hrest.
  - right. split.
    + intros c Hc. apply In_nth_error in Hc. destruct Hc as [i Hi].
      destruct (Nat.lt_ge_cases i k) as [H|H]; [exact (Hno i c H Hi)|].
      intros [[_ Hhi] _]. pose proof (Hrest i c H Hi). lia.
    + rewrite Hn, version_before_pos. fold M.
      assert (Nat.min k M = M) as ->; [|reflexivity].
      destruct (Nat.le_gt_cases M k) as [H|H]; [lia|]. exfalso.
      destruct (pre_lt _ cl k H) as [c [Hc Hp]]. unfold lt_T in Hp. apply Z.ltb_lt in Hp.
      pose proof (Hrest k c ltac:(lia) Hc). lia.
  - left. exists x, ix. split; [exact Hn|]. split; [exact Hx|]. split; [exact Hcx|].
    intros i c Hi Hc. destruct (Nat.lt_ge_cases i k) as [H|H]; [exact (Hmin i c H Hi Hc)|].
    exfalso. destruct Hc as [[_ Hhi] _]. pose proof (Hrest i c H Hi). lia.
Qed.

Lemma J_step : forall k c st,
  nth_error cl k = Some c -> fv_done st = false -> J k st ->
  let st' := fv_step cis cid at_ eps st c in
  (fv_done st' = false /\ J (S k) st') \/
  (fv_done st' = true /\ fv_nearest st' = fv_nearest st /\ at_ + eps < stamp cis c).
Proof.
  intros k c st Hk Hnd HJ.
  assert (ts_child cis c = true) as Hc by (rewrite forallb_forall in Hts; apply Hts; eapply nth_error_In; exact Hk).
  pose proof (ts_child_stamp cis c Hc) as Hst.
  cbv zeta. unfold fv_step. rewrite Hnd. unfold ts_child in Hc. rewrite Hc. rewrite <- Hst.
  replace (stamp cis c - (at_ - eps) - eps) with (stamp cis c - at_) by lia. fold (dist c).
  destruct (stamp cis c - (at_ - eps) >? 2 * eps) eqn:E1.
  - right. cbn [fv_done fv_nearest]. repeat split; lia.
  - left. destruct (stamp cis c - (at_ - eps) <? 0) eqn:E2.
    + (* before the window *)
      cbn [fv_done]. split; [reflexivity|].
      assert (stamp cis c < at_ - eps) as Hlt by lia.
      pose proof (proj1 (before_pos k c Hk) Hlt) as HkM.
      destruct HJ as [[Hno [Hd Hn]]|[x [ix [Hix [Hx [[[Hxlo _] _] _]]]]]].
      * left. cbn [fv_diff fv_nearest]. split.
        -- intros i c' Hi Hc'. destruct (Nat.eq_dec i k) as [E|E].
           ++ subst i. rewrite Hk in Hc'. inversion Hc'; subst c'. intros [[Hlo _] _]. lia.
           ++ apply (Hno i c'); [lia|exact Hc'].
        -- split; [exact Hd|]. replace (Nat.min (S k) M) with (S k) by lia. cbn [at_pos]. rewrite Hk. reflexivity.
      * exfalso. pose proof (Hm ix k x c Hx Hk ltac:(lia)). lia.
    + (* inside the window: the version is visible *)
      assert (in_win c) as Hin by (unfold in_win; lia).
      assert (c_visible c = true) as Hv by (apply Hwin; [eapply nth_error_In; exact Hk|exact Hin]).
      assert (~ (k < M)%nat) as HkM by (intros H; pose proof (proj2 (before_pos k c Hk) H); lia).
      rewrite Hv. cbn [negb]. rewrite andb_false_r. cbn [andb].
      (* the two ways the state can change *)
      assert (Haccept : cand c ->
                (fv_diff st < 0 \/ dist c <= fv_diff st) ->
                J (S k) (mkFv (dist c) (Some c) false)).
      { intros Hcc Hcond. right. exists c, k. split; [lia|]. split; [exact Hk|]. split; [exact Hcc|].
        split; [reflexivity|]. split; [reflexivity|].
        intros i c' Hi Hc' Hcc'. destruct (Nat.eq_dec i k) as [E|E].
        - subst i. rewrite Hk in Hc'. inversion Hc'; subst c'. split; [lia|intros; lia].
        - destruct HJ as [[Hno _]|[x [ix [Hix [Hx [Hcx [Hn [Hd Hmin]]]]]]]].
          + exfalso. exact (Hno i c' ltac:(lia) Hc' Hcc').
          + destruct (Hmin i c' ltac:(lia) Hc' Hcc') as [H1 _].
            assert (dist c <= dist x) by (destruct Hcond as [H|H]; [unfold dist in Hd; lia|lia]).
            split; [lia|intros; lia]. }
      assert (Hskip : ~ cand c \/ (0 <= fv_diff st /\ fv_diff st < dist c) ->
                forall st', fv_diff st' = fv_diff st -> fv_nearest st' = fv_nearest st -> J (S k) st').
      { intros Hwhy st' Ed En. destruct HJ as [[Hno [Hd Hn]]|[x [ix [Hix [Hx [Hcx [Hn [Hd Hmin]]]]]]]].
        - left. split.
          + intros i c' Hi Hc'. destruct (Nat.eq_dec i k) as [E|E].
            * subst i. rewrite Hk in Hc'. inversion Hc'; subst c'. destruct Hwhy as [H|H]; [exact H|lia].
            * apply (Hno i c'); [lia|exact Hc'].
          + split; [lia|]. rewrite En, Hn. replace (Nat.min (S k) M) with (Nat.min k M) by lia. reflexivity.
        - right. exists x, ix. split; [lia|]. split; [exact Hx|]. split; [exact Hcx|].
          split; [rewrite En; exact Hn|]. split; [lia|].
          intros i c' Hi Hc' Hcc'. destruct (Nat.eq_dec i k) as [E|E].
          + subst i. rewrite Hk in Hc'. inversion Hc'; subst c'.
            destruct Hwhy as [H|H]; [contradiction|]. split; [lia|intros; lia].
          + apply (Hmin i c'); [lia|exact Hc'|exact Hcc']. }
      assert (0 <= dist c) as Hd0 by (unfold dist; lia).
      destruct ((fv_diff st <? 0) || (dist c <=? fv_diff st)) eqn:Econd.
      * assert (fv_diff st < 0 \/ dist c <= fv_diff st) as Hcond
          by (apply orb_true_iff in Econd; destruct Econd as [H|H]; [left; lia|right; lia]).
        destruct (stamp cis c - (at_ - eps) <=? eps) eqn:E3.
        -- split; [reflexivity|]. apply Haccept; [split; [exact Hin|left; lia]|exact Hcond].
        -- destruct (c_changeset c =? cid) eqn:E4.
           ++ split; [reflexivity|]. apply Z.eqb_eq in E4. apply Haccept; [split; [exact Hin|right; exact E4]|exact Hcond].
           ++ split; [reflexivity|]. apply Hskip; [|reflexivity|reflexivity].
              left. apply Z.eqb_neq in E4. intros [_ [H|H]]; [lia|contradiction].
      * split; [exact Hnd|]. apply Hskip; [|reflexivity|reflexivity].
        right. apply orb_false_iff in Econd. destruct Econd as [H1 H2]. lia.
Qed.

Lemma fv_spec_fold : forall l2 l1 st,
  cl = l1 ++ l2 -> fv_done st = false -> J (length l1) st ->
  find_visible_spec (fv_nearest (fold_left (fv_step cis cid at_ eps) l2 st)).
Proof.
  induction l2 as [|c r IH]; intros l1 st Hcl Hnd HJ; cbn [fold_left].
  - apply (J_final (length l1) st HJ). intros i c Hi Hc. exfalso.
    assert (i < length cl)%nat by (apply nth_error_Some; congruence).
    rewrite Hcl, app_nil_r in H. lia.
  - assert (nth_error cl (length l1) = Some c) as Hk
      by (rewrite Hcl, nth_error_app2, Nat.sub_diag by lia; reflexivity).
    destruct (J_step (length l1) c st Hk Hnd HJ) as [[Hnd' HJ']|[Hd' [Hn' Hbeyond]]].
    + apply (IH (l1 ++ [c])).
      * rewrite Hcl, <- app_assoc. reflexivity.
      * exact Hnd'.
      * rewrite app_length. cbn [length]. replace (length l1 + 1)%nat with (S (length l1)) by lia. exact HJ'.
    + rewrite fv_done_fold by exact Hd'. rewrite Hn'.
      apply (J_final (length l1) st HJ). intros i c' Hi Hc'.
      pose proof (Hm (length l1) i c c' Hk Hc' Hi). lia.
Qed.

Theorem find_visible_meets_spec : find_visible_spec (find_visible cis cl cid at_ eps).
Proof.
  unfold find_visible. apply (fv_spec_fold cl [] (mkFv (-1) None false) eq_refl eq_refl).
  left. split; [intros i c Hi; cbn [length] in Hi; lia|]. split; [reflexivity|]. cbn [length Nat.min at_pos visible_only fv_nearest]. reflexivity.
Qed.

End Spec.
