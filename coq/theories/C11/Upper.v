(* C11/Upper.v — what FindVisible can select, for EVERY mixture of versions with and without commit
   times (upper bound, complementing the lower bound find_visible_covers of C11/Mixed.v); the case
   where all versions without commit time lie before the window (selection = ground truth); and
   the exact upper end of the update list of a parent version in every regime. *)
From Coq Require Import ZArith List Bool Lia Permutation Sorted Arith.
From Verif Require Import Annotate.Model Annotate.SortProofs Annotate.Plans Annotate.Determinism
  C11.Spec C11.Proofs C11.Exact C11.TimeTravel C11.Generic C11.Mixed C11.Any.
Import ListNotations.
Open Scope Z_scope.

(* ------------------------------------------------------------------------- *)
(* 1. upper bound: the selected version is visible, stamped no later than at + eps, and when it is
      stamped after [at] it has no commit time and belongs to the parent's changeset *)
Definition selectable (cis cid at_ eps : Z) (x : child) : Prop :=
  c_visible x = true /\ stamp cis x <= at_ + eps /\
  (at_ < stamp cis x -> ts_child cis x = true /\ c_changeset x = cid).

Lemma fv_step_selectable : forall cis cid at_ eps st c,
  0 <= eps ->
  (forall x, fv_nearest st = Some x -> selectable cis cid at_ eps x) ->
  forall x, fv_nearest (fv_step cis cid at_ eps st c) = Some x -> selectable cis cid at_ eps x.
Proof.
  intros cis cid at_ eps st c Heps Hst x. unfold fv_step, vis_opt.
  assert (Hts : c_committed c <? cis = true -> stamp cis c = c_timestamp c)
    by (intros H; unfold stamp, time_threshold; rewrite H; lia).
  assert (Hco : c_committed c <? cis = false -> stamp cis c = c_committed c)
    by (intros H; unfold stamp, time_threshold; rewrite H; reflexivity).
  assert (Hself : c_visible c = true -> stamp cis c <= at_ + eps ->
                  (at_ < stamp cis c -> ts_child cis c = true /\ c_changeset c = cid) ->
                  Some c = Some x -> selectable cis cid at_ eps x)
    by (intros H1 H2 H3 E; inversion E; subst x; split; [exact H1|split; [exact H2|exact H3]]).
  destruct (fv_done st); [apply Hst|].
  destruct (c_committed c <? cis) eqn:Ereg.
  - specialize (Hts eq_refl).
    destruct (c_timestamp c - (at_ - eps) >? 2 * eps) eqn:E1; cbn [fv_nearest]; [apply Hst|].
    destruct (c_timestamp c - (at_ - eps) <? 0) eqn:E2; cbn [fv_nearest].
    + destruct (c_visible c) eqn:Ev; [|discriminate]. apply Hself; [reflexivity|lia|lia].
    + destruct ((fv_diff st <? 0) || (Z.abs (c_timestamp c - (at_ - eps) - eps) <=? fv_diff st)); [|apply Hst].
      destruct (c_visible c) eqn:Ev; cbn [negb].
      * rewrite andb_false_r. cbn [andb].
        destruct (c_timestamp c - (at_ - eps) <=? eps) eqn:E3; cbn [fv_nearest].
        -- apply Hself; [reflexivity|lia|lia].
        -- destruct (c_changeset c =? cid) eqn:E4; cbn [fv_nearest]; [|apply Hst].
           apply Z.eqb_eq in E4. apply Hself; [reflexivity|lia|].
           intros _. split; [exact Ereg|exact E4].
      * rewrite andb_true_r. cbn [fv_nearest].
        destruct ((fv_diff st =? -1) && (c_timestamp c - (at_ - eps) =? 0)); [discriminate|apply Hst].
  - specialize (Hco eq_refl).
    destruct (c_committed c >? at_) eqn:E1; cbn [fv_nearest]; [apply Hst|].
    destruct (c_visible c) eqn:Ev; [|discriminate]. apply Hself; [reflexivity|lia|lia].
Qed.

Lemma fv_fold_selectable : forall cis cid at_ eps l st,
  0 <= eps ->
  (forall y, fv_nearest st = Some y -> selectable cis cid at_ eps y) ->
  forall y, fv_nearest (fold_left (fv_step cis cid at_ eps) l st) = Some y -> selectable cis cid at_ eps y.
Proof.
  intros cis cid at_ eps l. induction l as [|c r IH]; intros st Heps Hst y Hy; cbn [fold_left] in Hy; [apply Hst; exact Hy|].
  eapply IH; [exact Heps| |exact Hy]. apply fv_step_selectable; assumption.
Qed.

Lemma find_visible_selectable : forall cis cl cid at_ eps x,
  0 <= eps -> find_visible cis cl cid at_ eps = Some x -> selectable cis cid at_ eps x.
Proof.
  intros cis cl cid at_ eps x Heps H. unfold find_visible in H.
  eapply fv_fold_selectable; [exact Heps| |exact H]. intros y Hy. discriminate.
Qed.

(* ------------------------------------------------------------------------- *)
(* 2. when every version WITHOUT commit time is stamped before the window (the usual shape of an
      element created before CommitInfoStart and edited after it, looked at from a later parent),
      FindVisible is the ground truth: the version current at [at], if visible *)
Lemma find_visible_old_before_window_gen : forall cis cid at_ eps cl d acc,
  0 <= eps -> stamps_monotone cis cl = true ->
  (forall c, In c cl -> ts_child cis c = true -> stamp cis c < at_ - eps) ->
  fv_nearest (fold_left (fv_step cis cid at_ eps) cl (mkFv d (visible_only acc) false)) =
  visible_only (fold_left (fun a c => if stamp cis c <=? at_ then Some c else a) cl acc).
Proof.
  intros cis cid at_ eps cl. induction cl as [|c r IH]; intros d acc Heps Hm Hold; cbn [fold_left]; [reflexivity|].
  destruct (stamps_monotone_all_ge _ _ _ Hm) as [Hge Hm'].
  assert (forall x, In x r -> ts_child cis x = true -> stamp cis x < at_ - eps) as Hold'
    by (intros x Hx; apply Hold; right; exact Hx).
  unfold fv_step at 2. cbn [fv_done fv_diff fv_nearest].
  destruct (c_committed c <? cis) eqn:Ereg.
  - assert (stamp cis c = c_timestamp c) as Hst by (unfold stamp, time_threshold; rewrite Ereg; lia).
    pose proof (Hold c (or_introl eq_refl) Ereg) as Hlt. rewrite Hst in Hlt.
    assert (c_timestamp c - (at_ - eps) >? 2 * eps = false) as -> by lia.
    assert (c_timestamp c - (at_ - eps) <? 0 = true) as -> by lia.
    rewrite Hst. assert (c_timestamp c <=? at_ = true) as -> by lia.
    change (vis_opt c) with (visible_only (Some c)). apply IH; assumption.
  - assert (stamp cis c = c_committed c) as Hst by (unfold stamp, time_threshold; rewrite Ereg; reflexivity).
    rewrite Hst. destruct (c_committed c >? at_) eqn:E.
    + rewrite fv_done_fold by reflexivity. cbn [fv_nearest].
      assert (c_committed c <=? at_ = false) as -> by lia.
      rewrite current_at_all_later; [reflexivity|].
      intros x Hx. pose proof (all_ge_in _ _ _ _ Hge Hx). lia.
    + assert (c_committed c <=? at_ = true) as -> by lia.
      change (vis_opt c) with (visible_only (Some c)). apply IH; assumption.
Qed.

Lemma find_visible_old_before_window : forall cis cid at_ eps cl,
  0 <= eps -> stamps_monotone cis cl = true ->
  (forall c, In c cl -> ts_child cis c = true -> stamp cis c < at_ - eps) ->
  find_visible cis cl cid at_ eps = visible_only (current_at cis cl at_).
Proof.
  intros. unfold find_visible, current_at.
  apply (find_visible_old_before_window_gen cis cid at_ eps cl (-1) None); assumption.
Qed.

(* ------------------------------------------------------------------------- *)
(* 3. the exact upper end of the update list, every regime and every mixture: with nx the version
      FindVisible selects for the NEXT parent version (what that version's reference carries,
      theorem annotate_child_selected), the updates of this parent version stop before nx, nx
      itself included iff it is stamped before the next parent's bound; when nothing is selected
      for the next parent version: the versions stamped before that bound *)
Definition bound_gen (cis : Z) (o : opts) (cl : list child) (np : option parent) (ck : child) : Prop :=
  match np with
  | None => True
  | Some n =>
      match find_visible cis cl (p_changeset n) (pstamp cis n) (o_threshold o) with
      | Some nx => (c_vidx ck < c_vidx nx)%nat \/ (c_vidx ck = c_vidx nx /\ stamp cis nx < pbound cis o n)
      | None => stamp cis ck < pbound cis o n
      end
  end.

Lemma next_version_exact : forall cis o cl np s nv,
  vidx_ok cl -> stamps_monotone cis cl = true -> cl <> [] ->
  nth_error cl (c_vidx s) = Some s ->
  next_version_index cis (Some s) cl np o = Ok nv ->
  forall i ck, nth_error cl i = Some ck -> (c_vidx s < i)%nat ->
  ((i < nv)%nat <-> bound_gen cis o cl np ck).
Proof.
  intros cis o cl np s nv Hv Hsm Hne Hs Hnv i ck Hi Hsi.
  pose proof (stamps_monotone_mono _ _ Hsm) as Hm. pose proof (Hv _ _ Hi) as Hvi.
  unfold next_version_index in Hnv. unfold bound_gen. destruct np as [n|].
  - fold (pbound cis o n) in Hnv. unfold pstamp.
    destruct (find_visible cis cl (p_changeset n) (time_threshold_parent cis n 0) (o_threshold o)) as [nx|].
    + fold (stamp cis nx) in Hnv.
      destruct (stamp cis nx <? pbound cis o n) eqn:E; inversion Hnv; subst nv.
      * apply Z.ltb_lt in E. lia.
      * apply Z.ltb_ge in E. lia.
    + fold (stamp cis s) in Hnv.
      destruct (negb (pbound cis o n >? stamp cis s)) eqn:Ew.
      * inversion Hnv; subst nv. split; [lia|]. intros Hb. exfalso.
        pose proof (Hm (c_vidx s) i s ck Hs Hi ltac:(lia)). apply negb_true_iff in Ew. lia.
      * rewrite version_before_pos in Hnv. set (B := pbound cis o n) in *.
        assert ((i < pre (lt_T cis B) cl)%nat <-> stamp cis ck < B) as Hiff.
        { split.
          - intros Hlt. destruct (pre_lt _ cl i Hlt) as [c' [Hc' Hp]]. rewrite Hi in Hc'. inversion Hc'; subst c'.
            unfold lt_T in Hp. apply Z.ltb_lt in Hp. exact Hp.
          - intros Hb. destruct (Nat.lt_ge_cases i (pre (lt_T cis B) cl)) as [H|H]; [exact H|]. exfalso.
            pose proof (pre_ge _ cl i ck (lt_T_closed cis B cl Hm) H Hi) as Hf.
            unfold lt_T in Hf. apply Z.ltb_ge in Hf. lia. }
        destruct (pre (lt_T cis B) cl) as [|m] eqn:Ep.
        -- cbn [at_pos] in Hnv. inversion Hnv; subst nv. rewrite <- Hiff. lia.
        -- cbn [at_pos] in Hnv.
           assert (m < pre (lt_T cis B) cl)%nat as Hmlt by (rewrite Ep; lia).
           destruct (pre_lt _ cl m Hmlt) as [nx [Hnx _]]. rewrite Hnx in Hnv.
           inversion Hnv; subst nv. rewrite (Hv _ _ Hnx). rewrite <- Hiff. lia.
  - rewrite last_map_some in Hnv.
    destruct (at_pos cl (length cl)) as [c|] eqn:E; [|discriminate].
    destruct (at_pos_some _ _ _ E) as [m [Em Hm']]. pose proof (Hv _ _ Hm') as Hvm.
    inversion Hnv; subst nv. assert (i < length cl)%nat by (apply nth_error_Some; congruence).
    split; [intros; exact I|intros; lia].
Qed.

(* a version inside the bound is stamped no later than the end of the next parent's window *)
Lemma bound_gen_upper : forall cis o cl n ck i,
  0 <= o_threshold o -> vidx_ok cl -> stamps_monotone cis cl = true ->
  nth_error cl i = Some ck -> bound_gen cis o cl (Some n) ck ->
  stamp cis ck <= pstamp cis n + o_threshold o.
Proof.
  intros cis o cl n ck i Heps Hv Hsm Hi Hb.
  pose proof (stamps_monotone_mono _ _ Hsm) as Hm. pose proof (Hv _ _ Hi) as Hvi.
  unfold bound_gen in Hb.
  destruct (find_visible cis cl (p_changeset n) (pstamp cis n) (o_threshold o)) as [nx|] eqn:Ef.
  - destruct (find_visible_selectable _ _ _ _ _ _ Heps Ef) as [_ [Hup _]].
    pose proof (find_visible_in _ _ _ _ _ _ Ef) as Hin. apply In_nth_error in Hin. destruct Hin as [ix Hix].
    pose proof (Hv _ _ Hix) as Hvx.
    assert (i <= ix)%nat as Hle by (destruct Hb as [H|[H _]]; lia).
    pose proof (Hm i ix ck nx Hi Hix Hle). lia.
  - pose proof (pbound_le_at cis o n Heps). unfold pstamp. lia.
Qed.

(* compute level *)
Lemma updates_exact_generic : forall cis o ps hist entries sortf ps' results p par j r cl s,
  valid_order o ps entries -> sort_spec less sortf ->
  compute_with cis o ps hist entries sortf = Ok (ps', results) ->
  nth_error ps p = Some par -> p_visible par = true ->
  nth_error (p_refs par) j = Some r -> filtered_out (o_filter o) r = false ->
  hist (r_id r) = HFound cl -> cl <> [] ->
  vidx_ok cl -> stamps_monotone cis cl = true ->
  find_visible cis cl (p_changeset par) (pstamp cis par) (o_threshold o) = Some s ->
  exists us,
    nth_error results p = Some us /\
    forall u, (In u us /\ u_index u = j) <->
      exists ck, In ck cl /\ c_visible ck = true /\ u = child_update cis ck j /\
                 (c_vidx s < c_vidx ck)%nat /\ bound_gen cis o cl (nth_error ps (S p)) ck.
Proof.
  intros cis o ps hist entries sortf ps' results p par j r cl s Hv Hs Hc Hp Hvis Hj Hf Hh Hne Hvx Hsm Hsel.
  destruct (updates_slice cis o ps hist entries sortf ps' results p par j r cl s
              Hv Hs Hc Hp Hvis Hj Hf Hh Hne Hsel) as [us [nv [Hus [Hnv Hmem]]]].
  pose proof (find_visible_in _ _ _ _ _ _ Hsel) as Hsin. apply In_nth_error in Hsin.
  destruct Hsin as [ms Hms]. pose proof (Hvx _ _ Hms) as Hvs.
  assert (nth_error cl (c_vidx s) = Some s) as Hspos by (rewrite Hvs; exact Hms).
  exists us. split; [exact Hus|]. intros u. rewrite (Hmem u). split.
  - intros [ck [i [Hi [Hvis' [H1 [H2 Eu]]]]]]. pose proof (Hvx _ _ Hi) as Hvi.
    exists ck. split; [eapply nth_error_In; exact Hi|]. split; [exact Hvis'|]. split; [exact Eu|]. split; [lia|].
    apply (next_version_exact cis o cl _ s nv Hvx Hsm Hne Hspos Hnv i ck Hi H1). exact H2.
  - intros [ck [Hck [Hvis' [Eu [H1 Hb]]]]]. apply In_nth_error in Hck. destruct Hck as [i Hi].
    pose proof (Hvx _ _ Hi) as Hvi. exists ck, i. split; [exact Hi|]. split; [exact Hvis'|]. split; [lia|].
    split; [|exact Eu].
    apply (next_version_exact cis o cl _ s nv Hvx Hsm Hne Hspos Hnv i ck Hi); [lia|exact Hb].
Qed.

(* ------------------------------------------------------------------------- *)
(* 4. without IgnoreInconsistency every version in the slice of a reference is visible (else the
      annotation fails with "child deleted between parent versions"), every regime *)
Lemma slice_all_visible : forall cis o ps hist entries sortf ps' results p par j r cl s nv,
  valid_order o ps entries ->
  compute_with cis o ps hist entries sortf = Ok (ps', results) ->
  nth_error ps p = Some par -> p_visible par = true ->
  nth_error (p_refs par) j = Some r -> filtered_out (o_filter o) r = false ->
  hist (r_id r) = HFound cl -> cl <> [] ->
  find_visible cis cl (p_changeset par) (pstamp cis par) (o_threshold o) = Some s ->
  next_version_index cis (Some s) cl (nth_error ps (S p)) o = Ok nv ->
  o_ignore_incons o = false ->
  forall i ck, nth_error cl i = Some ck -> (c_vidx s < i)%nat -> (i < nv)%nat -> c_visible ck = true.
Proof.
  intros cis o ps hist entries sortf ps' results p par j r cl s nv Hv Hc Hp Hvis Hj Hf Hh Hne Hsel Hnv Hig i ck Hi H1 H2.
  rewrite compute_with_plans in Hc.
  destruct (all_plans cis o ps hist entries) as [pls|] eqn:E; [|discriminate]. clear Hc.
  pose proof (all_plans_src cis o ps hist entries pls (valid_order_ok o ps entries Hv) E) as Hsrc.
  destruct (plan_exists cis o ps hist entries pls p par j r cl Hv E Hp Hvis Hj Hf Hh Hne)
    as [pl [Hpl [Epl [Hloc Hchild]]]].
  destruct (Hsrc pl Hpl) as [fid [cl' [par' [Hh' [Hne' [Hp' [Hvis' [Hgp Hlocs]]]]]]]].
  rewrite Epl, Hp in Hp'. inversion Hp'; subst par'. rewrite Epl in Hgp.
  destruct (Hlocs _ Hloc) as [_ Hfid]. unfold loc_fid in Hfid. cbn [fst snd] in Hfid.
  rewrite Hp, Hj in Hfid. cbn [option_map] in Hfid. inversion Hfid; subst fid.
  rewrite Hh in Hh'. inversion Hh'; subst cl'.
  unfold group_plan in Hgp. fold (pstamp cis par) in Hgp. rewrite Hsel, Hnv in Hgp.
  destruct (updates_loop cis o (r_id r) cl (pl_locs pl) (S (c_vidx s)) (nv - S (c_vidx s)) []) as [ups|] eqn:Eu; [|discriminate].
  eapply (updates_loop_all_visible _ _ _ _ _ _ _ _ _ Hig Eu).
  apply in_slice. exists i. split; [lia|]. split; [lia|exact Hi].
Qed.

Section GenericStrict.
Variables (cis : Z) (o : opts) (ps : list parent) (hist : Z -> hres).
Variables (entries : list (Z * list loc)) (sortf : list update -> list update).
Variables (ps' : list parent) (results : list (list update)).
Variables (p : nat) (par : parent) (j : nat) (r : ref) (cl : list child) (s : child).

Hypothesis Hhist : hist_ok hist.
Hypothesis Hv : valid_order o ps entries.
Hypothesis Hs : sort_spec less sortf.
Hypothesis Hc : compute_with cis o ps hist entries sortf = Ok (ps', results).
Hypothesis Hp : nth_error ps p = Some par.
Hypothesis Hvis : p_visible par = true.
Hypothesis Hj : nth_error (p_refs par) j = Some r.
Hypothesis Hf : filtered_out (o_filter o) r = false.
Hypothesis Hh : hist (r_id r) = HFound cl.
Hypothesis Hne : cl <> [].
Hypothesis Hvx : vidx_ok cl.
Hypothesis Hsm : stamps_monotone cis cl = true.
Hypothesis Hvm : versions_mono cl.
Hypothesis Hsc : forall ck, In ck cl -> stamp_consistent cis ck = true.
Hypothesis Heps : 0 <= o_threshold o.
Hypothesis Hreg : regime_ok cis cl (nth_error ps (S p)).
Hypothesis Hsel : find_visible cis cl (p_changeset par) (pstamp cis par) (o_threshold o) = Some s.

(* pure regimes, IgnoreInconsistency off: no visibility side condition at all *)
Lemma time_travel_generic_strict : forall is_rel t par' us refs' pend,
  o_ignore_incons o = false ->
  before_bound cis o (nth_error ps (S p)) t ->
  nth_error ps' p = Some par' -> nth_error results p = Some us ->
  apply_updates_up_to is_rel t (p_refs par') us = ApplyOk refs' pend ->
  exists e r', later (Some s) (current_at cis cl t) = Some e /\ nth_error refs' j = Some r' /\ ref_carries r' e.
Proof.
  intros is_rel t par' us refs' pend Hig Hbb Hpar' Hus Happ.
  apply (time_travel_generic cis o ps hist entries sortf ps' results p par j r cl s
           Hhist Hv Hs Hc Hp Hvis Hj Hf Hh Hne Hvx Hsm Hvm Hsc Heps Hreg Hsel is_rel t par' us refs' pend Hbb); try assumption.
  intros e He Hlt.
  pose proof (stamps_monotone_mono _ _ Hsm) as Hm.
  rewrite (current_at_pos cis t cl Hm) in He.
  destruct (at_pos_some _ _ _ He) as [m [Em Hem]].
  assert (m < pre (le_T cis t) cl)%nat as Hmlt by (rewrite Em; lia).
  destruct (pre_lt _ cl m Hmlt) as [e' [He' Hpe]]. rewrite Hem in He'. inversion He'; subst e'.
  unfold le_T in Hpe. apply Z.leb_le in Hpe. pose proof (Hvx _ _ Hem) as Hve.
  pose proof (find_visible_in _ _ _ _ _ _ Hsel) as Hsin. apply In_nth_error in Hsin.
  destruct Hsin as [ms Hms]. pose proof (Hvx _ _ Hms) as Hvs.
  assert (nth_error cl (c_vidx s) = Some s) as Hspos by (rewrite Hvs; exact Hms).
  destruct (updates_slice cis o ps hist entries sortf ps' results p par j r cl s
              Hv Hs Hc Hp Hvis Hj Hf Hh Hne Hsel) as [us' [nv [_ [Hnv _]]]].
  apply (slice_all_visible cis o ps hist entries sortf ps' results p par j r cl s nv
           Hv Hc Hp Hvis Hj Hf Hh Hne Hsel Hnv Hig m e Hem); [lia|].
  apply (nv_covers cis o cl (nth_error ps (S p)) s nv Heps Hvx Hsm Hne Hreg Hspos Hnv m e Hem); [lia|].
  unfold before_bound in *. destruct (nth_error ps (S p)); [lia|exact I].
Qed.

End GenericStrict.
