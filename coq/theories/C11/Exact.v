(* C11/Exact.v — positional facts about histories with monotone stamps, and the identification of
   [start] / [nextVersion] of compute.go with the two current_at bounds (commit-time regime). *)
From Coq Require Import ZArith List Bool Lia Permutation Sorted Arith.
From Verif Require Import Annotate.Model Annotate.SortProofs Annotate.Plans Annotate.Determinism
  C11.Spec C11.Proofs.
Import ListNotations.
Open Scope Z_scope.

(* ------------------------------------------------------------------------- *)
(* slices *)

Lemma nth_error_skipn' : forall A (l : list A) k m, nth_error (skipn k l) m = nth_error l (k + m).
Proof.
  intros A l. induction l as [|x r IH]; intros k m.
  - destruct k, m; reflexivity.
  - destruct k as [|k]; [reflexivity|]. cbn [skipn Nat.add nth_error]. apply IH.
Qed.

Lemma nth_error_firstn' : forall A (l : list A) n m,
  nth_error (firstn n l) m = if Nat.ltb m n then nth_error l m else None.
Proof.
  intros A l. induction l as [|x r IH]; intros n m.
  - destruct n, m; cbn [firstn nth_error]; try reflexivity; destruct (Nat.ltb (S m) (S n)); reflexivity.
  - destruct n as [|n]; [destruct m; reflexivity|].
    destruct m as [|m]; [reflexivity|]. cbn [firstn nth_error]. rewrite IH.
    change (Nat.ltb (S m) (S n)) with (Nat.ltb m n). reflexivity.
Qed.

Lemma in_slice : forall A (l : list A) k n c,
  In c (firstn n (skipn k l)) <-> exists i, (k <= i)%nat /\ (i < k + n)%nat /\ nth_error l i = Some c.
Proof.
  intros A l k n c. split.
  - intros H. apply In_nth_error in H. destruct H as [m Hm].
    rewrite nth_error_firstn' in Hm. destruct (Nat.ltb m n) eqn:E; [|discriminate].
    apply Nat.ltb_lt in E. rewrite nth_error_skipn' in Hm. exists (k + m)%nat. repeat split; [lia|lia|exact Hm].
  - intros [i [H1 [H2 H3]]]. apply (nth_error_In _ (i - k)).
    rewrite nth_error_firstn'. assert (Nat.ltb (i - k) n = true) as -> by (apply Nat.ltb_lt; lia).
    rewrite nth_error_skipn'. replace (k + (i - k))%nat with i by lia. exact H3.
Qed.

(* ------------------------------------------------------------------------- *)
(* longest prefix satisfying a predicate *)

Fixpoint pre (P : child -> bool) (cl : list child) : nat :=
  match cl with
  | [] => 0
  | c :: r => if P c then S (pre P r) else 0
  end.

Lemma pre_lt : forall P cl k, (k < pre P cl)%nat -> exists c, nth_error cl k = Some c /\ P c = true.
Proof.
  intros P cl. induction cl as [|c r IH]; intros k H; cbn [pre] in H; [lia|].
  destruct (P c) eqn:E; [|lia]. destruct k as [|k]; [exists c; split; [reflexivity|exact E]|].
  apply IH. lia.
Qed.

Lemma pre_stop : forall P cl c, nth_error cl (pre P cl) = Some c -> P c = false.
Proof.
  intros P cl. induction cl as [|x r IH]; intros c H; cbn [pre] in H; [discriminate|].
  destruct (P x) eqn:E; [apply IH; exact H|]. inversion H; subst. exact E.
Qed.

Lemma pre_le_length : forall P cl, (pre P cl <= length cl)%nat.
Proof. intros P cl. induction cl as [|c r IH]; cbn [pre length]; [lia|]. destruct (P c); lia. Qed.

(* P is downward closed along the list: once false, false ever after *)
Definition closed_along (P : child -> bool) (cl : list child) : Prop :=
  forall i k a b, nth_error cl i = Some a -> nth_error cl k = Some b -> (i <= k)%nat -> P b = true -> P a = true.

Lemma closed_along_tail : forall P c r, closed_along P (c :: r) -> closed_along P r.
Proof. intros P c r H i k a b Ha Hb Hik. apply (H (S i) (S k)); [exact Ha|exact Hb|lia]. Qed.

Lemma pre_ge : forall P cl k c,
  closed_along P cl -> (pre P cl <= k)%nat -> nth_error cl k = Some c -> P c = false.
Proof.
  intros P cl k c Hcl Hk Hc.
  destruct (P c) eqn:E; [|reflexivity]. exfalso.
  destruct (nth_error cl (pre P cl)) as [x|] eqn:Ex.
  - pose proof (pre_stop P cl x Ex) as Hx.
    rewrite (Hcl (pre P cl) k x c Ex Hc Hk E) in Hx. discriminate.
  - apply nth_error_None in Ex. assert (k < length cl)%nat by (apply nth_error_Some; congruence). lia.
Qed.

(* ------------------------------------------------------------------------- *)
(* histories: positions are version indices, stamps do not decrease *)

Definition vidx_ok (cl : list child) : Prop := forall i c, nth_error cl i = Some c -> c_vidx c = i.

Definition mono (cis : Z) (cl : list child) : Prop :=
  forall i k a b, nth_error cl i = Some a -> nth_error cl k = Some b -> (i <= k)%nat ->
  stamp cis a <= stamp cis b.

Lemma mono_tail : forall cis c r, mono cis (c :: r) -> mono cis r.
Proof. intros cis c r H i k a b Ha Hb Hik. apply (H (S i) (S k)); [exact Ha|exact Hb|lia]. Qed.

Lemma stamps_monotone_mono : forall cis cl, stamps_monotone cis cl = true -> mono cis cl.
Proof.
  intros cis cl. induction cl as [|c r IH]; intros H i k a b Ha Hb Hik.
  - destruct i; discriminate.
  - destruct (stamps_monotone_all_ge _ _ _ H) as [Hge Hm].
    destruct i as [|i]; destruct k as [|k]; try lia.
    + inversion Ha; inversion Hb; subst. lia.
    + inversion Ha; subst. cbn [nth_error] in Hb. apply nth_error_In in Hb.
      apply (all_ge_in _ _ _ _ Hge Hb).
    + cbn [nth_error] in Ha, Hb. apply (IH Hm i k); [exact Ha|exact Hb|lia].
Qed.

Definition le_T (cis T : Z) (c : child) : bool := stamp cis c <=? T.
Definition lt_T (cis T : Z) (c : child) : bool := stamp cis c <? T.

Lemma le_T_closed : forall cis T cl, mono cis cl -> closed_along (le_T cis T) cl.
Proof.
  intros cis T cl Hm i k a b Ha Hb Hik Hp. unfold le_T in *.
  apply Z.leb_le in Hp. apply Z.leb_le. pose proof (Hm i k a b Ha Hb Hik). lia.
Qed.

Lemma lt_T_closed : forall cis T cl, mono cis cl -> closed_along (lt_T cis T) cl.
Proof.
  intros cis T cl Hm i k a b Ha Hb Hik Hp. unfold lt_T in *.
  apply Z.ltb_lt in Hp. apply Z.ltb_lt. pose proof (Hm i k a b Ha Hb Hik). lia.
Qed.

(* current_at = the element just before the end of the <= T prefix *)
Definition at_pos (cl : list child) (n : nat) : option child :=
  match n with O => None | S m => nth_error cl m end.

Lemma current_at_fold_pos : forall cis T cl acc,
  mono cis cl ->
  fold_left (fun a c => if stamp cis c <=? T then Some c else a) cl acc =
  match pre (le_T cis T) cl with O => acc | S m => nth_error cl m end.
Proof.
  intros cis T cl. induction cl as [|c r IH]; intros acc Hm; cbn [fold_left pre]; [reflexivity|].
  unfold le_T at 1. destruct (stamp cis c <=? T) eqn:E.
  - rewrite (IH (Some c) (mono_tail _ _ _ Hm)).
    destruct (pre (le_T cis T) r); reflexivity.
  - apply current_at_all_later. intros x Hx. apply In_nth_error in Hx. destruct Hx as [k Hk].
    pose proof (Hm 0%nat (S k) c x eq_refl Hk ltac:(lia)). apply Z.leb_gt in E. lia.
Qed.

Lemma current_at_pos : forall cis T cl,
  mono cis cl -> current_at cis cl T = at_pos cl (pre (le_T cis T) cl).
Proof. intros. unfold current_at, at_pos. rewrite current_at_fold_pos by assumption. reflexivity. Qed.

(* VersionBefore = the element just before the end of the < T prefix *)
Lemma version_before_from_pos : forall cis T cl latest,
  version_before_from cis cl T latest =
  match pre (lt_T cis T) cl with O => latest | S m => nth_error cl m end.
Proof.
  intros cis T cl. induction cl as [|c r IH]; intros latest; cbn [version_before_from pre]; [reflexivity|].
  unfold lt_T at 1. unfold stamp.
  destruct (time_threshold cis c 0 <? T) eqn:E; cbn [negb].
  - rewrite IH. fold (stamp cis c). destruct (pre (lt_T cis T) r); reflexivity.
  - reflexivity.
Qed.

Lemma version_before_pos : forall cis T cl,
  version_before cis cl T = at_pos cl (pre (lt_T cis T) cl).
Proof. intros. unfold version_before, at_pos. rewrite version_before_from_pos. reflexivity. Qed.

Lemma pre_lt_le : forall cis T cl, (pre (lt_T cis T) cl <= pre (le_T cis T) cl)%nat.
Proof.
  intros cis T cl. induction cl as [|c r IH]; cbn [pre]; [lia|].
  unfold lt_T at 1, le_T at 1.
  destruct (stamp cis c <? T) eqn:E1; destruct (stamp cis c <=? T) eqn:E2; try lia.
Qed.

Lemma last_map_some : forall (cl : list child),
  last (map Some cl) None = at_pos cl (length cl).
Proof.
  induction cl as [|c r IH]; [reflexivity|].
  cbn [map length at_pos]. destruct r as [|d r'].
  - reflexivity.
  - change (last (Some c :: map Some (d :: r')) None) with (last (map Some (d :: r')) None).
    rewrite IH. reflexivity.
Qed.

(* ------------------------------------------------------------------------- *)
(* the upper bound of the updates of one parent version, as a predicate on child versions:
   no bound for the last parent version; otherwise, with cn the version current (and visible) at
   the next parent version: the versions before cn, and cn itself only if it was committed
   strictly before the next parent; when the version current at the next parent is deleted (or
   there is none): the versions committed strictly before the next parent. *)
Definition bound_ok (cis : Z) (cl : list child) (np : option parent) (ck : child) : Prop :=
  match np with
  | None => True
  | Some n =>
      match visible_only (current_at cis cl (pstamp cis n)) with
      | Some cn => (c_vidx ck < c_vidx cn)%nat \/ (c_vidx ck = c_vidx cn /\ stamp cis cn < pstamp cis n)
      | None => stamp cis ck < pstamp cis n
      end
  end.

Definition np_commit (cis : Z) (np : option parent) : Prop :=
  match np with Some n => commit_parent cis n = true | None => True end.

Lemma commit_parent_threshold : forall cis n x,
  commit_parent cis n = true -> time_threshold_parent cis n x = p_committed n.
Proof.
  intros cis n x H. unfold commit_parent in H. apply Z.leb_le in H. unfold time_threshold_parent.
  assert (p_committed n <? cis = false) as -> by (apply Z.ltb_ge; lia). reflexivity.
Qed.

Lemma visible_only_some : forall c x, visible_only c = Some x -> c = Some x /\ c_visible x = true.
Proof.
  intros [c|] x H; cbn [visible_only] in H; [|discriminate].
  destruct (c_visible c) eqn:E; [|discriminate]. inversion H; subst. split; [reflexivity|exact E].
Qed.

Lemma at_pos_some : forall cl n c, at_pos cl n = Some c -> exists m, n = S m /\ nth_error cl m = Some c.
Proof. intros cl [|m] c H; [discriminate|]. exists m. split; [reflexivity|exact H]. Qed.

Lemma next_version_commit : forall cis o cl np s nv,
  vidx_ok cl -> stamps_monotone cis cl = true -> forallb (commit_child cis) cl = true ->
  cl <> [] -> np_commit cis np ->
  nth_error cl (c_vidx s) = Some s ->
  next_version_index cis (Some s) cl np o = Ok nv ->
  forall i ck, nth_error cl i = Some ck -> (c_vidx s < i)%nat ->
  ((i < nv)%nat <-> bound_ok cis cl np ck).
Proof.
  intros cis o cl np s nv Hv Hsm Hc Hne Hnp Hs Hnv i ck Hi Hsi.
  pose proof (stamps_monotone_mono _ _ Hsm) as Hm.
  pose proof (Hv _ _ Hi) as Hvi.
  unfold next_version_index in Hnv. unfold bound_ok. destruct np as [n|].
  - cbn [np_commit] in Hnp.
    rewrite (commit_parent_threshold cis n 0 Hnp) in Hnv.
    rewrite (commit_parent_threshold cis n (- o_threshold o) Hnp) in Hnv.
    unfold pstamp. rewrite (commit_parent_threshold cis n 0 Hnp).
    rewrite (find_visible_commit cis (p_changeset n) (p_committed n) (o_threshold o) cl Hc Hsm) in Hnv.
    destruct (visible_only (current_at cis cl (p_committed n))) as [cn|] eqn:Ecn.
    + destruct (visible_only_some _ _ Ecn) as [Hcur _].
      rewrite (current_at_pos cis _ cl Hm) in Hcur.
      destruct (at_pos_some _ _ _ Hcur) as [m [_ Hm']]. pose proof (Hv _ _ Hm') as Hvm.
      fold (stamp cis cn) in Hnv. destruct (stamp cis cn <? p_committed n) eqn:E; inversion Hnv; subst nv.
      * apply Z.ltb_lt in E. lia.
      * apply Z.ltb_ge in E. lia.
    + fold (stamp cis s) in Hnv.
      destruct (negb (p_committed n >? stamp cis s)) eqn:Ew.
      * inversion Hnv; subst nv. split; [lia|]. intros Hb. exfalso.
        pose proof (Hm (c_vidx s) i s ck Hs Hi ltac:(lia)). apply negb_true_iff in Ew. lia.
      * rewrite version_before_pos in Hnv.
        destruct (at_pos cl (pre (lt_T cis (p_committed n)) cl)) as [nx|] eqn:Enx.
        -- destruct (at_pos_some _ _ _ Enx) as [m [Em Hm']]. pose proof (Hv _ _ Hm') as Hvm.
           inversion Hnv; subst nv. rewrite Hvm. split.
           ++ intros Hlt. assert (i < pre (lt_T cis (p_committed n)) cl)%nat as Hlt' by (rewrite Em; lia).
              destruct (pre_lt (lt_T cis (p_committed n)) cl i Hlt') as [c' [Hc' Hp]].
              rewrite Hi in Hc'. inversion Hc'; subst c'. unfold lt_T in Hp. apply Z.ltb_lt in Hp. exact Hp.
           ++ intros Hb. destruct (Nat.lt_ge_cases i (S m)) as [Hlt|Hge]; [exact Hlt|]. exfalso.
              rewrite <- Em in Hge.
              pose proof (pre_ge _ cl i ck (lt_T_closed cis _ cl Hm) Hge Hi) as Hf.
              unfold lt_T in Hf. apply Z.ltb_ge in Hf. lia.
        -- inversion Hnv; subst nv. split; [lia|]. intros Hb. exfalso.
           assert (pre (lt_T cis (p_committed n)) cl = 0)%nat as E0.
           { destruct (pre (lt_T cis (p_committed n)) cl) as [|m] eqn:Ep; [reflexivity|].
             cbn [at_pos] in Enx.
             assert (m < pre (lt_T cis (p_committed n)) cl)%nat as Hlt by (rewrite Ep; lia).
             destruct (pre_lt _ cl m Hlt) as [c' [Hc' _]]. congruence. }
           assert (pre (lt_T cis (p_committed n)) cl <= i)%nat as Hle by (rewrite E0; lia).
           pose proof (pre_ge _ cl i ck (lt_T_closed cis _ cl Hm) Hle Hi) as Hf.
           unfold lt_T in Hf. apply Z.ltb_ge in Hf. lia.
  - rewrite last_map_some in Hnv.
    destruct (at_pos cl (length cl)) as [c|] eqn:E.
    + destruct (at_pos_some _ _ _ E) as [m [Em Hm']]. pose proof (Hv _ _ Hm') as Hvm.
      inversion Hnv; subst nv. assert (i < length cl)%nat by (apply nth_error_Some; congruence).
      split; [intros; exact I|intros; lia].
    + exfalso. destruct cl as [|c0 r]; [congruence|]. cbn [length at_pos] in E.
      apply nth_error_None in E. cbn [length] in E. lia.
Qed.

(* ------------------------------------------------------------------------- *)
(* one (child, parent) group in the commit-time regime *)

Lemma in_version_updates : forall cis locs ck u,
  In u (version_updates cis locs ck) <->
  c_visible ck = true /\ exists l, In l locs /\ u = child_update cis ck (snd l).
Proof.
  intros cis locs ck u. unfold version_updates. destruct (c_visible ck).
  - rewrite in_map_iff. split.
    + intros [l [H1 H2]]. split; [reflexivity|]. exists l. split; [exact H2|symmetry; exact H1].
    + intros [_ [l [H1 H2]]]. exists l. split; [symmetry; exact H2|exact H1].
  - split; [intros []|intros [H _]; discriminate].
Qed.

Lemma group_updates_exact : forall cis o fid cl par np locs s ups,
  vidx_ok cl -> stamps_monotone cis cl = true -> forallb (commit_child cis) cl = true ->
  cl <> [] -> commit_parent cis par = true -> np_commit cis np ->
  group_plan cis o fid cl par np locs = Ok (Some s, ups) ->
  visible_only (current_at cis cl (pstamp cis par)) = Some s /\
  nth_error cl (c_vidx s) = Some s /\
  forall u, In u ups <->
    exists ck l, In ck cl /\ c_visible ck = true /\ In l locs /\ u = child_update cis ck (snd l) /\
                 (c_vidx s < c_vidx ck)%nat /\ bound_ok cis cl np ck.
Proof.
  intros cis o fid cl par np locs s ups Hv Hsm Hc Hne Hcp Hnp H.
  pose proof (stamps_monotone_mono _ _ Hsm) as Hm.
  unfold group_plan in H. fold (pstamp cis par) in H.
  rewrite (find_visible_commit cis (p_changeset par) (pstamp cis par) (o_threshold o) cl Hc Hsm) in H.
  destruct (visible_only (current_at cis cl (pstamp cis par))) as [s0|] eqn:Es.
  2:{ destruct (o_ignore_incons o); [|discriminate].
      destruct (next_version_index cis None cl np o); [|discriminate].
      match type of H with context [updates_loop ?a ?b ?c ?d ?e ?f ?g ?h] =>
        destruct (updates_loop a b c d e f g h) end; inversion H. }
  destruct (next_version_index cis (Some s0) cl np o) as [nv|] eqn:Env; [|discriminate].
  destruct (updates_loop cis o fid cl locs (S (c_vidx s0)) (nv - S (c_vidx s0)) []) as [ups0|] eqn:Eu; [|discriminate].
  inversion H; subst s0 ups0. clear H.
  destruct (visible_only_some _ _ Es) as [Hcur _]. rewrite (current_at_pos cis _ cl Hm) in Hcur.
  destruct (at_pos_some _ _ _ Hcur) as [m [_ Hsm']]. pose proof (Hv _ _ Hsm') as Hvs.
  rewrite <- Hvs in Hsm'.
  split; [reflexivity|]. split; [exact Hsm'|].
  pose proof (updates_loop_exact _ _ _ _ _ _ _ _ _ Eu) as Hups. cbn [app] in Hups. subst ups.
  intros u. rewrite in_flat_map. split.
  - intros [ck [Hck Hu]]. apply in_version_updates in Hu. destruct Hu as [Hvis [l [Hl Eu']]].
    apply in_slice in Hck. destruct Hck as [i [H1 [H2 H3]]].
    pose proof (Hv _ _ H3) as Hvi.
    exists ck, l. split; [eapply nth_error_In; exact H3|]. split; [exact Hvis|]. split; [exact Hl|].
    split; [exact Eu'|]. split; [lia|].
    apply (next_version_commit cis o cl np s nv Hv Hsm Hc Hne Hnp Hsm' Env i ck H3); lia.
  - intros [ck [l [Hck [Hvis [Hl [Eu' [Hlt Hb]]]]]]].
    apply In_nth_error in Hck. destruct Hck as [i Hi]. pose proof (Hv _ _ Hi) as Hvi.
    exists ck. split.
    + apply in_slice. exists i. split; [lia|]. split; [|exact Hi].
      assert (i < nv)%nat by (apply (next_version_commit cis o cl np s nv Hv Hsm Hc Hne Hnp Hsm' Env i ck Hi); [lia|exact Hb]).
      lia.
    + apply in_version_updates. split; [exact Hvis|]. exists l. split; [exact Hl|exact Eu'].
Qed.

(* ------------------------------------------------------------------------- *)
(* every plan comes from one call of group_plan *)

Definition plan_src (cis : Z) (o : opts) (ps0 : list parent) (hist : Z -> hres) (pl : plan) : Prop :=
  exists fid cl par,
    hist fid = HFound cl /\ cl <> [] /\ nth_error ps0 (pl_pidx pl) = Some par /\ p_visible par = true /\
    group_plan cis o fid cl par (nth_error ps0 (S (pl_pidx pl))) (pl_locs pl) = Ok (pl_child pl, pl_ups pl) /\
    (forall l, In l (pl_locs pl) -> fst l = pl_pidx pl /\ loc_fid ps0 l = Some fid).

Lemma all_plans_src : forall cis o ps0 hist entries pls,
  entries_ok ps0 entries ->
  all_plans cis o ps0 hist entries = Ok pls ->
  forall pl, In pl pls -> plan_src cis o ps0 hist pl.
Proof.
  intros cis o ps0 hist entries pls He H pl Hpl. unfold all_plans in H.
  destruct (collect_ok _ _ _ _ _ H) as [Hpls Hall]. subst pls.
  apply in_flat_map in Hpl. destruct Hpl as [[fid locs] [Hent Hpl]].
  destruct (Hall _ Hent) as [x Hx]. unfold ok_or_nil in Hpl. rewrite Hx in Hpl.
  unfold child_plans in Hx. cbn [fst snd] in Hx.
  destruct (hist fid) as [[|c0 cl0]| |] eqn:Eh; [| | |discriminate].
  - destruct (o_ignore_missing o); [|discriminate]. inversion Hx; subst. destruct Hpl.
  - set (cl := c0 :: cl0) in *.
    destruct (collect_ok _ _ _ _ _ Hx) as [Hxs Hgall]. subst x.
    apply in_flat_map in Hpl. destruct Hpl as [g [Hg Hpl]].
    destruct (Hgall g Hg) as [y Hy]. unfold ok_or_nil in Hpl. rewrite Hy in Hpl.
    destruct (group_by_parent_ok _ _ Hg) as [l0 [rest [Eg Hgl]]]. subst g.
    unfold group_plans in Hy.
    destruct (nth_error ps0 (fst l0)) as [par|] eqn:Ep; [|discriminate].
    destruct (p_visible par) eqn:Ev; cbn [negb] in Hy; [|inversion Hy; subst; destruct Hpl].
    destruct (group_plan cis o fid cl par (nth_error ps0 (S (fst l0))) (l0 :: rest)) as [[c ups]|] eqn:Egp; [|discriminate].
    inversion Hy; subst y. destruct Hpl as [<-|[]]. cbn [pl_pidx pl_locs pl_child pl_ups].
    exists fid, cl, par. split; [exact Eh|]. split; [unfold cl; discriminate|]. split; [exact Ep|].
    split; [exact Ev|]. split; [exact Egp|].
    intros l Hl. destruct (Hgl l Hl) as [H1 H2]. split; [exact H1|]. eapply He; eassumption.
  - destruct (o_ignore_missing o); [|discriminate]. inversion Hx; subst. destruct Hpl.
Qed.

(* ------------------------------------------------------------------------- *)
(* updates_exact (commit-time regime) *)

Lemma updates_exact : forall cis o ps hist entries sortf ps' results p par j r cl s,
  valid_order o ps entries -> sort_spec less sortf ->
  compute_with cis o ps hist entries sortf = Ok (ps', results) ->
  nth_error ps p = Some par -> p_visible par = true ->
  commit_parent cis par = true -> np_commit cis (nth_error ps (S p)) ->
  nth_error (p_refs par) j = Some r -> filtered_out (o_filter o) r = false ->
  hist (r_id r) = HFound cl -> cl <> [] ->
  vidx_ok cl -> stamps_monotone cis cl = true -> forallb (commit_child cis) cl = true ->
  visible_only (current_at cis cl (pstamp cis par)) = Some s ->
  exists us,
    nth_error results p = Some us /\
    forall u, (In u us /\ u_index u = j) <->
      exists ck, In ck cl /\ c_visible ck = true /\ u = child_update cis ck j /\
                 (c_vidx s < c_vidx ck)%nat /\ bound_ok cis cl (nth_error ps (S p)) ck.
Proof.
  intros cis o ps hist entries sortf ps' results p par j r cl s Hv Hs Hc Hp Hvis Hcp Hnp Hj Hf Hh Hne Hvx Hsm Hcc Hsel.
  rewrite compute_with_plans in Hc.
  destruct (all_plans cis o ps hist entries) as [pls|] eqn:E; [|discriminate].
  cbv zeta in Hc. inversion Hc; subst ps' results. clear Hc.
  exists (sortf (flat_map (ups_for p) pls)). split.
  - rewrite nth_error_map, run_plans_snd_nth. cbn [snd]. rewrite nth_error_map, Hp. reflexivity.
  - pose proof (all_plans_src cis o ps hist entries pls (valid_order_ok o ps entries Hv) E) as Hsrc.
    destruct (Hs (flat_map (ups_for p) pls)) as [Hperm _].
    intros u. split.
    + intros [Hin Hidx].
      apply (Permutation_in _ (Permutation_sym Hperm)) in Hin.
      apply in_flat_map in Hin. destruct Hin as [pl [Hpl Hu]]. unfold ups_for in Hu.
      destruct (Nat.eqb (pl_pidx pl) p) eqn:Epp; [|destruct Hu]. apply Nat.eqb_eq in Epp.
      destruct (Hsrc pl Hpl) as [fid [cl' [par' [Hh' [Hne' [Hp' [Hvis' [Hgp Hlocs]]]]]]]].
      rewrite Epp, Hp in Hp'. inversion Hp'; subst par'. rewrite Epp in Hgp.
      (* the update belongs to a location of this plan; its index is j, so the child is r's *)
      assert (exists ck0 l0, In l0 (pl_locs pl) /\ u = child_update cis ck0 (snd l0)) as [ck0 [l0 [Hl0 Eu0]]].
      { unfold group_plan in Hgp.
        destruct (find_visible cis cl' (p_changeset par) (time_threshold_parent cis par 0) (o_threshold o)) as [c0|];
          [|destruct (o_ignore_incons o); [|discriminate]];
          (destruct (next_version_index cis _ cl' (nth_error ps (S p)) o); [|discriminate]);
          (match type of Hgp with context [updates_loop ?a ?b ?c ?d ?e ?f ?g ?h] =>
             destruct (updates_loop a b c d e f g h) as [ups0|] eqn:Eu end; [|discriminate]);
          inversion Hgp as [[Ec Eups]]; rewrite <- Eups in Hu;
          destruct (updates_loop_from _ _ _ _ _ _ _ _ _ Eu (fun u0 (H0 : In u0 []) => match H0 with end) u Hu)
            as [ck0 [l0 [_ [Hl0 Eu0]]]]; exists ck0, l0; split; assumption. }
      destruct (Hlocs l0 Hl0) as [Hfl Hfid].
      assert (l0 = (p, j)) as El0.
      { destruct l0 as [a b]. cbn [fst snd] in *. subst u. cbn [child_update u_index] in Hidx. congruence. }
      subst l0. unfold loc_fid in Hfid. cbn [fst snd] in Hfid. rewrite Hp, Hj in Hfid. cbn [option_map] in Hfid.
      inversion Hfid; subst fid. rewrite Hh in Hh'. inversion Hh'; subst cl'.
      (* the selected child of this plan is s *)
      assert (pl_child pl = Some s) as Ech.
      { unfold group_plan in Hgp. fold (pstamp cis par) in Hgp.
        rewrite (find_visible_commit cis (p_changeset par) (pstamp cis par) (o_threshold o) cl Hcc Hsm) in Hgp.
        rewrite Hsel in Hgp.
        destruct (next_version_index cis (Some s) cl (nth_error ps (S p)) o); [|discriminate].
        match type of Hgp with context [updates_loop ?a ?b ?c ?d ?e ?f ?g ?h] =>
          destruct (updates_loop a b c d e f g h) end; [|discriminate]. inversion Hgp. reflexivity. }
      rewrite Ech in Hgp.
      destruct (group_updates_exact cis o (r_id r) cl par (nth_error ps (S p)) (pl_locs pl) s (pl_ups pl)
                  Hvx Hsm Hcc Hne Hcp Hnp Hgp) as [_ [_ Hiff]].
      destruct (proj1 (Hiff u) Hu) as [ck [l [Hck [Hvck [Hl [Eu [Hlt Hb]]]]]]].
      exists ck. split; [exact Hck|]. split; [exact Hvck|]. split; [|split; [exact Hlt|exact Hb]].
      pose proof (f_equal u_index Eu) as Ei. cbn [child_update u_index] in Ei.
      rewrite Eu. f_equal. congruence.
    + intros [ck [Hck [Hvck [Eu [Hlt Hb]]]]].
      destruct (plan_exists cis o ps hist entries pls p par j r cl Hv E Hp Hvis Hj Hf Hh Hne)
        as [pl [Hpl [Epl [Hloc Hchild]]]].
      destruct (Hsrc pl Hpl) as [fid [cl' [par' [Hh' [Hne' [Hp' [Hvis' [Hgp Hlocs]]]]]]]].
      rewrite Epl, Hp in Hp'. inversion Hp'; subst par'. rewrite Epl in Hgp.
      destruct (Hlocs _ Hloc) as [_ Hfid]. unfold loc_fid in Hfid. cbn [fst snd] in Hfid.
      rewrite Hp, Hj in Hfid. cbn [option_map] in Hfid. inversion Hfid; subst fid.
      rewrite Hh in Hh'. inversion Hh'; subst cl'.
      fold (pstamp cis par) in Hchild.
      rewrite (find_visible_commit cis (p_changeset par) (pstamp cis par) (o_threshold o) cl Hcc Hsm), Hsel in Hchild.
      rewrite Hchild in Hgp.
      destruct (group_updates_exact cis o (r_id r) cl par (nth_error ps (S p)) (pl_locs pl) s (pl_ups pl)
                  Hvx Hsm Hcc Hne Hcp Hnp Hgp) as [_ [_ Hiff]].
      split; [|subst u; reflexivity].
      apply (Permutation_in _ Hperm). apply in_flat_map. exists pl. split; [exact Hpl|].
      unfold ups_for. rewrite Epl, Nat.eqb_refl. apply Hiff.
      exists ck, (p, j). split; [exact Hck|]. split; [exact Hvck|]. split; [exact Hloc|].
      split; [exact Eu|]. split; [exact Hlt|exact Hb].
Qed.

(* ------------------------------------------------------------------------- *)
(* without IgnoreInconsistency every version inside the bounds is visible *)

Lemma bound_ok_before : forall cis cl np i ck,
  vidx_ok cl -> mono cis cl -> nth_error cl i = Some ck ->
  match np with Some n => stamp cis ck < pstamp cis n | None => True end ->
  bound_ok cis cl np ck.
Proof.
  intros cis cl np i ck Hv Hm Hi Hlt. unfold bound_ok. destruct np as [n|]; [|exact I].
  destruct (visible_only (current_at cis cl (pstamp cis n))) as [cn|] eqn:Ecn; [|exact Hlt].
  destruct (visible_only_some _ _ Ecn) as [Hcn _]. rewrite (current_at_pos cis _ cl Hm) in Hcn.
  destruct (at_pos_some _ _ _ Hcn) as [mn [Emn Hmn]].
  pose proof (Hv _ _ Hmn) as Hvn. pose proof (Hv _ _ Hi) as Hvi.
  assert (i < pre (le_T cis (pstamp cis n)) cl)%nat as Hpos.
  { destruct (Nat.lt_ge_cases i (pre (le_T cis (pstamp cis n)) cl)) as [H|H]; [exact H|]. exfalso.
    pose proof (pre_ge _ cl i ck (le_T_closed cis _ cl Hm) H Hi) as Hf.
    unfold le_T in Hf. apply Z.leb_gt in Hf. lia. }
  destruct (Nat.eq_dec i mn) as [E|E].
  - right. rewrite <- E in Hmn. rewrite Hi in Hmn. inversion Hmn; subst cn. split; [reflexivity|exact Hlt].
  - left. lia.
Qed.

Lemma group_between_visible : forall cis o fid cl par np locs s ups,
  vidx_ok cl -> stamps_monotone cis cl = true -> forallb (commit_child cis) cl = true ->
  cl <> [] -> commit_parent cis par = true -> np_commit cis np ->
  o_ignore_incons o = false ->
  group_plan cis o fid cl par np locs = Ok (Some s, ups) ->
  forall ck, In ck cl -> (c_vidx s < c_vidx ck)%nat -> bound_ok cis cl np ck -> c_visible ck = true.
Proof.
  intros cis o fid cl par np locs s ups Hv Hsm Hc Hne Hcp Hnp Hig H ck Hck Hlt Hb.
  destruct (group_updates_exact cis o fid cl par np locs s ups Hv Hsm Hc Hne Hcp Hnp H) as [_ [Hspos _]].
  unfold group_plan in H. fold (pstamp cis par) in H.
  destruct (find_visible cis cl (p_changeset par) (pstamp cis par) (o_threshold o)) as [s0|] eqn:Es;
    [|rewrite Hig in H; discriminate].
  destruct (next_version_index cis (Some s0) cl np o) as [nv|] eqn:Env; [|discriminate].
  destruct (updates_loop cis o fid cl locs (S (c_vidx s0)) (nv - S (c_vidx s0)) []) as [ups0|] eqn:Eu; [|discriminate].
  inversion H; subst s0 ups0.
  apply In_nth_error in Hck. destruct Hck as [i Hi]. pose proof (Hv _ _ Hi) as Hvi.
  eapply (updates_loop_all_visible _ _ _ _ _ _ _ _ _ Hig Eu).
  apply in_slice. exists i. split; [lia|]. split; [|exact Hi].
  assert (i < nv)%nat by (apply (next_version_commit cis o cl np s nv Hv Hsm Hc Hne Hnp Hspos Env i ck Hi); [lia|exact Hb]).
  lia.
Qed.

Lemma between_visible : forall cis o ps hist entries sortf ps' results p par j r cl s,
  valid_order o ps entries ->
  compute_with cis o ps hist entries sortf = Ok (ps', results) ->
  nth_error ps p = Some par -> p_visible par = true ->
  commit_parent cis par = true -> np_commit cis (nth_error ps (S p)) ->
  nth_error (p_refs par) j = Some r -> filtered_out (o_filter o) r = false ->
  hist (r_id r) = HFound cl -> cl <> [] ->
  vidx_ok cl -> stamps_monotone cis cl = true -> forallb (commit_child cis) cl = true ->
  visible_only (current_at cis cl (pstamp cis par)) = Some s ->
  o_ignore_incons o = false ->
  forall ck, In ck cl -> (c_vidx s < c_vidx ck)%nat -> bound_ok cis cl (nth_error ps (S p)) ck ->
  c_visible ck = true.
Proof.
  intros cis o ps hist entries sortf ps' results p par j r cl s Hv Hc Hp Hvis Hcp Hnp Hj Hf Hh Hne Hvx Hsm Hcc Hsel Hig.
  rewrite compute_with_plans in Hc.
  destruct (all_plans cis o ps hist entries) as [pls|] eqn:E; [|discriminate]. clear Hc.
  pose proof (all_plans_src cis o ps hist entries pls (valid_order_ok o ps entries Hv) E) as Hsrc.
  destruct (plan_exists cis o ps hist entries pls p par j r cl Hv E Hp Hvis Hj Hf Hh Hne)
    as [pl [Hpl [Epl [Hloc Hchild]]]].
  destruct (Hsrc pl Hpl) as [fid [cl' [par' [Hh' [Hne' [Hp' [Hvis' [Hgp Hlocs]]]]]]]].
  rewrite Epl, Hp in Hp'. inversion Hp'; subst par'. rewrite Epl in Hgp.
  destruct (Hlocs _ Hloc) as [_ Hfid]. unfold loc_fid in Hfid. cbn [fst snd] in Hfid.
  rewrite Hp, Hj in Hfid. cbn [option_map] in Hfid. inversion Hfid; subst fid.
  rewrite Hh in Hh'. inversion Hh'; subst cl'.
  fold (pstamp cis par) in Hchild.
  rewrite (find_visible_commit cis (p_changeset par) (pstamp cis par) (o_threshold o) cl Hcc Hsm), Hsel in Hchild.
  rewrite Hchild in Hgp.
  exact (group_between_visible cis o (r_id r) cl par (nth_error ps (S p)) (pl_locs pl) s (pl_ups pl)
           Hvx Hsm Hcc Hne Hcp Hnp Hig Hgp).
Qed.
