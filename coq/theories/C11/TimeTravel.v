(* C11/TimeTravel.v — time travel in the commit-time regime: applying the updates of an annotated
   parent version up to t reproduces, at every reference, the child version current at t. *)
From Coq Require Import ZArith List Bool Lia Permutation Sorted Arith.
From Verif Require Import Annotate.Model Annotate.SortProofs Annotate.Plans Annotate.Determinism
  C11.Spec C11.Proofs C11.Exact.
Import ListNotations.
Open Scope Z_scope.

(* a successful ApplyUpdatesUpTo overwrites each reference by its applicable updates in list order *)
Lemma apply_from_ok_exact : forall is_rel t us refs na refs' pend,
  apply_updates_from is_rel t us refs na = ApplyOk refs' pend ->
  forall j r, nth_error refs j = Some r -> nth_error refs' j = Some (applied_ref is_rel t us j r).
Proof.
  intros is_rel t us. induction us as [|u rest IH]; intros refs na refs' pend H j r Hj; cbn [apply_updates_from] in H.
  - inversion H; subst. exact Hj.
  - unfold applied_ref. cbn [fold_left].
    destruct (u_timestamp u >? t) eqn:Et.
    + assert (applicable t j u = false) as -> by (unfold applicable; rewrite Et; reflexivity).
      apply (IH _ _ _ _ H j r Hj).
    + destruct (Nat.leb (length refs) (u_index u)); [discriminate|].
      assert (applicable t j u = Nat.eqb (u_index u) j) as -> by (unfold applicable; rewrite Et; reflexivity).
      apply (IH _ _ _ _ H j). rewrite nth_error_update_nth.
      destruct (Nat.eqb (u_index u) j); rewrite Hj; reflexivity.
Qed.

Lemma apply_ok_exact : forall is_rel t us refs refs' pend,
  apply_updates_up_to is_rel t refs us = ApplyOk refs' pend ->
  forall j r, nth_error refs j = Some r -> nth_error refs' j = Some (applied_ref is_rel t us j r).
Proof. intros. eapply apply_from_ok_exact; eassumption. Qed.

(* applied_sorted_max with key-functionality needed only among the applicable updates of index j *)
Lemma applied_sorted_max' : forall is_rel t j us,
  StronglySorted itv_le us ->
  (forall a b, In a us -> In b us -> applicable t j a = true -> applicable t j b = true ->
               ukey a = ukey b -> a = b) ->
  forall r u, In u us -> applicable t j u = true ->
  (forall u', In u' us -> applicable t j u' = true -> itv_le u' u) ->
  let r' := applied_ref is_rel t us j r in
  r_version r' = u_version u /\ r_changeset r' = u_changeset u /\ r_lat r' = u_lat u /\ r_lon r' = u_lon u.
Proof.
  intros is_rel t j us. induction us as [|u0 rest IH] using rev_ind; intros Hs Hk r u Hin Ha Hmax.
  - destruct Hin.
  - destruct (strongly_sorted_snoc _ _ Hs) as [Hs' Hle].
    destruct (applicable t j u0) eqn:E0.
    + assert (u0 = u) as ->.
      { apply in_app_or in Hin. destruct Hin as [Hin|[<-|[]]]; [|reflexivity].
        apply Hk; [apply in_or_app; right; left; reflexivity|apply in_or_app; left; exact Hin|exact E0|exact Ha|].
        apply itv_le_antisym_key; [|apply Hle; exact Hin].
        apply Hmax; [apply in_or_app; right; left; reflexivity|exact E0]. }
      eapply applied_ref_last; [reflexivity|exact E0].
    + cbv zeta. rewrite applied_ref_skip by exact E0.
      apply in_app_or in Hin. destruct Hin as [Hin|[<-|[]]]; [|congruence].
      apply IH; try assumption.
      * intros a b Ha' Hb'. apply Hk; apply in_or_app; left; assumption.
      * intros u' Hu' Hau'. apply Hmax; [apply in_or_app; left; exact Hu'|exact Hau'].
Qed.

(* ------------------------------------------------------------------------- *)

Definition versions_mono (cl : list child) : Prop :=
  forall i k a b, nth_error cl i = Some a -> nth_error cl k = Some b -> (i <= k)%nat ->
  c_version a <= c_version b.

Definition ref_carries (r : ref) (c : child) : Prop :=
  r_version r = c_version c /\ r_changeset r = c_changeset c /\ r_lat r = c_lat c /\ r_lon r = c_lon c.

Lemma pos_lt_pre : forall cis T cl i c,
  mono cis cl -> nth_error cl i = Some c -> stamp cis c <= T -> (i < pre (le_T cis T) cl)%nat.
Proof.
  intros cis T cl i c Hm Hi Hle.
  destruct (Nat.lt_ge_cases i (pre (le_T cis T) cl)) as [H|H]; [exact H|]. exfalso.
  pose proof (pre_ge _ cl i c (le_T_closed cis T cl Hm) H Hi) as Hf.
  unfold le_T in Hf. apply Z.leb_gt in Hf. lia.
Qed.

Lemma pos_ge_pre : forall cis T cl i c,
  mono cis cl -> nth_error cl i = Some c -> (pre (le_T cis T) cl <= i)%nat -> T < stamp cis c.
Proof.
  intros cis T cl i c Hm Hi Hge.
  pose proof (pre_ge _ cl i c (le_T_closed cis T cl Hm) Hge Hi) as Hf.
  unfold le_T in Hf. apply Z.leb_gt in Hf. exact Hf.
Qed.

Lemma child_update_stamp : forall cis ck j,
  stamp_consistent cis ck = true -> u_timestamp (child_update cis ck j) = stamp cis ck.
Proof. intros cis ck j H. unfold stamp_consistent in H. apply Z.eqb_eq in H. exact H. Qed.

Section TimeTravel.
Variables (cis : Z) (o : opts) (ps : list parent) (hist : Z -> hres).
Variables (entries : list (Z * list loc)) (sortf : list update -> list update).
Variables (ps' : list parent) (results : list (list update)).
Variables (p : nat) (par : parent) (j : nat) (r : ref) (cl : list child) (s : child).

Hypothesis Hhist : hist_ok hist.
Hypothesis Hv : valid_order o ps entries.
Hypothesis Hs : sort_spec less sortf.
Hypothesis Hc : compute_with cis o ps hist entries sortf = Ok (ps', results).
Hypothesis Hp : nth_error ps p = Some par.
Hypothesis Hvis : p_visible par = true.
Hypothesis Hcp : commit_parent cis par = true.
Hypothesis Hnp : np_commit cis (nth_error ps (S p)).
Hypothesis Hj : nth_error (p_refs par) j = Some r.
Hypothesis Hf : filtered_out (o_filter o) r = false.
Hypothesis Hh : hist (r_id r) = HFound cl.
Hypothesis Hne : cl <> [].
Hypothesis Hvx : vidx_ok cl.
Hypothesis Hsm : stamps_monotone cis cl = true.
Hypothesis Hcc : forallb (commit_child cis) cl = true.
Hypothesis Hvm : versions_mono cl.
Hypothesis Hsc : forall ck, In ck cl -> stamp_consistent cis ck = true.
Hypothesis Hsel : visible_only (current_at cis cl (pstamp cis par)) = Some s.

(* the window: from the commit of this parent version to just before the commit of the next *)
Definition in_window_commit (t : Z) : Prop :=
  pstamp cis par <= t /\
  match nth_error ps (S p) with Some n => t < pstamp cis n | None => True end.

Lemma time_travel : forall is_rel t par' us refs' pend,
  in_window_commit t ->
  (forall e, current_at cis cl t = Some e -> (c_vidx s < c_vidx e)%nat -> c_visible e = true) ->
  nth_error ps' p = Some par' -> nth_error results p = Some us ->
  apply_updates_up_to is_rel t (p_refs par') us = ApplyOk refs' pend ->
  exists e r', current_at cis cl t = Some e /\ nth_error refs' j = Some r' /\ ref_carries r' e.
Proof.
  intros is_rel t par' us refs' pend [Hlo Hhi] Hbetween Hpar' Hus Happ.
  pose proof (stamps_monotone_mono _ _ Hsm) as Hm.
  (* the annotated reference *)
  destruct (annotate_child_current cis o ps hist entries sortf ps' results p par j r cl
              Hv Hc Hp Hvis Hj Hf Hh Hne Hcc Hsm) as [par'' [r0 [H1 [H2 H3]]]].
  rewrite Hpar' in H1. inversion H1; subst par''. rewrite Hsel in H3. subst r0.
  (* the updates *)
  destruct (updates_exact cis o ps hist entries sortf ps' results p par j r cl s
              Hv Hs Hc Hp Hvis Hcp Hnp Hj Hf Hh Hne Hvx Hsm Hcc Hsel) as [us' [Hus' Hmem]].
  rewrite Hus in Hus'. inversion Hus'; subst us'. clear Hus'.
  pose proof (apply_ok_exact _ _ _ _ _ _ Happ j _ H2) as Href.
  assert (StronglySorted itv_le us) as Hsorted.
  { eapply (updates_sorted_index_time_version cis o ps hist entries sortf ps' results Hs Hc).
    eapply nth_error_In. exact Hus. }
  (* position of s and of the version current at t *)
  destruct (visible_only_some _ _ Hsel) as [Hcur_s Hvis_s].
  rewrite (current_at_pos cis _ cl Hm) in Hcur_s.
  destruct (at_pos_some _ _ _ Hcur_s) as [ms [Ems Hms]]. pose proof (Hvx _ _ Hms) as Hvs.
  assert (stamp cis s <= pstamp cis par) as Hs_le.
  { assert (ms < pre (le_T cis (pstamp cis par)) cl)%nat as Hlt by lia.
    destruct (pre_lt _ cl ms Hlt) as [c' [Hc' Hp']]. rewrite Hms in Hc'. inversion Hc'; subst c'.
    unfold le_T in Hp'. apply Z.leb_le in Hp'. exact Hp'. }
  pose proof (pos_lt_pre cis t cl ms s Hm Hms ltac:(lia)) as Hms_lt.
  rewrite (current_at_pos cis t cl Hm).
  destruct (pre (le_T cis t) cl) as [|m] eqn:Epre; [lia|]. cbn [at_pos].
  assert (m < pre (le_T cis t) cl)%nat as Hm_lt by (rewrite Epre; lia).
  destruct (pre_lt _ cl m Hm_lt) as [e [He Hpe]]. unfold le_T in Hpe. apply Z.leb_le in Hpe.
  pose proof (Hvx _ _ He) as Hve.
  exists e, (applied_ref is_rel t us j (set_ref s r)). split; [exact He|]. split; [exact Href|].
  (* every update of index j is a later visible version *)
  assert (forall u, In u us -> applicable t j u = true ->
            exists ck i, nth_error cl i = Some ck /\ u = child_update cis ck j /\ (ms < i)%nat /\ (i <= m)%nat) as Happl.
  { intros u Hu Ha. unfold applicable in Ha. apply andb_true_iff in Ha. destruct Ha as [Ha1 Ha2].
    apply Nat.eqb_eq in Ha2.
    destruct (proj1 (Hmem u) (conj Hu Ha2)) as [ck [Hck [Hvck [Eu [Hlt _]]]]].
    apply In_nth_error in Hck. destruct Hck as [i Hi]. pose proof (Hvx _ _ Hi) as Hvi.
    exists ck, i. split; [exact Hi|]. split; [exact Eu|]. split; [lia|].
    assert (stamp cis ck <= t) as Hst.
    { subst u. rewrite child_update_stamp in Ha1 by (apply Hsc; eapply nth_error_In; exact Hi).
      apply negb_true_iff in Ha1. lia. }
    pose proof (pos_lt_pre cis t cl i ck Hm Hi Hst). lia. }
  destruct (Nat.eq_dec m ms) as [Eq|Hneq].
  - (* nothing newer up to t: no update applies *)
    rewrite Eq in He. rewrite Hms in He. inversion He; subst e.
    rewrite applied_none.
    + unfold ref_carries. cbn. repeat split; reflexivity.
    + intros u Hu. destruct (applicable t j u) eqn:Ea; [|reflexivity]. exfalso.
      destruct (Happl u Hu Ea) as [ck [i [_ [_ [H4 H5]]]]]. lia.
  - (* the version current at t is later than the selected one: its update is the greatest applicable *)
    assert (ms < m)%nat as Hlt by lia.
    set (ue := child_update cis e j).
    assert (In ue us /\ u_index ue = j) as [Hue _].
    { apply (proj2 (Hmem ue)). exists e. split; [eapply nth_error_In; exact He|].
      split; [apply (Hbetween e); [rewrite (current_at_pos cis t cl Hm), Epre; exact He|lia]|].
      split; [reflexivity|]. split; [lia|].
      unfold bound_ok. destruct (nth_error ps (S p)) as [n|] eqn:En; [|exact I].
      destruct (visible_only (current_at cis cl (pstamp cis n))) as [cn|] eqn:Ecn; [|lia].
      destruct (visible_only_some _ _ Ecn) as [Hcn _]. rewrite (current_at_pos cis _ cl Hm) in Hcn.
      destruct (at_pos_some _ _ _ Hcn) as [mn [Emn Hmn]]. pose proof (Hvx _ _ Hmn) as Hvn.
      pose proof (pos_lt_pre cis (pstamp cis n) cl m e Hm He ltac:(lia)) as Hmlt.
      destruct (Nat.eq_dec m mn) as [Emm|Hmm].
      - right. rewrite <- Emm in Hmn. rewrite He in Hmn. inversion Hmn; subst cn. split; [reflexivity|lia].
      - left. lia. }
    assert (applicable t j ue = true) as Haue.
    { unfold applicable. apply andb_true_iff. split; [|apply Nat.eqb_refl].
      unfold ue. rewrite child_update_stamp by (apply Hsc; eapply nth_error_In; exact He).
      apply negb_true_iff. lia. }
    assert (forall u', In u' us -> applicable t j u' = true -> itv_le u' ue) as Hmax.
    { intros u' Hu' Ha'. destruct (Happl u' Hu' Ha') as [ck [i [Hi [Eu' [H4 H5]]]]]. subst u'.
      unfold itv_le, ukey, ue. cbn [child_update u_index u_timestamp u_version].
      fold (child_update cis ck j). fold (child_update cis e j).
      change (update_timestamp cis (c_timestamp ck) (c_committed ck)) with (u_timestamp (child_update cis ck j)).
      change (update_timestamp cis (c_timestamp e) (c_committed e)) with (u_timestamp (child_update cis e j)).
      rewrite !child_update_stamp by (apply Hsc; eapply nth_error_In; eassumption).
      pose proof (Hm i m ck e Hi He H5). pose proof (Hvm i m ck e Hi He H5). right. split; [reflexivity|lia]. }
    assert (forall a b, In a us -> In b us -> applicable t j a = true -> applicable t j b = true ->
                        ukey a = ukey b -> a = b) as Hkf.
    { intros a b Ha Hb Haa Hab Hkey.
      destruct (Happl a Ha Haa) as [ca [ia [Hia [Ea _]]]]. destruct (Happl b Hb Hab) as [cb [ib [Hib [Eb _]]]].
      subst a b. apply child_update_key in Hkey. destruct Hkey as [_ Hver].
      rewrite (Hhist _ _ Hh ca cb (nth_error_In _ _ Hia) (nth_error_In _ _ Hib) Hver). reflexivity. }
    destruct (applied_sorted_max' is_rel t j us Hsorted Hkf (set_ref s r) ue Hue Haue Hmax) as [E1 [E2 [E3 E4]]].
    unfold ref_carries. rewrite E1, E2, E3, E4. unfold ue. cbn. repeat split; reflexivity.
Qed.

(* without IgnoreInconsistency the visibility side condition is automatic *)
Lemma time_travel_strict : forall is_rel t par' us refs' pend,
  o_ignore_incons o = false ->
  in_window_commit t ->
  nth_error ps' p = Some par' -> nth_error results p = Some us ->
  apply_updates_up_to is_rel t (p_refs par') us = ApplyOk refs' pend ->
  exists e r', current_at cis cl t = Some e /\ nth_error refs' j = Some r' /\ ref_carries r' e.
Proof.
  intros is_rel t par' us refs' pend Hig Hw Hpar' Hus Happ.
  apply (time_travel is_rel t par' us refs' pend Hw); try assumption.
  intros e He Hlt.
  pose proof (stamps_monotone_mono _ _ Hsm) as Hm.
  rewrite (current_at_pos cis t cl Hm) in He.
  destruct (at_pos_some _ _ _ He) as [m [Em Hem]].
  assert (m < pre (le_T cis t) cl)%nat as Hmlt by (rewrite Em; lia).
  destruct (pre_lt _ cl m Hmlt) as [e' [He' Hpe]]. rewrite Hem in He'. inversion He'; subst e'.
  unfold le_T in Hpe. apply Z.leb_le in Hpe.
  apply (between_visible cis o ps hist entries sortf ps' results p par j r cl s
           Hv Hc Hp Hvis Hcp Hnp Hj Hf Hh Hne Hvx Hsm Hcc Hsel Hig e (nth_error_In _ _ Hem) Hlt).
  apply (bound_ok_before cis cl (nth_error ps (S p)) m e Hvx Hm Hem).
  destruct Hw as [_ Hhi]. destruct (nth_error ps (S p)) as [n|]; [lia|exact I].
Qed.

End TimeTravel.

(* ------------------------------------------------------------------------- *)
(* the wrapper datasources produce histories with the assumed shape *)

Lemma number_from_nth : forall fid l i k c,
  nth_error (number_from fid i l) k = Some c -> c_vidx c = (i + k)%nat.
Proof.
  intros fid l. induction l as [|h r IH]; intros i k c H; cbn [number_from] in H.
  - destruct k; discriminate.
  - destruct k as [|k].
    + inversion H; subst. cbn [c_vidx]. lia.
    + cbn [nth_error] in H. rewrite (IH (S i) k c H). lia.
Qed.

Lemma to_child_list_vidx_ok : forall fid l, vidx_ok (to_child_list fid l).
Proof. intros fid l i c H. unfold to_child_list in H. rewrite (number_from_nth _ _ _ _ _ H). lia. Qed.

Lemma number_from_version : forall fid l i k c,
  nth_error (number_from fid i l) k = Some c ->
  exists h, nth_error l k = Some h /\ c_version c = h_version h.
Proof.
  intros fid l. induction l as [|h r IH]; intros i k c H; cbn [number_from] in H.
  - destruct k; discriminate.
  - destruct k as [|k].
    + inversion H; subst. exists h. split; reflexivity.
    + cbn [nth_error] in H. apply (IH (S i) k c H).
Qed.

Lemma sorted_versions_nth : forall (l : list hver),
  Sorted (ge_rel (fun a b => h_version a <? h_version b)) l ->
  forall i k a b, nth_error l i = Some a -> nth_error l k = Some b -> (i <= k)%nat ->
  h_version a <= h_version b.
Proof.
  intros l Hs. apply Sorted_StronglySorted in Hs.
  2:{ intros x y z Hxy Hyz. unfold ge_rel in *. apply Z.ltb_ge in Hxy, Hyz. apply Z.ltb_ge. lia. }
  induction Hs as [|x l Hs IH Hall]; intros i k a b Ha Hb Hik.
  - destruct i; discriminate.
  - destruct i as [|i]; destruct k as [|k]; try lia.
    + inversion Ha; inversion Hb; subst. lia.
    + inversion Ha; subst. cbn [nth_error] in Hb. apply nth_error_In in Hb.
      rewrite Forall_forall in Hall. specialize (Hall b Hb). unfold ge_rel in Hall. apply Z.ltb_ge in Hall. exact Hall.
    + cbn [nth_error] in Ha, Hb. apply (IH i k); [exact Ha|exact Hb|lia].
Qed.

Lemma to_child_list_versions_mono : forall fid l, versions_mono (to_child_list fid l).
Proof.
  intros fid l i k a b Ha Hb Hik. unfold to_child_list in *.
  destruct (number_from_version _ _ _ _ _ Ha) as [ha [Hha Ea]].
  destruct (number_from_version _ _ _ _ _ Hb) as [hb [Hhb Eb]].
  rewrite Ea, Eb. eapply sorted_versions_nth; [|exact Hha|exact Hhb|exact Hik].
  apply isort_sorted. intros x y H. apply Z.ltb_lt in H. apply Z.ltb_ge. lia.
Qed.

(* ------------------------------------------------------------------------- *)
(* ApplyUpdatesUpTo never reports an index error on the result of an annotation *)

Lemma writes_length : forall ws ps p par,
  nth_error ps p = Some par ->
  exists par', nth_error (fold_left apply_write ws ps) p = Some par' /\
               length (p_refs par') = length (p_refs par).
Proof.
  induction ws as [|[[p' j'] c'] ws IH]; intros ps p par Hp; cbn [fold_left].
  - exists par. split; [exact Hp|reflexivity].
  - unfold apply_write at 2.
    assert (exists par1, nth_error (update_nth p' (set_child j' c') ps) p = Some par1 /\
                         length (p_refs par1) = length (p_refs par)) as [par1 [H1 H2]].
    { rewrite nth_error_update_nth. destruct (Nat.eqb p' p).
      - rewrite Hp. cbn [option_map]. eexists. split; [reflexivity|].
        destruct c' as [c|]; cbn [set_child p_refs]; [apply update_nth_length|reflexivity].
      - exists par. split; [exact Hp|reflexivity]. }
    destruct (IH _ p par1 H1) as [par' [H3 H4]]. exists par'. split; [exact H3|lia].
Qed.

Lemma apply_annotated_ok : forall cis o ps hist entries sortf ps' results p par par' us is_rel t,
  valid_order o ps entries -> sort_spec less sortf ->
  compute_with cis o ps hist entries sortf = Ok (ps', results) ->
  nth_error ps p = Some par -> nth_error ps' p = Some par' -> nth_error results p = Some us ->
  exists refs',
    apply_updates_up_to is_rel t (p_refs par') us = ApplyOk refs' (filter (fun u => u_timestamp u >? t) us) /\
    length refs' = length (p_refs par).
Proof.
  intros cis o ps hist entries sortf ps' results p par par' us is_rel t Hv Hs Hc Hp Hp' Hus.
  rewrite compute_with_plans in Hc.
  destruct (all_plans cis o ps hist entries) as [pls|] eqn:E; [|discriminate].
  cbv zeta in Hc. inversion Hc; subst ps' results. clear Hc.
  rewrite run_plans_fst in Hp'. cbn [fst] in Hp'.
  destruct (writes_length (flat_map plan_writes pls) ps p par Hp) as [par1 [H1 H2]].
  rewrite Hp' in H1. inversion H1; subst par1.
  rewrite nth_error_map, run_plans_snd_nth in Hus. cbn [snd] in Hus. rewrite nth_error_map, Hp in Hus.
  cbn [option_map app] in Hus. inversion Hus; subst us. clear Hus.
  pose proof (all_plans_ok cis o ps hist entries pls (valid_order_ok o ps entries Hv) E) as Hok.
  destruct (apply_exact is_rel t (sortf (flat_map (ups_for p) pls)) (p_refs par')) as [refs' [Ha [Hl _]]].
  - intros u Hu _. destruct (Hs (flat_map (ups_for p) pls)) as [Hperm _].
    apply (Permutation_in _ (Permutation_sym Hperm)) in Hu.
    apply in_flat_map in Hu. destruct Hu as [pl [Hpl Hu]]. unfold ups_for in Hu.
    destruct (Nat.eqb (pl_pidx pl) p) eqn:Epp; [|destruct Hu]. apply Nat.eqb_eq in Epp.
    destruct (Hok pl Hpl) as [fid [cl [par0 [_ [Hp0 [_ [Hlocs Hups]]]]]]].
    destruct (Hups u Hu) as [ck [l [_ [Hl' Eu]]]]. subst u. cbn [child_update u_index].
    destruct (Hlocs l Hl') as [Hfl Hfid]. unfold loc_fid in Hfid. rewrite Hfl, Epp, Hp in Hfid.
    rewrite H2. apply nth_error_Some. destruct (nth_error (p_refs par) (snd l)); [discriminate|discriminate Hfid].
  - exists refs'. split; [exact Ha|lia].
Qed.
