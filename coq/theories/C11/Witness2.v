(* C11/Witness2.v — a commit-regime witness with several parent versions: a repeated child, a child
   version committed in the same instant as the next parent version, a deleted parent version, and
   a second child used with a ChildFilter.  Definitions only (Examples are in Properties/C11.v). *)
From Coq Require Import ZArith List Bool.
From Verif Require Import Annotate.Model.
Import ListNotations.
Open Scope Z_scope.

Definition t_cis : Z := 1347442203000000000.
Definition t_t (h : Z) : Z := t_cis + 86400000000000 + h * 3600000000000.

(* node 100: v1 before everything, v2 between P1 and P2, v3 in the same instant as P2, v4 after P2,
   v5 after the deleted P3, v6 after P4 *)
Definition t_versions100 : list hver :=
  [ mkHver 1 11 (t_t 0) (t_t 0) 1 0 false true;
    mkHver 2 12 (t_t 2) (t_t 2) 2 0 false true;
    mkHver 3 13 (t_t 5) (t_t 5) 3 0 false true;
    mkHver 4 14 (t_t 6) (t_t 6) 4 0 false true;
    mkHver 5 15 (t_t 8) (t_t 8) 5 0 false true;
    mkHver 6 16 (t_t 10) (t_t 10) 6 0 false true ].
Definition t_versions101 : list hver :=
  [ mkHver 1 21 (t_t 0) (t_t 0) 7 7 false true;
    mkHver 2 22 (t_t 3) (t_t 3) 8 8 false true ].
Definition t_cl100 := to_child_list 100 t_versions100.
Definition t_cl101 := to_child_list 101 t_versions101.
Definition t_hist (fid : Z) : hres :=
  if fid =? 100 then HFound t_cl100 else if fid =? 101 then HFound t_cl101 else HNotFound.

(* P1 references node 100 twice and node 101; P2; P3 is a deleted version; P4 *)
Definition t_parents : list parent :=
  [ mkParent 31 true  (t_t 1) (t_t 1) [mkRef 100 0 0 0 0 0; mkRef 100 0 0 0 0 0; mkRef 101 0 0 0 0 0];
    mkParent 32 true  (t_t 5) (t_t 5) [mkRef 100 0 0 0 0 0];
    mkParent 33 false (t_t 7) (t_t 7) [mkRef 100 0 0 0 0 0];
    mkParent 34 true  (t_t 9) (t_t 9) [mkRef 100 0 0 0 0 0] ].
Definition t_opts : opts := mkOpts 1800000000000 false false None.
Definition t_entries := map_child_locs t_parents None.

(* the same parents, node 101 already annotated (version 1) and rejected by the filter *)
Definition t_filter (fid : Z) : bool := fid =? 100.
Definition t_parents_f : list parent :=
  [ mkParent 31 true  (t_t 1) (t_t 1) [mkRef 100 0 0 0 0 0; mkRef 100 0 0 0 0 0; mkRef 101 1 21 7 7 0];
    mkParent 32 true  (t_t 5) (t_t 5) [mkRef 100 0 0 0 0 0] ].
Definition t_opts_f : opts := mkOpts 1800000000000 false false (Some t_filter).
Definition t_entries_f := map_child_locs t_parents_f (Some t_filter).

(* delete -> undelete between parent versions, IgnoreInconsistency on: v1 visible before the way,
   v2 deleted and v3 visible after it *)
Definition u_versions : list hver :=
  [ mkHver 1 11 (t_t 0) (t_t 0) 1 0 false true;
    mkHver 2 12 (t_t 2) (t_t 2) 0 0 false false;
    mkHver 3 13 (t_t 3) (t_t 3) 3 0 false true ].
Definition u_cl := to_child_list 100 u_versions.
Definition u_hist (fid : Z) : hres := if fid =? 100 then HFound u_cl else HNotFound.
Definition u_parents : list parent := [ mkParent 31 true (t_t 1) (t_t 1) [mkRef 100 0 0 0 0 0] ].
Definition u_opts : opts := mkOpts 1800000000000 true false None.
Definition u_entries := map_child_locs u_parents None.
