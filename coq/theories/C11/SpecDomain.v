(* C11/SpecDomain.v — the domain of find_visible_spec as a boolean predicate, and a witness that
   the statement fails outside it (a deleted version inside the threshold window). *)
From Coq Require Import ZArith List Bool Lia Arith.
From Verif Require Import Annotate.Model C11.Spec C11.Proofs C11.Exact C11.TimeTravel C11.Generic C11.FindVisibleSpec.
Import ListNotations.
Open Scope Z_scope.

(* no deleted version stamped inside [at - eps, at + eps] *)
Definition window_visibleb (cis at_ eps : Z) (cl : list child) : bool :=
  forallb (fun c => negb ((at_ - eps <=? stamp cis c) && (stamp cis c <=? at_ + eps)) || c_visible c) cl.

Lemma window_visibleb_ok : forall cis at_ eps cl,
  window_visibleb cis at_ eps cl = true ->
  forall c, In c cl -> in_win cis at_ eps c -> c_visible c = true.
Proof.
  intros cis at_ eps cl H c Hc [H1 H2]. unfold window_visibleb in H. rewrite forallb_forall in H.
  specialize (H c Hc). apply orb_true_iff in H. destruct H as [H|H]; [|exact H].
  apply negb_true_iff, andb_false_iff in H. destruct H as [H|H]; lia.
Qed.

Lemma find_visible_spec_on_domain : forall cis cid at_ eps cl,
  (0 <=? eps) && stamps_monotone cis cl && forallb (ts_child cis) cl && window_visibleb cis at_ eps cl = true ->
  find_visible_spec cis cid at_ eps cl (find_visible cis cl cid at_ eps).
Proof.
  intros cis cid at_ eps cl H.
  apply andb_true_iff in H. destruct H as [H H4]. apply andb_true_iff in H. destruct H as [H H3].
  apply andb_true_iff in H. destruct H as [H1 H2].
  apply find_visible_meets_spec.
  - lia.
  - apply stamps_monotone_mono. exact H2.
  - exact H3.
  - apply window_visibleb_ok. exact H4.
Qed.

(* outside the domain: v1 visible two hours before the way, v2 DELETED ten minutes before it
   (inside the 30-minute window), v3 visible twenty minutes after it in the way's changeset.
   The only candidate is v3, but FindVisible returns v1: the deleted v2 set the distance to beat to
   ten minutes without resetting the choice. *)
Definition d_cis : Z := 1347442203000000000.
Definition d_t (s : Z) : Z := d_cis - 100 * 86400000000000 + s * 1000000000.
Definition d_cl : list child := to_child_list 100
  [ mkHver 1 3 (d_t (-7200)) zero_time 1 0 false true;
    mkHver 2 5 (d_t (-600)) zero_time 2 0 false false;
    mkHver 3 7 (d_t 1200) zero_time 3 0 false true ].
Definition d_eps : Z := 1800000000000.

Lemma find_visible_spec_refuted_outside_domain :
  (0 <=? d_eps) && stamps_monotone d_cis d_cl && forallb (ts_child d_cis) d_cl = true /\
  window_visibleb d_cis (d_t 0) d_eps d_cl = false /\
  option_map c_version (find_visible d_cis d_cl 7 (d_t 0) d_eps) = Some 1 /\
  ~ find_visible_spec d_cis 7 (d_t 0) d_eps d_cl (find_visible d_cis d_cl 7 (d_t 0) d_eps).
Proof.
  split; [vm_compute; reflexivity|]. split; [vm_compute; reflexivity|]. split; [vm_compute; reflexivity|].
  intros [[x [ix [Hx [_ [[[Hlo _] _] _]]]]]|[Hno _]].
  - (* the result is v1, which is not inside the window *)
    assert (find_visible d_cis d_cl 7 (d_t 0) d_eps = nth_error d_cl 0) as E by (vm_compute; reflexivity).
    rewrite E in Hx. cbn [nth_error d_cl] in Hx. vm_compute in Hx. inversion Hx; subst x.
    vm_compute in Hlo. apply Hlo. reflexivity.
  - (* v3 is a candidate *)
    assert (exists c, nth_error d_cl 2 = Some c) as [c Hc] by (eexists; vm_compute; reflexivity).
    apply (Hno c (nth_error_In _ _ Hc)).
    vm_compute in Hc. inversion Hc; subst c. unfold cand, in_win. vm_compute.
    repeat split; try discriminate. right. reflexivity.
Qed.
