(* C19/Check.v — correspondence + property oracle for one harness case (executable only).

   Case layouts (first value = tag; see harness/cmd/c19/main.go):
   1 SEARCH : kind base n (opt ts)*n curOK tsec tnano | errclass seq ts trace
   2 PATH   : kind n | statePath dataPath
   3 DECODE : kind cur n fileseq ts | ok seq ts
   5 FAULT  : kind mode n cut len | outcome
   4 DECODEB: kind cur n body wf iseq (7 time fields) | outcome seq (7 time fields) txnMax txnMaxQueried
   codes: 1 = model <> implementation, 2 = property oracle fails on the observation,
          0 = case does not parse. *)
From Coq Require Import ZArith List String Ascii Bool.
From Verif Require Import Base.Wire C19.Model C19.Urls C19.Decode C19.DecodeGen.
Import ListNotations.
Open Scope Z_scope.
Open Scope wire_scope.

Definition dir_of (base : Z) (stamps : list (option Z)) : Z -> option Z :=
  fun k => if (base <=? k) && (k <? base + Z.of_nat (List.length stamps))
           then nth (Z.to_nat (k - base)) stamps None else None.

Definition state_eqb (a b : state) : bool := (fst a =? fst b) && (snd a =? snd b).

Definition check_search : P (list Z) :=
  kind <- pint ;; base <- pint ;; stamps <- plist (popt pint) ;; curok <- pbool ;;
  tsec <- pint ;; tnano <- pint ;;
  let t := tsec * 1000000000 + tnano in   (* the query time may lie outside int64 nanoseconds *)
  errclass <- pint ;; seq <- pint ;; ts <- pint ;; trace <- plist pint ;;
  match last stamps None with
  | None => pfail
  | Some last_ts =>
      let st := dir_of base stamps in
      let min := kind_min kind in
      let curs := (base + Z.of_nat (List.length stamps) - 1, last_ts) in
      let cur := if curok then Some curs else None in
      let m := search (enough_fuel min curs) st min cur t in
      let j1 :=
        match m with
        | Some (Found s, tr) => (errclass =? 0) && state_eqb s (seq, ts) && list_eqb Z.eqb tr trace
        | Some (ErrNotFound, tr) => (errclass =? 1) && list_eqb Z.eqb tr trace
        | None => false
        end in
      (* the property, evaluated on what the implementation returned and asked for *)
      (* the generated directory must lie in the theorems' domain: min <= cur, stamps non-decreasing *)
      if negb ((min <=? fst curs) && monob st min (fst curs)) then pfail else
      let j2 :=
        if curok then
          if min <=? fst curs then
            (errclass =? 0)
            && (seq =? spec_search st min curs t)
            && opt_eqb Z.eqb (if seq =? fst curs then Some last_ts else st seq) (Some ts)
            && (Z.of_nat (List.length trace) <=? request_bound st min curs)
            && forallb (fun k => 0 <=? k) trace
            && match trace with 0 :: _ => true | _ => false end
          else true
        else negb (errclass =? 0) in
      ret (code_if j1 1 ++ code_if j2 2)%list
  end.

Definition ostr_eqb (a : option string) (b : string) : bool :=
  match a with Some s => String.eqb s b | None => false end.

Definition check_path : P (list Z) :=
  kind <- pint ;; n <- pint ;; sp <- pstring ;; dp <- pstring ;;
  let j1 := ostr_eqb (state_url kind "" n) sp && ostr_eqb (data_url kind "" n) dp in
  let dsuf := if kind =? 3 then ".osm.gz"%string else ".osc.gz"%string in
  let dir := nth (Z.to_nat kind) ["minute"; "hour"; "day"; "changesets"]%string ""%string in
  let j2 :=
    if n <? 1000000000 then
      String.eqb sp (planet_path "" dir n ++ ".state.txt") &&
      String.eqb dp (planet_path "" dir n ++ dsuf) &&
      opt_eqb Z.eqb (parse_path "" dir ".state.txt" sp) (Some n) &&
      opt_eqb Z.eqb (parse_path "" dir dsuf dp) (Some n)
    else true in
  ret (code_if j1 1 ++ code_if j2 2)%list.

Definition check_decode : P (list Z) :=
  kind <- pint ;; cur <- pbool ;; n <- pint ;; fileseq <- pint ;; ts <- pint ;;
  ok <- pbool ;; seq <- pint ;; ots <- pint ;;
  let j1 := ok && (seq =? fetched_seq kind (if cur then 0 else n) fileseq) && (ots =? ts) in
  (* planet layout: interval files carry their own number, changeset files one less *)
  let consistent := if kind =? 3 then fileseq =? n - 1 else fileseq =? n in
  let j2 := if consistent then ok && (seq =? n) && (ots =? ts) else true in
  ret (code_if j1 1 ++ code_if j2 2)%list.

(* byte-level decoding of a state file *)
Definition ptm : P tm :=
  y <- pint ;; mo <- pint ;; d <- pint ;; h <- pint ;; mi <- pint ;; s <- pint ;; ns <- pint ;;
  ret {| t_year := y; t_mon := mo; t_day := d; t_hour := h; t_min := mi; t_sec := s; t_nsec := ns |}.

Definition check_decodeb : P (list Z) :=
  kind <- pint ;; cur <- pbool ;; n <- pint ;; body <- pstring ;; wf <- pbool ;; iseq <- pint ;; it <- ptm ;;
  outcome <- pint ;; oseq <- pint ;; ot <- ptm ;; otxn <- pint ;; otxnq <- pint ;;
  let name := if cur then 0 else n in
  (* the model's reading: (outcome, seq, time, txnMax, txnMaxQueried) *)
  let m : option (Z * Z * tm * Z * Z) :=
    if kind =? 3 then
      match decode_changeset_gen body with
      | Some (DOk (sq, t)) => Some (0, fetched_seq kind name sq, t, 0, 0)
      | Some DErr => Some (1, 0, zero_tm, 0, 0)
      | Some DPanic => Some (2, 0, zero_tm, 0, 0)
      | None => None
      end
    else
      match decode_interval_gen body with
      | Some (DOk st) => Some (0, fetched_seq kind name (i_seq st), i_time st, i_txn st, i_txnq st)
      | Some DErr => Some (1, 0, zero_tm, 0, 0)
      | Some DPanic => Some (2, 0, zero_tm, 0, 0)
      | None => None
      end in
  let j1 :=
    match m with
    | Some (mo, ms, mt, mx, mq) =>
        (mo =? outcome) &&
        (if outcome =? 0 then (ms mod two64 =? oseq mod two64) && tm_eqb mt ot && (mx =? otxn) && (mq =? otxnq) else true)
    | None => false
    end in
  (* the property: a file the server writes is read as what it says *)
  let j2 :=
    if wf then (outcome =? 0) && (oseq =? fetched_seq kind name iseq) && tm_eqb ot it else true in
  ret (code_if j1 1 ++ code_if j2 2)%list.

(* 5 FAULT: a transfer that broke off is never read as a state (the model has no transport
   faults: every request returns a whole file or a 404; this judgement only says that the
   implementation does not leave that domain silently) *)
Definition check_fault : P (list Z) :=
  kind <- pint ;; mode <- pint ;; n <- pint ;; cut <- pint ;; len <- pint ;; outcome <- pint ;;
  let ok := (cut <? len) && (outcome =? 1) in
  ret (code_if ok 1 ++ code_if ok 2)%list.

Definition check_case (t : toks) : list Z :=
  match t with
  | tag :: rest =>
      let p := if tag =? 2 then check_search     (* tags are zigzag-encoded: 1 -> 2, 2 -> 4, 3 -> 6 *)
               else if tag =? 4 then check_path
               else if tag =? 6 then check_decode
               else if tag =? 8 then check_decodeb
               else if tag =? 10 then check_fault
               else pfail in
      match parse_all p rest with Some codes => codes | None => [0] end
  | [] => [0]
  end.
