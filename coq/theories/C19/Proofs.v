(* C19/Proofs.v — termination, request bound and correctness of the modelled search. *)
From Coq Require Import ZArith List Bool Lia.
From Verif Require Import C19.Model.
Import ListNotations.
Open Scope Z_scope.

(* ------------------------------------------------------------------ counting missing files *)

Lemma missing_nonneg : forall st n lo, 0 <= missing st lo n.
Proof.
  intros st n. induction n as [|k IH]; intros lo; cbn [missing]; [lia|].
  specialize (IH (lo + 1)). destruct (st lo); lia.
Qed.

Lemma missing_app : forall st a b lo,
  missing st lo (a + b) = missing st lo a + missing st (lo + Z.of_nat a) b.
Proof.
  intros st a. induction a as [|k IH]; intros b lo.
  - cbn [missing Nat.add]. replace (lo + Z.of_nat 0) with lo by lia. lia.
  - cbn [missing Nat.add]. rewrite IH.
    replace (lo + 1 + Z.of_nat k) with (lo + Z.of_nat (S k)) by lia. lia.
Qed.

Lemma missing_all : forall st n lo,
  (forall m, lo <= m < lo + Z.of_nat n -> st m = None) -> missing st lo n = Z.of_nat n.
Proof.
  intros st n. induction n as [|k IH]; intros lo H; cbn [missing]; [reflexivity|].
  rewrite (H lo) by lia. rewrite IH; [lia|]. intros m Hm. apply H. lia.
Qed.

Lemma missing_none : forall st n lo,
  (forall m, lo <= m < lo + Z.of_nat n -> st m <> None) -> missing st lo n = 0.
Proof.
  intros st n. induction n as [|k IH]; intros lo H; cbn [missing]; [reflexivity|].
  destruct (st lo) eqn:E; [|exfalso; apply (H lo); [lia|exact E]].
  rewrite IH; [lia|]. intros m Hm. apply H. lia.
Qed.

Lemma missing_le_len : forall st n lo, missing st lo n <= Z.of_nat n.
Proof.
  intros st n. induction n as [|k IH]; intros lo; cbn [missing]; [lia|].
  specialize (IH (lo + 1)). destruct (st lo); lia.
Qed.

(* missing files in the half-open interval [a, b) *)
Definition miss (st : Z -> option Z) (a b : Z) : Z := missing st a (Z.to_nat (b - a)).

Lemma miss_nonneg : forall st a b, 0 <= miss st a b.
Proof. intros. apply missing_nonneg. Qed.

Lemma miss_split : forall st a b c, a <= b -> b <= c -> miss st a c = miss st a b + miss st b c.
Proof.
  intros st a b c Hab Hbc. unfold miss.
  replace (Z.to_nat (c - a)) with (Z.to_nat (b - a) + Z.to_nat (c - b))%nat by lia.
  rewrite missing_app. replace (a + Z.of_nat (Z.to_nat (b - a))) with b by lia. reflexivity.
Qed.

Lemma miss_all : forall st a b, a <= b ->
  (forall m, a <= m < b -> st m = None) -> miss st a b = b - a.
Proof.
  intros st a b Hab H. unfold miss. rewrite missing_all; [lia|]. intros m Hm. apply H. lia.
Qed.

Lemma miss_mono : forall st a b c d, a <= b -> b <= c -> c <= d -> miss st b c <= miss st a d.
Proof.
  intros st a b c d H1 H2 H3.
  rewrite (miss_split st a b d) by lia. rewrite (miss_split st b c d) by lia.
  pose proof (miss_nonneg st a b). pose proof (miss_nonneg st c d). lia.
Qed.

(* ------------------------------------------------------------------ halving *)

(* lia after turning / and mod by numerals into their defining equations *)
Ltac divlia := Z.div_mod_to_equations; lia.

Lemma log2_up_half : forall d d', 2 <= d -> 1 <= d' -> d' <= (d + 1) / 2 ->
  Z.log2_up d' + 1 <= Z.log2_up d.
Proof.
  intros d d' Hd Hd1 Hd'.
  assert (Hk : 1 <= Z.log2_up d).
  { change 1 with (Z.log2_up 2). apply Z.log2_up_le_mono. lia. }
  assert (Hpow : d <= 2 ^ Z.log2_up d) by (apply Z.log2_up_spec; lia).
  assert (Hle : Z.log2_up d' <= Z.log2_up d - 1).
  { apply Z.log2_up_le_pow2; [lia|].
    replace (2 ^ Z.log2_up d) with (2 * 2 ^ (Z.log2_up d - 1)) in Hpow.
    - assert ((d + 1) / 2 < 2 ^ (Z.log2_up d - 1) + 1).
      { apply Z.div_lt_upper_bound; lia. }
      lia.
    - rewrite <- Z.pow_succ_r by lia. f_equal. lia. }
  lia.
Qed.

(* ------------------------------------------------------------------ the search *)

Section Search.
  Variable st : Z -> option Z.
  Variables min cur : Z.
  Variable t : Z.

  (* the directory: non-decreasing stamps on the files min .. cur *)
  Definition mono : Prop :=
    forall a b ta tb, min <= a -> a <= b -> b <= cur ->
      st a = Some ta -> st b = Some tb -> ta <= tb.

  (* what the property asks of the answer *)
  Definition first_at_or_after (s : state) : Prop :=
    min <= fst s <= cur /\ st (fst s) = Some (snd s) /\ t <= snd s /\
    forall m tm, min <= m < fst s -> st m = Some tm -> tm < t.

  Definition before_upto (lo : Z) : Prop :=
    forall m tm, min <= m <= lo -> st m = Some tm -> tm < t.

  Definition is_upper (up : state) : Prop :=
    fst up <= cur /\ st (fst up) = Some (snd up) /\ t <= snd up.

  Lemma fetch_some : forall n s, fetch st n = Some s -> fst s = n /\ st n = Some (snd s).
  Proof.
    intros n s H. unfold fetch in H. destruct (st n) as [ts|] eqn:E; [|discriminate].
    inversion H; subst. cbn. auto.
  Qed.

  Lemma fetch_none : forall n, fetch st n = None -> st n = None.
  Proof. intros n H. unfold fetch in H. destruct (st n); [discriminate|reflexivity]. Qed.

  (* inner loop: it ends, finds the nearest present file at or below sID, and every request
     but the last one hit a missing file *)
  Lemma scan_down_spec : forall fuel lo sID,
    (Z.to_nat (sID - lo) <= fuel)%nat ->
    exists r tr, scan_down st fuel lo sID = Some (r, tr) /\
      match r with
      | Some s => lo < fst s <= sID /\ st (fst s) = Some (snd s) /\
                  (forall m, fst s < m <= sID -> st m = None) /\
                  Z.of_nat (length tr) = 1 + (sID - fst s)
      | None => (forall m, lo < m <= sID -> st m = None) /\
                Z.of_nat (length tr) = Z.max 0 (sID - lo)
      end.
  Proof.
    induction fuel as [|f IH]; intros lo sID Hf.
    - cbn [scan_down]. destruct (lo <? sID) eqn:E; [apply Z.ltb_lt in E; lia|].
      apply Z.ltb_ge in E. exists None, []. split; [reflexivity|]. split; [intros; lia|cbn; lia].
    - cbn [scan_down]. destruct (lo <? sID) eqn:E.
      + apply Z.ltb_lt in E. destruct (fetch st sID) as [s|] eqn:F.
        * apply fetch_some in F. destruct F as [F1 F2].
          exists (Some s), [sID]. split; [reflexivity|]. rewrite F1.
          split; [lia|]. split; [exact F2|]. split; [intros m Hm; exfalso; lia|cbn [length]; lia].
        * apply fetch_none in F.
          destruct (IH lo (sID - 1)) as (r & tr & Hs & Hr); [lia|].
          rewrite Hs. exists r, (sID :: tr). split; [reflexivity|].
          destruct r as [s|].
          -- destruct Hr as (H1 & H2 & H3 & H4). repeat split; try lia; [exact H2| |].
             ++ intros m Hm. destruct (Z.eq_dec m sID) as [->|Hne]; [exact F|apply H3; lia].
             ++ cbn [length]. lia.
          -- destruct Hr as (H1 & H2). split.
             ++ intros m Hm. destruct (Z.eq_dec m sID) as [->|Hne]; [exact F|apply H1; lia].
             ++ cbn [length]. lia.
      + apply Z.ltb_ge in E. exists None, []. split; [reflexivity|]. split; [intros; lia|cbn; lia].
  Qed.

  Hypothesis Hmono : mono.

  (* findInRange: terminates, stays within log2_up(range) + missing files, returns the first
     state at or after t *)
  Lemma find_in_range_spec : forall fuel lo up,
    (Z.to_nat (fst up - lo) <= fuel)%nat ->
    min - 1 <= lo -> lo < fst up -> is_upper up -> before_upto lo ->
    exists s tr, find_in_range st fuel lo up t = Some (s, tr) /\
      first_at_or_after s /\
      Z.of_nat (length tr) <= Z.log2_up (fst up - lo) + miss st (lo + 1) (fst up).
  Proof.
    induction fuel as [|f IH]; intros lo up Hf Hlo Hlt Hup Hbef.
    - exfalso. lia.
    - cbn [find_in_range]. destruct (lo + 1 <? fst up) eqn:E.
      + apply Z.ltb_lt in E.
        set (split := (lo + fst up) / 2).
        assert (Hs1 : lo < split) by (unfold split; divlia).
        assert (Hs2 : split < fst up) by (unfold split; divlia).
        destruct (scan_down_spec (S f) lo split) as (r & tr & Hscan & Hr); [lia|].
        rewrite Hscan.
        assert (Hhalf1 : fst up - split <= (fst up - lo + 1) / 2).
        { unfold split. divlia. }
        assert (Hhalf2 : split - lo <= (fst up - lo + 1) / 2).
        { unfold split. divlia. }
        (* the case where the lower bound moves to split *)
        assert (Hlower : (forall m tm, lo < m <= split -> st m = Some tm -> tm < t) ->
                  forall ntr, Z.of_nat ntr <= 1 + miss st (lo + 1) (split + 1) ->
                  exists s tr', find_in_range st f split up t = Some (s, tr') /\
                    first_at_or_after s /\
                    Z.of_nat ntr + Z.of_nat (length tr') <=
                      Z.log2_up (fst up - lo) + miss st (lo + 1) (fst up)).
        { intros Hb ntr Hn.
          destruct (IH split up) as (s & tr' & Hf' & Hfa & Hlen); try lia; [exact Hup| |].
          - intros m tm Hm Hst. destruct (Z_le_gt_dec m lo); [apply (Hbef m tm); [lia|exact Hst]|].
            apply (Hb m tm); [lia|exact Hst].
          - exists s, tr'. split; [exact Hf'|]. split; [exact Hfa|].
            pose proof (log2_up_half (fst up - lo) (fst up - split)).
            rewrite (miss_split st (lo + 1) (split + 1) (fst up)) by lia. lia. }
        destruct r as [s0|].
        * destruct Hr as (H1 & H2 & H3 & H4).
          destruct (snd s0 <? t) eqn:Et.
          -- apply Z.ltb_lt in Et.
             destruct (Hlower) with (ntr := length tr) as (s & tr' & Hf' & Hfa & Hlen).
             { intros m tm Hm Hst. destruct (Z_le_gt_dec m (fst s0)).
               - destruct Hup as (Hu1 & _ & _).
                 assert (tm <= snd s0) by (apply (Hmono m (fst s0) tm (snd s0)); try lia; assumption). lia.
               - rewrite H3 in Hst by lia. discriminate. }
             { rewrite H4. rewrite (miss_split st (lo + 1) (fst s0 + 1) (split + 1)) by lia.
               rewrite (miss_all st (fst s0 + 1) (split + 1)) by (try lia; intros; apply H3; lia).
               pose proof (miss_nonneg st (lo + 1) (fst s0 + 1)). lia. }
             rewrite Hf'. exists s, (tr ++ tr'). split; [reflexivity|]. split; [exact Hfa|].
             rewrite app_length, Nat2Z.inj_add. exact Hlen.
          -- apply Z.ltb_ge in Et.
             destruct (IH lo s0) as (s & tr' & Hf' & Hfa & Hlen); try lia.
             { destruct Hup as (Hu1 & _ & _). split; [lia|]. split; [exact H2|exact Et]. }
             { exact Hbef. }
             rewrite Hf'. exists s, (tr ++ tr'). split; [reflexivity|]. split; [exact Hfa|].
             rewrite app_length, Nat2Z.inj_add, H4.
             pose proof (log2_up_half (fst up - lo) (fst s0 - lo)).
             rewrite (miss_split st (lo + 1) (fst s0) (fst up)) by lia.
             rewrite (miss_split st (fst s0) (split + 1) (fst up)) by lia.
             rewrite (miss_split st (fst s0) (fst s0 + 1) (split + 1)) by lia.
             rewrite (miss_all st (fst s0 + 1) (split + 1)) by (try lia; intros; apply H3; lia).
             pose proof (miss_nonneg st (split + 1) (fst up)).
             pose proof (miss_nonneg st (fst s0) (fst s0 + 1)). lia.
        * destruct Hr as (H1 & H2).
          destruct (Hlower) with (ntr := length tr) as (s & tr' & Hf' & Hfa & Hlen).
          { intros m tm Hm Hst. rewrite H1 in Hst by lia. discriminate. }
          { rewrite H2. rewrite (miss_all st (lo + 1) (split + 1)) by (try lia; intros; apply H1; lia). lia. }
          rewrite Hf'. exists s, (tr ++ tr'). split; [reflexivity|]. split; [exact Hfa|].
          rewrite app_length, Nat2Z.inj_add. exact Hlen.
      + apply Z.ltb_ge in E. assert (fst up = lo + 1) as Heq by lia.
        exists up, []. split; [reflexivity|]. destruct Hup as (Hu1 & Hu2 & Hu3). split.
        * split; [lia|]. split; [exact Hu2|]. split; [exact Hu3|].
          intros m tm Hm Hst. apply (Hbef m tm); [lia|exact Hst].
        * cbn [length]. pose proof (Z.log2_up_nonneg (fst up - lo)).
          pose proof (miss_nonneg st (lo + 1) (fst up)). lia.
  Qed.

  (* findBound: a plain binary search; it ends after at most log2_up(range) requests and
     returns either a present state before t (below a valid upper bound), or twice the
     lowest state at or after t that it saw *)
  Lemma find_bound_spec : forall fuel lo up,
    (Z.to_nat (fst up - lo) <= fuel)%nat ->
    min <= lo -> lo < fst up -> is_upper up ->
    exists l u tr, find_bound st fuel lo up t = Some (l, u, tr) /\
      Z.of_nat (length tr) <= Z.log2_up (fst up - lo) /\
      is_upper u /\ lo < fst u <= fst up /\
      ((snd l < t /\ st (fst l) = Some (snd l) /\ lo < fst l < fst u) \/ l = u).
  Proof.
    induction fuel as [|f IH]; intros lo up Hf Hlo Hlt Hup.
    - exfalso. lia.
    - cbn [find_bound]. destruct (lo + 1 <? fst up) eqn:E.
      + apply Z.ltb_lt in E.
        set (split := (lo + fst up) / 2).
        assert (Hs1 : lo < split) by (unfold split; divlia).
        assert (Hs2 : split < fst up) by (unfold split; divlia).
        assert (Hhalf1 : fst up - split <= (fst up - lo + 1) / 2) by (unfold split; divlia).
        assert (Hhalf2 : split - lo <= (fst up - lo + 1) / 2) by (unfold split; divlia).
        destruct (fetch st split) as [s0|] eqn:F.
        * apply fetch_some in F. destruct F as [F1 F2].
          destruct (snd s0 <? t) eqn:Et.
          -- apply Z.ltb_lt in Et. exists s0, up, [split]. split; [reflexivity|].
             split.
             { cbn [length]. pose proof (log2_up_half (fst up - lo) 1).
               change (Z.log2_up 1) with 0 in *. assert (1 <= (fst up - lo + 1) / 2) by divlia. lia. }
             split; [exact Hup|]. split; [lia|]. left. split; [exact Et|]. split; [rewrite F1; exact F2|lia].
          -- apply Z.ltb_ge in Et.
             destruct (IH lo s0) as (l & u & tr & Hb & Hlen & Hu & Hrange & Hcase); try lia.
             { destruct Hup as (Hu1 & _ & _). split; [lia|]. split; [rewrite F1; exact F2|exact Et]. }
             rewrite Hb. exists l, u, (split :: tr). split; [reflexivity|].
             split.
             { cbn [length]. pose proof (log2_up_half (fst up - lo) (fst s0 - lo)). lia. }
             split; [exact Hu|]. split; [lia|]. exact Hcase.
        * destruct (IH split up) as (l & u & tr & Hb & Hlen & Hu & Hrange & Hcase); try lia; [exact Hup|].
          rewrite Hb. exists l, u, (split :: tr). split; [reflexivity|].
          split.
          { cbn [length]. pose proof (log2_up_half (fst up - lo) (fst up - split)). lia. }
          split; [exact Hu|]. split; [lia|].
          destruct Hcase as [(C1 & C2 & C3)|C]; [left; split; [exact C1|split; [exact C2|lia]]|right; exact C].
      + apply Z.ltb_ge in E. exists up, up, []. split; [reflexivity|].
        split; [cbn [length]; pose proof (Z.log2_up_nonneg (fst up - lo)); lia|].
        split; [exact Hup|]. split; [lia|]. right. reflexivity.
  Qed.

  (* searchTimestamp after the current state was read *)
  Lemma search_from_spec : forall fuel c,
    (enough_fuel min c <= fuel)%nat ->
    fst c = cur -> min <= cur -> st cur = Some (snd c) ->
    exists s tr, search_from st fuel min c t = Some (s, tr) /\
      (if snd c <? t then s = c else first_at_or_after s) /\
      Z.of_nat (length tr) <= 1 + 2 * Z.log2_up (cur - min + 1) + miss st min cur.
  Proof.
    intros fuel c Hfuel Hc Hmin Hcur. unfold enough_fuel in Hfuel. unfold search_from.
    pose proof (Z.log2_up_nonneg (cur - min + 1)) as HL.
    pose proof (miss_nonneg st min cur) as HM.
    destruct (snd c <? t) eqn:Et.
    - exists c, []. split; [reflexivity|]. split; [reflexivity|]. cbn [length]. lia.
    - apply Z.ltb_ge in Et.
      assert (Hupc : is_upper c) by (split; [lia|]; split; [rewrite Hc; exact Hcur|exact Et]).
      assert (Hlog : forall x, x <= cur - min + 1 -> Z.log2_up x <= Z.log2_up (cur - min + 1))
        by (intros; apply Z.log2_up_le_mono; lia).
      destruct (fetch st min) as [l|] eqn:F.
      + apply fetch_some in F. destruct F as [F1 F2].
        destruct (snd l <? t) eqn:El.
        * apply Z.ltb_lt in El.
          assert (min < cur).
          { destruct (Z.eq_dec min cur) as [Heq|]; [|lia]. rewrite Heq in F2. rewrite Hcur in F2.
            inversion F2. lia. }
          destruct (find_in_range_spec fuel (fst l) c) as (s & tr & Hf & Hfa & Hlen); try lia.
          { exact Hupc. }
          { intros m tm Hm Hst. assert (m = min) by lia. subst m. rewrite F2 in Hst. inversion Hst. lia. }
          rewrite Hf. exists s, ([min] ++ tr). split; [reflexivity|]. split; [exact Hfa|].
          rewrite app_length, Nat2Z.inj_add. cbn [length].
          pose proof (Hlog (fst c - fst l)). pose proof (miss_mono st min (fst l + 1) (fst c) cur). lia.
        * apply Z.ltb_ge in El.
          destruct (find_in_range_spec fuel (min - 1) l) as (s & tr & Hf & Hfa & Hlen); try lia.
          { split; [lia|]. split; [rewrite F1; exact F2|exact El]. }
          { intros m tm Hm Hst. lia. }
          rewrite Hf. exists s, ([min] ++ tr). split; [reflexivity|]. split; [exact Hfa|].
          rewrite app_length, Nat2Z.inj_add. cbn [length].
          pose proof (Hlog (fst l - (min - 1))). replace (min - 1 + 1) with min in Hlen by lia.
          pose proof (miss_mono st min min (fst l) cur). lia.
      + apply fetch_none in F.
        assert (min < cur).
        { destruct (Z.eq_dec min cur) as [Heq|]; [|lia]. rewrite Heq in F. rewrite Hcur in F. discriminate. }
        destruct (find_bound_spec fuel min c) as (l & u & trb & Hb & Hlenb & Hu & Hrange & Hcase); try lia.
        { exact Hupc. }
        rewrite Hb.
        assert (miss st min (min + 1) = 1) as Hm1.
        { rewrite miss_all; [lia|lia|]. intros m Hm. assert (m = min) by lia. subst m. exact F. }
        destruct Hcase as [(C1 & C2 & C3)|C].
        * assert (snd l <? t = true) as El by (apply Z.ltb_lt; exact C1). rewrite El.
          destruct (find_in_range_spec fuel (fst l) u) as (s & tr & Hf & Hfa & Hlen); try lia.
          { exact Hu. }
          { intros m tm Hm Hst.
            assert (tm <= snd l); [|lia].
            destruct Hu as (Hu1 & _ & _). apply (Hmono m (fst l) tm (snd l)); try lia; assumption. }
          rewrite Hf. exists s, ((min :: trb) ++ tr). split; [reflexivity|]. split; [exact Hfa|].
          rewrite app_length, Nat2Z.inj_add. cbn [length].
          destruct Hu as (Hu1 & _ & _).
          pose proof (Hlog (fst c - min)). pose proof (Hlog (fst u - fst l)).
          rewrite (miss_split st min (min + 1) cur) by lia.
          pose proof (miss_mono st (min + 1) (fst l + 1) (fst u) cur). lia.
        * subst l. destruct Hu as (Hu1 & Hu2 & Hu3).
          assert (snd u <? t = false) as El by (apply Z.ltb_ge; exact Hu3). rewrite El.
          destruct (find_in_range_spec fuel (min - 1) u) as (s & tr & Hf & Hfa & Hlen); try lia.
          { split; [lia|]. split; [exact Hu2|exact Hu3]. }
          { intros m tm Hm Hst. lia. }
          rewrite Hf. exists s, ((min :: trb) ++ tr). split; [reflexivity|]. split; [exact Hfa|].
          rewrite app_length, Nat2Z.inj_add. cbn [length].
          pose proof (Hlog (fst c - min)). pose proof (Hlog (fst u - (min - 1))).
          replace (min - 1 + 1) with min in Hlen by lia.
          pose proof (miss_mono st min min (fst u) cur). lia.
  Qed.
End Search.

(* ------------------------------------------------------------------ the executable specification *)

Lemma find_zrange_first : forall (p : Z -> bool) n lo k,
  lo <= k < lo + Z.of_nat n -> p k = true -> (forall m, lo <= m < k -> p m = false) ->
  find p (zrange lo n) = Some k.
Proof.
  intros p n. induction n as [|j IH]; intros lo k Hk Hp Hbefore; [lia|].
  cbn [zrange find]. destruct (Z.eq_dec lo k) as [->|Hne].
  - rewrite Hp. reflexivity.
  - rewrite (Hbefore lo) by lia. apply IH; [lia|exact Hp|]. intros m Hm. apply Hbefore. lia.
Qed.

Lemma spec_search_first : forall st min c t s,
  t <= snd c -> first_at_or_after st min (fst c) t s -> spec_search st min c t = fst s.
Proof.
  intros st min c t s Ht (Hr & Hst & Hts & Hbefore). unfold spec_search.
  assert (snd c <? t = false) as -> by (apply Z.ltb_ge; exact Ht).
  rewrite (find_zrange_first (at_or_after st t) _ min (fst s)); [reflexivity|lia| |].
  - unfold at_or_after. rewrite Hst. apply Z.leb_le. exact Hts.
  - intros m Hm. unfold at_or_after. destruct (st m) as [tm|] eqn:E; [|reflexivity].
    apply Z.leb_gt. apply (Hbefore m tm Hm E).
Qed.

(* ------------------------------------------------------------------ searchTimestamp *)

Theorem search_spec : forall st min c t fuel,
  (enough_fuel min c <= fuel)%nat ->
  min <= fst c -> st (fst c) = Some (snd c) -> mono st min (fst c) ->
  exists s tr, search fuel st min (Some c) t = Some (Found s, tr) /\
    (if snd c <? t then s = c else first_at_or_after st min (fst c) t s) /\
    fst s = spec_search st min c t /\
    Z.of_nat (length tr) <= request_bound st min c.
Proof.
  intros st min c t fuel Hfuel Hmin Hcur Hmono.
  destruct (search_from_spec st min (fst c) t Hmono fuel c Hfuel eq_refl Hmin Hcur)
    as (s & tr & Hs & Hans & Hlen).
  unfold search. rewrite Hs. exists s, (0 :: tr). split; [reflexivity|]. split; [exact Hans|].
  split.
  - destruct (snd c <? t) eqn:Et.
    + subst s. unfold spec_search. rewrite Et. reflexivity.
    + symmetry. apply spec_search_first; [apply Z.ltb_ge; exact Et|exact Hans].
  - cbn [length]. unfold request_bound. fold (miss st min (fst c)). lia.
Qed.

(* ------------------------------------------------------------------ the boolean hypothesis *)

Lemma mono_from_sound : forall st n lo last,
  mono_from st lo n last = true ->
  (forall a ta l, lo <= a < lo + Z.of_nat n -> st a = Some ta -> last = Some l -> l <= ta) /\
  (forall a b ta tb, lo <= a -> a <= b -> b < lo + Z.of_nat n ->
     st a = Some ta -> st b = Some tb -> ta <= tb).
Proof.
  intros st n. induction n as [|k IH]; intros lo last H.
  - split; intros; lia.
  - cbn [mono_from] in H. destruct (st lo) as [ts|] eqn:E.
    + apply andb_prop in H. destruct H as [H1 H2]. destruct (IH _ _ H2) as [I1 I2]. split.
      * intros a ta l Ha Hst Hl. destruct (Z.eq_dec a lo) as [->|Hne].
        -- rewrite E in Hst. inversion Hst; subst. apply Z.leb_le. exact H1.
        -- assert (ts <= ta) by (apply (I1 a ta ts); [lia|exact Hst|reflexivity]).
           subst last. apply Z.leb_le in H1. lia.
      * intros a b ta tb Ha Hab Hb Hsa Hsb. destruct (Z.eq_dec a lo) as [->|Hne].
        -- rewrite E in Hsa. inversion Hsa; subst. destruct (Z.eq_dec b lo) as [->|Hnb].
           ++ rewrite E in Hsb. inversion Hsb. lia.
           ++ apply (I1 b tb ta); [lia|exact Hsb|reflexivity].
        -- apply (I2 a b ta tb); try lia; assumption.
    + destruct (IH _ _ H) as [I1 I2]. split.
      * intros a ta l Ha Hst Hl. destruct (Z.eq_dec a lo) as [->|Hne]; [rewrite E in Hst; discriminate|].
        apply (I1 a ta l); [lia|exact Hst|exact Hl].
      * intros a b ta tb Ha Hab Hb Hsa Hsb.
        destruct (Z.eq_dec a lo) as [->|Hne]; [rewrite E in Hsa; discriminate|].
        apply (I2 a b ta tb); try lia; assumption.
Qed.

Lemma monob_sound : forall st min cur, monob st min cur = true -> mono st min cur.
Proof.
  intros st min cur H a b ta tb Ha Hab Hb Hsa Hsb. unfold monob in H.
  destruct (mono_from_sound _ _ _ _ H) as [_ I2]. apply (I2 a b ta tb); try lia; assumption.
Qed.
