(* C19/ProofsDecode.v — what the planet server writes is what the decoders read. *)
From Coq Require Import ZArith List String Ascii Bool Lia DecimalString DecimalN.
From Verif Require Import C19.Decode.
Import ListNotations.
Open Scope Z_scope.
Open Scope string_scope.

Ltac divlia := Z.div_mod_to_equations; lia.

(* ---------------------------------------------------------------- digits *)
Lemma dch_ok : forall k, 0 <= k <= 9 -> is_digit (dch k) = true /\ dval (dch k) = k.
Proof.
  intros k Hk.
  assert (k = 0 \/ k = 1 \/ k = 2 \/ k = 3 \/ k = 4 \/ k = 5 \/ k = 6 \/ k = 7 \/ k = 8 \/ k = 9) as H by lia.
  repeat (destruct H as [H|H]; [subst k; split; reflexivity|]). subst k. split; reflexivity.
Qed.

Lemma dch_digit : forall k, 0 <= k <= 9 -> is_digit (dch k) = true.
Proof. intros k H. apply (dch_ok k H). Qed.
Lemma dch_dval : forall k, 0 <= k <= 9 -> dval (dch k) = k.
Proof. intros k H. apply (dch_ok k H). Qed.

Lemma digit_not : forall a c, is_digit a = true -> is_digit c = false -> Ascii.eqb a c = false.
Proof.
  intros a c Ha Hc. destruct (Ascii.eqb a c) eqn:E; [|reflexivity].
  apply Ascii.eqb_eq in E. subst. rewrite Ha in Hc. discriminate.
Qed.

Lemma append_assoc_s : forall a b c : string, a ++ (b ++ c) = (a ++ b) ++ c.
Proof. induction a as [|x a IH]; intros b c; cbn [append]; [reflexivity|rewrite IH; reflexivity]. Qed.

Lemma get4_d4 : forall y r, 0 <= y < 10000 -> get4 (d4 y ++ r) = Some (y, r).
Proof.
  intros y r Hy. unfold d4, d3'. cbn [append get4].
  rewrite !dch_digit by divlia. cbn [andb]. rewrite !dch_dval by divlia.
  f_equal. f_equal. divlia.
Qed.

Lemma getnum_d2 : forall b x r, 0 <= x < 100 -> getnum b (d2 x ++ r) = Some (x, r).
Proof.
  intros b x r Hx. unfold d2. cbn [append getnum].
  rewrite !dch_digit by divlia. rewrite !dch_dval by divlia. f_equal. f_equal. divlia.
Qed.

Lemma cut_spaces_d2 : forall x r, 0 <= x < 100 -> cut_spaces (d2 x ++ r) = d2 x ++ r.
Proof.
  intros x r Hx. unfold d2. cbn [append cut_spaces].
  rewrite (digit_not (dch (x / 10)) " "%char) by (try reflexivity; apply dch_digit; divlia). reflexivity.
Qed.

Lemma frac_digits_d3 : forall x r n acc, 0 <= x < 1000 -> (n + 3 <= 9)%nat ->
  frac_digits (d3' x ++ r) n acc = frac_digits r (n + 3) (acc * 1000 + x).
Proof.
  intros x r n acc Hx Hn. unfold d3'. cbn [append frac_digits].
  rewrite !dch_digit by divlia. rewrite !dch_dval by divlia.
  assert ((n <? 9)%nat = true) as -> by (apply Nat.ltb_lt; lia).
  assert ((S n <? 9)%nat = true) as -> by (apply Nat.ltb_lt; lia).
  assert ((S (S n) <? 9)%nat = true) as -> by (apply Nat.ltb_lt; lia).
  replace (S (S (S n))) with (n + 3)%nat by lia. f_equal. divlia.
Qed.

Lemma frac_opt_d9 : forall ns c r, 0 <= ns < 1000000000 -> is_digit c = false ->
  frac_opt (String "."%char (d9 ns ++ String c r)) = Some (ns, String c r).
Proof.
  intros ns c r Hns Hc. unfold frac_opt.
  assert (Hd : d9 ns ++ String c r =
               String (dch (ns / 1000000 / 100)) (String (dch ((ns / 1000000 / 10) mod 10))
                 (String (dch (ns / 1000000 mod 10))
                    (d3' ((ns / 1000) mod 1000) ++ d3' (ns mod 1000) ++ String c r)))).
  { unfold d9, d3'. cbn [append]. reflexivity. }
  rewrite Hd. cbn [Ascii.eqb Bool.eqb orb andb].
  rewrite dch_digit by divlia. cbn [andb].
  rewrite <- Hd. unfold d9. rewrite <- !append_assoc_s.
  rewrite frac_digits_d3 by (try divlia; lia).
  rewrite frac_digits_d3 by (try divlia; lia).
  rewrite frac_digits_d3 by (try divlia; lia).
  cbn [frac_digits]. rewrite Hc. cbn [Nat.add Nat.sub pow10].
  f_equal. f_equal. divlia.
Qed.

(* ---------------------------------------------------------------- times *)
Definition L0 := "2006-01-02 15:04:05.999999999 Z".
Definition L1 := "2006-01-02 15:04:05.999999999 +00:00".
Definition L2 := "2006-01-02T15\:04\:05Z".
Definition planet_formats := [L0; L1; L2].

Definition date_elems := [EYear; ELit "-"; EMon; ELit "-"; EDay]%char.
Lemma elems_L0 : layout_elems L0 = Some (date_elems ++ [ELit " "; EHour; ELit ":"; EMin; ELit ":"; ESec; EFrac9; ELit " "; ELit "Z"]%char)%list.
Proof. vm_compute. reflexivity. Qed.
Lemma elems_L1 : layout_elems L1 = Some (date_elems ++ [ELit " "; EHour; ELit ":"; EMin; ELit ":"; ESec; EFrac9; ELit " "; ELit "+"; ELit "0"; ELit "0"; ELit ":"; ELit "0"; ELit "0"]%char)%list.
Proof. vm_compute. reflexivity. Qed.
Lemma elems_L2 : layout_elems L2 = Some (date_elems ++ [ELit "T"; EHour; ELit "\"; ELit ":"; EMin; ELit "\"; ELit ":"; ESec; ELit "Z"]%char)%list.
Proof. vm_compute. reflexivity. Qed.

Record valid (t : tm) : Prop := {
  v_year : 0 <= t_year t < 10000; v_mon : 1 <= t_mon t <= 12;
  v_day : 1 <= t_day t <= days_in (t_mon t) (t_year t);
  v_hour : 0 <= t_hour t < 24; v_min : 0 <= t_min t < 60; v_sec : 0 <= t_sec t < 60;
  v_nsec : 0 <= t_nsec t < 1000000000 }.

Lemma valid_tm_valid : forall t, valid_tm t = true -> valid t.
Proof.
  intros t H. unfold valid_tm in H. repeat (apply andb_prop in H; destruct H as [H ?]).
  constructor; lia.
Qed.

Lemma days_in_le : forall m y, days_in m y <= 31.
Proof. intros m y. unfold days_in. destruct (Z.eqb m 2); [destruct (leap y); lia|]. destruct (_ || _); lia. Qed.

Ltac ranges t V :=
  pose proof (v_year t V) as Vy; pose proof (v_mon t V) as Vmo; pose proof (v_day t V) as Vd;
  pose proof (v_hour t V) as Vh; pose proof (v_min t V) as Vmi; pose proof (v_sec t V) as Vs;
  pose proof (v_nsec t V) as Vn; pose proof (days_in_le (t_mon t) (t_year t)) as Vdi.

Ltac bools t V :=
  pose proof (v_year t V) as Vy; pose proof (v_mon t V) as Vmo; pose proof (v_day t V) as Vd;
  pose proof (v_hour t V) as Vh; pose proof (v_min t V) as Vmi; pose proof (v_sec t V) as Vs;
  pose proof (v_nsec t V) as Vn; pose proof (days_in_le (t_mon t) (t_year t)) as Vdi;
  assert (Z.leb 1 (t_mon t) && Z.leb (t_mon t) 12 = true) as Bmo by lia;
  assert (Z.ltb (t_hour t) 24 = true) as Bh by lia;
  assert (Z.ltb (t_min t) 60 = true) as Bmi by lia;
  assert (Z.ltb (t_sec t) 60 = true) as Bs by lia;
  assert (Z.leb 1 (t_day t) && Z.leb (t_day t) (days_in (t_mon t) (t_year t)) = true) as Bd by lia.

Ltac pstep :=
  cbn [parse_elems append Ascii.eqb Bool.eqb andb cut_spaces cut_space_elems t_year t_mon t_day t_hour t_min t_sec t_nsec];
  rewrite ?get4_d4, ?getnum_d2, ?cut_spaces_d2 by lia.

(* the date part, common to the three layouts *)
Lemma parse_date : forall f rest t s t0, valid t ->
  parse_elems (S (S (S (S (S f))))) (date_elems ++ rest)%list
      (d4 (t_year t) ++ "-" ++ d2 (t_mon t) ++ "-" ++ d2 (t_day t) ++ s) t0 =
  parse_elems f rest s {| t_year := t_year t; t_mon := t_mon t; t_day := t_day t;
                          t_hour := t_hour t0; t_min := t_min t0; t_sec := t_sec t0; t_nsec := t_nsec t0 |}.
Proof.
  intros f rest t s t0 V. bools t V. unfold date_elems. cbn [app].
  pstep. pstep. pstep. rewrite Bmo. pstep. pstep. reflexivity.
Qed.

Lemma tm_eta : forall t, {| t_year := t_year t; t_mon := t_mon t; t_day := t_day t; t_hour := t_hour t;
                            t_min := t_min t; t_sec := t_sec t; t_nsec := t_nsec t |} = t.
Proof. destruct t; reflexivity. Qed.

Ltac psteps := repeat (progress (pstep; rewrite ?Ascii.eqb_refl)).

Lemma parse_L2 : forall t, valid t -> t_nsec t = 0 -> parse_layout L2 (render_time 2 t) = Some t.
Proof.
  intros t V Hns. bools t V. unfold parse_layout. rewrite elems_L2. unfold render_time. cbn [Z.eqb Pos.eqb].
  match goal with |- parse_elems ?n _ _ _ = _ => let k := eval vm_compute in n in change n with k end.
  rewrite (parse_date _ _ t _ start_tm V).
  psteps. rewrite Bh, Bmi, Bs. cbn [frac_opt]. rewrite Bd. cbn [start_tm t_nsec].
  rewrite <- Hns. rewrite tm_eta. reflexivity.
Qed.

Lemma parse_L01 : forall k t, valid t -> (k = 0 \/ k = 1) ->
  parse_layout (if Z.eqb k 0 then L0 else L1) (render_time k t) = Some t.
Proof.
  intros k t V Hk. bools t V. unfold parse_layout, render_time.
  destruct Hk as [-> | ->]; cbn [Z.eqb Pos.eqb].
  - rewrite elems_L0.
    match goal with |- parse_elems ?n _ _ _ = _ => let k := eval vm_compute in n in change n with k end.
    rewrite (parse_date _ _ t _ start_tm V).
    psteps. rewrite Bh, Bmi, Bs.
    rewrite frac_opt_d9 by (try lia; reflexivity). psteps. rewrite Bd. rewrite tm_eta. reflexivity.
  - rewrite elems_L1.
    match goal with |- parse_elems ?n _ _ _ = _ => let k := eval vm_compute in n in change n with k end.
    rewrite (parse_date _ _ t _ start_tm V).
    psteps. rewrite Bh, Bmi, Bs.
    rewrite frac_opt_d9 by (try lia; reflexivity). psteps. rewrite Bd. rewrite tm_eta. reflexivity.
Qed.

(* an earlier format does not accept what a later one is for *)
Lemma L0_rejects_1 : forall t, valid t -> parse_layout L0 (render_time 1 t) = None.
Proof.
  intros t V. bools t V. unfold parse_layout, render_time. cbn [Z.eqb Pos.eqb]. rewrite elems_L0.
  match goal with |- parse_elems ?n _ _ _ = _ => let k := eval vm_compute in n in change n with k end.
  rewrite (parse_date _ _ t _ start_tm V).
  psteps. rewrite Bh, Bmi, Bs.
  rewrite frac_opt_d9 by (try lia; reflexivity). psteps. reflexivity.
Qed.

Lemma L01_reject_2 : forall l t, valid t -> (l = L0 \/ l = L1) -> parse_layout l (render_time 2 t) = None.
Proof.
  intros l t V Hl. bools t V. unfold parse_layout, render_time. cbn [Z.eqb Pos.eqb].
  destruct Hl as [-> | ->]; [rewrite elems_L0|rewrite elems_L1];
    (match goal with |- parse_elems ?n _ _ _ = _ => let k := eval vm_compute in n in change n with k end);
    rewrite (parse_date _ _ t _ start_tm V); psteps; reflexivity.
Qed.

(* decodeTime reads what the planet server writes: the three forms of a time stamp *)
Theorem decode_time_planet : forall k t, valid t -> (k = 0 \/ k = 1 \/ (k = 2 /\ t_nsec t = 0)) ->
  decode_time planet_formats (render_time k t) = Some t.
Proof.
  intros k t V Hk. unfold planet_formats. cbn [decode_time].
  destruct Hk as [-> | [-> | [-> Hns]]].
  - pose proof (parse_L01 0 t V (or_introl eq_refl)) as P. cbn [Z.eqb] in P. rewrite P. reflexivity.
  - rewrite (L0_rejects_1 t V). pose proof (parse_L01 1 t V (or_intror eq_refl)) as P. cbn [Z.eqb] in P.
    rewrite P. reflexivity.
  - rewrite (L01_reject_2 L0 t V (or_introl eq_refl)), (L01_reject_2 L1 t V (or_intror eq_refl)).
    rewrite (parse_L2 t V Hns). reflexivity.
Qed.

(* the remaining cross rejections: every format accepts only its own form, so the ORDER of
   timeFormats does not matter *)
Lemma L1_rejects_0 : forall t, valid t -> parse_layout L1 (render_time 0 t) = None.
Proof.
  intros t V. bools t V. unfold parse_layout, render_time. cbn [Z.eqb Pos.eqb]. rewrite elems_L1.
  match goal with |- parse_elems ?n _ _ _ = _ => let k := eval vm_compute in n in change n with k end.
  rewrite (parse_date _ _ t _ start_tm V).
  psteps. rewrite Bh, Bmi, Bs.
  rewrite frac_opt_d9 by (try lia; reflexivity). psteps. reflexivity.
Qed.

Lemma L2_rejects_01 : forall k t, valid t -> (k = 0 \/ k = 1) -> parse_layout L2 (render_time k t) = None.
Proof.
  intros k t V Hk. bools t V. unfold parse_layout, render_time. rewrite elems_L2.
  destruct Hk as [-> | ->]; cbn [Z.eqb Pos.eqb];
    (match goal with |- parse_elems ?n _ _ _ = _ => let k := eval vm_compute in n in change n with k end);
    rewrite (parse_date _ _ t _ start_tm V); psteps; reflexivity.
Qed.

Definition layout_of (k : Z) : string := if Z.eqb k 0 then L0 else if Z.eqb k 1 then L1 else L2.

Lemma own_layout : forall k t, valid t -> (k = 0 \/ k = 1 \/ (k = 2 /\ t_nsec t = 0)) ->
  parse_layout (layout_of k) (render_time k t) = Some t.
Proof.
  intros k t V [-> | [-> | [-> Hns]]]; unfold layout_of; cbn [Z.eqb Pos.eqb].
  - exact (parse_L01 0 t V (or_introl eq_refl)).
  - exact (parse_L01 1 t V (or_intror eq_refl)).
  - exact (parse_L2 t V Hns).
Qed.

Lemma other_layout : forall k l t, valid t -> (k = 0 \/ k = 1 \/ k = 2) ->
  In l planet_formats -> l <> layout_of k -> parse_layout l (render_time k t) = None.
Proof.
  intros k l t V Hk Hl Hne. unfold planet_formats in Hl.
  destruct Hl as [<- | [<- | [<- | []]]]; destruct Hk as [-> | [-> | ->]];
    unfold layout_of in Hne; cbn [Z.eqb Pos.eqb] in Hne; try contradiction.
  - exact (L0_rejects_1 t V).
  - exact (L01_reject_2 L0 t V (or_introl eq_refl)).
  - exact (L1_rejects_0 t V).
  - exact (L01_reject_2 L1 t V (or_intror eq_refl)).
  - exact (L2_rejects_01 0 t V (or_introl eq_refl)).
  - exact (L2_rejects_01 1 t V (or_intror eq_refl)).
Qed.

(* decodeTime over ANY list made of the three planet formats that contains the right one *)
Theorem decode_time_any : forall fmts k t, valid t -> (k = 0 \/ k = 1 \/ (k = 2 /\ t_nsec t = 0)) ->
  (forall l, In l fmts -> In l planet_formats) -> In (layout_of k) fmts ->
  decode_time fmts (render_time k t) = Some t.
Proof.
  induction fmts as [|l r IH]; intros k t V Hk Hsub Hin; [destruct Hin|].
  cbn [decode_time].
  destruct (string_dec l (layout_of k)) as [E|NE].
  - subst l. rewrite (own_layout k t V Hk). reflexivity.
  - rewrite (other_layout k l t V); [| |apply Hsub; left; reflexivity|exact NE].
    + apply IH; [exact V|exact Hk|intros x Hx; apply Hsub; right; exact Hx|].
      destruct Hin as [E|Hin]; [contradiction|exact Hin].
    + destruct Hk as [H|[H|[H _]]]; auto.
Qed.

(* a list of time formats that reads the planet forms (planet_formats does: decode_time_planet;
   any arrangement of the three does: decode_time_any) *)
Definition reads_planet_times (fmts : list string) : Prop :=
  forall k t, valid t -> (k = 0 \/ k = 1 \/ (k = 2 /\ t_nsec t = 0)) -> decode_time fmts (render_time k t) = Some t.

(* ---------------------------------------------------------------- lines and fields *)
Fixpoint nocharb (c : ascii) (s : string) : bool :=
  match s with EmptyString => true | String a r => negb (Ascii.eqb a c) && nocharb c r end.

Lemma split_app : forall c a b, nocharb c a = true -> split_on c (a ++ String c b) = a :: split_on c b.
Proof.
  intros c. induction a as [|x a IH]; intros b H.
  - cbn [append split_on]. rewrite Ascii.eqb_refl. reflexivity.
  - cbn [nocharb] in H. apply andb_prop in H. destruct H as [H1 H2]. apply negb_true_iff in H1.
    cbn [append split_on]. rewrite H1. rewrite (IH b H2). reflexivity.
Qed.

Lemma split_none : forall c a, nocharb c a = true -> split_on c a = [a].
Proof.
  intros c. induction a as [|x a IH]; intros H; [reflexivity|].
  cbn [nocharb] in H. apply andb_prop in H. destruct H as [H1 H2]. apply negb_true_iff in H1.
  cbn [split_on]. rewrite H1. rewrite (IH H2). reflexivity.
Qed.

Lemma split_nonempty : forall c s, split_on c s <> [].
Proof.
  intros c s. destruct s as [|a r]; cbn [split_on]; [discriminate|].
  destruct (Ascii.eqb a c); [discriminate|]. destruct (split_on c r); discriminate.
Qed.

Lemma join_cons : forall c x y l, join c (x :: y :: l) = x ++ String c (join c (y :: l)).
Proof. reflexivity. Qed.

Lemma join_split : forall c s, join c (split_on c s) = s.
Proof.
  intros c. induction s as [|a r IH]; [reflexivity|]. cbn [split_on].
  pose proof (split_nonempty c r) as N.
  destruct (split_on c r) as [|p ps] eqn:S; [contradiction|].
  destruct (Ascii.eqb a c) eqn:E.
  - apply Ascii.eqb_eq in E. subst a. rewrite join_cons. rewrite IH. reflexivity.
  - destruct ps as [|q qs].
    + cbn [join] in *. rewrite IH. reflexivity.
    + rewrite join_cons in *. cbn [append]. rewrite IH. reflexivity.
Qed.

Lemma nocharb_app : forall c a b, nocharb c (a ++ b) = nocharb c a && nocharb c b.
Proof.
  intros c. induction a as [|x a IH]; intros b; [reflexivity|]. cbn [append nocharb]. rewrite IH.
  rewrite andb_assoc. reflexivity.
Qed.

Lemma all_digits_nochar : forall c s, is_digit c = false -> all_digits s = true -> nocharb c s = true.
Proof.
  intros c. induction s as [|a r IH]; intros Hc H; [reflexivity|].
  cbn [all_digits] in H. apply andb_prop in H. destruct H as [H1 H2].
  cbn [nocharb]. rewrite (digit_not a c H1 Hc). cbn [negb andb]. apply IH; assumption.
Qed.

Fixpoint last_nonspace (s : string) : bool :=
  match s with
  | EmptyString => false
  | String a EmptyString => negb (is_space a)
  | String _ r => last_nonspace r
  end.

Lemma rtrim_id : forall s, last_nonspace s = true -> rtrim s = s.
Proof.
  induction s as [|a r IH]; intros H; [reflexivity|].
  cbn [rtrim]. destruct r as [|b r'].
  - cbn [last_nonspace] in H. apply negb_true_iff in H. cbn [rtrim]. rewrite H. reflexivity.
  - assert (last_nonspace (String b r') = true) as H' by exact H.
    rewrite (IH H'). rewrite andb_false_r. reflexivity.
Qed.

Lemma digit_not_space : forall a, is_digit a = true -> is_space a = false.
Proof.
  intros a H. unfold is_digit, is_space in *. apply andb_prop in H. destruct H as [H1 H2].
  apply N.leb_le in H1. apply N.leb_le in H2.
  destruct ((9 <=? N_of_ascii a)%N && (N_of_ascii a <=? 13)%N) eqn:E.
  - apply andb_prop in E. destruct E as [_ E]. apply N.leb_le in E. lia.
  - destruct (N.eqb_spec (N_of_ascii a) 32); [lia|reflexivity].
Qed.

Lemma all_digits_last : forall s, all_digits s = true -> s <> EmptyString -> last_nonspace s = true.
Proof.
  induction s as [|a r IH]; intros H Hne; [contradiction|].
  cbn [all_digits] in H. apply andb_prop in H. destruct H as [H1 H2]. destruct r as [|b r'].
  - cbn [last_nonspace]. rewrite (digit_not_space a H1). reflexivity.
  - apply IH; [exact H2|discriminate].
Qed.

Lemma trim_digits : forall s, all_digits s = true -> s <> EmptyString -> trim s = s.
Proof.
  intros s H Hne. unfold trim. destruct s as [|a r]; [contradiction|].
  cbn [all_digits] in H. pose proof H as H0. apply andb_prop in H. destruct H as [H1 H2].
  cbn [ltrim]. rewrite (digit_not_space a H1). apply rtrim_id. apply all_digits_last; [exact H0|discriminate].
Qed.

(* decimal numbers *)
Lemma all_digits_uint : forall d, all_digits (NilEmpty.string_of_uint d) = true.
Proof. induction d; cbn [NilEmpty.string_of_uint all_digits]; try rewrite IHd; reflexivity. Qed.

Lemma to_uint_nonnil : forall n, N.to_uint n <> Decimal.Nil.
Proof.
  intros n H. pose proof (DecimalN.Unsigned.of_to n) as E. rewrite H in E. cbn in E.
  pose proof (DecimalN.Unsigned.to_of (Decimal.Nil)) as F.
  destruct n; [cbn in H; discriminate|]. cbn in H. unfold Pos.to_uint in H.
  pose proof (DecimalPos.Unsigned.to_uint_nonnil p). contradiction.
Qed.

Lemma dec_of_digits : forall n, all_digits (dec_of n) = true.
Proof. intros n. apply all_digits_uint. Qed.

Lemma dec_of_nonempty : forall n, dec_of n <> EmptyString.
Proof.
  intros n. unfold dec_of. pose proof (to_uint_nonnil (Z.to_N n)) as H.
  destruct (N.to_uint (Z.to_N n)); cbn; try discriminate. contradiction.
Qed.

Lemma uint_val_dec : forall n, 0 <= n -> uint_val (dec_of n) = Some n.
Proof.
  intros n Hn. unfold uint_val, dec_of. rewrite NilEmpty.usu. rewrite DecimalN.Unsigned.of_to.
  rewrite Z2N.id by lia. reflexivity.
Qed.

Lemma atoi_dec : forall n, 0 <= n < two63 -> atoi (dec_of n) = Some n.
Proof.
  intros n Hn. unfold atoi.
  pose proof (dec_of_digits n) as D. pose proof (dec_of_nonempty n) as NE.
  destruct (dec_of n) as [|a r] eqn:E; [contradiction|].
  assert (a <> "-"%char /\ a <> "+"%char) as [N1 N2].
  { cbn [all_digits] in D. apply andb_prop in D. destruct D as [D _]. split; intros ->; discriminate D. }
  assert ((let '(neg, body) := match String a r with
            | String "-" r0 => (true, r0) | String "+" r0 => (false, r0) | _ => (false, String a r) end
           in (neg, body)) = (false, String a r)) as S.
  { destruct a as [[] [] [] [] [] [] [] []]; try reflexivity; exfalso; auto. }
  destruct a as [[] [] [] [] [] [] [] []]; try (exfalso; auto; fail);
    rewrite D; rewrite <- E; rewrite (uint_val_dec n) by lia; unfold two63 in *;
    rewrite (proj2 (Z.leb_le _ _)) by lia; rewrite (proj2 (Z.ltb_lt _ _)) by lia; reflexivity.
Qed.

Lemma parse_uint_dec : forall n, 0 <= n < two64 -> parse_uint (dec_of n) = Some n.
Proof.
  intros n Hn. unfold parse_uint. pose proof (dec_of_nonempty n) as NE.
  destruct (dec_of n) as [|a r] eqn:E; [contradiction|]. rewrite <- E.
  rewrite (dec_of_digits n). rewrite (uint_val_dec n) by lia.
  rewrite (proj2 (Z.ltb_lt _ _)) by lia. reflexivity.
Qed.

(* ---------------------------------------------------------------- whole files *)
Definition nlc : ascii := ascii_of_N 10.

Lemma append_nil_r : forall s : string, s ++ "" = s.
Proof. induction s as [|a r IH]; cbn [append]; [reflexivity|rewrite IH; reflexivity]. Qed.

Lemma render_no_nl : forall k t, valid t -> nocharb nlc (render_time k t) = true.
Proof.
  intros k t V. ranges t V. unfold render_time, d4, d2, d9, d3', nlc.
  destruct (Z.eqb k 2); [|destruct (Z.eqb k 0)]; cbn [append nocharb];
    rewrite !(fun e H => digit_not (dch e) (ascii_of_N 10) (dch_digit e H) eq_refl);
    try reflexivity; Z.div_mod_to_equations; lia.
Qed.

Lemma render2_no_eq : forall t, valid t -> nocharb "="%char (render_time 2 t) = true.
Proof.
  intros t V. ranges t V. unfold render_time, d4, d2, d3'. cbn [Z.eqb Pos.eqb append nocharb].
  rewrite !(fun e H => digit_not (dch e) "="%char (dch_digit e H) eq_refl);
    try reflexivity; Z.div_mod_to_equations; lia.
Qed.

Lemma render_last : forall k t, last_nonspace (render_time k t) = true.
Proof.
  intros k t. unfold render_time, d4, d2, d9, d3'.
  destruct (Z.eqb k 2); [|destruct (Z.eqb k 0)]; reflexivity.
Qed.

Lemma render_first : forall k t r, valid t -> ltrim (render_time k t ++ r) = render_time k t ++ r.
Proof.
  intros k t r V. ranges t V. unfold render_time, d4.
  assert (is_space (dch (t_year t / 1000)) = false) as E by (apply digit_not_space, dch_digit; divlia).
  destruct (Z.eqb k 2); cbn [append ltrim]; rewrite E; reflexivity.
Qed.

Lemma trim_render : forall k t, valid t -> trim (String " " (render_time k t)) = render_time k t.
Proof.
  intros k t V. unfold trim. cbn [ltrim is_space].
  change (is_space " ") with true. cbv iota.
  pose proof (render_first k t "" V) as F. rewrite !append_nil_r in F. rewrite F.
  apply rtrim_id. apply render_last.
Qed.

Lemma trim_sp_digits : forall s, all_digits s = true -> s <> EmptyString -> trim (String " " s) = s.
Proof. intros s H Hne. change (trim (String " " s)) with (trim s). apply trim_digits; assumption. Qed.

Lemma nochar_sp_dec : forall c n, is_digit c = false -> Ascii.eqb " " c = false ->
  nocharb c (String " " (dec_of n)) = true.
Proof.
  intros c n Hc Hs. cbn [nocharb]. rewrite Hs. cbn [negb andb].
  apply all_digits_nochar; [exact Hc|apply dec_of_digits].
Qed.

(* decodeChangesetState reads the changeset state file of the planet server *)
Theorem decode_changeset_planet : forall fmts k seq t, reads_planet_times fmts ->
  (k = 0 \/ k = 1) -> valid t -> 0 <= seq < two64 ->
  decode_changeset fmts nlc ":" 1 2 (render_changeset k seq t) = DOk (seq, t).
Proof.
  intros fmts k seq t Hf Hk V Hseq. unfold decode_changeset, render_changeset.
  assert (E : "---" ++ nl ++ "last_run: " ++ render_time k t ++ nl ++ "sequence: " ++ dec_of seq ++ nl =
              "---" ++ String nlc (("last_run" ++ String ":" (String " " (render_time k t)))
                     ++ String nlc (("sequence" ++ String ":" (String " " (dec_of seq))) ++ String nlc ""))).
  { unfold nl, nlc. cbn [append]. rewrite <- ?append_assoc_s. cbn [append]. reflexivity. }
  rewrite E. clear E.
  rewrite split_app by reflexivity.
  rewrite split_app.
  2:{ rewrite nocharb_app. cbn [nocharb]. rewrite render_no_nl by exact V. reflexivity. }
  rewrite split_app.
  2:{ rewrite nocharb_app. cbn [nocharb]. rewrite (all_digits_nochar nlc (dec_of seq)) by (try reflexivity; apply dec_of_digits). reflexivity. }
  cbn [nth_error].
  rewrite split_app by reflexivity. cbn [tl]. rewrite join_split.
  rewrite trim_render by exact V.
  rewrite (Hf k t V) by (destruct Hk as [-> | ->]; auto).
  rewrite split_app by reflexivity.
  rewrite split_none by (apply nochar_sp_dec; reflexivity).
  rewrite trim_sp_digits by (try apply dec_of_digits; apply dec_of_nonempty).
  rewrite parse_uint_dec by exact Hseq. reflexivity.
Qed.

Definition planet_keys : list (string * field) :=
  [("sequenceNumber", FSeq); ("txnMax", FTxnMax); ("txnMaxQueried", FTxnMaxQ); ("timestamp", FTime)].

Lemma trim_render0 : forall k t, valid t -> trim (render_time k t) = render_time k t.
Proof.
  intros k t V. unfold trim. pose proof (render_first k t "" V) as F. rewrite !append_nil_r in F.
  rewrite F. apply rtrim_id. apply render_last.
Qed.

Lemma step_comment : forall fmts st c, step_line planet_keys fmts "=" st (String "#" c) = DOk st.
Proof.
  intros fmts st c. unfold step_line. cbn [split_on Ascii.eqb Bool.eqb andb].
  destruct (split_on "=" c) as [|p ps]; reflexivity.
Qed.

Lemma step_unknown : forall fmts st key v,
  nocharb "=" key = true -> assoc_key key planet_keys = None ->
  step_line planet_keys fmts "=" st (key ++ String "=" v) = DOk st.
Proof.
  intros fmts st key v Hk Ha. unfold step_line. rewrite split_app by exact Hk. rewrite Ha. reflexivity.
Qed.

Lemma step_int : forall fmts st key f n,
  nocharb "=" key = true -> assoc_key key planet_keys = Some f -> 0 <= n < two63 ->
  step_line planet_keys fmts "=" st (key ++ String "=" (dec_of n)) =
  match f with
  | FSeq => DOk {| i_seq := n; i_time := i_time st; i_txn := i_txn st; i_txnq := i_txnq st |}
  | FTxnMax => DOk {| i_seq := i_seq st; i_time := i_time st; i_txn := n; i_txnq := i_txnq st |}
  | FTxnMaxQ => DOk {| i_seq := i_seq st; i_time := i_time st; i_txn := i_txn st; i_txnq := n |}
  | FTime => step_line planet_keys fmts "=" st (key ++ String "=" (dec_of n))
  end.
Proof.
  intros fmts st key f n Hk Ha Hn. destruct f; try reflexivity;
    unfold step_line; rewrite split_app by exact Hk; rewrite Ha;
    rewrite split_none by (apply all_digits_nochar; [reflexivity|apply dec_of_digits]);
    rewrite trim_digits by (try apply dec_of_digits; apply dec_of_nonempty);
    rewrite atoi_dec by exact Hn; try reflexivity.
  rewrite Z.mod_small by (unfold two63, two64 in *; lia). reflexivity.
Qed.

Lemma step_time : forall fmts st t, reads_planet_times fmts -> valid t -> t_nsec t = 0 ->
  step_line planet_keys fmts "=" st ("timestamp" ++ String "=" (render_time 2 t)) =
  DOk {| i_seq := i_seq st; i_time := t; i_txn := i_txn st; i_txnq := i_txnq st |}.
Proof.
  intros fmts st t Hf V Hns. unfold step_line. rewrite split_app by reflexivity.
  change (assoc_key "timestamp" planet_keys) with (Some FTime). cbv iota.
  rewrite split_none by (apply render2_no_eq; exact V).
  rewrite trim_render0 by exact V.
  rewrite (Hf 2 t V (or_intror (or_intror (conj eq_refl Hns)))). reflexivity.
Qed.

(* decodeIntervalState reads the minute/hour/day state file of the planet server *)
Theorem decode_interval_planet : forall fmts comment seq t txn txnq ready active,
  reads_planet_times fmts -> valid t -> t_nsec t = 0 -> 0 <= seq < two63 -> 0 <= txn < two63 -> 0 <= txnq < two63 ->
  nocharb nlc comment = true -> nocharb nlc ready = true -> nocharb nlc active = true ->
  decode_interval planet_keys fmts nlc "=" (render_interval comment seq t txn txnq ready active)
  = DOk {| i_seq := seq; i_time := t; i_txn := txn; i_txnq := txnq |}.
Proof.
  intros fmts comment seq t txn txnq ready active Hf V Hns Hseq Htxn Htxnq Hc Hr Ha.
  unfold decode_interval, render_interval.
  assert (E : "#" ++ comment ++ nl ++ "txnMaxQueried=" ++ dec_of txnq ++ nl ++ "sequenceNumber=" ++ dec_of seq ++ nl
                ++ "timestamp=" ++ render_time 2 t ++ nl ++ "txnReadyList=" ++ ready ++ nl
                ++ "txnMax=" ++ dec_of txn ++ nl ++ "txnActiveList=" ++ active ++ nl =
              String "#" comment ++ String nlc (("txnMaxQueried" ++ String "=" (dec_of txnq))
                ++ String nlc (("sequenceNumber" ++ String "=" (dec_of seq))
                ++ String nlc (("timestamp" ++ String "=" (render_time 2 t))
                ++ String nlc (("txnReadyList" ++ String "=" ready)
                ++ String nlc (("txnMax" ++ String "=" (dec_of txn))
                ++ String nlc (("txnActiveList" ++ String "=" active) ++ String nlc ""))))))).
  { unfold nl, nlc. cbn [append]. rewrite <- ?append_assoc_s. cbn [append]. reflexivity. }
  rewrite E. clear E.
  assert (Hd : forall n, nocharb nlc (dec_of n) = true)
    by (intros n; apply all_digits_nochar; [reflexivity|apply dec_of_digits]).
  rewrite split_app by (cbn [nocharb]; rewrite Hc; reflexivity).
  rewrite split_app by (rewrite nocharb_app; cbn [nocharb]; rewrite Hd; reflexivity).
  rewrite split_app by (rewrite nocharb_app; cbn [nocharb]; rewrite Hd; reflexivity).
  rewrite split_app by (rewrite nocharb_app; cbn [nocharb]; rewrite render_no_nl by exact V; reflexivity).
  rewrite split_app by (rewrite nocharb_app; cbn [nocharb]; rewrite Hr; reflexivity).
  rewrite split_app by (rewrite nocharb_app; cbn [nocharb]; rewrite Hd; reflexivity).
  rewrite split_app by (rewrite nocharb_app; cbn [nocharb]; rewrite Ha; reflexivity).
  cbn [fold_lines].
  rewrite step_comment.
  rewrite (step_int _ _ "txnMaxQueried" FTxnMaxQ txnq) by (try reflexivity; exact Htxnq).
  rewrite (step_int _ _ "sequenceNumber" FSeq seq) by (try reflexivity; exact Hseq).
  rewrite (step_time fmts _ t Hf V Hns).
  rewrite step_unknown by reflexivity.
  rewrite (step_int _ _ "txnMax" FTxnMax txn) by (try reflexivity; exact Htxn).
  rewrite step_unknown by reflexivity.
  reflexivity.
Qed.

(* ---------------------------------------------------------------- damaged files: a state is
   never made of garbage.  Whatever the bytes are, if decodeIntervalState returns a state then
   its sequence number is the (valid) number of the LAST sequenceNumber line, or 0 when there
   is no such line, and likewise for the time stamp. *)
Definition field_eqb (a b : field) : bool :=
  match a, b with FSeq, FSeq | FTxnMax, FTxnMax | FTxnMaxQ, FTxnMaxQ | FTime, FTime => true | _, _ => false end.

Section Damaged.
  Variable keys : list (string * field).
  Variable fmts : list string.
  Variable kv : ascii.

  (* the trimmed value of a line for field f, if the line is one for f *)
  Definition line_val (f : field) (l : string) : option string :=
    match split_on kv l with
    | p0 :: p1 :: _ =>
        match assoc_key p0 keys with
        | Some f' => if field_eqb f' f then Some (trim p1) else None
        | None => None
        end
    | _ => None
    end.

  Fixpoint last_val (f : field) (ls : list string) : option string :=
    match ls with
    | [] => None
    | l :: r => match last_val f r with Some v => Some v | None => line_val f l end
    end.

  Lemma step_seq : forall st l st', step_line keys fmts kv st l = DOk st' ->
    match line_val FSeq l with
    | Some v => exists n, atoi v = Some n /\ i_seq st' = n mod two64
    | None => i_seq st' = i_seq st
    end.
  Proof.
    intros st l st' H. unfold step_line in H. unfold line_val.
    destruct (split_on kv l) as [|p0 rest]; [inversion H; reflexivity|].
    destruct (assoc_key p0 keys) as [f|].
    - destruct rest as [|p1 rest']; [discriminate|].
      destruct f; cbn [field_eqb].
      + destruct (atoi (trim p1)) as [n|] eqn:A; [|discriminate]. inversion H; subst. cbn. exists n. split; reflexivity.
      + destruct (atoi (trim p1)); [|discriminate]. inversion H; subst. reflexivity.
      + destruct (atoi (trim p1)); [|discriminate]. inversion H; subst. reflexivity.
      + destruct (decode_time fmts (trim p1)); [|discriminate]. inversion H; subst. reflexivity.
    - inversion H; subst. destruct rest; reflexivity.
  Qed.

  Lemma step_tm : forall st l st', step_line keys fmts kv st l = DOk st' ->
    match line_val FTime l with
    | Some v => decode_time fmts v = Some (i_time st')
    | None => i_time st' = i_time st
    end.
  Proof.
    intros st l st' H. unfold step_line in H. unfold line_val.
    destruct (split_on kv l) as [|p0 rest]; [inversion H; reflexivity|].
    destruct (assoc_key p0 keys) as [f|].
    - destruct rest as [|p1 rest']; [discriminate|].
      destruct f; cbn [field_eqb].
      + destruct (atoi (trim p1)); [|discriminate]. inversion H; subst. reflexivity.
      + destruct (atoi (trim p1)); [|discriminate]. inversion H; subst. reflexivity.
      + destruct (atoi (trim p1)); [|discriminate]. inversion H; subst. reflexivity.
      + destruct (decode_time fmts (trim p1)) as [t|] eqn:D; [|discriminate]. inversion H; subst. reflexivity.
    - inversion H; subst. destruct rest; reflexivity.
  Qed.

  Lemma fold_seq : forall ls st0 st, fold_lines keys fmts kv ls st0 = DOk st ->
    match last_val FSeq ls with
    | Some v => exists n, atoi v = Some n /\ i_seq st = n mod two64
    | None => i_seq st = i_seq st0
    end.
  Proof.
    induction ls as [|l r IH]; intros st0 st H.
    - cbn in H. inversion H. reflexivity.
    - cbn [fold_lines] in H. destruct (step_line keys fmts kv st0 l) as [st1| |] eqn:S; try discriminate.
      specialize (IH st1 st H). cbn [last_val].
      destruct (last_val FSeq r) as [v|]; [exact IH|].
      pose proof (step_seq st0 l st1 S) as P. destruct (line_val FSeq l) as [v|].
      + destruct P as (n & A & E). exists n. split; [exact A|congruence].
      + congruence.
  Qed.

  Lemma fold_tm : forall ls st0 st, fold_lines keys fmts kv ls st0 = DOk st ->
    match last_val FTime ls with
    | Some v => decode_time fmts v = Some (i_time st)
    | None => i_time st = i_time st0
    end.
  Proof.
    induction ls as [|l r IH]; intros st0 st H.
    - cbn in H. inversion H. reflexivity.
    - cbn [fold_lines] in H. destruct (step_line keys fmts kv st0 l) as [st1| |] eqn:S; try discriminate.
      specialize (IH st1 st H). cbn [last_val].
      destruct (last_val FTime r) as [v|]; [exact IH|].
      pose proof (step_tm st0 l st1 S) as P. destruct (line_val FTime l) as [v|]; congruence.
  Qed.
End Damaged.

Theorem decode_interval_no_garbage : forall keys fmts ls kv data st,
  decode_interval keys fmts ls kv data = DOk st ->
  (match last_val keys kv FSeq (split_on ls data) with
   | Some v => exists n, atoi v = Some n /\ i_seq st = n mod two64
   | None => i_seq st = 0
   end) /\
  (match last_val keys kv FTime (split_on ls data) with
   | Some v => decode_time fmts v = Some (i_time st)
   | None => i_time st = zero_tm
   end).
Proof.
  intros keys fmts ls kv data st H. unfold decode_interval in H. split.
  - exact (fold_seq keys fmts kv _ _ _ H).
  - exact (fold_tm keys fmts kv _ _ _ H).
Qed.

(* the same for decodeChangesetState: a state comes from the second and third line only, and
   both must read as a time and as an unsigned number *)
Theorem decode_changeset_no_garbage : forall fmts ls kv data n t,
  decode_changeset fmts ls kv 1 2 data = DOk (n, t) ->
  exists l1 l2 p, nth_error (split_on ls data) 1 = Some l1 /\ nth_error (split_on ls data) 2 = Some l2 /\
    decode_time fmts (trim (join kv (tl (split_on kv l1)))) = Some t /\
    nth_error (split_on kv l2) 1 = Some p /\ parse_uint (trim p) = Some n.
Proof.
  intros fmts ls kv data n t H. unfold decode_changeset in H.
  destruct (nth_error (split_on ls data) 1) as [l1|]; [|discriminate].
  destruct (decode_time fmts (trim (join kv (tl (split_on kv l1))))) as [t'|] eqn:D; [|discriminate].
  destruct (nth_error (split_on ls data) 2) as [l2|]; [|discriminate].
  destruct (split_on kv l2) as [|p0 [|p1 rest]] eqn:S; try discriminate.
  destruct (parse_uint (trim p1)) as [m|] eqn:U; [|discriminate]. inversion H; subst.
  exists l1, l2, p1. split; [reflexivity|]. split; [reflexivity|]. split; [exact D|]. split; [rewrite S; reflexivity|exact U].
Qed.

(* time stamps: whatever decodeTime accepts is a real calendar time *)
Lemma parse_elems_day : forall f es s t0 t, parse_elems f es s t0 = Some t ->
  1 <= t_day t <= days_in (t_mon t) (t_year t).
Proof.
  induction f as [|f IH]; intros es s t0 t H; [discriminate|].
  cbn [parse_elems] in H. destruct es as [|e r].
  - destruct s; [|discriminate].
    destruct ((1 <=? t_day t0) && (t_day t0 <=? days_in (t_mon t0) (t_year t0)))%Z eqn:B; [|discriminate].
    inversion H; subst. lia.
  - destruct e.
    + destruct (get4 s) as [[v s']|]; [apply (IH _ _ _ _ H)|discriminate].
    + destruct (getnum true s) as [[v s']|]; [|discriminate]. destruct ((1 <=? v) && (v <=? 12))%Z; [apply (IH _ _ _ _ H)|discriminate].
    + destruct (getnum true s) as [[v s']|]; [apply (IH _ _ _ _ H)|discriminate].
    + destruct (getnum false s) as [[v s']|]; [|discriminate]. destruct (v <? 24)%Z; [apply (IH _ _ _ _ H)|discriminate].
    + destruct (getnum true s) as [[v s']|]; [|discriminate]. destruct (v <? 60)%Z; [apply (IH _ _ _ _ H)|discriminate].
    + destruct (getnum true s) as [[v s']|]; [|discriminate]. destruct (v <? 60)%Z; [|discriminate].
      destruct r as [|e' r']; [|destruct e'];
        try (destruct (frac_opt s') as [[ns s'']|]; apply (IH _ _ _ _ H)); apply (IH _ _ _ _ H).
    + destruct (frac_opt s) as [[ns s']|]; apply (IH _ _ _ _ H).
    + destruct (Ascii.eqb c " ").
      * destruct s as [|a s']; [apply (IH _ _ _ _ H)|]. destruct (Ascii.eqb a " "); [apply (IH _ _ _ _ H)|discriminate].
      * destruct s as [|a s']; [discriminate|]. destruct (Ascii.eqb a c); [apply (IH _ _ _ _ H)|discriminate].
Qed.

Lemma parse_layout_day : forall l s t, parse_layout l s = Some t ->
  1 <= t_day t <= days_in (t_mon t) (t_year t).
Proof.
  intros l s t. unfold parse_layout. destruct (layout_elems l) as [es|]; [|discriminate].
  generalize (S (List.length es)). intros f H. exact (parse_elems_day f es s start_tm t H).
Qed.

Lemma decode_time_cons : forall l r s,
  decode_time (l :: r) s = match parse_layout l s with Some t0 => Some t0 | None => decode_time r s end.
Proof. reflexivity. Qed.

Theorem decode_time_real_day : forall fmts s t, decode_time fmts s = Some t ->
  1 <= t_day t <= days_in (t_mon t) (t_year t).
Proof.
  induction fmts as [|l r IH]; intros s t H.
  - discriminate H.
  - rewrite decode_time_cons in H.
    destruct (parse_layout l s) as [t'|] eqn:P.
    + injection H as ->. exact (parse_layout_day l s t P).
    + exact (IH s t H).
Qed.

(* ---------------------------------------------------------------- the ORDER of the key chain does
   not matter: two key tables that are the same finite map decode every file alike *)
Lemma step_line_ext : forall a b fmts kv st l,
  (forall k, assoc_key k a = assoc_key k b) -> step_line a fmts kv st l = step_line b fmts kv st l.
Proof.
  intros a b fmts kv st l H. unfold step_line. destruct (split_on kv l) as [|p0 rest]; [reflexivity|].
  rewrite (H p0). reflexivity.
Qed.

Lemma fold_lines_ext : forall a b fmts kv, (forall k, assoc_key k a = assoc_key k b) ->
  forall ls st, fold_lines a fmts kv ls st = fold_lines b fmts kv ls st.
Proof.
  intros a b fmts kv H. induction ls as [|l r IH]; intros st; [reflexivity|].
  cbn [fold_lines]. rewrite (step_line_ext a b fmts kv st l H).
  destruct (step_line b fmts kv st l); [apply IH|reflexivity|reflexivity].
Qed.

Lemma decode_interval_ext : forall a b fmts ls kv data, (forall k, assoc_key k a = assoc_key k b) ->
  decode_interval a fmts ls kv data = decode_interval b fmts ls kv data.
Proof. intros. unfold decode_interval. apply fold_lines_ext. assumption. Qed.

Definition field_eq_optb (x y : option field) : bool :=
  match x, y with Some f, Some g => field_eqb f g | None, None => true | _, _ => false end.

Definition same_mapb (a b : list (string * field)) : bool :=
  forallb (fun p => field_eq_optb (assoc_key (fst p) b) (Some (snd p))) a &&
  forallb (fun p => field_eq_optb (assoc_key (fst p) a) (Some (snd p))) b.

Lemma field_eqb_eq : forall f g, field_eqb f g = true -> f = g.
Proof. intros [] []; cbn; intros H; try reflexivity; discriminate. Qed.

Lemma assoc_key_in : forall k l f, assoc_key k l = Some f -> In (k, f) l.
Proof.
  intros k. induction l as [|[k' f'] r IH]; intros f H; [discriminate|].
  cbn [assoc_key] in H. destruct (String.eqb k k') eqn:E.
  - apply String.eqb_eq in E. subst. inversion H; subst. left. reflexivity.
  - right. apply IH. exact H.
Qed.

Lemma same_map_assoc : forall a b, same_mapb a b = true -> forall k, assoc_key k a = assoc_key k b.
Proof.
  intros a b H k. unfold same_mapb in H. apply andb_prop in H. destruct H as [Hab Hba].
  rewrite forallb_forall in Hab, Hba.
  destruct (assoc_key k a) as [f|] eqn:A.
  - specialize (Hab (k, f) (assoc_key_in k a f A)). cbn [fst snd] in Hab.
    destruct (assoc_key k b) as [g|]; [|discriminate]. cbn in Hab. apply field_eqb_eq in Hab. subst. reflexivity.
  - destruct (assoc_key k b) as [g|] eqn:B; [|reflexivity].
    specialize (Hba (k, g) (assoc_key_in k b g B)). cbn [fst snd] in Hba. rewrite A in Hba. discriminate.
Qed.
