(* C19/ProofsDecode.v — what the planet server writes is what the decoders read. *)
From Coq Require Import ZArith List String Ascii Bool Lia DecimalString DecimalN.
From Verif Require Import C19.Decode.
Import ListNotations.
Open Scope Z_scope.
Open Scope string_scope.

Ltac divlia := Z.div_mod_to_equations; lia.

(* ---------------------------------------------------------------- digits *)
Lemma dch_ok : forall k, 0 <= k <= 9 -> is_digit (dch k) = true /\ dval (dch k) = k.
Proof.
  intros k Hk.
  assert (k = 0 \/ k = 1 \/ k = 2 \/ k = 3 \/ k = 4 \/ k = 5 \/ k = 6 \/ k = 7 \/ k = 8 \/ k = 9) as H by lia.
  repeat (destruct H as [H|H]; [subst k; split; reflexivity|]). subst k. split; reflexivity.
Qed.

Lemma dch_digit : forall k, 0 <= k <= 9 -> is_digit (dch k) = true.
Proof. intros k H. apply (dch_ok k H). Qed.
Lemma dch_dval : forall k, 0 <= k <= 9 -> dval (dch k) = k.
Proof. intros k H. apply (dch_ok k H). Qed.

Lemma digit_not : forall a c, is_digit a = true -> is_digit c = false -> Ascii.eqb a c = false.
Proof.
  intros a c Ha Hc. destruct (Ascii.eqb a c) eqn:E; [|reflexivity].
  apply Ascii.eqb_eq in E. subst. rewrite Ha in Hc. discriminate.
Qed.

Lemma append_assoc_s : forall a b c : string, a ++ (b ++ c) = (a ++ b) ++ c.
Proof. induction a as [|x a IH]; intros b c; cbn [append]; [reflexivity|rewrite IH; reflexivity]. Qed.

Lemma get4_d4 : forall y r, 0 <= y < 10000 -> get4 (d4 y ++ r) = Some (y, r).
Proof.
  intros y r Hy. unfold d4, d3'. cbn [append get4].
  rewrite !dch_digit by divlia. cbn [andb]. rewrite !dch_dval by divlia.
  f_equal. f_equal. divlia.
Qed.

Lemma getnum_d2 : forall b x r, 0 <= x < 100 -> getnum b (d2 x ++ r) = Some (x, r).
Proof.
  intros b x r Hx. unfold d2. cbn [append getnum].
  rewrite !dch_digit by divlia. rewrite !dch_dval by divlia. f_equal. f_equal. divlia.
Qed.

Lemma cut_spaces_d2 : forall x r, 0 <= x < 100 -> cut_spaces (d2 x ++ r) = d2 x ++ r.
Proof.
  intros x r Hx. unfold d2. cbn [append cut_spaces].
  rewrite (digit_not (dch (x / 10)) " "%char) by (try reflexivity; apply dch_digit; divlia). reflexivity.
Qed.

Lemma frac_digits_d3 : forall x r n acc, 0 <= x < 1000 -> (n + 3 <= 9)%nat ->
  frac_digits (d3' x ++ r) n acc = frac_digits r (n + 3) (acc * 1000 + x).
Proof.
  intros x r n acc Hx Hn. unfold d3'. cbn [append frac_digits].
  rewrite !dch_digit by divlia. rewrite !dch_dval by divlia.
  assert ((n <? 9)%nat = true) as -> by (apply Nat.ltb_lt; lia).
  assert ((S n <? 9)%nat = true) as -> by (apply Nat.ltb_lt; lia).
  assert ((S (S n) <? 9)%nat = true) as -> by (apply Nat.ltb_lt; lia).
  replace (S (S (S n))) with (n + 3)%nat by lia. f_equal. divlia.
Qed.

Lemma frac_opt_d9 : forall ns c r, 0 <= ns < 1000000000 -> is_digit c = false ->
  frac_opt (String "."%char (d9 ns ++ String c r)) = Some (ns, String c r).
Proof.
  intros ns c r Hns Hc. unfold frac_opt.
  assert (Hd : d9 ns ++ String c r =
               String (dch (ns / 1000000 / 100)) (String (dch ((ns / 1000000 / 10) mod 10))
                 (String (dch (ns / 1000000 mod 10))
                    (d3' ((ns / 1000) mod 1000) ++ d3' (ns mod 1000) ++ String c r)))).
  { unfold d9, d3'. cbn [append]. reflexivity. }
  rewrite Hd. cbn [Ascii.eqb Bool.eqb orb andb].
  rewrite dch_digit by divlia. cbn [andb].
  rewrite <- Hd. unfold d9. rewrite <- !append_assoc_s.
  rewrite frac_digits_d3 by (try divlia; lia).
  rewrite frac_digits_d3 by (try divlia; lia).
  rewrite frac_digits_d3 by (try divlia; lia).
  cbn [frac_digits]. rewrite Hc. cbn [Nat.add Nat.sub pow10].
  f_equal. f_equal. divlia.
Qed.

(* ---------------------------------------------------------------- times *)
Definition L0 := "2006-01-02 15:04:05.999999999 Z".
Definition L1 := "2006-01-02 15:04:05.999999999 +00:00".
Definition L2 := "2006-01-02T15\:04\:05Z".
Definition planet_formats := [L0; L1; L2].

Definition date_elems := [EYear; ELit "-"; EMon; ELit "-"; EDay]%char.
Lemma elems_L0 : layout_elems L0 = Some (date_elems ++ [ELit " "; EHour; ELit ":"; EMin; ELit ":"; ESec; EFrac9; ELit " "; ELit "Z"]%char)%list.
Proof. vm_compute. reflexivity. Qed.
Lemma elems_L1 : layout_elems L1 = Some (date_elems ++ [ELit " "; EHour; ELit ":"; EMin; ELit ":"; ESec; EFrac9; ELit " "; ELit "+"; ELit "0"; ELit "0"; ELit ":"; ELit "0"; ELit "0"]%char)%list.
Proof. vm_compute. reflexivity. Qed.
Lemma elems_L2 : layout_elems L2 = Some (date_elems ++ [ELit "T"; EHour; ELit "\"; ELit ":"; EMin; ELit "\"; ELit ":"; ESec; ELit "Z"]%char)%list.
Proof. vm_compute. reflexivity. Qed.

Record valid (t : tm) : Prop := {
  v_year : 0 <= t_year t < 10000; v_mon : 1 <= t_mon t <= 12;
  v_day : 1 <= t_day t <= days_in (t_mon t) (t_year t);
  v_hour : 0 <= t_hour t < 24; v_min : 0 <= t_min t < 60; v_sec : 0 <= t_sec t < 60;
  v_nsec : 0 <= t_nsec t < 1000000000 }.

Lemma valid_tm_valid : forall t, valid_tm t = true -> valid t.
Proof.
  intros t H. unfold valid_tm in H. repeat (apply andb_prop in H; destruct H as [H ?]).
  constructor; lia.
Qed.

Lemma days_in_le : forall m y, days_in m y <= 31.
Proof. intros m y. unfold days_in. destruct (Z.eqb m 2); [destruct (leap y); lia|]. destruct (_ || _); lia. Qed.

Ltac bools t V :=
  pose proof (v_year t V) as Vy; pose proof (v_mon t V) as Vmo; pose proof (v_day t V) as Vd;
  pose proof (v_hour t V) as Vh; pose proof (v_min t V) as Vmi; pose proof (v_sec t V) as Vs;
  pose proof (v_nsec t V) as Vn; pose proof (days_in_le (t_mon t) (t_year t)) as Vdi;
  assert (Z.leb 1 (t_mon t) && Z.leb (t_mon t) 12 = true) as Bmo by lia;
  assert (Z.ltb (t_hour t) 24 = true) as Bh by lia;
  assert (Z.ltb (t_min t) 60 = true) as Bmi by lia;
  assert (Z.ltb (t_sec t) 60 = true) as Bs by lia;
  assert (Z.leb 1 (t_day t) && Z.leb (t_day t) (days_in (t_mon t) (t_year t)) = true) as Bd by lia.

Ltac pstep :=
  cbn [parse_elems append Ascii.eqb Bool.eqb andb cut_spaces cut_space_elems t_year t_mon t_day t_hour t_min t_sec t_nsec];
  rewrite ?get4_d4, ?getnum_d2, ?cut_spaces_d2 by lia.

(* the date part, common to the three layouts *)
Lemma parse_date : forall f rest t s t0, valid t ->
  parse_elems (S (S (S (S (S f))))) (date_elems ++ rest)%list
      (d4 (t_year t) ++ "-" ++ d2 (t_mon t) ++ "-" ++ d2 (t_day t) ++ s) t0 =
  parse_elems f rest s {| t_year := t_year t; t_mon := t_mon t; t_day := t_day t;
                          t_hour := t_hour t0; t_min := t_min t0; t_sec := t_sec t0; t_nsec := t_nsec t0 |}.
Proof.
  intros f rest t s t0 V. bools t V. unfold date_elems. cbn [app].
  pstep. pstep. pstep. rewrite Bmo. pstep. pstep. reflexivity.
Qed.

Lemma tm_eta : forall t, {| t_year := t_year t; t_mon := t_mon t; t_day := t_day t; t_hour := t_hour t;
                            t_min := t_min t; t_sec := t_sec t; t_nsec := t_nsec t |} = t.
Proof. destruct t; reflexivity. Qed.

Ltac psteps := repeat (progress (pstep; rewrite ?Ascii.eqb_refl)).

Lemma parse_L2 : forall t, valid t -> t_nsec t = 0 -> parse_layout L2 (render_time 2 t) = Some t.
Proof.
  intros t V Hns. bools t V. unfold parse_layout. rewrite elems_L2. unfold render_time. cbn [Z.eqb Pos.eqb].
  match goal with |- parse_elems ?n _ _ _ = _ => let k := eval vm_compute in n in change n with k end.
  rewrite (parse_date _ _ t _ start_tm V).
  psteps. rewrite Bh, Bmi, Bs. cbn [frac_opt]. rewrite Bd. cbn [start_tm t_nsec].
  rewrite <- Hns. rewrite tm_eta. reflexivity.
Qed.

Lemma parse_L01 : forall k t, valid t -> (k = 0 \/ k = 1) ->
  parse_layout (if Z.eqb k 0 then L0 else L1) (render_time k t) = Some t.
Proof.
  intros k t V Hk. bools t V. unfold parse_layout, render_time.
  destruct Hk as [-> | ->]; cbn [Z.eqb Pos.eqb].
  - rewrite elems_L0.
    match goal with |- parse_elems ?n _ _ _ = _ => let k := eval vm_compute in n in change n with k end.
    rewrite (parse_date _ _ t _ start_tm V).
    psteps. rewrite Bh, Bmi, Bs.
    rewrite frac_opt_d9 by (try lia; reflexivity). psteps. rewrite Bd. rewrite tm_eta. reflexivity.
  - rewrite elems_L1.
    match goal with |- parse_elems ?n _ _ _ = _ => let k := eval vm_compute in n in change n with k end.
    rewrite (parse_date _ _ t _ start_tm V).
    psteps. rewrite Bh, Bmi, Bs.
    rewrite frac_opt_d9 by (try lia; reflexivity). psteps. rewrite Bd. rewrite tm_eta. reflexivity.
Qed.

(* an earlier format does not accept what a later one is for *)
Lemma L0_rejects_1 : forall t, valid t -> parse_layout L0 (render_time 1 t) = None.
Proof.
  intros t V. bools t V. unfold parse_layout, render_time. cbn [Z.eqb Pos.eqb]. rewrite elems_L0.
  match goal with |- parse_elems ?n _ _ _ = _ => let k := eval vm_compute in n in change n with k end.
  rewrite (parse_date _ _ t _ start_tm V).
  psteps. rewrite Bh, Bmi, Bs.
  rewrite frac_opt_d9 by (try lia; reflexivity). psteps. reflexivity.
Qed.

Lemma L01_reject_2 : forall l t, valid t -> (l = L0 \/ l = L1) -> parse_layout l (render_time 2 t) = None.
Proof.
  intros l t V Hl. bools t V. unfold parse_layout, render_time. cbn [Z.eqb Pos.eqb].
  destruct Hl as [-> | ->]; [rewrite elems_L0|rewrite elems_L1];
    (match goal with |- parse_elems ?n _ _ _ = _ => let k := eval vm_compute in n in change n with k end);
    rewrite (parse_date _ _ t _ start_tm V); psteps; reflexivity.
Qed.

(* decodeTime reads what the planet server writes: the three forms of a time stamp *)
Theorem decode_time_planet : forall k t, valid t -> (k = 0 \/ k = 1 \/ (k = 2 /\ t_nsec t = 0)) ->
  decode_time planet_formats (render_time k t) = Some t.
Proof.
  intros k t V Hk. unfold planet_formats. cbn [decode_time].
  destruct Hk as [-> | [-> | [-> Hns]]].
  - pose proof (parse_L01 0 t V (or_introl eq_refl)) as P. cbn [Z.eqb] in P. rewrite P. reflexivity.
  - rewrite (L0_rejects_1 t V). pose proof (parse_L01 1 t V (or_intror eq_refl)) as P. cbn [Z.eqb] in P.
    rewrite P. reflexivity.
  - rewrite (L01_reject_2 L0 t V (or_introl eq_refl)), (L01_reject_2 L1 t V (or_intror eq_refl)).
    rewrite (parse_L2 t V Hns). reflexivity.
Qed.
