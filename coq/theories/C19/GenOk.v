(* C19/GenOk.v — obligations tying the data regenerated from /repo/replication
   (gen/GenReplication.v) to the parametric definitions the theorems are about.  Stated
   semantically (equal values for all n >= 0), so that rewriting the arithmetic or reordering
   the source does not break them. *)
From Coq Require Import ZArith List String Ascii Bool Lia.
From Verif Require Import C19.Model C19.Urls C19.ProofsUrl.
From VerifGen Require Import GenReplication.
Import ListNotations.
Open Scope Z_scope.

(* Go's / and % truncate (Z.quot, Z.rem); on the non-negative numbers here they are / and mod *)
Ltac nn := first [ lia | apply Z.rem_nonneg; lia | apply Z.quot_pos; lia | (Z.div_mod_to_equations; lia) ].
Ltac eucl :=
  repeat first [ rewrite Z.rem_mod_nonneg by nn | rewrite Z.quot_div_nonneg by nn ];
  Z.div_mod_to_equations; lia.

(* the integer arguments of both URL builders are the three components of the planet layout *)
Lemma gen_seq_url_args : forall n, 0 <= n -> seq_url_args n = components n.
Proof.
  intros n Hn. unfold seq_url_args, components.
  f_equal; [eucl|]. f_equal; [eucl|]. f_equal. eucl.
Qed.

Lemma gen_changeset_url_args : forall n, 0 <= n -> changeset_url_args n = components n.
Proof.
  intros n Hn. unfold changeset_url_args, components.
  f_equal; [eucl|]. f_equal; [eucl|]. f_equal. eucl.
Qed.

(* the formats print  <base>/replication/<dir>/AAA/BBB/CCC  for three components below 1000 *)
Lemma gen_seq_url_format : forall base dir a b c,
  0 <= a < 1000 -> 0 <= b < 1000 -> 0 <= c < 1000 ->
  sprintf seq_url_format [base; dir] [a; b; c] =
  Some (base ++ "/replication/" ++ dir ++ "/" ++ d3 a ++ "/" ++ d3 b ++ "/" ++ d3 c)%string.
Proof. exact sprintf_layout. Qed.

Lemma gen_changeset_url_format : forall base dir a b c,
  0 <= a < 1000 -> 0 <= b < 1000 -> 0 <= c < 1000 ->
  sprintf changeset_url_format [base; dir] [a; b; c] =
  Some (base ++ "/replication/" ++ dir ++ "/" ++ d3 a ++ "/" ++ d3 b ++ "/" ++ d3 c)%string.
Proof. exact sprintf_layout. Qed.

Lemma gen_suffixes :
  seq_state_suffix = ".state.txt"%string /\ seq_data_suffix = ".osc.gz"%string /\
  changeset_state_suffix = ".state.txt"%string /\ changeset_data_suffix = ".osm.gz"%string.
Proof. repeat split; reflexivity. Qed.

Lemma gen_dirs :
  dir_minute = "minute"%string /\ dir_hour = "hour"%string /\ dir_day = "day"%string /\
  dir_changesets = "changesets"%string.
Proof. repeat split; reflexivity. Qed.

Lemma gen_current : forall base dir,
  sprintf seq_current_format [base; dir] [] = Some (base ++ "/replication/" ++ dir ++ "/state.txt")%string /\
  sprintf changeset_current_format [base; dir] [] = Some (base ++ "/replication/" ++ dir ++ "/state.yaml")%string.
Proof. intros base dir. split; reflexivity. Qed.

(* every search starts at a sequence number >= 1 (0 would name the current state file) *)
Lemma gen_min_pos : forall k, 1 <= kind_min k.
Proof.
  intros k. unfold kind_min. destruct (k =? 0); [|destruct (k =? 1); [|destruct (k =? 2)]];
    vm_compute; discriminate.
Qed.

(* the changeset state's off-by-one: the current state file names the file before the newest
   one, a numbered file is given the number of its name *)
Lemma gen_changeset_fix : forall n k,
  changeset_seq_fix 0 k = k + 1 /\ (n <> 0 -> changeset_seq_fix n k = n).
Proof.
  intros n k. split; [reflexivity|]. intros Hn. unfold changeset_seq_fix.
  destruct (Z.eqb_spec n 0) as [E|E]; [contradiction|reflexivity].
Qed.

(* the three time formats seen on the planet server are accepted *)
Lemma gen_time_formats :
  In "2006-01-02T15\:04\:05Z"%string time_formats /\
  In "2006-01-02 15:04:05.999999999 Z"%string time_formats /\
  In "2006-01-02 15:04:05.999999999 +00:00"%string time_formats.
Proof. repeat split; vm_compute; tauto. Qed.

(* ---- consequences over the generated definitions ---- *)

Lemma state_url_planet : forall k base n, 0 <= n < 1000000000 ->
  state_url k base n = Some (planet_path base (kind_dir k) n ++ ".state.txt")%string.
Proof.
  intros k base n Hn. unfold state_url, url_of.
  destruct (k =? 3).
  - rewrite gen_changeset_url_args by lia. change changeset_url_format with seq_url_format.
    change seq_url_format with "%s/replication/%s/%03d/%03d/%03d"%string.
    rewrite planet_layout by exact Hn. reflexivity.
  - rewrite gen_seq_url_args by lia.
    change seq_url_format with "%s/replication/%s/%03d/%03d/%03d"%string.
    rewrite planet_layout by exact Hn. reflexivity.
Qed.

Lemma data_url_planet : forall k base n, 0 <= n < 1000000000 ->
  data_url k base n =
  Some (planet_path base (kind_dir k) n ++ (if Z.eqb k 3 then ".osm.gz" else ".osc.gz"))%string.
Proof.
  intros k base n Hn. unfold data_url, url_of.
  destruct (k =? 3).
  - rewrite gen_changeset_url_args by lia. change changeset_url_format with seq_url_format.
    change seq_url_format with "%s/replication/%s/%03d/%03d/%03d"%string.
    rewrite planet_layout by exact Hn. reflexivity.
  - rewrite gen_seq_url_args by lia.
    change seq_url_format with "%s/replication/%s/%03d/%03d/%03d"%string.
    rewrite planet_layout by exact Hn. reflexivity.
Qed.

(* ---- behaviour samples of the fetch path (translator probe through the exported entry points):
   the URLs the code really requests and the sequence numbers it really returns are those the
   model computes.  These obligations hold whether the definitions above were read off the
   syntax or are the canonical ones (see tie_modes in GenReplication.v). *)
Definition sample_url_ok (s : Z * Z * Z * string) : bool :=
  let '(k, w, n, u) := s in
  let m := if w =? 0 then state_url k "http://B" n
           else if w =? 1 then data_url k "http://B" n else current_url k "http://B" in
  match m with Some x => String.eqb x u | None => false end.

Lemma gen_url_samples : (100 <=? Z.of_nat (List.length url_samples)) && forallb sample_url_ok url_samples = true.
Proof. vm_compute. reflexivity. Qed.

Lemma gen_fix_samples :
  (6 <=? Z.of_nat (List.length fix_samples)) &&
  forallb (fun '(n, k, r) => fetched_seq 3 n k =? r) fix_samples &&
  existsb (fun '(n, k, r) => n =? 0) fix_samples && existsb (fun '(n, k, r) => negb (n =? 0) && negb (k + 1 =? n)) fix_samples = true.
Proof. vm_compute. reflexivity. Qed.

(* the first numbered state file a lookup by time asks for (observed by the probe on the four
   ...StateAt entry points) is the Min the model searches from *)
Lemma gen_first_samples :
  (4 <=? Z.of_nat (List.length first_samples)) && forallb (fun '(k, n) => kind_min k =? n) first_samples = true.
Proof. vm_compute. reflexivity. Qed.

(* ---- the decoders' data: keys, separators, line numbers, number parsers, time formats ---- *)
From Verif Require Import C19.Decode C19.DecodeGen C19.ProofsDecode.

(* the key chain of decodeIntervalState, as a finite map key -> State field, is the planet one;
   the order of its branches / cases is free *)
Definition gen_keys : list (string * field) :=
  match keys_of interval_keys with Some ks => ks | None => [] end.

Lemma gen_interval_keys : keys_of interval_keys = Some gen_keys /\ same_mapb gen_keys planet_keys = true.
Proof. split; vm_compute; reflexivity. Qed.

Lemma gen_keys_assoc : forall k, assoc_key k gen_keys = assoc_key k planet_keys.
Proof. apply same_map_assoc. exact (proj2 gen_interval_keys). Qed.

Lemma gen_interval_seps : sep_at interval_seps 0 = Some nlc /\ sep_at interval_seps 1 = Some "="%char.
Proof. split; reflexivity. Qed.

(* decodeChangesetState: the file is cut into lines at newlines; every other Split / SplitN / Cut
   (and the Join, when the value is re-joined) is at ":"; the time is on line 1, the sequence on
   line 2.  (bytes.Cut at the first ":" = Split at ":" and Join of the tail: both give everything
   after the first colon, which is what decode_changeset models.) *)
Lemma gen_changeset_shape :
  sep_at changeset_seps 0 = Some nlc /\ sep_at changeset_seps 1 = Some ":"%char /\
  forallb (String.eqb ":") (tl changeset_seps) = true /\
  forallb (String.eqb ":") changeset_join_seps = true /\
  changeset_line_indices = [1; 2].
Proof. repeat split; reflexivity. Qed.

(* strconv.Atoi for the three integer fields of the interval state, strconv.ParseUint for the
   changeset sequence: what the model's atoi / parse_uint stand for *)
Lemma gen_parsers :
  interval_parsers = ["strconv.Atoi"; "strconv.Atoi"; "strconv.Atoi"]%string /\
  changeset_parsers = ["strconv.ParseUint"]%string.
Proof. split; reflexivity. Qed.

(* timeFormats holds exactly the three planet formats, in any order *)
Definition subsetb (a b : list string) : bool := forallb (fun x => existsb (String.eqb x) b) a.

Lemma subsetb_In : forall a b, subsetb a b = true -> forall x, In x a -> In x b.
Proof.
  intros a b H x Hx. unfold subsetb in H. rewrite forallb_forall in H. specialize (H x Hx).
  apply existsb_exists in H. destruct H as (y & Hy & E). apply String.eqb_eq in E. subst. exact Hy.
Qed.

Lemma gen_time_formats_set : subsetb time_formats planet_formats && subsetb planet_formats time_formats = true.
Proof. vm_compute. reflexivity. Qed.

Lemma gen_reads_planet_times : reads_planet_times time_formats.
Proof.
  pose proof gen_time_formats_set as H. apply andb_prop in H. destruct H as [H1 H2].
  intros k t V Hk. apply decode_time_any; [exact V|exact Hk|exact (subsetb_In _ _ H1)|].
  apply (subsetb_In _ _ H2). unfold layout_of, planet_formats.
  destruct Hk as [-> | [-> | [-> _]]]; cbn [Z.eqb Pos.eqb In]; auto.
Qed.

Lemma decode_interval_gen_eq : forall data,
  decode_interval_gen data = Some (decode_interval planet_keys time_formats nlc "="%char data).
Proof.
  intros data. rewrite <- (decode_interval_ext gen_keys planet_keys time_formats nlc "="%char data gen_keys_assoc).
  reflexivity.
Qed.

Lemma decode_changeset_gen_eq : forall data,
  decode_changeset_gen data = Some (decode_changeset time_formats nlc ":"%char 1 2 data).
Proof. reflexivity. Qed.
