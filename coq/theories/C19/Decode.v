(* C19/Decode.v — executable model of the state-file decoders of /repo/replication:
   decodeIntervalState (interval.go), decodeChangesetState (changesets.go) and decodeTime
   (datasource.go) at byte / line / field level.

   Files are Coq strings (byte strings).  The results make the three possible behaviours of
   the Go code explicit: a state, an error, or a PANIC (index out of range on parts[1] /
   lines[k]) -- the code does have those, see notes/C19.md.

   time.Parse is modelled for the layout elements that occur in timeFormats
   (2006 01 02 15 04 05 .999999999 and literals, a literal space matching a run of spaces,
   an unannounced fractional second after the seconds, 1-2 digit hours, day-of-month
   validation).  A time is kept as its civil fields (UTC), not as an instant: no calendar
   arithmetic is needed to state that what the server wrote is what is read.
   strconv.Atoi / ParseUint(.,10,64): optional sign (Atoi only), at least one digit, only
   digits, range check.  bytes.TrimSpace: ASCII white space (the harness sends ASCII only).
   Definitions only. *)
From Coq Require Import ZArith List String Ascii Bool DecimalString DecimalN.
Import ListNotations.
Open Scope Z_scope.

(* ---------------------------------------------------------------- bytes helpers *)
Definition is_digit (a : ascii) : bool :=
  let n := N_of_ascii a in (48 <=? n)%N && (n <=? 57)%N.
Definition dval (a : ascii) : Z := Z.of_N (N_of_ascii a) - 48.

Fixpoint all_digits (s : string) : bool :=
  match s with EmptyString => true | String a r => is_digit a && all_digits r end.

(* bytes.Split(s, sep) for a one-byte separator: always at least one part *)
Fixpoint split_on (c : ascii) (s : string) : list string :=
  match s with
  | EmptyString => [EmptyString]
  | String a r =>
      if Ascii.eqb a c then EmptyString :: split_on c r
      else match split_on c r with
           | p :: ps => String a p :: ps
           | [] => [String a EmptyString]
           end
  end.

Fixpoint join (c : ascii) (l : list string) : string :=
  match l with
  | [] => EmptyString
  | [x] => x
  | x :: r => x ++ String c (join c r)
  end.

Definition is_space (a : ascii) : bool :=
  let n := N_of_ascii a in ((9 <=? n)%N && (n <=? 13)%N) || (n =? 32)%N.
Fixpoint ltrim (s : string) : string :=
  match s with String a r => if is_space a then ltrim r else s | EmptyString => EmptyString end.
Fixpoint rtrim (s : string) : string :=
  match s with
  | EmptyString => EmptyString
  | String a r => let r' := rtrim r in
                  if is_space a && match r' with EmptyString => true | _ => false end
                  then EmptyString else String a r'
  end.
Definition trim (s : string) : string := rtrim (ltrim s).

Definition uint_val (s : string) : option Z :=
  match NilEmpty.uint_of_string s with Some d => Some (Z.of_N (N.of_uint d)) | None => None end.

Definition two63 : Z := 9223372036854775808.
Definition two64 : Z := 18446744073709551616.

(* strconv.Atoi on a 64-bit platform *)
Definition atoi (s : string) : option Z :=
  let '(neg, body) :=
    match s with
    | String "-" r => (true, r)
    | String "+" r => (false, r)
    | _ => (false, s)
    end in
  match body with
  | EmptyString => None
  | _ => if all_digits body then
           match uint_val body with
           | Some n => let z := if neg then - n else n in
                       if (- two63 <=? z) && (z <? two63) then Some z else None
           | None => None
           end
         else None
  end.

(* strconv.ParseUint(s, 10, 64) *)
Definition parse_uint (s : string) : option Z :=
  match s with
  | EmptyString => None
  | _ => if all_digits s then
           match uint_val s with
           | Some n => if n <? two64 then Some n else None
           | None => None
           end
         else None
  end.

(* ---------------------------------------------------------------- time.Parse, field level *)
Record tm := { t_year : Z; t_mon : Z; t_day : Z; t_hour : Z; t_min : Z; t_sec : Z; t_nsec : Z }.
Definition zero_tm : tm := {| t_year := 1; t_mon := 1; t_day := 1; t_hour := 0; t_min := 0; t_sec := 0; t_nsec := 0 |}.
Definition tm_eqb (a b : tm) : bool :=
  (t_year a =? t_year b) && (t_mon a =? t_mon b) && (t_day a =? t_day b) && (t_hour a =? t_hour b)
  && (t_min a =? t_min b) && (t_sec a =? t_sec b) && (t_nsec a =? t_nsec b).

Inductive elem := EYear | EMon | EDay | EHour | EMin | ESec | EFrac9 | ELit (c : ascii).

(* the layout elements (nextStdChunk restricted to what timeFormats uses); None when the layout
   uses something this model does not cover *)
Fixpoint tokenize (fuel : nat) (l : string) : option (list elem) :=
  match fuel with
  | O => None
  | S f =>
      match l with
      | EmptyString => Some []
      | String "2" (String "0" (String "0" (String "6" r))) => option_map (cons EYear) (tokenize f r)
      | String "0" (String "1" r) => option_map (cons EMon) (tokenize f r)
      | String "0" (String "2" r) => option_map (cons EDay) (tokenize f r)
      | String "1" (String "5" r) => option_map (cons EHour) (tokenize f r)
      | String "0" (String "4" r) => option_map (cons EMin) (tokenize f r)
      | String "0" (String "5" r) => option_map (cons ESec) (tokenize f r)
      | String "." (String "9" (String "9" (String "9" (String "9" (String "9" (String "9"
          (String "9" (String "9" (String "9" r))))))))) =>
          match r with
          | String a _ => if is_digit a then None else option_map (cons EFrac9) (tokenize f r)
          | EmptyString => option_map (cons EFrac9) (tokenize f r)
          end
      | String c r =>
          (* characters that start other layout elements are not modelled *)
          if existsb (Ascii.eqb c) ["1"; "2"; "3"; "4"; "5"; "6"; "J"; "M"; "P"; "p"; "_"; "."; ","]%char
          then None
          else match c, r with
               | "Z"%char, String "0" (String "7" _) => None
               | "-"%char, String "0" (String "7" _) => None
               | "0"%char, String "0" (String "2" _) => None
               | "0"%char, String "3" _ => None
               | "0"%char, String "6" _ => None
               | _, _ => option_map (cons (ELit c)) (tokenize f r)
               end
      end
  end.
Definition layout_elems (l : string) : option (list elem) := tokenize (S (String.length l)) l.

(* getnum(value, fixed) *)
Definition getnum (fixed : bool) (s : string) : option (Z * string) :=
  match s with
  | String a r =>
      if is_digit a then
        match r with
        | String b r' =>
            if is_digit b then Some (dval a * 10 + dval b, r')
            else if fixed then None else Some (dval a, r)
        | EmptyString => if fixed then None else Some (dval a, r)
        end
      else None
  | EmptyString => None
  end.

Definition get4 (s : string) : option (Z * string) :=
  match s with
  | String a (String b (String c (String d r))) =>
      if is_digit a && is_digit b && is_digit c && is_digit d
      then Some (dval a * 1000 + dval b * 100 + dval c * 10 + dval d, r) else None
  | _ => None
  end.

(* the run of digits at the head of s: (number of digits, value of the first (up to) 9 scaled
   to 9 digits, rest) *)
Fixpoint frac_digits (s : string) (n : nat) (acc : Z) : nat * Z * string :=
  match s with
  | String a r =>
      if is_digit a then frac_digits r (S n) (if (n <? 9)%nat then acc * 10 + dval a else acc)
      else (n, acc, s)
  | EmptyString => (n, acc, s)
  end.
Fixpoint pow10 (k : nat) : Z := match k with O => 1 | S j => 10 * pow10 j end.

(* a fractional second [.,]d+ at the head of s, if there is one *)
Definition frac_opt (s : string) : option (Z * string) :=
  match s with
  | String p (String a r) =>
      if (Ascii.eqb p "." || Ascii.eqb p ",") && is_digit a then
        let '(n, v, rest) := frac_digits (String a r) 0 0 in
        Some (v * pow10 (9 - n), rest)
      else None
  | _ => None
  end.

Fixpoint cut_spaces (s : string) : string :=
  match s with String a r => if Ascii.eqb a " " then cut_spaces r else s | EmptyString => s end.
Fixpoint cut_space_elems (es : list elem) : list elem :=
  match es with ELit " " :: r => cut_space_elems r | _ => es end.

Definition leap (y : Z) : bool := (y mod 4 =? 0) && (negb (y mod 100 =? 0) || (y mod 400 =? 0)).
Definition days_in (m y : Z) : Z :=
  if m =? 2 then (if leap y then 29 else 28)
  else if (m =? 4) || (m =? 6) || (m =? 9) || (m =? 11) then 30 else 31.

Fixpoint parse_elems (fuel : nat) (es : list elem) (s : string) (t : tm) : option tm :=
  match fuel with
  | O => None
  | S f =>
  match es with
  | [] => match s with
          | EmptyString =>
              if (1 <=? t_day t) && (t_day t <=? days_in (t_mon t) (t_year t)) then Some t else None
          | _ => None                                       (* extra text *)
          end
  | EYear :: r =>
      match get4 s with
      | Some (v, s') => parse_elems f r s' {| t_year := v; t_mon := t_mon t; t_day := t_day t; t_hour := t_hour t; t_min := t_min t; t_sec := t_sec t; t_nsec := t_nsec t |}
      | None => None
      end
  | EMon :: r =>
      match getnum true s with
      | Some (v, s') => if (1 <=? v) && (v <=? 12)
                        then parse_elems f r s' {| t_year := t_year t; t_mon := v; t_day := t_day t; t_hour := t_hour t; t_min := t_min t; t_sec := t_sec t; t_nsec := t_nsec t |}
                        else None
      | None => None
      end
  | EDay :: r =>
      match getnum true s with
      | Some (v, s') => parse_elems f r s' {| t_year := t_year t; t_mon := t_mon t; t_day := v; t_hour := t_hour t; t_min := t_min t; t_sec := t_sec t; t_nsec := t_nsec t |}
      | None => None
      end
  | EHour :: r =>
      match getnum false s with
      | Some (v, s') => if v <? 24
                        then parse_elems f r s' {| t_year := t_year t; t_mon := t_mon t; t_day := t_day t; t_hour := v; t_min := t_min t; t_sec := t_sec t; t_nsec := t_nsec t |}
                        else None
      | None => None
      end
  | EMin :: r =>
      match getnum true s with
      | Some (v, s') => if v <? 60
                        then parse_elems f r s' {| t_year := t_year t; t_mon := t_mon t; t_day := t_day t; t_hour := t_hour t; t_min := v; t_sec := t_sec t; t_nsec := t_nsec t |}
                        else None
      | None => None
      end
  | ESec :: r =>
      match getnum true s with
      | Some (v, s') =>
          if v <? 60 then
            let t' := {| t_year := t_year t; t_mon := t_mon t; t_day := t_day t; t_hour := t_hour t; t_min := t_min t; t_sec := v; t_nsec := t_nsec t |} in
            match r with
            | EFrac9 :: _ => parse_elems f r s' t'
            | _ =>
                (* a fractional second in the input although the layout has none *)
                match frac_opt s' with
                | Some (ns, s'') => parse_elems f r s'' {| t_year := t_year t'; t_mon := t_mon t'; t_day := t_day t'; t_hour := t_hour t'; t_min := t_min t'; t_sec := t_sec t'; t_nsec := ns |}
                | None => parse_elems f r s' t'
                end
            end
          else None
      | None => None
      end
  | EFrac9 :: r =>
      match frac_opt s with
      | Some (ns, s') => parse_elems f r s' {| t_year := t_year t; t_mon := t_mon t; t_day := t_day t; t_hour := t_hour t; t_min := t_min t; t_sec := t_sec t; t_nsec := ns |}
      | None => parse_elems f r s t                         (* fractional second omitted *)
      end
  | ELit c :: r =>
      if Ascii.eqb c " " then
        match s with
        | String a _ => if Ascii.eqb a " " then parse_elems f (cut_space_elems r) (cut_spaces s) t else None
        | EmptyString => parse_elems f (cut_space_elems r) s t
        end
      else
        match s with
        | String a s' => if Ascii.eqb a c then parse_elems f r s' t else None
        | EmptyString => None
        end
  end
  end.

(* month and day start at -1 in time.parse and become 1 when the layout has none; all our
   layouts have both, so the start value is immaterial *)
Definition start_tm : tm := {| t_year := 0; t_mon := 1; t_day := 1; t_hour := 0; t_min := 0; t_sec := 0; t_nsec := 0 |}.

Definition parse_layout (l : string) (s : string) : option tm :=
  match layout_elems l with
  | Some es => parse_elems (S (List.length es)) es s start_tm
  | None => None
  end.

(* decodeTime: the first format that parses *)
Fixpoint decode_time (formats : list string) (s : string) : option tm :=
  match formats with
  | [] => None
  | l :: r => match parse_layout l s with Some t => Some t | None => decode_time r s end
  end.

(* ---------------------------------------------------------------- decodeIntervalState *)
Inductive dres (A : Type) := DOk (a : A) | DErr | DPanic.
Arguments DOk {A} a. Arguments DErr {A}. Arguments DPanic {A}.

Inductive field := FSeq | FTxnMax | FTxnMaxQ | FTime.
Definition field_of_name (n : string) : option field :=
  if String.eqb n "SeqNum" then Some FSeq else if String.eqb n "TxnMax" then Some FTxnMax
  else if String.eqb n "TxnMaxQueried" then Some FTxnMaxQ else if String.eqb n "Timestamp" then Some FTime
  else None.

Record istate := { i_seq : Z; i_time : tm; i_txn : Z; i_txnq : Z }.
Definition zero_istate : istate := {| i_seq := 0; i_time := zero_tm; i_txn := 0; i_txnq := 0 |}.

Fixpoint assoc_key (k : string) (keys : list (string * field)) : option field :=
  match keys with
  | [] => None
  | (k', f) :: r => if String.eqb k k' then Some f else assoc_key k r
  end.

Definition head_char (s : string) (d : ascii) : ascii := match s with String a _ => a | EmptyString => d end.

Section Interval.
  Variable keys : list (string * field).     (* the if / else-if chain on parts[0] *)
  Variable formats : list string.            (* timeFormats *)
  Variable kv_sep : ascii.                   (* "=" *)

  Definition step_line (st : istate) (l : string) : dres istate :=
    match split_on kv_sep l with
    | p0 :: rest =>
        match assoc_key p0 keys with
        | None => DOk st
        | Some f =>
            match rest with
            | [] => DPanic                               (* parts[1]: index out of range *)
            | p1 :: _ =>
                let v := trim p1 in
                match f with
                | FSeq => match atoi v with
                          | Some n => DOk {| i_seq := n mod two64; i_time := i_time st; i_txn := i_txn st; i_txnq := i_txnq st |}
                          | None => DErr end
                | FTxnMax => match atoi v with
                             | Some n => DOk {| i_seq := i_seq st; i_time := i_time st; i_txn := n; i_txnq := i_txnq st |}
                             | None => DErr end
                | FTxnMaxQ => match atoi v with
                              | Some n => DOk {| i_seq := i_seq st; i_time := i_time st; i_txn := i_txn st; i_txnq := n |}
                              | None => DErr end
                | FTime => match decode_time formats v with
                           | Some t => DOk {| i_seq := i_seq st; i_time := t; i_txn := i_txn st; i_txnq := i_txnq st |}
                           | None => DErr end
                end
            end
        end
    | [] => DOk st
    end.

  Fixpoint fold_lines (ls : list string) (st : istate) : dres istate :=
    match ls with
    | [] => DOk st
    | l :: r => match step_line st l with
                | DOk st' => fold_lines r st'
                | DErr => DErr
                | DPanic => DPanic
                end
    end.
End Interval.

Definition decode_interval (keys : list (string * field)) (formats : list string)
           (line_sep kv_sep : ascii) (data : string) : dres istate :=
  fold_lines keys formats kv_sep (split_on line_sep data) zero_istate.

(* ---------------------------------------------------------------- decodeChangesetState *)
Definition decode_changeset (formats : list string) (line_sep kv_sep : ascii)
           (time_line seq_line : nat) (data : string) : dres (Z * tm) :=
  let lines := split_on line_sep data in
  match nth_error lines time_line with
  | None => DPanic
  | Some l1 =>
      let ts := trim (join kv_sep (tl (split_on kv_sep l1))) in
      match decode_time formats ts with
      | None => DErr
      | Some t =>
          match nth_error lines seq_line with
          | None => DPanic
          | Some l2 =>
              match split_on kv_sep l2 with
              | _ :: p1 :: _ => match parse_uint (trim p1) with Some n => DOk (n, t) | None => DErr end
              | _ => DPanic
              end
          end
      end
  end.

(* ---------------------------------------------------------------- what the planet server writes *)
Definition dec_of (n : Z) : string := NilEmpty.string_of_uint (N.to_uint (Z.to_N n)).
Definition dch (d : Z) : ascii := ascii_of_N (Z.to_N (48 + d)).
Definition d2 (x : Z) : string := String (dch (x / 10)) (String (dch (x mod 10)) EmptyString).
Definition d3' (x : Z) : string := String (dch (x / 100)) (String (dch ((x / 10) mod 10)) (String (dch (x mod 10)) EmptyString)).
Definition d4 (x : Z) : string := String (dch (x / 1000)) (d3' (x mod 1000)).
Definition d9 (x : Z) : string := d3' (x / 1000000) ++ d3' ((x / 1000) mod 1000) ++ d3' (x mod 1000).

(* k = 0: "2016-07-02 22:46:01.422137422 Z", 1: "... +00:00", 2: "2016-07-16T06\:14\:02Z" *)
Definition render_time (k : Z) (t : tm) : string :=
  if k =? 2 then
    d4 (t_year t) ++ "-" ++ d2 (t_mon t) ++ "-" ++ d2 (t_day t) ++ "T" ++ d2 (t_hour t) ++ "\:"
       ++ d2 (t_min t) ++ "\:" ++ d2 (t_sec t) ++ "Z"
  else
    d4 (t_year t) ++ "-" ++ d2 (t_mon t) ++ "-" ++ d2 (t_day t) ++ " " ++ d2 (t_hour t) ++ ":"
       ++ d2 (t_min t) ++ ":" ++ d2 (t_sec t) ++ "." ++ d9 (t_nsec t) ++ (if k =? 0 then " Z" else " +00:00").

Definition valid_tm (t : tm) : bool :=
  (0 <=? t_year t) && (t_year t <? 10000) && (1 <=? t_mon t) && (t_mon t <=? 12)
  && (1 <=? t_day t) && (t_day t <=? days_in (t_mon t) (t_year t))
  && (0 <=? t_hour t) && (t_hour t <? 24) && (0 <=? t_min t) && (t_min t <? 60)
  && (0 <=? t_sec t) && (t_sec t <? 60) && (0 <=? t_nsec t) && (t_nsec t <? 1000000000).

Definition nl : string := String (ascii_of_N 10) EmptyString.

(* an interval state file as osmosis writes it (the example in interval.go) *)
Definition render_interval (comment : string) (seq : Z) (t : tm) (txn txnq : Z) (ready active : string) : string :=
  "#" ++ comment ++ nl ++
  "txnMaxQueried=" ++ dec_of txnq ++ nl ++
  "sequenceNumber=" ++ dec_of seq ++ nl ++
  "timestamp=" ++ render_time 2 t ++ nl ++
  "txnReadyList=" ++ ready ++ nl ++
  "txnMax=" ++ dec_of txn ++ nl ++
  "txnActiveList=" ++ active ++ nl.

(* the changeset state.yaml / NNN.state.txt *)
Definition render_changeset (k : Z) (seq : Z) (t : tm) : string :=
  "---" ++ nl ++ "last_run: " ++ render_time k t ++ nl ++ "sequence: " ++ dec_of seq ++ nl.
