(* C19/GenOkCode.v — the search functions regenerated from /repo/replication/search.go
   (coq/gen/GenReplicationCode.v, translator/cmd/replicationcode) are equal to the hand model of
   C19/Model.v for every directory, fuel, minimum, time and current state — result AND request
   trace.  A proof obligation of every run: if search.go changes meaning a lemma here stops
   compiling.  (NEW file, owner of the translation tie: the C11/C12 builder; the model, its
   proofs and the checker are untouched.) *)
From Coq Require Import ZArith List Bool Lia.
From Verif Require Import C19.Model.
From VerifGen Require Import GenReplicationCode.
Import ListNotations.
Open Scope Z_scope.

(* a directory as the two parameter functions of the generated code *)
Definition state_fn (st : Z -> option Z) (n : Z) : option GenReplicationCode.state * gerr :=
  match st n with Some ts => (Some (n, ts), GNil) | None => (None, GNotFound) end.

Definition cur_fn (cur : option Model.state) : option GenReplicationCode.state * gerr :=
  match cur with Some c => (Some c, GNil) | None => (None, GNotFound) end.

Section Ok.
Variable st : Z -> option Z.
Variables (fuel : nat) (C : option GenReplicationCode.state * gerr) (min t : Z).

Notation RES2 := (option ((option GenReplicationCode.state * gerr) * list Z)).

(* ---- findInRange, inner loop ---- *)
Lemma loop2_found : forall (K : option GenReplicationCode.state -> Z -> list Z -> RES2) lowerID splitID upper fuel2 s sID tr,
  gen_find_in_range_loop2 K fuel C (state_fn st) min lowerID splitID t upper fuel2 (Some s) sID tr = K (Some s) sID tr.
Proof. intros. destruct fuel2; reflexivity. Qed.

Lemma loop2_ok : forall (K' : option GenReplicationCode.state -> list Z -> RES2) lowerID splitID upper fuel2 sID tr,
  gen_find_in_range_loop2 (fun sp _ tr0 => K' sp tr0) fuel C (state_fn st) min lowerID splitID t upper fuel2 None sID tr =
  match scan_down st fuel2 lowerID sID with
  | None => None
  | Some (sp, tr') => K' sp (tr ++ tr')
  end.
Proof.
  intros K' lowerID splitID upper fuel2. induction fuel2 as [|f IH]; intros sID tr.
  - cbn [gen_find_in_range_loop2 scan_down is_none andb].
    destruct (lowerID <? sID); [reflexivity|]. rewrite app_nil_r. reflexivity.
  - cbn [gen_find_in_range_loop2 scan_down is_none andb].
    destruct (lowerID <? sID); [|rewrite app_nil_r; reflexivity].
    unfold state_fn at 1. unfold fetch. destruct (st sID) as [ts|].
    + cbn [gerr_is_nil gerr_not_found negb andb]. rewrite loop2_found. reflexivity.
    + cbn [gerr_is_nil gerr_not_found negb andb]. rewrite IH.
      destruct (scan_down st f lowerID (sID - 1)) as [[sp tr']|]; [|reflexivity].
      rewrite <- app_assoc. reflexivity.
Qed.

(* ---- findInRange ---- *)
Lemma loop1_ok : forall (K' : option GenReplicationCode.state -> list Z -> RES2) fuel1 lowerID upper tr,
  gen_find_in_range_loop1 (fun _ u tr0 => K' u tr0) fuel C (state_fn st) min t fuel1 lowerID (Some upper) tr =
  match find_in_range st fuel1 lowerID upper t with
  | None => None
  | Some (s, tr') => K' (Some s) (tr ++ tr')
  end.
Proof.
  intros K' fuel1. induction fuel1 as [|f IH]; intros lowerID upper tr.
  - cbn [gen_find_in_range_loop1 find_in_range].
    destruct (lowerID + 1 <? fst upper); [reflexivity|]. rewrite app_nil_r. reflexivity.
  - cbn [gen_find_in_range_loop1 find_in_range].
    destruct (lowerID + 1 <? fst upper); [|rewrite app_nil_r; reflexivity].
    cbv zeta.
    rewrite (loop2_ok (fun sp tr0 =>
               if match sp with None => true | Some s => snd s <? t end
               then gen_find_in_range_loop1 (fun _ u tr1 => K' u tr1) fuel C (state_fn st) min t f ((lowerID + fst upper) / 2) (Some upper) tr0
               else gen_find_in_range_loop1 (fun _ u tr1 => K' u tr1) fuel C (state_fn st) min t f lowerID sp tr0)).
    destruct (scan_down st (S f) lowerID ((lowerID + fst upper) / 2)) as [[sp tr1]|]; [|reflexivity].
    destruct sp as [s|].
    + destruct (snd s <? t).
      * rewrite IH. destruct (find_in_range st f ((lowerID + fst upper) / 2) upper t) as [[r tr']|]; [|reflexivity].
        rewrite app_assoc. reflexivity.
      * rewrite IH. destruct (find_in_range st f lowerID s t) as [[r tr']|]; [|reflexivity].
        rewrite app_assoc. reflexivity.
    + rewrite IH. destruct (find_in_range st f ((lowerID + fst upper) / 2) upper t) as [[r tr']|]; [|reflexivity].
      rewrite app_assoc. reflexivity.
Qed.

Lemma gen_find_in_range_ok : forall lowerID upper tr,
  gen_find_in_range fuel C (state_fn st) min lowerID (Some upper) t tr =
  option_map (fun r => ((Some (fst r), GNil), tr ++ snd r)) (find_in_range st fuel lowerID upper t).
Proof.
  intros lowerID upper tr. unfold gen_find_in_range.
  rewrite (loop1_ok (fun u tr0 => Some ((u, GNil), tr0))).
  destruct (find_in_range st fuel lowerID upper t) as [[s tr']|]; reflexivity.
Qed.

(* ---- findBound ---- *)
Notation RES3 := (option ((option GenReplicationCode.state * option GenReplicationCode.state * gerr) * list Z)).

Lemma bound_loop_ok : forall fuel1 upper lowerID tr,
  gen_find_bound_loop1 (fun (u : option GenReplicationCode.state) (_ : Z) tr0 => Some ((u, u, GNil), tr0) : RES3)
                       fuel C (state_fn st) min t fuel1 (Some upper) lowerID tr =
  option_map (fun r => ((Some (fst (fst r)), Some (snd (fst r)), GNil), tr ++ snd r)) (find_bound st fuel1 lowerID upper t).
Proof.
  intros fuel1. induction fuel1 as [|f IH]; intros upper lowerID tr.
  - cbn [gen_find_bound_loop1 find_bound].
    destruct (lowerID + 1 <? fst upper); [reflexivity|]. cbn [option_map fst snd]. rewrite app_nil_r. reflexivity.
  - cbn [gen_find_bound_loop1 find_bound].
    destruct (lowerID + 1 <? fst upper); [|cbn [option_map fst snd]; rewrite app_nil_r; reflexivity].
    cbv zeta. unfold state_fn at 1. unfold fetch.
    destruct (st ((lowerID + fst upper) / 2)) as [ts|].
    + cbn [gerr_is_nil gerr_not_found negb andb is_none snd].
      destruct (ts <? t); [reflexivity|].
      rewrite IH. destruct (find_bound st f lowerID ((lowerID + fst upper) / 2, ts) t) as [[[l u] tr']|]; [|reflexivity].
      cbn [option_map fst snd]. rewrite <- app_assoc. reflexivity.
    + cbn [gerr_is_nil gerr_not_found negb andb is_none].
      rewrite IH. destruct (find_bound st f ((lowerID + fst upper) / 2) upper t) as [[[l u] tr']|]; [|reflexivity].
      cbn [option_map fst snd]. rewrite <- app_assoc. reflexivity.
Qed.

Lemma gen_find_bound_ok : forall upper tr,
  gen_find_bound fuel C (state_fn st) min (Some upper) t tr =
  option_map (fun r => ((Some (fst (fst r)), Some (snd (fst r)), GNil), tr ++ snd r)) (find_bound st fuel min upper t).
Proof. intros upper tr. unfold gen_find_bound. apply bound_loop_ok. Qed.

End Ok.

(* ---- searchTimestamp ---- *)
Definition embed (r : option (result * list Z)) : option ((option GenReplicationCode.state * gerr) * list Z) :=
  option_map (fun p => (match fst p with Found s => (Some s, GNil) | ErrNotFound => (None, GNotFound) end, snd p)) r.

Theorem gen_search_timestamp_ok : forall st fuel min cur t,
  gen_search_timestamp fuel (cur_fn cur) (state_fn st) min t [] = embed (search fuel st min cur t).
Proof.
  intros st fuel min cur t. unfold gen_search_timestamp, search.
  destruct cur as [c|]; cbn [cur_fn gerr_not_found gerr_is_nil negb app]; [|reflexivity].
  unfold search_from. destruct (snd c <? t); [reflexivity|].
  unfold state_fn at 1. unfold fetch. destruct (st min) as [ts|].
  - cbn [gerr_is_nil gerr_not_found negb andb is_none snd fst].
    destruct (ts <? t); rewrite gen_find_in_range_ok.
    + destruct (find_in_range st fuel min c t) as [[s tr']|]; reflexivity.
    + destruct (find_in_range st fuel (min - 1) (min, ts) t) as [[s tr']|]; reflexivity.
  - cbn [gerr_is_nil gerr_not_found negb andb is_none].
    rewrite gen_find_bound_ok.
    destruct (find_bound st fuel min c t) as [[[l u] tr1]|]; [|reflexivity].
    cbn [option_map fst snd gerr_is_nil negb].
    destruct (snd l <? t); rewrite gen_find_in_range_ok.
    + destruct (find_in_range st fuel (fst l) u t) as [[s tr']|]; [|reflexivity].
      cbn [option_map embed fst snd app]. rewrite <- ?app_assoc. reflexivity.
    + destruct (find_in_range st fuel (min - 1) l t) as [[s tr']|]; [|reflexivity].
      cbn [option_map embed fst snd app]. rewrite <- ?app_assoc. reflexivity.
Qed.

(* everything together *)
Theorem generated_search_code_is_model :
  (forall st fuel C min t lowerID upper tr,
     gen_find_in_range fuel C (state_fn st) min lowerID (Some upper) t tr =
     option_map (fun r => ((Some (fst r), GNil), tr ++ snd r)) (find_in_range st fuel lowerID upper t)) /\
  (forall st fuel C min t upper tr,
     gen_find_bound fuel C (state_fn st) min (Some upper) t tr =
     option_map (fun r => ((Some (fst (fst r)), Some (snd (fst r)), GNil), tr ++ snd r)) (find_bound st fuel min upper t)) /\
  (forall st fuel min cur t,
     gen_search_timestamp fuel (cur_fn cur) (state_fn st) min t [] = embed (search fuel st min cur t)).
Proof.
  split; [exact gen_find_in_range_ok|]. split; [exact gen_find_bound_ok|]. exact gen_search_timestamp_ok.
Qed.
