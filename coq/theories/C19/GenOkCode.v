(* C19/GenOkCode.v — the search functions regenerated from /repo/replication/search.go
   (coq/gen/GenReplicationCode.v, translator/cmd/replicationcode) are equal to the hand model of
   C19/Model.v for every directory, fuel, minimum, time and current state — result AND request
   trace.  A proof obligation of every run: if search.go changes meaning a lemma here stops
   compiling.  (NEW file, owner of the translation tie: the C11/C12 builder; the model, its
   proofs and the checker are untouched.) *)
From Coq Require Import ZArith List Bool Lia.
From Verif Require Import C19.Model.
From VerifGen Require Import GenReplicationCode.
Import ListNotations.
Open Scope Z_scope.

(* a directory as the two parameter functions of the generated code *)
Definition state_fn (st : Z -> option Z) (n : Z) : option GenReplicationCode.state * gerr :=
  match st n with Some ts => (Some (n, ts), GNil) | None => (None, GNotFound) end.

Definition cur_fn (cur : option Model.state) : option GenReplicationCode.state * gerr :=
  match cur with Some c => (Some c, GNil) | None => (None, GNotFound) end.

Lemma state_fn_eq : forall st n,
  state_fn st n = match st n with Some ts => (Some (n, ts), GNil) | None => (None, GNotFound) end.
Proof. reflexivity. Qed.

(* SEMANTIC proofs.  The obligations do not depend on the shape of the generated bodies (order and
   polarity of tests, switch vs if chains, collapsed error branches, helper functions such as a
   "lookup that tolerates a 404", renamed locals): after one unfolding step of a loop both sides
   are decision trees over  st n  (file present / missing) and the time comparisons; [crunch] splits
   on whatever test is still in the goal, rewrites recursive calls with the induction hypothesis
   passed as [rw], and closes the leaves up to associativity of the request trace. *)
Ltac simp_code :=
  cbn beta iota zeta;
  cbn [gerr_is_nil gerr_not_found is_none negb andb orb fst snd option_map app] in *.

Ltac finish := rewrite <- ?app_assoc, ?app_nil_r; cbn [app]; reflexivity.

Ltac split_code st :=
  match goal with
  | |- context [st ?x] => destruct (st x) eqn:?
  | |- context [Z.ltb ?a ?b] => destruct (Z.ltb a b) eqn:?
  | |- context [match scan_down ?a ?b ?c ?d with _ => _ end] => destruct (scan_down a b c d) as [[? ?]|]
  | |- context [match find_in_range ?a ?b ?c ?d ?e with _ => _ end] => destruct (find_in_range a b c d e) as [[? ?]|]
  | |- context [match find_bound ?a ?b ?c ?d ?e with _ => _ end] => destruct (find_bound a b c d e) as [[[? ?] ?]|]
  | |- context [option_map _ (find_in_range ?a ?b ?c ?d ?e)] => destruct (find_in_range a b c d e) as [[? ?]|]
  | |- context [option_map _ (find_bound ?a ?b ?c ?d ?e)] => destruct (find_bound a b c d e) as [[[? ?] ?]|]
  | |- context [match ?o with Some _ => _ | None => _ end] => is_var o; destruct o
  end.

Ltac crunch st rw :=
  simp_code; autounfold with genhelpers; unfold fetch; rewrite ?state_fn_eq; simp_code; rw tt; simp_code;
  first [finish | (split_code st; crunch st rw)].

Section Ok.
Variable st : Z -> option Z.
Variables (fuel : nat) (C : option GenReplicationCode.state * gerr) (min t : Z).

Notation RES2 := (option ((option GenReplicationCode.state * gerr) * list Z)).

(* ---- findInRange, inner loop ---- *)
(* Once a state file is found the loop is over.  The source may say so in the loop condition
   (`split == nil && ...`: the next round, entered with the found state, leaves at once) or by
   `break`; [found_step] settles the first form — a call of the loop with a found state is its
   continuation, whatever fuel is left — and does nothing in the second. *)
Ltac found_step :=
  repeat match goal with
  | |- context [gen_find_in_range_loop2 ?K ?a ?b ?c ?d ?e ?f ?g ?h ?fu (Some ?s) ?i ?tr] =>
      replace (gen_find_in_range_loop2 K a b c d e f g h fu (Some s) i tr) with (K (Some s) i tr)
        by (destruct fu; reflexivity)
  end.

Lemma loop2_ok : forall (K' : option GenReplicationCode.state -> list Z -> RES2) lowerID upper splitID fuel2 sID tr,
  gen_find_in_range_loop2 (fun sp _ tr0 => K' sp tr0) fuel C (state_fn st) min lowerID upper t splitID fuel2 None sID tr =
  match scan_down st fuel2 lowerID sID with
  | None => None
  | Some (sp, tr') => K' sp (tr ++ tr')
  end.
Proof.
  intros K' lowerID upper splitID fuel2. induction fuel2 as [|f IH]; intros sID tr;
    cbn [gen_find_in_range_loop2 scan_down];
    crunch st ltac:(fun _ => found_step; rewrite ?IH).
Qed.

(* ---- findInRange ---- *)
Lemma loop1_ok : forall (K' : option GenReplicationCode.state -> list Z -> RES2) fuel1 lowerID upper tr,
  gen_find_in_range_loop1 (fun _ u tr0 => K' u tr0) fuel C (state_fn st) min t fuel1 lowerID (Some upper) tr =
  match find_in_range st fuel1 lowerID upper t with
  | None => None
  | Some (s, tr') => K' (Some s) (tr ++ tr')
  end.
Proof.
  intros K' fuel1. induction fuel1 as [|f IH]; intros lowerID upper tr;
    cbn [gen_find_in_range_loop1 find_in_range];
    crunch st ltac:(fun _ => rewrite ?loop2_ok, ?IH).
Qed.

Lemma gen_find_in_range_ok : forall lowerID upper tr,
  gen_find_in_range fuel C (state_fn st) min lowerID (Some upper) t tr =
  option_map (fun r => ((Some (fst r), GNil), tr ++ snd r)) (find_in_range st fuel lowerID upper t).
Proof.
  intros lowerID upper tr. unfold gen_find_in_range.
  rewrite (loop1_ok (fun u tr0 => Some ((u, GNil), tr0))).
  destruct (find_in_range st fuel lowerID upper t) as [[s tr']|]; reflexivity.
Qed.

(* ---- findBound ---- *)
Notation RES3 := (option ((option GenReplicationCode.state * option GenReplicationCode.state * gerr) * list Z)).

Lemma bound_loop_ok : forall fuel1 upper lowerID tr,
  gen_find_bound_loop1 (fun (u : option GenReplicationCode.state) (_ : Z) tr0 => Some ((u, u, GNil), tr0) : RES3)
                       fuel C (state_fn st) min t fuel1 (Some upper) lowerID tr =
  option_map (fun r => ((Some (fst (fst r)), Some (snd (fst r)), GNil), tr ++ snd r)) (find_bound st fuel1 lowerID upper t).
Proof.
  intros fuel1. induction fuel1 as [|f IH]; intros upper lowerID tr;
    cbn [gen_find_bound_loop1 find_bound];
    crunch st ltac:(fun _ => rewrite ?IH).
Qed.

Lemma gen_find_bound_ok : forall upper tr,
  gen_find_bound fuel C (state_fn st) min (Some upper) t tr =
  option_map (fun r => ((Some (fst (fst r)), Some (snd (fst r)), GNil), tr ++ snd r)) (find_bound st fuel min upper t).
Proof. intros upper tr. unfold gen_find_bound. cbv zeta. apply bound_loop_ok. Qed.

End Ok.

(* ---- searchTimestamp ---- *)
Definition embed (r : option (result * list Z)) : option ((option GenReplicationCode.state * gerr) * list Z) :=
  option_map (fun p => (match fst p with Found s => (Some s, GNil) | ErrNotFound => (None, GNotFound) end, snd p)) r.

Theorem gen_search_timestamp_ok : forall st fuel min cur t,
  gen_search_timestamp fuel (cur_fn cur) (state_fn st) min t [] = embed (search fuel st min cur t).
Proof.
  intros st fuel min cur t. unfold gen_search_timestamp, search, search_from, embed.
  destruct cur as [c|]; cbn [cur_fn];
    crunch st ltac:(fun _ => rewrite ?gen_find_bound_ok, ?gen_find_in_range_ok).
Qed.

(* everything together *)
Theorem generated_search_code_is_model :
  (forall st fuel C min t lowerID upper tr,
     gen_find_in_range fuel C (state_fn st) min lowerID (Some upper) t tr =
     option_map (fun r => ((Some (fst r), GNil), tr ++ snd r)) (find_in_range st fuel lowerID upper t)) /\
  (forall st fuel C min t upper tr,
     gen_find_bound fuel C (state_fn st) min (Some upper) t tr =
     option_map (fun r => ((Some (fst (fst r)), Some (snd (fst r)), GNil), tr ++ snd r)) (find_bound st fuel min upper t)) /\
  (forall st fuel min cur t,
     gen_search_timestamp fuel (cur_fn cur) (state_fn st) min t [] = embed (search fuel st min cur t)).
Proof.
  split; [exact gen_find_in_range_ok|]. split; [exact gen_find_bound_ok|]. exact gen_search_timestamp_ok.
Qed.
