(* C19/DecodeGen.v — the decoders instantiated with the data translator/cmd/replication re-reads
   from decodeIntervalState / decodeChangesetState / timeFormats on every run.  Definitions only. *)
From Coq Require Import ZArith List String Ascii Bool.
From Verif Require Import C19.Decode.
From VerifGen Require Import GenReplication.
Import ListNotations.
Open Scope Z_scope.

Fixpoint keys_of (l : list (string * string)) : option (list (string * field)) :=
  match l with
  | [] => Some []
  | (k, f) :: r =>
      match field_of_name f, keys_of r with
      | Some fd, Some r' => Some ((k, fd) :: r')
      | _, _ => None
      end
  end.

Definition sep_at (l : list string) (i : nat) : option ascii :=
  match nth_error l i with
  | Some (String a EmptyString) => Some a
  | _ => None
  end.

(* None: the generated data does not have the shape the model covers (GenOk.v shows it has) *)
Definition decode_interval_gen (data : string) : option (dres istate) :=
  match keys_of interval_keys, sep_at interval_seps 0, sep_at interval_seps 1 with
  | Some ks, Some ls, Some kv => Some (decode_interval ks time_formats ls kv data)
  | _, _, _ => None
  end.

Definition decode_changeset_gen (data : string) : option (dres (Z * tm)) :=
  match sep_at changeset_seps 0, sep_at changeset_seps 1, changeset_line_indices with
  | Some ls, Some kv, [i1; i2] =>
      if (0 <=? i1) && (0 <=? i2)
      then Some (decode_changeset time_formats ls kv (Z.to_nat i1) (Z.to_nat i2) data)
      else None
  | _, _, _ => None
  end.
