(* C19/Orig.v — the search as it was BEFORE /repo commit c41151f (replication/search.go of the
   snapshot), modelled loop by loop, and the refutations of the property for that code:
   witnesses found by the harness against the real implementation (notes/C19.md) and replayed
   here.  Kept so that the defects stay documented by machine-checked statements; the check
   itself runs against the repaired code (C19/Model.v). *)
From Coq Require Import ZArith List Bool Lia.
From Verif Require Import C19.Model C19.Proofs.
Import ListNotations.
Open Scope Z_scope.

Section Orig.
  Variable st : Z -> option Z.
  Definition two64 := 18446744073709551616.

  (* the two probe loops:  for split == nil && <guard that never changes> { split = State(sID); sID-- / sID++ }
     sID is a uint64: it wraps *)
  Fixpoint o_scan (fuel : nat) (guard : bool) (sID step : Z) : option (option state * list Z) :=
    if guard then
      match fuel with
      | O => None
      | S f =>
          match fetch st (sID mod two64) with
          | Some s => Some (Some s, [sID mod two64])
          | None => match o_scan f guard (sID + step) step with
                    | Some (r, tr) => Some (r, (sID mod two64) :: tr)
                    | None => None
                    end
          end
      end
    else Some (None, []).

  Fixpoint o_find_in_range (fuel : nat) (lower upper : state) (t : Z) : option (state * list Z) :=
    if fst lower + 1 <? fst upper then
      match fuel with
      | O => None
      | S f =>
          let splitID := (fst lower + fst upper) / 2 in
          let r1 := match fetch st splitID with
                    | Some s => Some (Some s, [splitID])
                    | None => match o_scan f (fst lower <? splitID) (splitID - 1) (-1) with
                              | Some (r, tr) => Some (r, splitID :: tr)
                              | None => None
                              end
                    end in
          match r1 with
          | None => None
          | Some (split1, tr1) =>
              let r2 := match split1 with
                        | Some s => Some (Some s, tr1)
                        | None => match o_scan f (splitID <? fst upper) (splitID + 1) 1 with
                                  | Some (r, tr) => Some (r, tr1 ++ tr)
                                  | None => None
                                  end
                        end in
              match r2 with
              | None => None
              | Some (None, tr2) => Some (lower, tr2)          (* still nothing: return lower *)
              | Some (Some s, tr2) =>
                  match (if snd s <? t then o_find_in_range f s upper t
                         else o_find_in_range f lower s t) with
                  | Some (r, tr) => Some (r, tr2 ++ tr)
                  | None => None
                  end
              end
          end
      end
    else Some (upper, []).

  Fixpoint o_find_bound (fuel : nat) (lowerID : Z) (upper : state) (t : Z)
    : option (state * state * list Z) :=
    match fuel with
    | O => None
    | S f =>
        let next (lowerID : Z) (upper : state) :=
          let newID := (lowerID + fst upper) / 2 in
          if newID <=? lowerID then Some (upper, upper, [])
          else o_find_bound f newID upper t in
        let r :=
          match fetch st lowerID with
          | Some l =>
              if t <? snd l then
                if fst upper <=? fst l + 1 then Some (l, upper, [])
                else next 1 l                       (* new upper, lower = nil, lowerID = 1 *)
              else Some (l, upper, [])
          | None => next lowerID upper
          end in
        match r with
        | Some (l, u, tr) => Some (l, u, lowerID :: tr)
        | None => None
        end
    end.

  Definition o_search (fuel : nat) (min : Z) (cur : state) (t : Z) : option (state * list Z) :=
    if snd cur <? t then Some (cur, [0])
    else
      let b := match fetch st min with
               | Some l => Some (l, cur, [0; min])
               | None => match o_find_bound fuel 1 cur t with
                         | Some (l, u, tr) => Some (l, u, 0 :: min :: tr)
                         | None => None
                         end
               end in
      match b with
      | None => None
      | Some (lower, upper, tr) =>
          if fst upper <=? fst lower + 1 then Some (lower, tr)
          else match o_find_in_range fuel lower upper t with
               | Some (s, tr') => Some (s, tr ++ tr')
               | None => None
               end
      end.
End Orig.

Definition dir_of_list (l : list (Z * Z)) (n : Z) : option Z :=
  match find (fun p => fst p =? n) l with Some p => Some (snd p) | None => None end.

(* 1. files next to the split missing: the requests never end.  minute states 1 (stamp 10) and
      10 (stamp 100), everything between missing, t = 50. *)
Definition w_loop := dir_of_list [(1, 10); (10, 100)].

Lemma w_loop_range : forall fuel, o_find_in_range w_loop fuel (1, 10) (10, 100) 50 = None.
Proof.
  induction fuel as [|f IH]; [reflexivity|].
  destruct f as [|[|[|[|f']]]]; try reflexivity.
  change (o_find_in_range w_loop (S (S (S (S (S f'))))) (1, 10) (10, 100) 50)
    with (match o_find_in_range w_loop (S (S (S (S f')))) (1, 10) (10, 100) 50 with
          | Some (r, tr) => Some (r, [5; 4; 3; 2; 1] ++ tr)
          | None => None
          end).
  rewrite IH. reflexivity.
Qed.

Theorem orig_search_terminates_refuted :
  exists st c t, 1 <= fst c /\ st (fst c) = Some (snd c) /\ mono st 1 (fst c) /\
    forall fuel, o_search st fuel 1 c t = None.
Proof.
  exists w_loop, (10, 100), 50. split; [cbn; lia|]. split; [reflexivity|].
  split; [apply monob_sound; vm_compute; reflexivity|].
  intros fuel. unfold o_search.
  change (snd (10, 100) <? 50) with false. change (fetch w_loop 1) with (Some (1, 10)).
  cbv iota beta. change (fst (10, 100) <=? fst (1, 10) + 1) with false. cbv iota.
  rewrite w_loop_range. reflexivity.
Qed.

(* 2. wrong answers (each replayed on the implementation before the fix) *)
Definition wrong (l : list (Z * Z)) (c : state) (t : Z) (got : Z) : Prop :=
  let st := dir_of_list l in
  1 <= fst c /\ st (fst c) = Some (snd c) /\ monob st 1 (fst c) = true /\
  exists s tr, o_search st 100 1 c t = Some (s, tr) /\ fst s = got /\ got <> spec_search st 1 c t.

Ltac wrong_tac := unfold wrong; split; [cbn; lia|]; split; [reflexivity|]; split;
  [vm_compute; reflexivity|]; eexists; eexists; split; [vm_compute; reflexivity|];
  split; [reflexivity|vm_compute; discriminate].

(* t at or before the first state returned the second one *)
Lemma w_before_first : wrong [(1,10);(2,20);(3,30);(4,40);(5,50)] (5, 50) 5 2.
Proof. wrong_tac. Qed.
Lemma w_equal_first : wrong [(1,10);(2,20);(3,30);(4,40);(5,50)] (5, 50) 10 2.
Proof. wrong_tac. Qed.
(* only two sequence numbers: lower is returned whatever t is *)
Lemma w_two_states : wrong [(1,10);(2,20)] (2, 20) 15 1.
Proof. wrong_tac. Qed.
(* findBound: the probe path 1, 5, 7, 8 skips the present file 3 *)
Lemma w_bound_skips : wrong [(3,30);(9,90)] (9, 90) 20 9.
Proof. wrong_tac. Qed.
(* findBound: t equal to the stamp of the lower bound it found *)
Lemma w_bound_equal : wrong [(2,20);(3,30);(4,40);(5,50);(6,60);(7,70);(8,80);(9,90)] (9, 90) 50 6.
Proof. wrong_tac. Qed.

Theorem orig_search_correct_refuted :
  exists st c t s tr, 1 <= fst c /\ st (fst c) = Some (snd c) /\ mono st 1 (fst c) /\
    o_search st 100 1 c t = Some (s, tr) /\ fst s <> spec_search st 1 c t.
Proof.
  destruct w_before_first as (H1 & H2 & H3 & s & tr & H4 & H5 & H6).
  eexists; exists (5, 50), 5, s, tr. split; [exact H1|]. split; [exact H2|].
  split; [apply monob_sound; exact H3|]. split; [exact H4|]. rewrite H5. exact H6.
Qed.
