(* C19/ProofsUrl.v — the three-level zero-padded path: what fmt.Sprintf produces for the format
   of baseSeqURL is the planet layout, which is parseable and injective for n < 10^9. *)
From Coq Require Import ZArith List String Ascii Bool Lia.
From Verif Require Import C19.Model.
Import ListNotations.
Open Scope Z_scope.

Ltac divlia := Z.div_mod_to_equations; lia.

Lemma In_zrange : forall n lo k, lo <= k < lo + Z.of_nat n -> In k (zrange lo n).
Proof.
  induction n as [|j IH]; intros lo k H; [lia|]. cbn [zrange].
  destruct (Z.eq_dec lo k) as [->|Hne]; [left; reflexivity|right; apply IH; lia].
Qed.

(* finite domain: the 1000 values of a path component *)
Lemma pad3_table :
  forallb (fun x => String.eqb (pad0 3 (dec x)) (d3 x)) (zrange 0 1000) = true.
Proof. vm_compute. reflexivity. Qed.

Lemma pad3_d3 : forall x, 0 <= x < 1000 -> pad0 3 (dec x) = d3 x.
Proof.
  intros x Hx. pose proof pad3_table as T. rewrite forallb_forall in T.
  apply String.eqb_eq. apply T. apply In_zrange. cbn. lia.
Qed.

Lemma parse3_table :
  forallb (fun x => match parse3 (d3 x) with Some (y, EmptyString) => y =? x | _ => false end)
          (zrange 0 1000) = true.
Proof. vm_compute. reflexivity. Qed.

Lemma parse3_d3 : forall x r, 0 <= x < 1000 -> parse3 (d3 x ++ r) = Some (x, r).
Proof.
  intros x r Hx. pose proof parse3_table as T. rewrite forallb_forall in T.
  assert (In x (zrange 0 1000)) as Hin by (apply In_zrange; cbn; lia).
  specialize (T x Hin).
  unfold d3 in *. cbn [append parse3] in *.
  destruct (digit_val (digit (x / 100))) as [a|]; [|discriminate].
  destruct (digit_val (digit ((x / 10) mod 10))) as [b|]; [|discriminate].
  destruct (digit_val (digit (x mod 10))) as [c|]; [|discriminate].
  apply Z.eqb_eq in T. rewrite T. reflexivity.
Qed.

Lemma append_assoc' : forall a b c : string, ((a ++ b) ++ c = a ++ (b ++ c))%string.
Proof. induction a as [|x a IH]; intros b c; cbn [append]; [reflexivity|rewrite IH; reflexivity]. Qed.

Lemma drop_prefix_app : forall p r, drop_prefix p (p ++ r) = Some r.
Proof.
  induction p as [|a p IH]; intros r; cbn [drop_prefix append]; [reflexivity|].
  rewrite Ascii.eqb_refl. apply IH.
Qed.

(* Sprintf with the format of baseSeqURL and three components below 1000 *)
Lemma sprintf_layout : forall base dir a b c,
  0 <= a < 1000 -> 0 <= b < 1000 -> 0 <= c < 1000 ->
  sprintf "%s/replication/%s/%03d/%03d/%03d" [base; dir] [a; b; c]
  = Some (base ++ "/replication/" ++ dir ++ "/" ++ d3 a ++ "/" ++ d3 b ++ "/" ++ d3 c)%string.
Proof.
  intros base dir a b c Ha Hb Hc. cbn [sprintf option_map nat_of_ascii].
  change (Ascii.nat_of_ascii "3" - 48)%nat with 3%nat.
  rewrite (pad3_d3 a Ha), (pad3_d3 b Hb), (pad3_d3 c Hc).
  unfold d3. cbn [append]. reflexivity.
Qed.

Definition components (n : Z) : list Z := [n / 1000000; (n / 1000) mod 1000; n mod 1000].

Lemma planet_layout : forall base dir n, 0 <= n < 1000000000 ->
  sprintf "%s/replication/%s/%03d/%03d/%03d" [base; dir] (components n)
  = Some (planet_path base dir n).
Proof.
  intros base dir n Hn. unfold components, planet_path.
  apply sprintf_layout; divlia.
Qed.

Lemma parse_seq_path_planet : forall n r, 0 <= n < 1000000000 ->
  parse_seq_path (d3 (n / 1000000) ++ "/" ++ d3 ((n / 1000) mod 1000) ++ "/" ++ d3 (n mod 1000) ++ r)
  = Some (n, r).
Proof.
  intros n r Hn. unfold parse_seq_path.
  rewrite parse3_d3 by divlia. cbn [append].
  rewrite parse3_d3 by divlia. cbn [append].
  rewrite parse3_d3 by divlia. f_equal. f_equal. divlia.
Qed.

Lemma parse_path_planet : forall base dir suffix n, 0 <= n < 1000000000 ->
  parse_path base dir suffix (planet_path base dir n ++ suffix) = Some n.
Proof.
  intros base dir suffix n Hn. unfold parse_path, planet_path.
  repeat rewrite append_assoc'.
  replace (base ++ "/replication/" ++ dir ++ "/" ++ d3 (n / 1000000) ++ "/" ++
           d3 ((n / 1000) mod 1000) ++ "/" ++ d3 (n mod 1000) ++ suffix)%string
    with ((base ++ "/replication/" ++ dir ++ "/") ++ d3 (n / 1000000) ++ "/" ++
           d3 ((n / 1000) mod 1000) ++ "/" ++ d3 (n mod 1000) ++ suffix)%string
    by (repeat rewrite append_assoc'; reflexivity).
  rewrite drop_prefix_app. rewrite parse_seq_path_planet by exact Hn.
  rewrite String.eqb_refl. reflexivity.
Qed.

Lemma planet_path_inj : forall base dir n m,
  0 <= n < 1000000000 -> 0 <= m < 1000000000 ->
  planet_path base dir n = planet_path base dir m -> n = m.
Proof.
  intros base dir n m Hn Hm H.
  pose proof (parse_path_planet base dir "" n Hn) as Pn.
  pose proof (parse_path_planet base dir "" m Hm) as Pm.
  rewrite H in Pn. rewrite Pn in Pm. inversion Pm. reflexivity.
Qed.

Lemma d3_length : forall x, String.length (d3 x) = 3%nat.
Proof. reflexivity. Qed.
