(* C19/Model.v — executable model of /repo/replication/search.go (as repaired by the fix commit,
   see notes/C19.md), of the URL layout of interval.go / changesets.go, and the specification.

   A replication directory is a partial function [st : Z -> option Z]: [st n = Some ts] when
   state file n exists and carries time stamp ts (any integer unit; the harness uses
   nanoseconds), [None] when the server answers 404.  Every function returns its result
   TOGETHER WITH THE REQUEST TRACE (list of sequence numbers asked for, 0 = the current state
   file).  Loops run on fuel; running out of fuel is the explicit result [None].

   Go's uint64 arithmetic is modelled in Z: all sequence numbers are below 2^62 in every
   statement (so lowerID + upper.SeqNum does not wrap).  Definitions only; proofs are in
   Proofs*.v. *)
From Coq Require Import ZArith List String Ascii Bool.
Import ListNotations.
Open Scope Z_scope.

Definition state := (Z * Z)%type.          (* (SeqNum, Timestamp) *)

Section Search.
  Variable st : Z -> option Z.

  (* s.State(ctx, n): nil on a 404 *)
  Definition fetch (n : Z) : option state :=
    match st n with Some ts => Some (n, ts) | None => None end.

  (* findInRange, inner loop:
       for sID := splitID; split == nil && lowerID < sID; sID-- { split, err = s.State(ctx, sID) } *)
  Fixpoint scan_down (fuel : nat) (lowerID sID : Z) : option (option state * list Z) :=
    if lowerID <? sID then
      match fuel with
      | O => None
      | S f =>
          match fetch sID with
          | Some s => Some (Some s, [sID])
          | None =>
              match scan_down f lowerID (sID - 1) with
              | Some (r, tr) => Some (r, sID :: tr)
              | None => None
              end
          end
      end
    else Some (None, []).

  (* findInRange:
       for lowerID+1 < upper.SeqNum {
         splitID := (lowerID + upper.SeqNum) / 2
         <inner loop>
         if split == nil || timestamp.After(split.Timestamp) { lowerID = splitID } else { upper = split }
       }
       return upper *)
  Fixpoint find_in_range (fuel : nat) (lowerID : Z) (upper : state) (t : Z)
    : option (state * list Z) :=
    if lowerID + 1 <? fst upper then
      match fuel with
      | O => None
      | S f =>
          let splitID := (lowerID + fst upper) / 2 in
          match scan_down (S f) lowerID splitID with
          | None => None
          | Some (split, tr) =>
              let rest :=
                match split with
                | None => find_in_range f splitID upper t
                | Some s => if snd s <? t then find_in_range f splitID upper t
                            else find_in_range f lowerID s t
                end in
              match rest with
              | Some (r, tr') => Some (r, tr ++ tr')
              | None => None
              end
          end
      end
    else Some (upper, []).

  (* findBound:
       lowerID := s.Min
       for lowerID+1 < upper.SeqNum {
         splitID := (lowerID + upper.SeqNum) / 2
         split := s.State(ctx, splitID)
         if split == nil { lowerID = splitID }
         else if timestamp.After(split.Timestamp) { return split, upper }
         else { upper = split }
       }
       return upper, upper *)
  Fixpoint find_bound (fuel : nat) (lowerID : Z) (upper : state) (t : Z)
    : option (state * state * list Z) :=
    if lowerID + 1 <? fst upper then
      match fuel with
      | O => None
      | S f =>
          let splitID := (lowerID + fst upper) / 2 in
          match fetch splitID with
          | None =>
              match find_bound f splitID upper t with
              | Some (l, u, tr) => Some (l, u, splitID :: tr)
              | None => None
              end
          | Some s =>
              if snd s <? t then Some (s, upper, [splitID])
              else match find_bound f lowerID s t with
                   | Some (l, u, tr) => Some (l, u, splitID :: tr)
                   | None => None
                   end
          end
      end
    else Some (upper, upper, []).

  (* searchTimestamp after the current state [cur] has been read *)
  Definition search_from (fuel : nat) (min : Z) (cur : state) (t : Z) : option (state * list Z) :=
    if snd cur <? t then Some (cur, [])            (* timestamp.After(upper.Timestamp) *)
    else
      let bounds :=
        match fetch min with
        | Some l => Some (l, cur, [min])
        | None =>
            match find_bound fuel min cur t with
            | Some (l, u, tr) => Some (l, u, min :: tr)
            | None => None
            end
        end in
      match bounds with
      | None => None
      | Some (lower, upper, tr) =>
          let r := if snd lower <? t then find_in_range fuel (fst lower) upper t
                   else find_in_range fuel (min - 1) lower t in
          match r with
          | Some (s, tr') => Some (s, tr ++ tr')
          | None => None
          end
      end.
End Search.

Inductive result := Found (s : state) | ErrNotFound.

(* searchTimestamp: [cur = None] models a missing current state file (the NotFound error is
   returned after that one request) *)
Definition search (fuel : nat) (st : Z -> option Z) (min : Z) (cur : option state) (t : Z)
  : option (result * list Z) :=
  match cur with
  | None => Some (ErrNotFound, [0])
  | Some c =>
      match search_from st fuel min c t with
      | Some (s, tr) => Some (Found s, 0 :: tr)
      | None => None
      end
  end.

(* fuel that always suffices (search_terminates): one unit per halving / per file stepped over *)
Definition enough_fuel (min : Z) (cur : state) : nat := Z.to_nat (fst cur - min + 3).

(* ------------------------------------------------------------------ specification *)

(* the integers lo, lo+1, ..., lo+n-1 *)
Fixpoint zrange (lo : Z) (n : nat) : list Z :=
  match n with O => [] | S k => lo :: zrange (lo + 1) k end.

Definition at_or_after (st : Z -> option Z) (t : Z) (n : Z) : bool :=
  match st n with Some ts => t <=? ts | None => false end.

(* the property text: the first available state at or after t, the newest state otherwise *)
Definition spec_search (st : Z -> option Z) (min : Z) (cur : state) (t : Z) : Z :=
  if snd cur <? t then fst cur
  else match find (at_or_after st t) (zrange min (Z.to_nat (fst cur - min + 1))) with
       | Some n => n
       | None => fst cur
       end.

(* the hypothesis of the property as a boolean: the stamps of the present files
   min .. cur are non-decreasing *)
Fixpoint mono_from (st : Z -> option Z) (lo : Z) (n : nat) (last : option Z) : bool :=
  match n with
  | O => true
  | S k =>
      match st lo with
      | None => mono_from st (lo + 1) k last
      | Some ts => (match last with Some l => l <=? ts | None => true end)
                   && mono_from st (lo + 1) k (Some ts)
      end
  end.
Definition monob (st : Z -> option Z) (min cur : Z) : bool :=
  mono_from st min (Z.to_nat (cur - min + 1)) None.

(* number of missing files among lo .. lo+n-1 *)
Fixpoint missing (st : Z -> option Z) (lo : Z) (n : nat) : Z :=
  match n with
  | O => 0
  | S k => (match st lo with None => 1 | Some _ => 0 end) + missing st (lo + 1) k
  end.

(* request bound of the property: logarithmic in the range plus the missing files *)
Definition request_bound (st : Z -> option Z) (min : Z) (cur : state) : Z :=
  2 + 2 * Z.log2_up (fst cur - min + 1) + missing st min (Z.to_nat (fst cur - min)).

(* ------------------------------------------------------------------ URL layout *)

Definition digit (d : Z) : ascii := ascii_of_N (Z.to_N (48 + d)).

Fixpoint dec_aux (fuel : nat) (n : Z) (acc : string) : string :=
  match fuel with
  | O => acc
  | S f => let acc' := String (digit (n mod 10)) acc in
           if n <? 10 then acc' else dec_aux f (n / 10) acc'
  end.
(* decimal text of a non-negative integer (a number has no more digits than bits) *)
Definition dec (n : Z) : string := dec_aux (S (Z.to_nat (Z.log2_up (n + 1)))) n "".

Fixpoint zeros (k : nat) : string :=
  match k with O => EmptyString | S j => String "0" (zeros j) end.
Definition pad0 (w : nat) (s : string) : string := zeros (w - String.length s) ++ s.

(* fmt.Sprintf restricted to the verbs %s, %d and %0Wd (W one digit) and to unsigned integers.
   sargs / zargs: the string and integer arguments in order. None: bad verb or missing argument. *)
Fixpoint sprintf (f : string) (sargs : list string) (zargs : list Z) : option string :=
  match f with
  | EmptyString => Some EmptyString
  | String "%" (String "s" r) =>
      match sargs with
      | a :: sa => option_map (append a) (sprintf r sa zargs)
      | [] => None
      end
  | String "%" (String "d" r) =>
      match zargs with
      | z :: za => option_map (append (dec z)) (sprintf r sargs za)
      | [] => None
      end
  | String "%" (String "0" (String w (String "d" r))) =>
      let wn := (nat_of_ascii w - 48)%nat in
      match zargs with
      | z :: za => option_map (append (pad0 wn (dec z))) (sprintf r sargs za)
      | [] => None
      end
  | String "%" _ => None
  | String c r => option_map (String c) (sprintf r sargs zargs)
  end.

(* three digits *)
Definition d3 (x : Z) : string :=
  String (digit (x / 100)) (String (digit ((x / 10) mod 10)) (String (digit (x mod 10)) EmptyString)).

(* the layout of the planet server: <base>/replication/<dir>/AAA/BBB/CCC *)
Definition planet_path (base dir : string) (n : Z) : string :=
  base ++ "/replication/" ++ dir ++ "/" ++ d3 (n / 1000000) ++ "/" ++ d3 ((n / 1000) mod 1000)
       ++ "/" ++ d3 (n mod 1000).

(* reading it back *)
Definition digit_val (c : ascii) : option Z :=
  let v := Z.of_nat (nat_of_ascii c) - 48 in
  if (0 <=? v) && (v <=? 9) then Some v else None.

Definition parse3 (s : string) : option (Z * string) :=
  match s with
  | String a (String b (String c r)) =>
      match digit_val a, digit_val b, digit_val c with
      | Some x, Some y, Some z => Some (100 * x + 10 * y + z, r)
      | _, _, _ => None
      end
  | _ => None
  end.

(* AAA/BBB/CCC<rest> -> (n, rest) *)
Definition parse_seq_path (s : string) : option (Z * string) :=
  match parse3 s with
  | Some (a, String "/" r1) =>
      match parse3 r1 with
      | Some (b, String "/" r2) =>
          match parse3 r2 with
          | Some (c, r3) => Some (a * 1000000 + b * 1000 + c, r3)
          | None => None
          end
      | _ => None
      end
  | _ => None
  end.

Fixpoint drop_prefix (p s : string) : option string :=
  match p with
  | EmptyString => Some s
  | String a p' => match s with
                   | String b s' => if Ascii.eqb a b then drop_prefix p' s' else None
                   | EmptyString => None
                   end
  end.

(* <base>/replication/<dir>/AAA/BBB/CCC<suffix> -> n *)
Definition parse_path (base dir suffix s : string) : option Z :=
  match drop_prefix (base ++ "/replication/" ++ dir ++ "/") s with
  | Some r => match parse_seq_path r with
              | Some (n, r') => if String.eqb r' suffix then Some n else None
              | None => None
              end
  | None => None
  end.
