(* C19/Urls.v — the request URLs and per-kind constants, instantiated with the data that
   translator/cmd/replication re-reads from /repo/replication on every run (GenReplication.v).
   Definitions only. *)
From Coq Require Import ZArith List String Ascii Bool.
From Verif Require Import C19.Model.
From VerifGen Require Import GenReplication.
Import ListNotations.
Open Scope Z_scope.

(* 0 minute, 1 hour, 2 day, 3 changesets *)
Definition kind_min (k : Z) : Z :=
  if k =? 0 then min_minute else if k =? 1 then min_hour else if k =? 2 then min_day else min_changesets.
Definition kind_dir (k : Z) : string :=
  if k =? 0 then dir_minute else if k =? 1 then dir_hour else if k =? 2 then dir_day else dir_changesets.

Definition url_of (fmt : string) (args : Z -> list Z) (suffix base dir : string) (n : Z) : option string :=
  option_map (fun s => s ++ suffix)%string (sprintf fmt [base; dir] (args n)).

(* fetchState / fetchChangesetState for n <> 0, changeURL, changesetReader *)
Definition state_url (k : Z) (base : string) (n : Z) : option string :=
  if k =? 3 then url_of changeset_url_format changeset_url_args changeset_state_suffix base (kind_dir k) n
  else url_of seq_url_format seq_url_args seq_state_suffix base (kind_dir k) n.
Definition data_url (k : Z) (base : string) (n : Z) : option string :=
  if k =? 3 then url_of changeset_url_format changeset_url_args changeset_data_suffix base (kind_dir k) n
  else url_of seq_url_format seq_url_args seq_data_suffix base (kind_dir k) n.
Definition current_url (k : Z) (base : string) : option string :=
  sprintf (if k =? 3 then changeset_current_format else seq_current_format) [base; kind_dir k] [].

(* the sequence number a fetched state file is given: the interval files are taken at their
   word, the changeset files are corrected (the number inside is one less than the file name) *)
Definition fetched_seq (k : Z) (n file_seq : Z) : Z :=
  if k =? 3 then changeset_seq_fix n file_seq else file_seq.
