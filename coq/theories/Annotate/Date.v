(* Annotate/Date.v — time.Date(y, m, d, h, mi, s, ns, time.UTC) as Unix nanoseconds
   (proleptic Gregorian calendar; the days-from-civil algorithm).  Executable only. *)
From Coq Require Import ZArith List.
Import ListNotations.
Open Scope Z_scope.

Definition days_from_civil (y m d : Z) : Z :=
  let y' := if m <=? 2 then y - 1 else y in
  let era := (if 0 <=? y' then y' else y' - 399) / 400 in
  let yoe := y' - era * 400 in
  let doy := (153 * (if 2 <? m then m - 3 else m + 9) + 2) / 5 + d - 1 in
  let doe := yoe * 365 + yoe / 4 - yoe / 100 + doy in
  era * 146097 + doe - 719468.

Definition unix_nanos (args : list Z) : option Z :=
  match args with
  | [y; mo; d; h; mi; s; ns] =>
      Some ((((days_from_civil y mo d * 24 + h) * 60 + mi) * 60 + s) * 1000000000 + ns)
  | _ => None
  end.
