(* Annotate/SortProofs.v — sort.Sort as a specification, uniqueness of sorted permutations for
   the (index, timestamp, version) order, and generic list lemmas used by the determinism proof. *)
From Coq Require Import ZArith List Bool Lia Permutation Sorted Arith.
From Verif Require Import Annotate.Model.
Import ListNotations.
Open Scope Z_scope.

(* ------------------------------------------------------------------------- *)
(* what sort.Sort guarantees: the result is a permutation of the input in which no element is
   Less than its predecessor.  Nothing more (it is not stable). *)
Definition ge_rel {A} (lt : A -> A -> bool) (a b : A) : Prop := lt b a = false.

Definition sort_spec {A} (lt : A -> A -> bool) (sortf : list A -> list A) : Prop :=
  forall l, Permutation l (sortf l) /\ Sorted (ge_rel lt) (sortf l).

Definition asym {A} (lt : A -> A -> bool) : Prop := forall a b, lt a b = true -> lt b a = false.

Lemma insert_by_perm : forall A (lt : A -> A -> bool) x l, Permutation (x :: l) (insert_by lt x l).
Proof.
  intros A lt x l. induction l as [|y r IH]; cbn [insert_by].
  - apply Permutation_refl.
  - destruct (lt x y).
    + apply Permutation_refl.
    + eapply perm_trans; [apply perm_swap|]. apply perm_skip. exact IH.
Qed.

Lemma isort_perm : forall A (lt : A -> A -> bool) l, Permutation l (isort lt l).
Proof.
  intros A lt l. induction l as [|x r IH]; cbn [isort fold_right].
  - apply perm_nil.
  - eapply perm_trans; [apply perm_skip; exact IH|]. apply insert_by_perm.
Qed.

Lemma insert_by_hdrel : forall A (lt : A -> A -> bool) a x l,
  ge_rel lt a x -> HdRel (ge_rel lt) a l -> HdRel (ge_rel lt) a (insert_by lt x l).
Proof.
  intros A lt a x l Hax Hal. destruct l as [|y r]; cbn [insert_by].
  - constructor. exact Hax.
  - destruct (lt x y).
    + constructor. exact Hax.
    + constructor. inversion Hal; assumption.
Qed.

Lemma insert_by_sorted : forall A (lt : A -> A -> bool) x l,
  asym lt -> Sorted (ge_rel lt) l -> Sorted (ge_rel lt) (insert_by lt x l).
Proof.
  intros A lt x l Has Hs. induction l as [|y r IH]; cbn [insert_by].
  - repeat constructor.
  - destruct (lt x y) eqn:E.
    + constructor; [exact Hs|]. constructor. unfold ge_rel. apply Has. exact E.
    + inversion Hs as [|? ? Hs' Hhd]; subst. constructor.
      * apply IH. exact Hs'.
      * apply insert_by_hdrel; [exact E|exact Hhd].
Qed.

Lemma isort_sorted : forall A (lt : A -> A -> bool) l, asym lt -> Sorted (ge_rel lt) (isort lt l).
Proof.
  intros A lt l Has. induction l as [|x r IH]; cbn [isort fold_right].
  - constructor.
  - apply insert_by_sorted; assumption.
Qed.

Lemma isort_sort_spec : forall A (lt : A -> A -> bool), asym lt -> sort_spec lt (isort lt).
Proof. intros A lt Has l. split; [apply isort_perm|apply isort_sorted; exact Has]. Qed.

(* a second legal behaviour of an unstable sort: sort the reversed input *)
Lemma isort_rev_sort_spec : forall A (lt : A -> A -> bool),
  asym lt -> sort_spec lt (fun l => isort lt (rev l)).
Proof.
  intros A lt Has l. split.
  - eapply perm_trans; [apply Permutation_rev|apply isort_perm].
  - apply isort_sorted; exact Has.
Qed.

(* ------------------------------------------------------------------------- *)
(* the two comparison functions *)

Definition ukey (u : update) : Z * Z * Z := (Z.of_nat (u_index u), u_timestamp u, u_version u).

(* SPEC: lexicographic order on (index, timestamp, version) *)
Definition itv_le (a b : update) : Prop :=
  let '(ia, ta, va) := ukey a in let '(ib, tb, vb) := ukey b in
  ia < ib \/ (ia = ib /\ (ta < tb \/ (ta = tb /\ va <= vb))).

Lemma less_asym : asym less.
Proof.
  intros a b. unfold less.
  destruct (Nat.eqb (u_index a) (u_index b)) eqn:E.
  - apply Nat.eqb_eq in E. rewrite E, Nat.eqb_refl. cbn [negb].
    destruct (u_timestamp a <? u_timestamp b) eqn:E1; destruct (u_timestamp b <? u_timestamp a) eqn:E2;
      try (intros; lia); intros H; try discriminate; lia.
  - rewrite Nat.eqb_sym, E. cbn [negb]. intros H.
    apply Nat.ltb_lt in H. apply Nat.ltb_ge. lia.
Qed.

Lemma less_v0_asym : asym less_v0.
Proof.
  intros a b. unfold less_v0.
  destruct (Nat.eqb (u_index a) (u_index b)) eqn:E.
  - apply Nat.eqb_eq in E. rewrite E, Nat.eqb_refl. cbn [negb]. intros H. lia.
  - rewrite Nat.eqb_sym, E. cbn [negb]. intros H.
    apply Nat.ltb_lt in H. apply Nat.ltb_ge. lia.
Qed.

Lemma ge_less_itv : forall a b, ge_rel less a b -> itv_le a b.
Proof.
  intros a b. unfold ge_rel, less, itv_le, ukey.
  destruct (Nat.eqb (u_index b) (u_index a)) eqn:E; cbn [negb].
  - apply Nat.eqb_eq in E. rewrite E.
    destruct (u_timestamp b <? u_timestamp a) eqn:E1; [discriminate|].
    destruct (u_timestamp a <? u_timestamp b) eqn:E2; intros H; lia.
  - apply Nat.eqb_neq in E. intros H. apply Nat.ltb_ge in H. lia.
Qed.

Lemma itv_le_trans : forall a b c, itv_le a b -> itv_le b c -> itv_le a c.
Proof. intros a b c. unfold itv_le, ukey. lia. Qed.

Lemma itv_le_antisym_key : forall a b, itv_le a b -> itv_le b a -> ukey a = ukey b.
Proof.
  intros a b. unfold itv_le, ukey. intros H1 H2.
  assert (Z.of_nat (u_index a) = Z.of_nat (u_index b)) as -> by lia.
  assert (u_timestamp a = u_timestamp b) as -> by lia.
  assert (u_version a = u_version b) as -> by lia. reflexivity.
Qed.

Lemma sorted_less_itv : forall l, Sorted (ge_rel less) l -> StronglySorted itv_le l.
Proof.
  intros l H. apply Sorted_StronglySorted.
  - intros a b c. apply itv_le_trans.
  - induction H as [|a l Hs IH Hhd]; constructor; [exact IH|].
    destruct Hhd; constructor. apply ge_less_itv. assumption.
Qed.

(* ------------------------------------------------------------------------- *)
(* two sorted permutations of a list whose keys identify its elements are equal *)

Definition key_functional (l : list update) : Prop :=
  forall a b, In a l -> In b l -> ukey a = ukey b -> a = b.

Lemma sorted_perm_unique : forall l1 l2,
  StronglySorted itv_le l1 -> StronglySorted itv_le l2 -> Permutation l1 l2 ->
  key_functional l1 -> l1 = l2.
Proof.
  induction l1 as [|a r IH]; intros l2 H1 H2 Hp Hk.
  - apply Permutation_nil in Hp. symmetry. exact Hp.
  - destruct l2 as [|b r2]; [apply Permutation_sym, Permutation_nil in Hp; discriminate|].
    inversion H1 as [|? ? Hs1 Hall1]; subst. inversion H2 as [|? ? Hs2 Hall2]; subst.
    assert (a = b) as Hab.
    { assert (In a (b :: r2)) as Ha by (eapply Permutation_in; [exact Hp|left; reflexivity]).
      assert (In b (a :: r)) as Hb by (eapply Permutation_in; [apply Permutation_sym; exact Hp|left; reflexivity]).
      destruct Ha as [Ha|Ha]; [symmetry; exact Ha|].
      destruct Hb as [Hb|Hb]; [exact Hb|].
      rewrite Forall_forall in Hall1, Hall2.
      apply Hk; [left; reflexivity|right; exact Hb|].
      apply itv_le_antisym_key; [apply Hall1; exact Hb|apply Hall2; exact Ha]. }
    subst b. f_equal. apply IH; try assumption.
    + eapply Permutation_cons_inv. exact Hp.
    + intros x y Hx Hy. apply Hk; right; assumption.
Qed.

Lemma key_functional_perm : forall l l', Permutation l l' -> key_functional l -> key_functional l'.
Proof.
  intros l l' Hp Hk a b Ha Hb. apply Hk; eapply Permutation_in; try eassumption; apply Permutation_sym; exact Hp.
Qed.

(* any two results that sort.Sort may produce for the repaired Less, on permuted inputs *)
Lemma sort_unique : forall sortf sortf' l l',
  sort_spec less sortf -> sort_spec less sortf' -> Permutation l l' -> key_functional l ->
  sortf l = sortf' l'.
Proof.
  intros sortf sortf' l l' Hs Hs' Hp Hk.
  destruct (Hs l) as [Hp1 Hso1]. destruct (Hs' l') as [Hp2 Hso2].
  apply sorted_perm_unique.
  - apply sorted_less_itv. exact Hso1.
  - apply sorted_less_itv. exact Hso2.
  - eapply perm_trans; [apply Permutation_sym; exact Hp1|]. eapply perm_trans; [exact Hp|exact Hp2].
  - eapply key_functional_perm; eassumption.
Qed.

(* ------------------------------------------------------------------------- *)
(* folding pairwise-commuting steps over a permutation *)

Lemma fold_left_perm_commute : forall A S (f : S -> A -> S) l l',
  Permutation l l' ->
  (forall x y s, In x l -> In y l -> f (f s x) y = f (f s y) x) ->
  forall s, fold_left f l s = fold_left f l' s.
Proof.
  intros A S f l l' Hp. induction Hp as [|x l l' Hp IH|x y l|l l' l'' Hp1 IH1 Hp2 IH2]; intros Hc s.
  - reflexivity.
  - cbn [fold_left]. apply IH. intros a b s' Ha Hb. apply Hc; right; assumption.
  - cbn [fold_left]. rewrite (Hc y x s); [reflexivity|left; reflexivity|right; left; reflexivity].
  - rewrite IH1 by exact Hc. apply IH2.
    intros a b s' Ha Hb. apply Hc; eapply Permutation_in; try eassumption; apply Permutation_sym; exact Hp1.
Qed.

(* update_nth facts *)
Lemma update_nth_length : forall A n (f : A -> A) l, length (update_nth n f l) = length l.
Proof. intros A n f l. revert n. induction l as [|x r IH]; intros [|n]; cbn; auto. Qed.

Lemma nth_error_update_nth : forall A n m (f : A -> A) l,
  nth_error (update_nth n f l) m =
  if Nat.eqb n m then option_map f (nth_error l m) else nth_error l m.
Proof.
  intros A n m f l. revert n m. induction l as [|x r IH]; intros n m.
  - destruct n, m; cbn; try reflexivity; destruct (Nat.eqb n m); reflexivity.
  - destruct n as [|n], m as [|m]; cbn [update_nth nth_error Nat.eqb option_map]; try reflexivity.
    apply IH.
Qed.

Lemma update_nth_comm : forall A n m (f g : A -> A) l,
  n <> m -> update_nth n f (update_nth m g l) = update_nth m g (update_nth n f l).
Proof.
  intros A n m f g l. revert n m. induction l as [|x r IH]; intros n m Hnm.
  - destruct n, m; reflexivity.
  - destruct n as [|n], m as [|m]; cbn [update_nth]; try reflexivity; [congruence|].
    f_equal. apply IH. congruence.
Qed.

Lemma update_nth_compose : forall A n (f g : A -> A) l,
  update_nth n f (update_nth n g l) = update_nth n (fun x => f (g x)) l.
Proof.
  intros A n f g l. revert n. induction l as [|x r IH]; intros [|n]; cbn [update_nth]; try reflexivity.
  f_equal. apply IH.
Qed.

Lemma update_nth_ext : forall A n (f g : A -> A) l,
  (forall x, f x = g x) -> update_nth n f l = update_nth n g l.
Proof.
  intros A n f g l H. revert n. induction l as [|x r IH]; intros [|n]; cbn [update_nth]; try reflexivity.
  - f_equal. apply H.
  - f_equal. apply IH.
Qed.
