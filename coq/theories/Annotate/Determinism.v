(* Annotate/Determinism.v — Compute does not depend on the map iteration order nor on which
   sorted permutation sort.Sort returns (for the repaired Less); the historical Less does. *)
From Coq Require Import ZArith List Bool Lia Permutation Sorted Arith.
From Verif Require Import Annotate.Model Annotate.SortProofs Annotate.Plans.
Import ListNotations.
Open Scope Z_scope.

(* the child id a location refers to *)
Definition loc_fid (ps0 : list parent) (l : loc) : option Z :=
  match nth_error ps0 (fst l) with
  | Some par => option_map r_id (nth_error (p_refs par) (snd l))
  | None => None
  end.

Definition entries_ok (ps0 : list parent) (m : list (Z * list loc)) : Prop :=
  forall fid locs, In (fid, locs) m -> forall l, In l locs -> loc_fid ps0 l = Some fid.

(* datasource contract: the versions of one element are distinct *)
Definition hist_ok (hist : Z -> hres) : Prop :=
  forall fid cl, hist fid = HFound cl ->
  forall a b, In a cl -> In b cl -> c_version a = c_version b -> a = b.

(* ------------------------------------------------------------------------- *)
(* mapChildLocs *)

Lemma add_loc_ok : forall ps0 m fid l,
  entries_ok ps0 m -> loc_fid ps0 l = Some fid -> entries_ok ps0 (add_loc m fid l).
Proof.
  intros ps0 m fid l. induction m as [|[k ls] r IH]; intros Hm Hl; cbn [add_loc].
  - intros f locs [H|[]] x Hx. inversion H; subst. destruct Hx as [Hx|[]]. subst. exact Hl.
  - destruct (k =? fid) eqn:E.
    + apply Z.eqb_eq in E. subst k. intros f locs [H|H] x Hx.
      * inversion H; subst. apply in_app_or in Hx. destruct Hx as [Hx|[Hx|[]]].
        -- eapply Hm; [left; reflexivity|exact Hx].
        -- subst. exact Hl.
      * eapply Hm; [right; exact H|exact Hx].
    + intros f locs [H|H] x Hx.
      * inversion H; subst. eapply Hm; [left; reflexivity|exact Hx].
      * revert x Hx. apply IH; [|exact Hl|exact H].
        intros f' locs' H' x' Hx'. eapply Hm; [right; exact H'|exact Hx'].
Qed.

Lemma map_refs_ok : forall ps0 filter i par refs j m,
  nth_error ps0 i = Some par ->
  (forall k r, nth_error refs k = Some r -> nth_error (p_refs par) (j + k) = Some r) ->
  entries_ok ps0 m -> entries_ok ps0 (map_refs filter i j refs m).
Proof.
  intros ps0 filter i par refs. induction refs as [|r rest IH]; intros j m Hi Hsuf Hm; cbn [map_refs].
  - exact Hm.
  - apply IH; [exact Hi| |].
    + intros k r' Hk. replace (S j + k)%nat with (j + S k)%nat by lia. apply Hsuf. exact Hk.
    + destruct (filtered_out filter r); [exact Hm|]. apply add_loc_ok; [exact Hm|].
      unfold loc_fid. cbn [fst snd]. rewrite Hi.
      specialize (Hsuf 0%nat r eq_refl). rewrite Nat.add_0_r in Hsuf. rewrite Hsuf. reflexivity.
Qed.

Lemma map_parents_ok : forall ps0 filter ps i m,
  (forall k p, nth_error ps k = Some p -> nth_error ps0 (i + k) = Some p) ->
  entries_ok ps0 m -> entries_ok ps0 (map_parents filter i ps m).
Proof.
  intros ps0 filter ps. induction ps as [|p rest IH]; intros i m Hsuf Hm; cbn [map_parents].
  - exact Hm.
  - apply IH.
    + intros k p' Hk. replace (S i + k)%nat with (i + S k)%nat by lia. apply Hsuf. exact Hk.
    + apply (map_refs_ok ps0 filter i p).
      * specialize (Hsuf 0%nat p eq_refl). rewrite Nat.add_0_r in Hsuf. exact Hsuf.
      * intros k r Hk. exact Hk.
      * exact Hm.
Qed.

Lemma map_child_locs_ok : forall ps filter, entries_ok ps (map_child_locs ps filter).
Proof.
  intros ps filter. unfold map_child_locs. apply map_parents_ok.
  - intros k p Hk. exact Hk.
  - intros fid locs [].
Qed.

(* ------------------------------------------------------------------------- *)
(* GroupByParent *)

Lemma group_by_parent_ok : forall l g,
  In g (group_by_parent l) ->
  exists x r, g = x :: r /\ (forall y, In y g -> fst y = fst x /\ In y l).
Proof.
  induction l as [|x r IH]; intros g Hg; cbn [group_by_parent] in Hg.
  - destruct Hg.
  - destruct (group_by_parent r) as [|[|y g0] gs] eqn:E.
    + destruct Hg as [Hg|[]]. subst g. exists x, []. split; [reflexivity|].
      intros z [Hz|[]]. subst. split; [reflexivity|left; reflexivity].
    + destruct Hg as [Hg|[]]. subst g. exists x, []. split; [reflexivity|].
      intros z [Hz|[]]. subst. split; [reflexivity|left; reflexivity].
    + destruct (Nat.eqb (fst x) (fst y)) eqn:Exy.
      * apply Nat.eqb_eq in Exy. destruct Hg as [Hg|Hg].
        -- subst g. exists x, (y :: g0). split; [reflexivity|].
           destruct (IH (y :: g0) (or_introl eq_refl)) as [x' [r' [Hx' Hall]]].
           inversion Hx'; subst x' r'.
           intros z [Hz|Hz]; [subst; split; [reflexivity|left; reflexivity]|].
           destruct (Hall z Hz) as [H1 H2]. split; [lia|right; exact H2].
        -- destruct (IH g (or_intror Hg)) as [x' [r' [Hx' Hall]]].
           exists x', r'. split; [exact Hx'|]. intros z Hz. destruct (Hall z Hz). split; [assumption|right; assumption].
      * destruct Hg as [Hg|Hg].
        -- subst g. exists x, []. split; [reflexivity|].
           intros z [Hz|[]]. subst. split; [reflexivity|left; reflexivity].
        -- destruct (IH g Hg) as [x' [r' [Hx' Hall]]].
           exists x', r'. split; [exact Hx'|]. intros z Hz. destruct (Hall z Hz). split; [assumption|right; assumption].
Qed.

(* ------------------------------------------------------------------------- *)
(* the updates loop only emits updates of versions of this child at locations of this group *)

Definition from_child (cis : Z) (cl : list child) (locs : list loc) (u : update) : Prop :=
  exists ck l, In ck cl /\ In l locs /\ u = child_update cis ck (snd l).

Lemma updates_loop_from : forall cis o fid cl locs n k acc ups,
  updates_loop cis o fid cl locs k n acc = Ok ups ->
  (forall u, In u acc -> from_child cis cl locs u) ->
  forall u, In u ups -> from_child cis cl locs u.
Proof.
  intros cis o fid cl locs n. induction n as [|n IH]; intros k acc ups H Hacc; cbn [updates_loop] in H.
  - inversion H; subst. exact Hacc.
  - destruct (nth_error cl k) as [ck|] eqn:Ek; [|discriminate].
    destruct (c_visible ck).
    + eapply IH; [exact H|]. intros u Hu. apply in_app_or in Hu. destruct Hu as [Hu|Hu]; [auto|].
      apply in_map_iff in Hu. destruct Hu as [l [Hl1 Hl2]]. exists ck, l.
      split; [eapply nth_error_In; exact Ek|]. split; [exact Hl2|symmetry; exact Hl1].
    + destruct (o_ignore_incons o); [|discriminate]. eapply IH; eassumption.
Qed.

(* ------------------------------------------------------------------------- *)
(* what every plan satisfies *)

Definition plan_ok (cis : Z) (o : opts) (ps0 : list parent) (hist : Z -> hres) (pl : plan) : Prop :=
  exists fid cl par,
    hist fid = HFound cl /\ nth_error ps0 (pl_pidx pl) = Some par /\
    pl_child pl = find_visible cis cl (p_changeset par) (time_threshold_parent cis par 0) (o_threshold o) /\
    (forall l, In l (pl_locs pl) -> fst l = pl_pidx pl /\ loc_fid ps0 l = Some fid) /\
    (forall u, In u (pl_ups pl) -> from_child cis cl (pl_locs pl) u).

Lemma group_plans_ok : forall cis o ps0 hist fid cl locs pls,
  hist fid = HFound cl ->
  (exists x r, locs = x :: r /\ forall y, In y locs -> fst y = fst x /\ loc_fid ps0 y = Some fid) ->
  group_plans cis o ps0 fid cl locs = Ok pls ->
  forall pl, In pl pls -> plan_ok cis o ps0 hist pl.
Proof.
  intros cis o ps0 hist fid cl locs pls Hh [x [r [Hl Hall]]] H pl Hpl. subst locs.
  unfold group_plans in H.
  destruct (nth_error ps0 (fst x)) as [par|] eqn:Ep; [|discriminate].
  destruct (negb (p_visible par)); [inversion H; subst; destruct Hpl|].
  destruct (group_plan cis o fid cl par (nth_error ps0 (S (fst x))) (x :: r)) as [[c ups]|e] eqn:Eg; [|discriminate].
  inversion H; subst. destruct Hpl as [Hpl|[]]. subst pl.
  exists fid, cl, par. cbn [pl_pidx pl_locs pl_child pl_ups].
  unfold group_plan in Eg.
  set (c0 := find_visible cis cl (p_changeset par) (time_threshold_parent cis par 0) (o_threshold o)) in *.
  assert (exists nv st, Ok (c, ups) =
            match updates_loop cis o fid cl (x :: r) st nv [] with Err e => Err e | Ok ups0 => Ok (c0, ups0) end) as [nv [st Hu]].
  { destruct c0 as [c0'|]; [|destruct (o_ignore_incons o); [|discriminate]];
    (destruct (next_version_index cis _ cl (nth_error ps0 (S (fst x))) o) as [nvi|]; [|discriminate]);
    eexists; eexists; symmetry; exact Eg. }
  destruct (updates_loop cis o fid cl (x :: r) st nv []) as [ups0|] eqn:Eu; [|discriminate].
  inversion Hu; subst c ups. split; [exact Hh|]. split; [exact Ep|]. split; [reflexivity|]. split.
  - exact Hall.
  - eapply updates_loop_from; [exact Eu|intros u []].
Qed.

Lemma child_plans_ok : forall cis o ps0 hist entry pls,
  (forall l, In l (snd entry) -> loc_fid ps0 l = Some (fst entry)) ->
  child_plans cis o ps0 hist entry = Ok pls ->
  forall pl, In pl pls -> plan_ok cis o ps0 hist pl.
Proof.
  intros cis o ps0 hist [fid locations] pls Hloc H pl Hpl. unfold child_plans in H. cbn [fst snd] in *.
  destruct (hist fid) as [[|c0 cl0]| |] eqn:Eh; [| | |discriminate].
  - destruct (o_ignore_missing o); [|discriminate]. inversion H; subst. destruct Hpl.
  - set (cl := c0 :: cl0) in *.
    destruct (collect_ok _ _ _ _ _ H) as [Hpls Hall]. subst pls.
    apply in_flat_map in Hpl. destruct Hpl as [g [Hg Hpl]].
    destruct (Hall g Hg) as [x Hx]. unfold ok_or_nil in Hpl. rewrite Hx in Hpl.
    eapply group_plans_ok; [exact Eh| |exact Hx|exact Hpl].
    destruct (group_by_parent_ok _ _ Hg) as [y [r [Hy Hyall]]].
    exists y, r. split; [exact Hy|]. intros z Hz. destruct (Hyall z Hz) as [H1 H2].
    split; [exact H1|apply Hloc; exact H2].
  - destruct (o_ignore_missing o); [|discriminate]. inversion H; subst. destruct Hpl.
Qed.

Lemma all_plans_ok : forall cis o ps0 hist entries pls,
  entries_ok ps0 entries ->
  all_plans cis o ps0 hist entries = Ok pls ->
  forall pl, In pl pls -> plan_ok cis o ps0 hist pl.
Proof.
  intros cis o ps0 hist entries pls He H pl Hpl. unfold all_plans in H.
  destruct (collect_ok _ _ _ _ _ H) as [Hpls Hall]. subst pls.
  apply in_flat_map in Hpl. destruct Hpl as [[fid locs] [Hent Hpl]].
  destruct (Hall _ Hent) as [x Hx]. unfold ok_or_nil in Hpl. rewrite Hx in Hpl.
  eapply child_plans_ok; [|exact Hx|exact Hpl].
  cbn [fst snd]. intros l Hl. eapply He; eassumption.
Qed.

(* ------------------------------------------------------------------------- *)
(* consequences of plan_ok: one child per cell, one update per key *)

Lemma plans_cell_consistent : forall cis o ps0 hist pls,
  (forall pl, In pl pls -> plan_ok cis o ps0 hist pl) ->
  cell_consistent (flat_map plan_writes pls).
Proof.
  intros cis o ps0 hist pls Hok p j c c' H1 H2.
  apply in_flat_map in H1. destruct H1 as [pl1 [Hpl1 Hw1]].
  apply in_flat_map in H2. destruct H2 as [pl2 [Hpl2 Hw2]].
  unfold plan_writes in Hw1, Hw2. apply in_map_iff in Hw1, Hw2.
  destruct Hw1 as [l1 [E1 Hl1]]. destruct Hw2 as [l2 [E2 Hl2]].
  inversion E1; subst. inversion E2 as [[Ep Ej Ec]].
  destruct (Hok pl1 Hpl1) as [fid1 [cl1 [par1 [Hh1 [Hp1 [Hc1 [Hloc1 _]]]]]]].
  destruct (Hok pl2 Hpl2) as [fid2 [cl2 [par2 [Hh2 [Hp2 [Hc2 [Hloc2 _]]]]]]].
  destruct (Hloc1 l1 Hl1) as [Hf1 Hfid1]. destruct (Hloc2 l2 Hl2) as [Hf2 Hfid2].
  assert (l1 = l2) as El by (destruct l1, l2; cbn [fst snd] in *; f_equal; lia).
  subst l2. rewrite Hfid1 in Hfid2. inversion Hfid2; subst fid2.
  rewrite Hh1 in Hh2. inversion Hh2; subst cl2.
  rewrite Ep in Hp2. rewrite Hp1 in Hp2. inversion Hp2; subst par2.
  rewrite Hc1, Hc2. reflexivity.
Qed.

Lemma child_update_key : forall cis a b i j,
  ukey (child_update cis a i) = ukey (child_update cis b j) -> i = j /\ c_version a = c_version b.
Proof.
  intros cis a b i j H. unfold ukey, child_update in H.
  cbn [u_index u_timestamp u_version] in H. injection H as H1 H2 H3. split; [lia|exact H3].
Qed.

Lemma plans_key_functional : forall cis o ps0 hist pls p,
  hist_ok hist ->
  (forall pl, In pl pls -> plan_ok cis o ps0 hist pl) ->
  key_functional (flat_map (ups_for p) pls).
Proof.
  intros cis o ps0 hist pls p Hh Hok a b Ha Hb Hkey.
  apply in_flat_map in Ha. destruct Ha as [pl1 [Hpl1 Hu1]].
  apply in_flat_map in Hb. destruct Hb as [pl2 [Hpl2 Hu2]].
  unfold ups_for in Hu1, Hu2.
  destruct (Nat.eqb (pl_pidx pl1) p) eqn:E1; [|destruct Hu1].
  destruct (Nat.eqb (pl_pidx pl2) p) eqn:E2; [|destruct Hu2].
  apply Nat.eqb_eq in E1, E2.
  destruct (Hok pl1 Hpl1) as [fid1 [cl1 [par1 [Hh1 [Hp1 [Hc1 [Hloc1 Hups1]]]]]]].
  destruct (Hok pl2 Hpl2) as [fid2 [cl2 [par2 [Hh2 [Hp2 [Hc2 [Hloc2 Hups2]]]]]]].
  destruct (Hups1 a Hu1) as [ck1 [l1 [Hck1 [Hl1 Ea]]]].
  destruct (Hups2 b Hu2) as [ck2 [l2 [Hck2 [Hl2 Eb]]]].
  subst a b. apply child_update_key in Hkey. destruct Hkey as [Hj Hv].
  destruct (Hloc1 l1 Hl1) as [Hf1 Hfid1]. destruct (Hloc2 l2 Hl2) as [Hf2 Hfid2].
  assert (l1 = l2) as El by (destruct l1, l2; cbn [fst snd] in *; f_equal; lia).
  subst l2. rewrite Hfid1 in Hfid2. inversion Hfid2; subst fid2.
  rewrite Hh1 in Hh2. inversion Hh2; subst cl2.
  rewrite (Hh fid1 cl1 Hh1 ck1 ck2 Hck1 Hck2 Hv). reflexivity.
Qed.

(* ------------------------------------------------------------------------- *)
(* main results *)

Section Main.
Variables (cis : Z) (o : opts) (ps : list parent) (hist : Z -> hres).

Definition valid_order (entries : list (Z * list loc)) : Prop :=
  Permutation entries (map_child_locs ps (o_filter o)).

Lemma valid_order_ok : forall entries, valid_order entries -> entries_ok ps entries.
Proof.
  intros entries Hp fid locs Hin. eapply (map_child_locs_ok ps (o_filter o)).
  eapply Permutation_in; [exact Hp|exact Hin].
Qed.

(* failure does not depend on the iteration order nor on the sort *)
Lemma compute_status_order_independent : forall entries entries' sortf sortf',
  valid_order entries -> valid_order entries' ->
  ((exists e, compute_with cis o ps hist entries sortf = Err e) <->
   (exists e', compute_with cis o ps hist entries' sortf' = Err e')).
Proof.
  assert (forall entries entries' sortf sortf',
             Permutation entries entries' ->
             (exists e, compute_with cis o ps hist entries sortf = Err e) ->
             exists e', compute_with cis o ps hist entries' sortf' = Err e') as Hdir.
  { intros entries entries' sortf sortf' Hp [e He]. rewrite compute_with_plans in *.
    destruct (all_plans cis o ps hist entries') as [pls'|e'] eqn:E'; [|eauto].
    exfalso. destruct (all_plans cis o ps hist entries) as [pls|e0] eqn:E; [discriminate|].
    unfold all_plans in *.
    destruct (collect_perm_ok _ _ _ _ _ _ (Permutation_sym Hp) E') as [x [Hx _]]. congruence. }
  intros entries entries' sortf sortf' H1 H2. split; apply Hdir.
  - eapply perm_trans; [exact H1|apply Permutation_sym; exact H2].
  - eapply perm_trans; [exact H2|apply Permutation_sym; exact H1].
Qed.

(* two successful runs give identical annotated parents and identical update lists *)
Lemma compute_deterministic : forall entries entries' sortf sortf' r r',
  hist_ok hist -> valid_order entries -> valid_order entries' ->
  sort_spec less sortf -> sort_spec less sortf' ->
  compute_with cis o ps hist entries sortf = Ok r ->
  compute_with cis o ps hist entries' sortf' = Ok r' ->
  r = r'.
Proof.
  intros entries entries' sortf sortf' r r' Hh H1 H2 Hs Hs' Hr Hr'.
  rewrite compute_with_plans in Hr, Hr'.
  destruct (all_plans cis o ps hist entries) as [pls|] eqn:E; [|discriminate].
  destruct (all_plans cis o ps hist entries') as [pls'|] eqn:E'; [|discriminate].
  cbv zeta in Hr, Hr'. inversion Hr; subst r. inversion Hr'; subst r'. clear Hr Hr'.
  assert (Permutation entries entries') as Hp
    by (eapply perm_trans; [exact H1|apply Permutation_sym; exact H2]).
  unfold all_plans in E, E'.
  destruct (collect_perm_ok _ _ _ _ _ _ Hp E) as [x [Hx Hperm]].
  rewrite E' in Hx. inversion Hx; subst x. clear Hx.
  pose proof (all_plans_ok cis o ps hist entries pls (valid_order_ok _ H1) E) as Hok.
  f_equal.
  - rewrite !run_plans_fst. cbn [fst]. apply writes_perm.
    + apply Permutation_flat_map. exact Hperm.
    + eapply plans_cell_consistent. exact Hok.
  - apply list_ext_nth. intros n. rewrite !nth_error_map, !run_plans_snd_nth. cbn [snd].
    destruct (nth_error (map (fun _ : parent => []) ps) n) as [r0|] eqn:En; [|reflexivity].
    cbn [option_map]. f_equal.
    assert (r0 = []) as ->.
    { rewrite nth_error_map in En. destruct (nth_error ps n); inversion En; reflexivity. }
    cbn [app]. apply sort_unique; try assumption.
    + apply Permutation_flat_map. exact Hperm.
    + eapply plans_key_functional; eassumption.
Qed.

(* the ordering clause *)
Lemma updates_sorted_index_time_version : forall entries sortf ps' results,
  sort_spec less sortf ->
  compute_with cis o ps hist entries sortf = Ok (ps', results) ->
  forall us, In us results -> StronglySorted itv_le us.
Proof.
  intros entries sortf ps' results Hs Hr us Hus. unfold compute_with in Hr.
  destruct (fold_res (do_child cis o ps hist) entries (ps, map (fun _ => []) ps)) as [[ps1 rs]|]; [|discriminate].
  inversion Hr; subst. apply in_map_iff in Hus. destruct Hus as [l [El _]]. subst us.
  apply sorted_less_itv. apply (Hs l).
Qed.

End Main.

(* versions of one child that share a timestamp are applied oldest to newest *)
Lemma sorted_same_stamp_versions : forall us pre a mid b post,
  StronglySorted itv_le us -> us = pre ++ a :: mid ++ b :: post ->
  u_index a = u_index b -> u_timestamp a = u_timestamp b -> u_version a <= u_version b.
Proof.
  intros us pre a mid b post Hs Hus Hi Ht. subst us.
  induction pre as [|x pre IH]; cbn [app] in Hs.
  - inversion Hs as [|? ? _ Hall]; subst. rewrite Forall_forall in Hall.
    assert (itv_le a b) as Hle by (apply Hall; apply in_or_app; right; left; reflexivity).
    unfold itv_le, ukey in Hle. lia.
  - inversion Hs; subst. apply IH. assumption.
Qed.
