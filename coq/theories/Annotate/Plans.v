(* Annotate/Plans.v — Compute as "collect the per-(child, parent) decisions, then apply them".
   The decisions (plans) do not depend on the mutable state, which is what makes the result
   independent of the map iteration order.  Lemmas only; the model is Annotate/Model.v. *)
From Coq Require Import ZArith List Bool Lia Permutation Arith.
From Verif Require Import Annotate.Model Annotate.SortProofs.
Import ListNotations.
Open Scope Z_scope.

Record plan := mkPlan {
  pl_pidx : nat;
  pl_locs : list loc;
  pl_child : option child;
  pl_ups : list update
}.

Definition group_plans (cis : Z) (o : opts) (ps0 : list parent) (fid : Z) (cl : list child)
  (locs : list loc) : res (list plan) :=
  match locs with
  | [] => Ok []
  | l0 :: _ =>
      match nth_error ps0 (fst l0) with
      | None => Err EPanic
      | Some p =>
          if negb (p_visible p) then Ok []
          else match group_plan cis o fid cl p (nth_error ps0 (S (fst l0))) locs with
               | Err e => Err e
               | Ok (c, ups) => Ok [mkPlan (fst l0) locs c ups]
               end
      end
  end.

Definition run_plan (st : state) (pl : plan) : state :=
  apply_plan (pl_pidx pl) (pl_locs pl) (pl_child pl) (pl_ups pl) st.

Fixpoint collect {A B} (f : A -> res (list B)) (l : list A) : res (list B) :=
  match l with
  | [] => Ok []
  | a :: r =>
      match f a with
      | Err e => Err e
      | Ok x => match collect f r with Err e => Err e | Ok y => Ok (x ++ y) end
      end
  end.

Definition child_plans (cis : Z) (o : opts) (ps0 : list parent) (hist : Z -> hres)
  (entry : Z * list loc) : res (list plan) :=
  match hist (fst entry) with
  | HError => Err EDatasource
  | HNotFound => if o_ignore_missing o then Ok [] else Err (ENoHistory (fst entry))
  | HFound [] => if o_ignore_missing o then Ok [] else Err (ENoHistory (fst entry))
  | HFound cl => collect (group_plans cis o ps0 (fst entry) cl) (group_by_parent (snd entry))
  end.

Definition all_plans cis o ps0 hist (entries : list (Z * list loc)) : res (list plan) :=
  collect (child_plans cis o ps0 hist) entries.

(* ------------------------------------------------------------------------- *)
(* fold_res = collect, then fold_left *)

Lemma fold_res_collect : forall A B S (f : S -> A -> res S) (g : A -> res (list B)) (run : S -> B -> S),
  (forall st a, f st a = match g a with Err e => Err e | Ok pls => Ok (fold_left run pls st) end) ->
  forall l st, fold_res f l st =
               match collect g l with Err e => Err e | Ok pls => Ok (fold_left run pls st) end.
Proof.
  intros A B S f g run H l. induction l as [|a r IH]; intros st; cbn [fold_res collect].
  - reflexivity.
  - rewrite H. destruct (g a) as [x|e]; [|reflexivity].
    rewrite IH. destruct (collect g r) as [y|e]; [|reflexivity].
    rewrite fold_left_app. reflexivity.
Qed.

Lemma do_group_plans : forall cis o ps0 fid cl st locs,
  do_group cis o ps0 fid cl st locs =
  match group_plans cis o ps0 fid cl locs with
  | Err e => Err e
  | Ok pls => Ok (fold_left run_plan pls st)
  end.
Proof.
  intros. unfold do_group, group_plans. destruct locs as [|l0 r]; [reflexivity|].
  destruct (nth_error ps0 (fst l0)) as [p|]; [|reflexivity].
  destruct (negb (p_visible p)); [reflexivity|].
  destruct (group_plan cis o fid cl p (nth_error ps0 (S (fst l0))) (l0 :: r)) as [[c ups]|e]; reflexivity.
Qed.

Lemma do_child_plans : forall cis o ps0 hist st entry,
  do_child cis o ps0 hist st entry =
  match child_plans cis o ps0 hist entry with
  | Err e => Err e
  | Ok pls => Ok (fold_left run_plan pls st)
  end.
Proof.
  intros. unfold do_child, child_plans. destruct entry as [fid locations]. cbn [fst snd].
  destruct (hist fid) as [[|c0 cl]| |];
    [destruct (o_ignore_missing o); reflexivity| |destruct (o_ignore_missing o); reflexivity|reflexivity].
  apply fold_res_collect. intros st' a. apply do_group_plans.
Qed.

Lemma compute_with_plans : forall cis o ps hist entries sortf,
  compute_with cis o ps hist entries sortf =
  match all_plans cis o ps hist entries with
  | Err e => Err e
  | Ok pls =>
      let st := fold_left run_plan pls (ps, map (fun _ => []) ps) in
      Ok (fst st, map sortf (snd st))
  end.
Proof.
  intros. unfold compute_with, all_plans.
  rewrite (fold_res_collect _ _ _ _ (child_plans cis o ps hist) run_plan)
    by (intros; apply do_child_plans).
  destruct (collect (child_plans cis o ps hist) entries) as [pls|e]; [|reflexivity].
  cbv zeta. destruct (fold_left run_plan pls (ps, map (fun _ => []) ps)); reflexivity.
Qed.

(* ------------------------------------------------------------------------- *)
(* collect: success / failure and permutations *)

Definition ok_or_nil {A B} (f : A -> res (list B)) (a : A) : list B :=
  match f a with Ok x => x | Err _ => [] end.

Lemma collect_ok : forall A B (f : A -> res (list B)) l pls,
  collect f l = Ok pls ->
  pls = flat_map (ok_or_nil f) l /\ (forall a, In a l -> exists x, f a = Ok x).
Proof.
  intros A B f l. induction l as [|a r IH]; intros pls H; cbn [collect] in H.
  - inversion H. split; [reflexivity|intros a []].
  - destruct (f a) as [x|e] eqn:E; [|discriminate].
    destruct (collect f r) as [y|e] eqn:E2; [|discriminate]. inversion H; subst.
    destruct (IH y eq_refl) as [Hy Hall]. split.
    + cbn [flat_map]. unfold ok_or_nil at 1. rewrite E. f_equal. exact Hy.
    + intros b [Hb|Hb]; [subst; eauto|auto].
Qed.

Lemma collect_all_ok : forall A B (f : A -> res (list B)) l,
  (forall a, In a l -> exists x, f a = Ok x) -> collect f l = Ok (flat_map (ok_or_nil f) l).
Proof.
  intros A B f l. induction l as [|a r IH]; intros H; cbn [collect flat_map].
  - reflexivity.
  - destruct (H a (or_introl eq_refl)) as [x Hx]. unfold ok_or_nil at 1. rewrite Hx.
    rewrite IH by (intros b Hb; apply H; right; exact Hb). reflexivity.
Qed.

Lemma collect_err : forall A B (f : A -> res (list B)) l e,
  collect f l = Err e -> exists a, In a l /\ f a = Err e.
Proof.
  intros A B f l. induction l as [|a r IH]; intros e H; cbn [collect] in H.
  - discriminate.
  - destruct (f a) as [x|e'] eqn:E.
    + destruct (collect f r) as [y|e''] eqn:E2; [discriminate|]. inversion H; subst.
      destruct (IH e eq_refl) as [b [Hb Hfb]]. exists b. split; [right; exact Hb|exact Hfb].
    + inversion H; subst. exists a. split; [left; reflexivity|exact E].
Qed.

(* success does not depend on the order *)
Lemma collect_perm_ok : forall A B (f : A -> res (list B)) l l' pls,
  Permutation l l' -> collect f l = Ok pls ->
  exists pls', collect f l' = Ok pls' /\ Permutation pls pls'.
Proof.
  intros A B f l l' pls Hp H. destruct (collect_ok _ _ _ _ _ H) as [Hpls Hall].
  exists (flat_map (ok_or_nil f) l'). split.
  - apply collect_all_ok. intros a Ha. apply Hall.
    eapply Permutation_in; [apply Permutation_sym; exact Hp|exact Ha].
  - subst pls. apply Permutation_flat_map. exact Hp.
Qed.

(* ------------------------------------------------------------------------- *)
(* the two components of the state after running plans *)

Definition write := (nat * nat * option child)%type.

Definition apply_write (ps : list parent) (w : write) : list parent :=
  let '(p, j, c) := w in update_nth p (set_child j c) ps.

Definition plan_writes (pl : plan) : list write :=
  map (fun l : loc => (pl_pidx pl, snd l, pl_child pl)) (pl_locs pl).

Definition ups_for (p : nat) (pl : plan) : list update :=
  if Nat.eqb (pl_pidx pl) p then pl_ups pl else [].

Lemma fold_left_map : forall A B S (f : S -> B -> S) (g : A -> B) l s,
  fold_left f (map g l) s = fold_left (fun s a => f s (g a)) l s.
Proof. intros A B S f g l. induction l as [|a r IH]; intros s; cbn; [reflexivity|apply IH]. Qed.

Lemma fold_left_flat_map : forall A B S (f : S -> B -> S) (g : A -> list B) l s,
  fold_left f (flat_map g l) s = fold_left (fun s a => fold_left f (g a) s) l s.
Proof.
  intros A B S f g l. induction l as [|a r IH]; intros s; cbn [flat_map fold_left]; [reflexivity|].
  rewrite fold_left_app. apply IH.
Qed.

Lemma run_plans_fst : forall pls st,
  fst (fold_left run_plan pls st) = fold_left apply_write (flat_map plan_writes pls) (fst st).
Proof.
  induction pls as [|pl r IH]; intros st; cbn [fold_left flat_map]; [reflexivity|].
  rewrite IH, fold_left_app. f_equal.
  unfold run_plan, apply_plan, plan_writes. cbn [fst]. rewrite fold_left_map. reflexivity.
Qed.

Lemma run_plans_snd_nth : forall pls st p,
  nth_error (snd (fold_left run_plan pls st)) p =
  option_map (fun r => r ++ flat_map (ups_for p) pls) (nth_error (snd st) p).
Proof.
  induction pls as [|pl r IH]; intros st p; cbn [fold_left flat_map].
  - destruct (nth_error (snd st) p); cbn; [rewrite app_nil_r|]; reflexivity.
  - rewrite IH. unfold run_plan, apply_plan. cbn [snd].
    rewrite nth_error_update_nth.
    change (ups_for p pl) with (if Nat.eqb (pl_pidx pl) p then pl_ups pl else []).
    destruct (Nat.eqb (pl_pidx pl) p); destruct (nth_error (snd st) p); cbn [option_map app];
      try reflexivity; rewrite <- app_assoc; reflexivity.
Qed.

Lemma run_plans_snd_length : forall pls st,
  length (snd (fold_left run_plan pls st)) = length (snd st).
Proof.
  induction pls as [|pl r IH]; intros st; cbn [fold_left]; [reflexivity|].
  rewrite IH. unfold run_plan, apply_plan. cbn [snd]. apply update_nth_length.
Qed.

Lemma list_ext_nth : forall A (l l' : list A),
  (forall n, nth_error l n = nth_error l' n) -> l = l'.
Proof.
  induction l as [|x r IH]; intros [|y r'] H.
  - reflexivity.
  - specialize (H 0%nat). discriminate.
  - specialize (H 0%nat). discriminate.
  - pose proof (H 0%nat) as H0. cbn in H0. inversion H0; subst. f_equal.
    apply IH. intros n. apply (H (S n)).
Qed.

(* ------------------------------------------------------------------------- *)
(* writes commute when writes to one cell carry one child *)

Definition cell_consistent (ws : list write) : Prop :=
  forall p j c c', In (p, j, c) ws -> In (p, j, c') ws -> c = c'.

Lemma set_child_comm : forall j j' c c' par,
  (j = j' -> c = c') ->
  set_child j c (set_child j' c' par) = set_child j' c' (set_child j c par).
Proof.
  intros j j' c c' par H. destruct c as [c|], c' as [c'|]; cbn [set_child]; try reflexivity.
  cbn [p_changeset p_visible p_timestamp p_committed p_refs]. f_equal.
  destruct (Nat.eq_dec j j') as [E|E].
  - subst j'. specialize (H eq_refl). inversion H; subst. reflexivity.
  - apply update_nth_comm. exact E.
Qed.

Lemma apply_write_comm : forall x y ps,
  (fst (fst x) = fst (fst y) -> snd (fst x) = snd (fst y) -> snd x = snd y) ->
  apply_write (apply_write ps x) y = apply_write (apply_write ps y) x.
Proof.
  intros [[p j] c] [[p' j'] c'] ps H. cbn [fst snd] in H. unfold apply_write.
  destruct (Nat.eq_dec p p') as [E|E].
  - subst p'. rewrite !update_nth_compose. apply update_nth_ext. intros par.
    symmetry. apply set_child_comm. intros Hj. apply H; [reflexivity|exact Hj].
  - symmetry. apply update_nth_comm. exact E.
Qed.

Lemma writes_perm : forall ws ws' ps,
  Permutation ws ws' -> cell_consistent ws ->
  fold_left apply_write ws ps = fold_left apply_write ws' ps.
Proof.
  intros ws ws' ps Hp Hc. apply fold_left_perm_commute; [exact Hp|].
  intros x y s Hx Hy. apply apply_write_comm.
  destruct x as [[p j] c], y as [[p' j'] c']. cbn [fst snd]. intros E1 E2. subst p' j'.
  eapply Hc; eassumption.
Qed.
