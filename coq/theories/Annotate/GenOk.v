(* Annotate/GenOk.v — the functions regenerated from /repo's source (coq/gen/GenAnnotate.v, by
   translator/cmd/annotate) are equal to the hand model of Annotate/Model.v.  These are proof
   obligations of every run: if the Go source changes meaning, a lemma here stops compiling. *)
From Coq Require Import ZArith List Bool Lia Arith.
From Verif Require Import Annotate.Model Annotate.Date Annotate.GenConst.
From VerifGen Require Import GenAnnotate GenAnnotateConst.
Import ListNotations.
Open Scope Z_scope.

Lemma commit_info_start_ok : unix_nanos gen_commit_info_start_args = Some 1347442203000000000.
Proof. vm_compute. reflexivity. Qed.

Lemma gen_less_index_ok : forall a b, gen_less_index a b = less a b.
Proof.
  intros a b. unfold gen_less_index, less.
  destruct (Nat.eqb (u_index a) (u_index b)) eqn:E.
  - apply Nat.eqb_eq in E. rewrite E, Z.eqb_refl. cbn [negb].
    destruct (u_timestamp a =? u_timestamp b) eqn:Et; cbn [negb].
    + apply Z.eqb_eq in Et. rewrite Et, Z.ltb_irrefl. reflexivity.
    + apply Z.eqb_neq in Et. destruct (u_timestamp a <? u_timestamp b) eqn:E1; [reflexivity|].
      assert (u_timestamp b <? u_timestamp a = true) as -> by lia. reflexivity.
  - apply Nat.eqb_neq in E.
    assert (Z.of_nat (u_index a) =? Z.of_nat (u_index b) = false) as -> by lia. cbn [negb].
    destruct (Nat.ltb (u_index a) (u_index b)) eqn:El.
    + apply Nat.ltb_lt in El. lia.
    + apply Nat.ltb_ge in El. lia.
Qed.

Lemma gen_update_timestamp_ok : forall cis ts com, gen_update_timestamp cis ts com = update_timestamp cis ts com.
Proof. reflexivity. Qed.

Lemma gen_child_update_ok : forall cis c, gen_child_update cis c = child_update cis c 0%nat.
Proof. reflexivity. Qed.

Lemma gen_abs_duration_ok : forall d, gen_abs_duration d = Z.abs d.
Proof. intros d. unfold gen_abs_duration. destruct (d <? 0) eqn:E; lia. Qed.

Lemma gen_time_threshold_ok : forall cis c esp, gen_time_threshold cis c esp = time_threshold cis c esp.
Proof. reflexivity. Qed.

Lemma gen_time_threshold_parent_ok : forall cis p esp,
  gen_time_threshold_parent cis p esp = time_threshold_parent cis p esp.
Proof. reflexivity. Qed.

(* two folds whose states stay related *)
Lemma fold_left_rel : forall A B C (R : A -> B -> Prop) (f : A -> C -> A) (g : B -> C -> B),
  (forall a b c, R a b -> R (f a c) (g b c)) ->
  forall l a b, R a b -> R (fold_left f l a) (fold_left g l b).
Proof.
  intros A B C R f g H l. induction l as [|c r IH]; intros a b Hab; cbn [fold_left]; [exact Hab|].
  apply IH. apply H. exact Hab.
Qed.

Definition fv_tuple (st : fv_state) : Z * option child * bool := (fv_diff st, fv_nearest st, fv_done st).

Lemma gen_find_visible_ok : forall cis cl cid at_ eps,
  gen_find_visible cis cl cid at_ eps = find_visible cis cl cid at_ eps.
Proof.
  intros cis cl cid at_ eps. unfold gen_find_visible, find_visible.
  match goal with |- context [fold_left ?g cl ?s0] =>
    assert (fold_left g cl s0 = fv_tuple (fold_left (fv_step cis cid at_ eps) cl (mkFv (-1) None false))) as ->
  end.
  - apply (fold_left_rel _ _ _ (fun gst st => gst = fv_tuple st)); [|reflexivity].
    intros gst st c ->. destruct st as [d n b]. unfold fv_tuple, fv_step, vis_opt.
    cbn [fv_diff fv_nearest fv_done]. rewrite gen_abs_duration_ok.
    destruct b; [reflexivity|].
    destruct (c_committed c <? cis).
    + destruct (c_timestamp c - (at_ - eps) >? 2 * eps); [reflexivity|].
      destruct (c_timestamp c - (at_ - eps) <? 0); [destruct (c_visible c); reflexivity|].
      destruct ((d <? 0) || (Z.abs (c_timestamp c - (at_ - eps) - eps) <=? d)); [|reflexivity].
      destruct (c_visible c); cbn [negb].
      * rewrite andb_false_r. cbn [andb].
        destruct (c_timestamp c - (at_ - eps) <=? eps); [reflexivity|].
        destruct (c_changeset c =? cid); reflexivity.
      * rewrite andb_true_r.
        destruct ((d =? -1) && (c_timestamp c - (at_ - eps) =? 0)); reflexivity.
    + destruct (c_committed c >? at_); [reflexivity|]. destruct (c_visible c); reflexivity.
  - unfold fv_tuple. reflexivity.
Qed.

Definition vb_step (cis end_ : Z) (st : option child * bool) (c : child) : option child * bool :=
  if snd st then (fst st, true)
  else if negb (time_threshold cis c 0 <? end_) then (fst st, true) else (Some c, false).

Lemma vb_fold_done : forall cis end_ cl latest, fold_left (vb_step cis end_) cl (latest, true) = (latest, true).
Proof. intros cis end_ cl. induction cl as [|c r IH]; intros latest; [reflexivity|]. cbn [fold_left]. apply IH. Qed.

Lemma vb_fold_ok : forall cis end_ cl latest,
  fst (fold_left (vb_step cis end_) cl (latest, false)) = version_before_from cis cl end_ latest.
Proof.
  intros cis end_ cl. induction cl as [|c r IH]; intros latest; cbn [fold_left version_before_from]; [reflexivity|].
  unfold vb_step at 2. cbn [fst snd].
  destruct (negb (time_threshold cis c 0 <? end_)); [rewrite vb_fold_done; reflexivity|apply IH].
Qed.

Lemma gen_version_before_ok : forall cis cl end_, gen_version_before cis cl end_ = version_before cis cl end_.
Proof.
  intros cis cl end_. unfold gen_version_before, version_before.
  match goal with |- context [fold_left ?g cl ?s0] =>
    assert (fold_left g cl s0 = fold_left (vb_step cis end_) cl (None, false)) as ->
  end.
  - apply (fold_left_rel _ _ _ (fun a b => a = b)); [|reflexivity].
    intros a b c ->. destruct b as [l d]. unfold vb_step. cbn [fst snd]. rewrite gen_time_threshold_ok.
    destruct d; [reflexivity|]. destruct (negb (time_threshold cis c 0 <? end_)); reflexivity.
  - rewrite <- vb_fold_ok. destruct (fold_left (vb_step cis end_) cl (None, false)). reflexivity.
Qed.

Definition res_map {A B} (f : A -> B) (r : res A) : res B :=
  match r with Ok a => Ok (f a) | Err e => Err e end.

Lemma get_at_last : forall (cl : list child),
  get_at cl (Z.of_nat (length cl) - 1) = last (map Some cl) None.
Proof.
  intros cl. unfold get_at. destruct cl as [|c r]; [reflexivity|].
  assert (Z.of_nat (length (c :: r)) - 1 <? 0 = false) as -> by (apply Z.ltb_ge; cbn [length]; lia).
  replace (Z.to_nat (Z.of_nat (length (c :: r)) - 1)) with (length r) by (cbn [length]; lia).
  revert c. induction r as [|d r IH]; intros c; [reflexivity|].
  cbn [length nth_error]. rewrite IH. reflexivity.
Qed.

Lemma gen_next_version_index_ok : forall cis current cl np o,
  gen_next_version_index cis current cl np o = res_map Z.of_nat (next_version_index cis current cl np o).
Proof.
  intros cis current cl np o. unfold gen_next_version_index, next_version_index.
  destruct np as [n|].
  - rewrite gen_find_visible_ok.
    change gen_time_threshold_parent with time_threshold_parent. change gen_time_threshold with time_threshold.
    destruct (find_visible cis cl (p_changeset n) (time_threshold_parent cis n 0) (o_threshold o)) as [nx|].
    + destruct (time_threshold cis nx 0 <? time_threshold_parent cis n (- o_threshold o)); cbn [res_map]; f_equal; lia.
    + rewrite gen_version_before_ok. destruct current as [cur|].
      * destruct (negb (time_threshold_parent cis n (- o_threshold o) >? time_threshold cis cur 0)); [reflexivity|].
        destruct (version_before cis cl (time_threshold_parent cis n (- o_threshold o))); cbn [res_map]; f_equal; lia.
      * destruct (version_before cis cl (time_threshold_parent cis n (- o_threshold o))); cbn [res_map]; f_equal; lia.
  - rewrite get_at_last. destruct (last (map Some cl) None); cbn [res_map]; [f_equal; lia|reflexivity].
Qed.

(* the glue of annotate/way.go and annotate/relation.go: SetChild writes version, changeset and
   location of the child into the reference — the same for way nodes and for relation members of
   all three kinds (the way cache kept for the multipolygon orientation is property C16's) *)
Lemma gen_set_child_ok : forall c r, gen_way_set_child c r = set_ref c r /\ gen_relation_set_child c r = set_ref c r.
Proof. intros c r. split; reflexivity. Qed.

(* everything together *)
Theorem generated_code_is_model :
  (forall a b, gen_less_index a b = less a b) /\
  (forall cis ts com, gen_update_timestamp cis ts com = update_timestamp cis ts com) /\
  (forall cis c, gen_child_update cis c = child_update cis c 0%nat) /\
  (forall cis c esp, gen_time_threshold cis c esp = time_threshold cis c esp) /\
  (forall cis p esp, gen_time_threshold_parent cis p esp = time_threshold_parent cis p esp) /\
  (forall cis cl cid at_ eps, gen_find_visible cis cl cid at_ eps = find_visible cis cl cid at_ eps) /\
  (forall cis cl end_, gen_version_before cis cl end_ = version_before cis cl end_) /\
  (forall cis current cl np o,
     gen_next_version_index cis current cl np o = res_map Z.of_nat (next_version_index cis current cl np o)) /\
  (forall c r, gen_way_set_child c r = set_ref c r /\ gen_relation_set_child c r = set_ref c r) /\
  unix_nanos gen_commit_info_start_args = Some 1347442203000000000.
Proof.
  split; [exact gen_less_index_ok|]. split; [exact gen_update_timestamp_ok|].
  split; [exact gen_child_update_ok|]. split; [exact gen_time_threshold_ok|].
  split; [exact gen_time_threshold_parent_ok|]. split; [exact gen_find_visible_ok|].
  split; [exact gen_version_before_ok|]. split; [exact gen_next_version_index_ok|].
  split; [exact gen_set_child_ok|]. exact commit_info_start_ok.
Qed.
