(* Annotate/GenOk.v — the functions regenerated from /repo's source (coq/gen/GenAnnotate.v, by
   translator/cmd/annotate) are equal to the hand model of Annotate/Model.v.  These are proof
   obligations of every run: if the Go source changes meaning, a lemma here stops compiling. *)
From Coq Require Import ZArith List Bool Lia Arith.
From Verif Require Import Annotate.Model Annotate.Date Annotate.GenConst.
From VerifGen Require Import GenAnnotate GenAnnotateConst.
Import ListNotations.
Open Scope Z_scope.

Lemma commit_info_start_ok : unix_nanos gen_commit_info_start_args = Some 1347442203000000000.
Proof. vm_compute. reflexivity. Qed.

(* ------------------------------------------------------------------------- *)
(* SEMANTIC proofs: the obligations below do not depend on the shape of the generated terms
   (order of tests, inverted conditions with swapped branches, early continue / return, switch vs
   if chains, helper functions, renamed locals).  Both sides are decision trees over the same
   atomic comparisons: [tree] splits on every atomic test that is still in the goal, simplifies,
   and closes each leaf by reflexivity, or by linear arithmetic when the branch is contradictory. *)

Ltac b2p :=
  repeat match goal with
  | H : (_ <? _) = true |- _ => apply Z.ltb_lt in H
  | H : (_ <? _) = false |- _ => apply Z.ltb_ge in H
  | H : (_ <=? _) = true |- _ => apply Z.leb_le in H
  | H : (_ <=? _) = false |- _ => apply Z.leb_gt in H
  | H : (_ >? _) = true |- _ => rewrite Z.gtb_ltb in H; apply Z.ltb_lt in H
  | H : (_ >? _) = false |- _ => rewrite Z.gtb_ltb in H; apply Z.ltb_ge in H
  | H : (_ >=? _) = true |- _ => rewrite Z.geb_leb in H; apply Z.leb_le in H
  | H : (_ >=? _) = false |- _ => rewrite Z.geb_leb in H; apply Z.leb_gt in H
  | H : (_ =? _) = true |- _ => apply Z.eqb_eq in H
  | H : (_ =? _) = false |- _ => apply Z.eqb_neq in H
  | H : Nat.eqb _ _ = true |- _ => apply Nat.eqb_eq in H
  | H : Nat.eqb _ _ = false |- _ => apply Nat.eqb_neq in H
  | H : Nat.ltb _ _ = true |- _ => apply Nat.ltb_lt in H
  | H : Nat.ltb _ _ = false |- _ => apply Nat.ltb_ge in H
  end.

Ltac simp_bool := cbn [negb andb orb fst snd fv_diff fv_nearest fv_done] in *.

Ltac split_atom :=
  match goal with
  | |- context [Z.ltb ?x ?y] => destruct (Z.ltb x y) eqn:?
  | |- context [Z.leb ?x ?y] => destruct (Z.leb x y) eqn:?
  | |- context [Z.gtb ?x ?y] => destruct (Z.gtb x y) eqn:?
  | |- context [Z.geb ?x ?y] => destruct (Z.geb x y) eqn:?
  | |- context [Z.eqb ?x ?y] => destruct (Z.eqb x y) eqn:?
  | |- context [Nat.eqb ?x ?y] => destruct (Nat.eqb x y) eqn:?
  | |- context [Nat.ltb ?x ?y] => destruct (Nat.ltb x y) eqn:?
  | |- context [c_visible ?c] => destruct (c_visible c) eqn:?
  | |- context [Bool.eqb ?x ?y] => destruct (Bool.eqb x y) eqn:?
  end.

Ltac leaf := first [reflexivity | (exfalso; b2p; lia) | (b2p; f_equal; lia) | (b2p; congruence)].

Ltac tree := simp_bool; first [leaf | (split_atom; tree)].

Lemma gen_abs_duration_ok : forall d, gen_abs_duration d = Z.abs d.
Proof. intros d. unfold gen_abs_duration. destruct (d <? 0) eqn:E; b2p; lia. Qed.

Lemma gen_less_index_ok : forall a b, gen_less_index a b = less a b.
Proof. intros a b. unfold gen_less_index, less. autounfold with genhelpers. cbv zeta. tree. Qed.

Lemma gen_update_timestamp_ok : forall cis ts com, gen_update_timestamp cis ts com = update_timestamp cis ts com.
Proof. intros. unfold gen_update_timestamp, update_timestamp. autounfold with genhelpers. cbv zeta. tree. Qed.

Lemma gen_child_update_ok : forall cis c, gen_child_update cis c = child_update cis c 0%nat.
Proof.
  intros. unfold gen_child_update, child_update. autounfold with genhelpers. cbv zeta.
  rewrite ?gen_update_timestamp_ok. reflexivity.
Qed.

Lemma gen_time_threshold_ok : forall cis c esp, gen_time_threshold cis c esp = time_threshold cis c esp.
Proof. intros. unfold gen_time_threshold, time_threshold. autounfold with genhelpers. cbv zeta. tree. Qed.

Lemma gen_time_threshold_parent_ok : forall cis p esp,
  gen_time_threshold_parent cis p esp = time_threshold_parent cis p esp.
Proof. intros. unfold gen_time_threshold_parent, time_threshold_parent. autounfold with genhelpers. cbv zeta. tree. Qed.

(* two folds whose states stay related *)
Lemma fold_left_rel : forall A B C (R : A -> B -> Prop) (f : A -> C -> A) (g : B -> C -> B),
  (forall a b c, R a b -> R (f a c) (g b c)) ->
  forall l a b, R a b -> R (fold_left f l a) (fold_left g l b).
Proof.
  intros A B C R f g H l. induction l as [|c r IH]; intros a b Hab; cbn [fold_left]; [exact Hab|].
  apply IH. apply H. exact Hab.
Qed.

Definition fv_tuple (st : fv_state) : Z * option child * bool := (fv_diff st, fv_nearest st, fv_done st).

Lemma gen_find_visible_ok : forall cis cl cid at_ eps,
  gen_find_visible cis cl cid at_ eps = find_visible cis cl cid at_ eps.
Proof.
  intros cis cl cid at_ eps. unfold gen_find_visible, find_visible.
  match goal with |- context [fold_left ?g cl ?s0] =>
    assert (fold_left g cl s0 = fv_tuple (fold_left (fv_step cis cid at_ eps) cl (mkFv (-1) None false))) as ->
  end.
  - apply (fold_left_rel _ _ _ (fun gst st => gst = fv_tuple st)); [|reflexivity].
    intros gst st c ->. destruct st as [d n b]. unfold fv_tuple, fv_step, vis_opt.
    autounfold with genhelpers. cbn [fv_diff fv_nearest fv_done]. cbv zeta.
    rewrite ?gen_abs_duration_ok.
    destruct b; [reflexivity|].
    (* |x| as a case split, so that the leaves are linear *)
    destruct (Z.abs_spec (c_timestamp c - (at_ - eps) - eps)) as [[Ha ->]|[Ha ->]]; tree.
  - unfold fv_tuple. reflexivity.
Qed.

Definition vb_step (cis end_ : Z) (st : option child * bool) (c : child) : option child * bool :=
  if snd st then (fst st, true)
  else if negb (time_threshold cis c 0 <? end_) then (fst st, true) else (Some c, false).

Lemma vb_fold_done : forall cis end_ cl latest, fold_left (vb_step cis end_) cl (latest, true) = (latest, true).
Proof. intros cis end_ cl. induction cl as [|c r IH]; intros latest; [reflexivity|]. cbn [fold_left]. apply IH. Qed.

Lemma vb_fold_ok : forall cis end_ cl latest,
  fst (fold_left (vb_step cis end_) cl (latest, false)) = version_before_from cis cl end_ latest.
Proof.
  intros cis end_ cl. induction cl as [|c r IH]; intros latest; cbn [fold_left version_before_from]; [reflexivity|].
  unfold vb_step at 2. cbn [fst snd].
  destruct (negb (time_threshold cis c 0 <? end_)); [rewrite vb_fold_done; reflexivity|apply IH].
Qed.

(* VersionBefore, first shape (proved first below): one pass keeping the last child seen before the
   first one that is not before [end_] — [vb_step] *)

(* VersionBefore, second shape: count the children before [end_], then read the last of them by
   index.  The read cl[n-1] is shown to be in range: the checked variant never panics. *)
Fixpoint plen (cis end_ : Z) (cl : list child) : nat :=
  match cl with
  | [] => 0%nat
  | c :: r => if negb (time_threshold cis c 0 <? end_) then 0%nat else S (plen cis end_ r)
  end.

Definition cnt_step (cis end_ : Z) (st : Z * bool) (c : child) : Z * bool :=
  if snd st then (fst st, true)
  else if negb (time_threshold cis c 0 <? end_) then (fst st, true) else (fst st + 1, false).

Lemma cnt_fold_done : forall cis end_ cl n, fold_left (cnt_step cis end_) cl (n, true) = (n, true).
Proof. intros cis end_ cl. induction cl as [|c r IH]; intros n; [reflexivity|]. cbn [fold_left]. apply IH. Qed.

Lemma cnt_fold_ok : forall cis end_ cl n,
  fst (fold_left (cnt_step cis end_) cl (n, false)) = n + Z.of_nat (plen cis end_ cl).
Proof.
  intros cis end_ cl. induction cl as [|c r IH]; intros n; cbn [fold_left plen]; [cbn; lia|].
  unfold cnt_step at 2. cbn [fst snd].
  destruct (negb (time_threshold cis c 0 <? end_)); [rewrite cnt_fold_done; cbn; lia|].
  rewrite IH. lia.
Qed.

Lemma plen_le : forall cis end_ cl, (plen cis end_ cl <= length cl)%nat.
Proof.
  intros cis end_ cl. induction cl as [|c r IH]; cbn [plen length]; [lia|].
  destruct (negb (time_threshold cis c 0 <? end_)); lia.
Qed.

Lemma version_before_from_plen : forall cis end_ cl latest,
  version_before_from cis cl end_ latest =
  match plen cis end_ cl with 0%nat => latest | S k => nth_error cl k end.
Proof.
  intros cis end_ cl. induction cl as [|c r IH]; intros latest; cbn [version_before_from plen]; [reflexivity|].
  destruct (negb (time_threshold cis c 0 <? end_)); [reflexivity|].
  rewrite IH. destruct (plen cis end_ r); reflexivity.
Qed.

Lemma version_before_by_count : forall cis cl end_ n,
  n = Z.of_nat (plen cis end_ cl) ->
  (if n =? 0 then Ok None
   else match get_at cl (n - 1) with Some x => Ok (Some x) | None => Err EPanic end)
  = Ok (version_before cis cl end_).
Proof.
  intros cis cl end_ n ->. unfold version_before. rewrite version_before_from_plen.
  pose proof (plen_le cis end_ cl) as Hle.
  destruct (plen cis end_ cl) as [|k]; [reflexivity|].
  assert (Z.of_nat (S k) =? 0 = false) as -> by (apply Z.eqb_neq; lia).
  unfold get_at. assert (Z.of_nat (S k) - 1 <? 0 = false) as -> by (apply Z.ltb_ge; lia).
  replace (Z.to_nat (Z.of_nat (S k) - 1)) with k by lia.
  destruct (nth_error cl k) eqn:E; [reflexivity|]. apply nth_error_None in E. lia.
Qed.

(* a scan whose state also carries the result of a `return` from inside the loop *)
Definition vb_ret_rel (a : option child * option (option child) * bool) (b : option child * bool) : Prop :=
  let '(l, r, d) := a in
  l = fst b /\ d = snd b /\ (if d then r = None \/ r = Some l else r = None).

Lemma gen_version_before_both : forall cis cl end_,
  gen_version_before_chk cis cl end_ = Ok (version_before cis cl end_) /\
  gen_version_before cis cl end_ = version_before cis cl end_.
Proof.
  intros cis cl end_.
  first
  [ (* scan *)
    assert (gen_version_before cis cl end_ = version_before cis cl end_) as E;
    [ unfold gen_version_before, version_before;
      match goal with |- context [fold_left ?g cl ?s0] =>
        assert (fold_left g cl s0 = fold_left (vb_step cis end_) cl (None, false)) as ->
      end;
      [ apply (fold_left_rel _ _ _ (fun a b => a = b)); [|reflexivity];
        intros a b c ->; destruct b as [l d]; unfold vb_step; autounfold with genhelpers; cbn [fst snd]; cbv zeta;
        rewrite ?gen_time_threshold_ok;
        destruct d; [reflexivity|]; generalize (time_threshold cis c 0); intros tt; tree
      | rewrite <- vb_fold_ok; destruct (fold_left (vb_step cis end_) cl (None, false)); reflexivity ]
    | split; [unfold gen_version_before_chk; rewrite E; reflexivity|exact E] ]
  | (* scan that returns from inside the loop: the state carries the result once it is set *)
    assert (gen_version_before cis cl end_ = version_before cis cl end_) as E;
    [ unfold gen_version_before, version_before; cbv zeta;
      rewrite <- vb_fold_ok;
      match goal with |- context [fold_left ?g cl ?s0] =>
        assert (vb_ret_rel (fold_left g cl s0) (fold_left (vb_step cis end_) cl (None, false))) as HR
      end;
      [ apply (fold_left_rel _ _ _ vb_ret_rel); [|cbn; auto];
        intros [[l r] d] [l' d'] c (-> & -> & H); cbn [fst snd] in *; unfold vb_step; autounfold with genhelpers; cbn [fst snd]; cbv zeta;
        rewrite ?gen_time_threshold_ok;
        destruct d'; [cbn; auto|]; subst r; generalize (time_threshold cis c 0); intros tt;
        destruct (tt <? end_) eqn:?; cbn; auto
      | match type of HR with vb_ret_rel ?a ?b => destruct a as [[l r] d]; destruct b as [l' d'] end;
        destruct HR as (-> & -> & H); cbn [fst snd] in *;
        destruct d'; [destruct H as [->| ->]|subst r]; destruct l'; reflexivity ]
    | split; [unfold gen_version_before_chk; rewrite E; reflexivity|exact E] ]
  | (* count, then read by index *)
    assert (gen_version_before_chk cis cl end_ = Ok (version_before cis cl end_)) as E;
    [ unfold gen_version_before_chk; cbv zeta;
      match goal with |- context [fold_left ?g cl ?s0] =>
        assert (fold_left g cl s0 = fold_left (cnt_step cis end_) cl (0, false)) as ->
      end;
      [ apply (fold_left_rel _ _ _ (fun a b => a = b)); [|reflexivity];
        intros a b c ->; destruct b as [n d]; unfold cnt_step; autounfold with genhelpers; cbn [fst snd]; cbv zeta;
        rewrite ?gen_time_threshold_ok;
        destruct d; [reflexivity|]; generalize (time_threshold cis c 0); intros tt; tree
      | pose proof (cnt_fold_ok cis end_ cl 0) as Hn;
        destruct (fold_left (cnt_step cis end_) cl (0, false)) as [n d]; cbn [fst] in Hn;
        rewrite <- (version_before_by_count cis cl end_ n) by lia;
        destruct (n =? 0) eqn:En; [reflexivity|];
        destruct (get_at cl (n - 1)); reflexivity ]
    | split; [exact E|unfold gen_version_before; rewrite E; reflexivity] ] ].
Qed.

Lemma gen_version_before_ok : forall cis cl end_, gen_version_before cis cl end_ = version_before cis cl end_.
Proof. intros. apply gen_version_before_both. Qed.

Lemma gen_version_before_chk_ok : forall cis cl end_,
  gen_version_before_chk cis cl end_ = Ok (version_before cis cl end_).
Proof. intros. apply gen_version_before_both. Qed.

Definition res_map {A B} (f : A -> B) (r : res A) : res B :=
  match r with Ok a => Ok (f a) | Err e => Err e end.

Lemma get_at_last : forall (cl : list child),
  get_at cl (Z.of_nat (length cl) - 1) = last (map Some cl) None.
Proof.
  intros cl. unfold get_at. destruct cl as [|c r]; [reflexivity|].
  assert (Z.of_nat (length (c :: r)) - 1 <? 0 = false) as -> by (apply Z.ltb_ge; cbn [length]; lia).
  replace (Z.to_nat (Z.of_nat (length (c :: r)) - 1)) with (length r) by (cbn [length]; lia).
  revert c. induction r as [|d r IH]; intros c; [reflexivity|].
  cbn [length nth_error]. rewrite IH. reflexivity.
Qed.

(* options and results are split like the atomic tests *)
Ltac split_match :=
  match goal with
  | |- context [match ?x with Some _ => _ | None => _ end] => is_var x; destruct x
  | |- context [match find_visible ?a ?b ?c ?d ?e with Some _ => _ | None => _ end] => destruct (find_visible a b c d e)
  | |- context [match version_before ?a ?b ?c with Some _ => _ | None => _ end] => destruct (version_before a b c)
  | |- context [match last ?a ?b with Some _ => _ | None => _ end] => destruct (last a b)
  end.

Ltac rw_gen := rewrite ?gen_find_visible_ok, ?gen_version_before_ok, ?get_at_last,
                        ?gen_time_threshold_parent_ok, ?gen_time_threshold_ok.

Ltac tree2 := rw_gen; simp_bool; cbn [res_map]; first [leaf | (split_match; tree2) | (split_atom; tree2)].

(* stated about the call in Compute ([_at]: what Compute passes, over variables named by type), so
   that the parameter list of nextVersionIndex — the options, or only the threshold — does not matter *)
Lemma gen_next_version_index_ok : forall cis current cl np o,
  gen_next_version_index_at cis current cl np o = res_map Z.of_nat (next_version_index cis current cl np o).
Proof.
  intros cis current cl np o. unfold gen_next_version_index_at, gen_next_version_index, next_version_index.
  autounfold with genhelpers. cbv zeta.
  destruct np as [n|]; destruct current as [cur|]; tree2.
Qed.

(* the glue of annotate/way.go and annotate/relation.go: SetChild writes version, changeset and
   location of the child into the reference — the same for way nodes and for relation members of
   all three kinds (the way cache kept for the multipolygon orientation is property C16's) *)
Lemma gen_set_child_ok : forall c r, gen_way_set_child c r = set_ref c r /\ gen_relation_set_child c r = set_ref c r.
Proof. intros c r. split; reflexivity. Qed.

(* which references Compute handles: Refs() marks a reference as annotated by this rule and
   mapChildLocs skips it by this condition — together the model's [filtered_out], for way nodes and
   for relation members; and the threshold used when the caller passes none *)
Lemma gen_skip_ref_ok : forall filter r,
  gen_skip_ref (gen_way_annotated r) filter (r_id r) = filtered_out filter r /\
  gen_skip_ref (gen_relation_annotated r) filter (r_id r) = filtered_out filter r.
Proof.
  intros filter r. unfold gen_skip_ref, gen_way_annotated, gen_relation_annotated, filtered_out,
    filter_is_some, filter_app.
  destruct filter as [f|]; split; destruct (r_version r =? 0) eqn:E; cbn [negb andb];
    try reflexivity; destruct (f (r_id r)); reflexivity.
Qed.

Lemma gen_default_threshold_ok : gen_default_threshold = 30 * 60 * 1000000000.
Proof. reflexivity. Qed.

(* The model runs the children one after the other.  The code reachable from core.Compute,
   annotate.Ways, annotate.Relations must therefore contain nothing that runs concurrently (go
   statements, channels, select, sync, sync/atomic): a sequential model cannot stand for it. *)
Lemma gen_sequential_ok : gen_concurrent_constructs = 0.
Proof. reflexivity. Qed.

(* element reads X[i] outside the loops of the two list functions (none in the present source; a
   counting loop followed by cl[n-1] is such a read) are in range: the checked variants, in which
   such a read may fail, never do *)
Theorem generated_reads_in_range :
  (forall cis cl end_, gen_version_before_chk cis cl end_ = Ok (version_before cis cl end_)) /\
  (forall cis cl cid at_ eps, gen_find_visible_chk cis cl cid at_ eps = Ok (find_visible cis cl cid at_ eps)).
Proof.
  split; [exact gen_version_before_chk_ok|].
  intros. unfold gen_find_visible_chk. rewrite gen_find_visible_ok. reflexivity.
Qed.

(* everything together *)
Theorem generated_code_is_model :
  (forall a b, gen_less_index a b = less a b) /\
  (forall cis ts com, gen_update_timestamp cis ts com = update_timestamp cis ts com) /\
  (forall cis c, gen_child_update cis c = child_update cis c 0%nat) /\
  (forall cis c esp, gen_time_threshold cis c esp = time_threshold cis c esp) /\
  (forall cis p esp, gen_time_threshold_parent cis p esp = time_threshold_parent cis p esp) /\
  (forall cis cl cid at_ eps, gen_find_visible cis cl cid at_ eps = find_visible cis cl cid at_ eps) /\
  (forall cis cl end_, gen_version_before cis cl end_ = version_before cis cl end_) /\
  (forall cis current cl np o,
     gen_next_version_index_at cis current cl np o = res_map Z.of_nat (next_version_index cis current cl np o)) /\
  (forall c r, gen_way_set_child c r = set_ref c r /\ gen_relation_set_child c r = set_ref c r) /\
  (forall filter r, gen_skip_ref (gen_way_annotated r) filter (r_id r) = filtered_out filter r /\
                    gen_skip_ref (gen_relation_annotated r) filter (r_id r) = filtered_out filter r) /\
  gen_default_threshold = 30 * 60 * 1000000000 /\
  unix_nanos gen_commit_info_start_args = Some 1347442203000000000.
Proof.
  split; [exact gen_less_index_ok|]. split; [exact gen_update_timestamp_ok|].
  split; [exact gen_child_update_ok|]. split; [exact gen_time_threshold_ok|].
  split; [exact gen_time_threshold_parent_ok|]. split; [exact gen_find_visible_ok|].
  split; [exact gen_version_before_ok|]. split; [exact gen_next_version_index_ok|].
  split; [exact gen_set_child_ok|]. split; [exact gen_skip_ref_ok|]. split; [exact gen_default_threshold_ok|].
  exact commit_info_start_ok.
Qed.
