(* Annotate/Model.v — executable model of the annotation core of paulmach/osm.
   Definitions only (no proofs).  Transcribed loop by loop from

     annotate/internal/core/compute.go   Compute, nextVersionIndex, mapChildLocs, GroupByParent
     annotate/internal/core/types.go     FindVisible, VersionBefore, timeThreshold(Parent)
     annotate/shared/child.go            Child.Update, updateTimestamp
     annotate/datasource.go              nodesToChildList / waysToChildList / relationsToChildList
     annotate/way.go, relation.go        parentWay / parentRelation (Refs, SetChild), Ways, Relations
     update.go                           updatesSortIndex.Less, Updates.SortByIndex
     way.go, relation.go                 ApplyUpdatesUpTo, applyUpdate

   Conventions.  Times are Z nanoseconds (Unix); durations are Z nanoseconds; the zero time.Time
   (year 1) is [zero_time].  All stamps are assumed to lie in a range where time.Sub does not
   saturate.  [cis] is osm.CommitInfoStart; every function takes it as a parameter, so all
   theorems hold for every value of that constant (the harness sends the value the code has).
   The two sources of nondeterminism in Compute are explicit arguments:
     - the iteration order over the map of child locations: the list of map entries visited,
     - the result of sort.Sort: a function [sortf] on update lists.
   Coordinates are Z (the harness uses integer-valued doubles). *)

From Coq Require Import ZArith List Bool.
Import ListNotations.
Open Scope Z_scope.

(* ------------------------------------------------------------------------- *)
(* data                                                                      *)

Definition zero_time : Z := -62135596800000000000.

(* shared.Child *)
Record child := mkChild {
  c_id : Z;            (* feature id *)
  c_version : Z;
  c_changeset : Z;
  c_vidx : nat;        (* VersionIndex *)
  c_timestamp : Z;
  c_committed : Z;     (* zero_time when unknown *)
  c_lat : Z;
  c_lon : Z;
  c_reverse : bool;    (* ReverseOfPrevious *)
  c_visible : bool
}.

(* one version of an element as the datasource returns it (osm.Node / Way / Relation) *)
Record hver := mkHver {
  h_version : Z;
  h_changeset : Z;
  h_timestamp : Z;
  h_committed : Z;     (* zero_time when Committed == nil *)
  h_lat : Z;
  h_lon : Z;
  h_reverse : bool;    (* annotate.IsReverse(this, previous in version order): geometry oracle *)
  h_visible : bool
}.

(* osm.Update *)
Record update := mkUpdate {
  u_index : nat;
  u_version : Z;
  u_timestamp : Z;
  u_changeset : Z;
  u_lat : Z;
  u_lon : Z;
  u_reverse : bool
}.

(* osm.WayNode / osm.Member, the annotated part *)
Record ref := mkRef {
  r_id : Z;            (* feature id of the child *)
  r_version : Z;
  r_changeset : Z;
  r_lat : Z;
  r_lon : Z;
  r_orient : Z         (* Member.Orientation (relations only) *)
}.

(* core.Parent as implemented by parentWay / parentRelation *)
Record parent := mkParent {
  p_changeset : Z;
  p_visible : bool;
  p_timestamp : Z;
  p_committed : Z;     (* zero_time when Committed == nil *)
  p_refs : list ref
}.

Record opts := mkOpts {
  o_threshold : Z;
  o_ignore_incons : bool;
  o_ignore_missing : bool;
  o_filter : option (Z -> bool)
}.

Inductive hres := HFound (h : list child) | HNotFound | HError.

Inductive err :=
| ENoHistory (fid : Z)
| ENoVisibleChild (fid : Z) (ts : Z)
| EDeletedBetween (fid : Z)
| EDatasource
| EPanic.                      (* index out of range in the Go code *)

Inductive res (A : Type) := Ok (a : A) | Err (e : err).
Arguments Ok {A} a.
Arguments Err {A} e.

(* ------------------------------------------------------------------------- *)
(* types.go                                                                  *)

Definition time_threshold (cis : Z) (c : child) (esp : Z) : Z :=
  if c_committed c <? cis then c_timestamp c + esp else c_committed c.

Definition time_threshold_parent (cis : Z) (p : parent) (esp : Z) : Z :=
  if p_committed p <? cis then p_timestamp p + esp else p_committed p.

Record fv_state := mkFv { fv_diff : Z; fv_nearest : option child; fv_done : bool }.

Definition vis_opt (c : child) : option child := if c_visible c then Some c else None.

(* one iteration of the loop of FindVisible; [break] sets fv_done *)
Definition fv_step (cis cid at_ eps : Z) (st : fv_state) (c : child) : fv_state :=
  if fv_done st then st else
  let start := at_ - eps in
  if c_committed c <? cis then
    let offset := c_timestamp c - start in
    if offset >? 2 * eps then mkFv (fv_diff st) (fv_nearest st) true
    else if offset <? 0 then mkFv (fv_diff st) (vis_opt c) false
    else
      let d := Z.abs (offset - eps) in
      if (fv_diff st <? 0) || (d <=? fv_diff st) then
        let nearest1 :=
          if (fv_diff st =? -1) && negb (c_visible c) && (offset =? 0) then None
          else fv_nearest st in
        if c_visible c then
          if offset <=? eps then mkFv d (Some c) false
          else if c_changeset c =? cid then mkFv d (Some c) false
          else mkFv (fv_diff st) nearest1 false          (* continue *)
        else mkFv d nearest1 false
      else st
  else
    if c_committed c >? at_ then mkFv (fv_diff st) (fv_nearest st) true
    else mkFv (fv_diff st) (vis_opt c) false.

Definition find_visible (cis : Z) (cl : list child) (cid at_ eps : Z) : option child :=
  fv_nearest (fold_left (fv_step cis cid at_ eps) cl (mkFv (-1) None false)).

(* VersionBefore: the last child of the longest prefix with timeThreshold < end *)
Fixpoint version_before_from (cis : Z) (cl : list child) (end_ : Z) (latest : option child)
  : option child :=
  match cl with
  | [] => latest
  | c :: r =>
      if negb (time_threshold cis c 0 <? end_) then latest
      else version_before_from cis r end_ (Some c)
  end.
Definition version_before cis cl end_ := version_before_from cis cl end_ None.

(* ------------------------------------------------------------------------- *)
(* shared/child.go                                                           *)

Definition update_timestamp (cis : Z) (timestamp committed : Z) : Z :=
  if (timestamp <? cis) || (committed =? zero_time) then timestamp else committed.

Definition child_update (cis : Z) (c : child) (index : nat) : update :=
  mkUpdate index (c_version c) (update_timestamp cis (c_timestamp c) (c_committed c))
           (c_changeset c) (c_lat c) (c_lon c) (c_reverse c).

(* ------------------------------------------------------------------------- *)
(* update.go: the comparison used by SortByIndex, and sort.Sort                *)

(* updatesSortIndex.Less as it was in the pinned snapshot (index, timestamp) *)
Definition less_v0 (a b : update) : bool :=
  if negb (Nat.eqb (u_index a) (u_index b)) then Nat.ltb (u_index a) (u_index b)
  else u_timestamp a <? u_timestamp b.

(* updatesSortIndex.Less after the repair (index, timestamp, version) *)
Definition less (a b : update) : bool :=
  if negb (Nat.eqb (u_index a) (u_index b)) then Nat.ltb (u_index a) (u_index b)
  else if u_timestamp a <? u_timestamp b then true
  else if u_timestamp b <? u_timestamp a then false
  else u_version a <? u_version b.

(* a concrete sort: stable insertion sort.  sort.Sort itself is only specified as
   "some permutation that is sorted for Less" (Proofs: [sort_spec]). *)
Fixpoint insert_by {A} (lt : A -> A -> bool) (x : A) (l : list A) : list A :=
  match l with
  | [] => [x]
  | y :: r => if lt x y then x :: l else y :: insert_by lt x r
  end.
Definition isort {A} (lt : A -> A -> bool) (l : list A) : list A :=
  fold_right (insert_by lt) [] l.

(* ------------------------------------------------------------------------- *)
(* datasource.go: history -> ChildList                                       *)

Fixpoint number_from (fid : Z) (i : nat) (l : list hver) : list child :=
  match l with
  | [] => []
  | h :: r =>
      mkChild fid (h_version h) (h_changeset h) i (h_timestamp h) (h_committed h)
              (h_lat h) (h_lon h) (h_reverse h) (h_visible h)
      :: number_from fid (S i) r
  end.

(* nodes.SortByIDVersion (one id, so by version), then VersionIndex = position *)
Definition to_child_list (fid : Z) (l : list hver) : list child :=
  number_from fid 0 (isort (fun a b => h_version a <? h_version b) l).

(* ------------------------------------------------------------------------- *)
(* compute.go: mapChildLocs, GroupByParent                                   *)

Definition loc := (nat * nat)%type.   (* childLoc{Parent, Index} *)

Fixpoint add_loc (m : list (Z * list loc)) (fid : Z) (l : loc) : list (Z * list loc) :=
  match m with
  | [] => [(fid, [l])]
  | (k, ls) :: r => if k =? fid then (k, ls ++ [l]) :: r else (k, ls) :: add_loc r fid l
  end.

Definition filtered_out (filter : option (Z -> bool)) (r : ref) : bool :=
  match filter with
  | Some f => negb (r_version r =? 0) && negb (f (r_id r))
  | None => false
  end.

Fixpoint map_refs (filter : option (Z -> bool)) (i : nat) (j : nat) (refs : list ref)
  (m : list (Z * list loc)) : list (Z * list loc) :=
  match refs with
  | [] => m
  | r :: rest =>
      map_refs filter i (S j) rest
        (if filtered_out filter r then m else add_loc m (r_id r) (i, j))
  end.

Fixpoint map_parents (filter : option (Z -> bool)) (i : nat) (ps : list parent)
  (m : list (Z * list loc)) : list (Z * list loc) :=
  match ps with
  | [] => m
  | p :: rest => map_parents filter (S i) rest (map_refs filter i 0 (p_refs p) m)
  end.

(* the map as an association list in first-insertion order (Go iterates it in any order) *)
Definition map_child_locs (ps : list parent) (filter : option (Z -> bool)) : list (Z * list loc) :=
  map_parents filter 0 ps [].

Fixpoint group_by_parent (l : list loc) : list (list loc) :=
  match l with
  | [] => []
  | x :: r =>
      match group_by_parent r with
      | (y :: g) :: gs =>
          if Nat.eqb (fst x) (fst y) then (x :: y :: g) :: gs else [x] :: (y :: g) :: gs
      | _ => [[x]]
      end
  end.

(* ------------------------------------------------------------------------- *)
(* compute.go: nextVersionIndex                                              *)

Definition next_version_index (cis : Z) (current : option child) (cl : list child)
  (next_parent : option parent) (o : opts) : res nat :=
  match next_parent with
  | None =>
      match last (map Some cl) None with
      | Some c => Ok (S (c_vidx c))
      | None => Err EPanic                         (* child[len(child)-1] on an empty list *)
      end
  | Some np =>
      match find_visible cis cl (p_changeset np) (time_threshold_parent cis np 0) (o_threshold o) with
      | Some next =>
          if time_threshold cis next 0 <? time_threshold_parent cis np (- o_threshold o)
          then Ok (S (c_vidx next)) else Ok (c_vidx next)
      | None =>
          let ts := time_threshold_parent cis np (- o_threshold o) in
          let same_window :=
            match current with
            | Some cur => negb (ts >? time_threshold cis cur 0)
            | None => false
            end in
          if same_window then Ok 0%nat
          else match version_before cis cl ts with
               | None => Ok 0%nat
               | Some next => Ok (S (c_vidx next))
               end
      end
  end.

(* ------------------------------------------------------------------------- *)
(* compute.go: the body of the loop over GroupByParent                        *)

(* for k := start; k < nextVersion; k++ *)
Fixpoint updates_loop (cis : Z) (o : opts) (fid : Z) (cl : list child) (locs : list loc)
  (k : nat) (n : nat) (acc : list update) : res (list update) :=
  match n with
  | O => Ok acc
  | S n' =>
      match nth_error cl k with
      | None => Err EPanic
      | Some ck =>
          if c_visible ck then
            updates_loop cis o fid cl locs (S k) n'
              (acc ++ map (fun cl_ : loc => child_update cis ck (snd cl_)) locs)
          else if o_ignore_incons o then updates_loop cis o fid cl locs (S k) n' acc
          else Err (EDeletedBetween fid)
      end
  end.

(* what one (child, parent) group decides: the child to set and the updates to append.
   Nothing here reads state that Compute mutates (SetChild only writes the annotation fields;
   Refs() was read once, in mapChildLocs, before the loop). *)
Definition group_plan (cis : Z) (o : opts) (fid : Z) (cl : list child)
  (p : parent) (next_parent : option parent) (locs : list loc)
  : res (option child * list update) :=
  let at_ := time_threshold_parent cis p 0 in
  let c := find_visible cis cl (p_changeset p) at_ (o_threshold o) in
  match c, o_ignore_incons o with
  | None, false => Err (ENoVisibleChild fid at_)
  | _, _ =>
      match next_version_index cis c cl next_parent o with
      | Err e => Err e
      | Ok next_version =>
          let start :=
            match c with
            | Some c' => S (c_vidx c')
            | None =>
                match version_before cis cl at_ with
                | None => 0%nat
                | Some nx => S (c_vidx nx)
                end
            end in
          match updates_loop cis o fid cl locs start (next_version - start) [] with
          | Err e => Err e
          | Ok ups => Ok (c, ups)
          end
      end
  end.

(* parentWay.SetChild / parentRelation.SetChild *)
Definition set_ref (c : child) (r : ref) : ref :=
  mkRef (r_id r) (c_version c) (c_changeset c) (c_lat c) (c_lon c) (r_orient r).

Fixpoint update_nth {A} (n : nat) (f : A -> A) (l : list A) : list A :=
  match l, n with
  | [], _ => []
  | x :: r, O => f x :: r
  | x :: r, S n' => x :: update_nth n' f r
  end.

Definition set_child (idx : nat) (c : option child) (p : parent) : parent :=
  match c with
  | None => p
  | Some c' =>
      mkParent (p_changeset p) (p_visible p) (p_timestamp p) (p_committed p)
               (update_nth idx (set_ref c') (p_refs p))
  end.

Definition state := (list parent * list (list update))%type.

Definition apply_plan (pidx : nat) (locs : list loc) (c : option child) (ups : list update)
  (st : state) : state :=
  (fold_left (fun ps (cl_ : loc) => update_nth pidx (set_child (snd cl_) c) ps) locs (fst st),
   update_nth pidx (fun r => r ++ ups) (snd st)).

(* one group; [ps0] are the parents as passed in (static fields never change) *)
Definition do_group (cis : Z) (o : opts) (ps0 : list parent) (fid : Z) (cl : list child)
  (st : state) (locs : list loc) : res state :=
  match locs with
  | [] => Ok st
  | l0 :: _ =>
      let pidx := fst l0 in
      match nth_error ps0 pidx with
      | None => Err EPanic
      | Some p =>
          if negb (p_visible p) then Ok st
          else
            match group_plan cis o fid cl p (nth_error ps0 (S pidx)) locs with
            | Err e => Err e
            | Ok (c, ups) => Ok (apply_plan pidx locs c ups st)
            end
      end
  end.

Fixpoint fold_res {A S} (f : S -> A -> res S) (l : list A) (st : S) : res S :=
  match l with
  | [] => Ok st
  | a :: r => match f st a with Err e => Err e | Ok st' => fold_res f r st' end
  end.

(* the body of the loop over the map *)
Definition do_child (cis : Z) (o : opts) (ps0 : list parent) (hist : Z -> hres)
  (st : state) (entry : Z * list loc) : res state :=
  let (fid, locations) := entry in
  match hist fid with
  | HError => Err EDatasource
  | HNotFound => if o_ignore_missing o then Ok st else Err (ENoHistory fid)
  | HFound [] => if o_ignore_missing o then Ok st else Err (ENoHistory fid)   (* len(child) == 0 *)
  | HFound cl => fold_res (do_group cis o ps0 fid cl) (group_by_parent locations) st
  end.

(* Compute with the map iteration order [entries] (a permutation of map_child_locs) and the
   sort result chosen by [sortf] *)
Definition compute_with (cis : Z) (o : opts) (ps : list parent) (hist : Z -> hres)
  (entries : list (Z * list loc)) (sortf : list update -> list update) : res state :=
  match fold_res (do_child cis o ps hist) entries (ps, map (fun _ => []) ps) with
  | Err e => Err e
  | Ok (ps', results) => Ok (ps', map sortf results)
  end.

(* the executable instance used for correspondence: insertion order, insertion sort *)
Definition compute (cis : Z) (o : opts) (ps : list parent) (hist : Z -> hres) : res state :=
  compute_with cis o ps hist (map_child_locs ps (o_filter o)) (isort less).

(* ------------------------------------------------------------------------- *)
(* way.go / relation.go: ApplyUpdatesUpTo                                     *)

Definition apply_update (is_rel : bool) (u : update) (r : ref) : ref :=
  mkRef (r_id r) (u_version u) (u_changeset u) (u_lat u) (u_lon u)
        (if is_rel && u_reverse u then - r_orient r else r_orient r).

Inductive apply_res :=
| ApplyOk (refs : list ref) (pending : list update)
| ApplyIndexError (index : nat).

Fixpoint apply_updates_from (is_rel : bool) (t : Z) (us : list update) (refs : list ref)
  (not_applied : list update) : apply_res :=
  match us with
  | [] => ApplyOk refs not_applied
  | u :: rest =>
      if u_timestamp u >? t then apply_updates_from is_rel t rest refs (not_applied ++ [u])
      else if Nat.leb (length refs) (u_index u) then ApplyIndexError (u_index u)
      else apply_updates_from is_rel t rest (update_nth (u_index u) (apply_update is_rel u) refs)
                              not_applied
  end.

Definition apply_updates_up_to (is_rel : bool) (t : Z) (refs : list ref) (us : list update)
  : apply_res :=
  apply_updates_from is_rel t us refs [].
