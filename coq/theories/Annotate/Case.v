(* Annotate/Case.v — wire readers and comparison helpers shared by C12/Check.v and C11/Check.v.
   Executable only.

   Layout of an annotation input (after the case tag):
     cis                                   osm.CommitInfoStart, Unix ns
     is_rel                                0 = annotate.Ways, 1 = annotate.Relations
     threshold ignore_incons ignore_missing
     filter        : opt (list id)         ChildFilter accepts exactly these feature ids
     parents       : list parent
        parent = changeset visible timestamp committed:opt  refs : list ref
        ref    = id version changeset lat lon orient
     histories     : list (fid kind versions)    kind 0 found, 1 not found, 2 other error
        version = version changeset timestamp committed:opt lat lon reverse visible
                  (in the order the datasource returns them)
   Layout of an outcome:
     status    0 ok | 1 NoHistoryError | 2 NoVisibleChildError | 3 other error | 4 panic
     fid       (status 1, 2: the id in the error; otherwise 0)
     if ok: parents : list (list ref)   updates : list (list update)
        update = index version timestamp changeset lat lon reverse *)
From Coq Require Import ZArith List Bool.
From Verif Require Import Base.Wire Annotate.Model.
Import ListNotations.
Open Scope Z_scope.
Open Scope wire_scope.

Definition ptime_opt : P Z := o <- popt pint ;; ret (match o with Some t => t | None => zero_time end).

Definition pref : P ref :=
  id <- pint ;; v <- pint ;; cs <- pint ;; lat <- pint ;; lon <- pint ;; orient <- pint ;;
  ret (mkRef id v cs lat lon orient).

Definition pparent : P parent :=
  cs <- pint ;; vis <- pbool ;; ts <- pint ;; com <- ptime_opt ;; refs <- plist pref ;;
  ret (mkParent cs vis ts com refs).

Definition phver : P hver :=
  v <- pint ;; cs <- pint ;; ts <- pint ;; com <- ptime_opt ;; lat <- pint ;; lon <- pint ;;
  rev <- pbool ;; vis <- pbool ;;
  ret (mkHver v cs ts com lat lon rev vis).

Definition phist : P (Z * (Z * list hver)) :=
  fid <- pint ;; kind <- pint ;; vs <- plist phver ;; ret (fid, (kind, vs)).

Definition pupdate : P update :=
  i <- pnat ;; v <- pint ;; ts <- pint ;; cs <- pint ;; lat <- pint ;; lon <- pint ;; rev <- pbool ;;
  ret (mkUpdate i v ts cs lat lon rev).

Record ainput := mkInput {
  i_cis : Z;
  i_rel : bool;
  i_opts : opts;
  i_parents : list parent;
  i_hists : list (Z * (Z * list hver))
}.

Definition memZ (l : list Z) (x : Z) : bool := existsb (Z.eqb x) l.

Definition pinput : P ainput :=
  cis <- pint ;; rel <- pbool ;;
  thr <- pint ;; ii <- pbool ;; im <- pbool ;; flt <- popt (plist pint) ;;
  ps <- plist pparent ;; hs <- plist phist ;;
  ret (mkInput cis rel
         (mkOpts thr ii im (match flt with Some l => Some (memZ l) | None => None end))
         ps hs).

(* the datasource as a function: the wrapper datasource converts a found history with
   nodesToChildList etc.; an id that is not listed behaves as "not found" *)
Fixpoint lookup_hist (hs : list (Z * (Z * list hver))) (fid : Z) : hres :=
  match hs with
  | [] => HNotFound
  | (k, (kind, vs)) :: r =>
      if k =? fid then
        (if kind =? 0 then HFound (to_child_list fid vs)
         else if kind =? 1 then HNotFound else HError)
      else lookup_hist r fid
  end.

Definition input_hist (i : ainput) : Z -> hres := lookup_hist (i_hists i).

(* observed outcome *)
Record outcome := mkOutcome {
  oc_status : Z;
  oc_fid : Z;
  oc_parents : list (list ref);
  oc_updates : list (list update)
}.

Definition poutcome : P outcome :=
  st <- pint ;; fid <- pint ;;
  if st =? 0 then
    ps <- plist (plist pref) ;; us <- plist (plist pupdate) ;; ret (mkOutcome st fid ps us)
  else ret (mkOutcome st fid [] []).

Definition ref_eqb (a b : ref) : bool :=
  (r_id a =? r_id b) && (r_version a =? r_version b) && (r_changeset a =? r_changeset b)
  && (r_lat a =? r_lat b) && (r_lon a =? r_lon b) && (r_orient a =? r_orient b).

Definition update_eqb (a b : update) : bool :=
  Nat.eqb (u_index a) (u_index b) && (u_version a =? u_version b)
  && (u_timestamp a =? u_timestamp b) && (u_changeset a =? u_changeset b)
  && (u_lat a =? u_lat b) && (u_lon a =? u_lon b) && Bool.eqb (u_reverse a) (u_reverse b).

(* projected error class of a model error: (status, fid) *)
Definition err_class (e : err) : Z * Z :=
  match e with
  | ENoHistory fid => (1, fid)
  | ENoVisibleChild fid _ => (2, fid)
  | EDeletedBetween _ => (3, 0)
  | EDatasource => (3, 0)
  | EPanic => (4, 0)
  end.

(* every error some iteration order can report first: each map entry on its own *)
Definition possible_errors (i : ainput) : list (Z * Z) :=
  let ps := i_parents i in
  flat_map (fun e =>
     match do_child (i_cis i) (i_opts i) ps (input_hist i) (ps, map (fun _ => []) ps) e with
     | Err er => [err_class er]
     | Ok _ => []
     end) (map_child_locs ps (o_filter (i_opts i))).

Definition model_outcome (i : ainput) : res state :=
  compute (i_cis i) (i_opts i) (i_parents i) (input_hist i).

(* judgement 1 for one observed outcome *)
Definition outcome_matches (i : ainput) (m : res state) (o : outcome) : bool :=
  match m with
  | Ok (ps, us) =>
      (oc_status o =? 0)
      && list_eqb (list_eqb ref_eqb) (map p_refs ps) (oc_parents o)
      && list_eqb (list_eqb update_eqb) us (oc_updates o)
  | Err _ =>
      negb (oc_status o =? 0)
      && existsb (fun c => (fst c =? oc_status o) && (snd c =? oc_fid o)) (possible_errors i)
  end.
