(* Geo/JoinProofs.v — termination, removal-by-shifting, structural facts about [join]. *)
From Coq Require Import ZArith List Bool Lia Arith Permutation.
From Verif Require Import Geo.Model.
Import ListNotations.
Open Scope Z_scope.

(* ---------------------------------------------------------------- remove by shifting *)
Definition remove_nth {A} (i : nat) (l : list A) : list A := firstn i l ++ skipn (S i) l.

Lemma removelast_app_single : forall {A} (l : list A) (x : A), removelast (l ++ [x]) = l.
Proof. intros A l x. rewrite removelast_app by discriminate. simpl. apply app_nil_r. Qed.

Lemma remove_shift_eq : forall i l, (i < length l)%nat -> remove_shift i l = remove_nth i l.
Proof.
  intros i l Hi. unfold remove_shift, remove_nth.
  destruct (Nat.ltb i (Nat.div (length l) 2)).
  - unfold shift_up. destruct l as [|a l']; [simpl in Hi; lia|]. reflexivity.
  - unfold shift_down.
    rewrite app_assoc. apply removelast_app_single.
Qed.

Lemma remove_nth_length : forall {A} i (l : list A), (i < length l)%nat ->
  length (remove_nth i l) = pred (length l).
Proof.
  intros A i l Hi. unfold remove_nth. rewrite app_length, firstn_length, skipn_length. lia.
Qed.

Lemma remove_nth_perm : forall {A} i (l : list A) (x : A), nth_error l i = Some x ->
  Permutation l (x :: remove_nth i l).
Proof.
  intros A i. induction i as [|i IH]; intros l x H; destruct l as [|a l']; simpl in H; try discriminate.
  - inversion H; subst. unfold remove_nth. simpl. reflexivity.
  - unfold remove_nth in *. simpl. rewrite (IH l' x H) at 1. apply perm_swap.
Qed.

(* ---------------------------------------------------------------- find_fit *)
Lemma find_fit_spec : forall first last segs k i s f,
  find_fit first last segs k = Some (i, s, f) ->
  exists j, i = (k + j)%nat /\ nth_error segs j = Some s /\ match_seg first last s = Some f.
Proof.
  intros first last segs. induction segs as [|a r IH]; intros k i s f H; simpl in H.
  - discriminate.
  - destruct (match_seg first last a) eqn:Hm.
    + inversion H; subst. exists 0%nat. repeat split; [lia|assumption].
    + apply IH in H. destruct H as (j & Hi & Hn & Hf). exists (S j). repeat split; [lia|assumption|assumption].
Qed.

Lemma find_fit_none : forall first last segs k,
  find_fit first last segs k = None -> forall s, In s segs -> match_seg first last s = None.
Proof.
  intros first last segs. induction segs as [|a r IH]; intros k H s Hin; simpl in *.
  - contradiction.
  - destruct (match_seg first last a) eqn:Hm; [discriminate|].
    destruct Hin as [->|Hin]; [assumption|]. eapply IH; eassumption.
Qed.

(* ---------------------------------------------------------------- termination *)
Lemma grow_unfold : forall fu cur segs, segs <> [] ->
  grow (S fu) cur segs =
  if pt_eqb (ms_first cur) (ms_last cur) then Some (cur, segs)
  else match find_fit (ms_first cur) (ms_last cur) segs 0 with
       | None => Some (cur, segs)
       | Some (i, s, f) => grow fu (apply_fit cur s f) (remove_shift i segs)
       end.
Proof. intros fu cur segs H. destruct segs; [congruence|reflexivity]. Qed.

Lemma join_loop_unfold : forall fu segs lists, segs <> [] ->
  join_loop (S fu) segs lists =
  match grow (S (length (removelast segs))) [last segs dummy_seg] (removelast segs) with
  | None => None
  | Some (cur', segs'') => join_loop fu segs'' (lists ++ [cur'])
  end.
Proof. intros fu segs lists H. destruct segs; [congruence|reflexivity]. Qed.

Lemma grow_some : forall fuel cur segs, (length segs < fuel)%nat ->
  exists cur' segs', grow fuel cur segs = Some (cur', segs') /\ (length segs' <= length segs)%nat.
Proof.
  induction fuel as [|fu IH]; intros cur segs Hf; [lia|].
  destruct segs as [|s0 r] eqn:Es.
  - eexists _, _. split; [reflexivity|simpl; lia].
  - rewrite <- Es in *. rewrite grow_unfold by (subst; discriminate).
    destruct (pt_eqb (ms_first cur) (ms_last cur)).
    + eexists _, _. split; [reflexivity|lia].
    + destruct (find_fit (ms_first cur) (ms_last cur) segs 0) as [[[i s] f]|] eqn:Hfind.
      * apply find_fit_spec in Hfind. destruct Hfind as (j & Hi & Hn & _). simpl in Hi. subst i.
        assert (Hj : (j < length segs)%nat) by (apply nth_error_Some; congruence).
        rewrite remove_shift_eq by assumption.
        assert (Hl : length (remove_nth j segs) = pred (length segs)) by (apply remove_nth_length; assumption).
        destruct (IH (apply_fit cur s f) (remove_nth j segs)) as (c' & s' & Hg & Hle); [lia|].
        exists c', s'. split; [assumption|lia].
      * eexists _, _. split; [reflexivity|lia].
Qed.

Lemma removelast_length : forall {A} (l : list A), length (removelast l) = pred (length l).
Proof.
  intros A l. destruct l as [|a l'] using rev_ind; [reflexivity|].
  rewrite removelast_app_single, app_length. simpl. lia.
Qed.

Lemma join_loop_some : forall fuel segs lists, (length segs < fuel)%nat ->
  exists l, join_loop fuel segs lists = Some l.
Proof.
  induction fuel as [|fu IH]; intros segs lists Hf; [lia|].
  destruct segs as [|s0 r] eqn:Es.
  - eexists; reflexivity.
  - rewrite <- Es in *. rewrite join_loop_unfold by (subst; discriminate).
    assert (Hlen : length (removelast segs) = pred (length segs)) by apply removelast_length.
    destruct (grow_some (S (length (removelast segs))) [last segs dummy_seg] (removelast segs))
      as (c' & s' & Hg & Hle); [lia|].
    rewrite Hg. apply IH. subst segs. simpl in *. lia.
Qed.

Theorem join_terminates : forall segments, join segments <> JoinOutOfFuel.
Proof.
  intros segments. unfold join.
  destruct (join_loop_some (S (length (compact segments))) (compact segments) []) as (l & ->); [lia|].
  discriminate.
Qed.

(* ---------------------------------------------------------------- invariant rule for the two loops *)
Definition stopped (cur : multisegment) (segs : list segment) : Prop :=
  segs = [] \/ pt_eqb (ms_first cur) (ms_last cur) = true \/
  (forall s, In s segs -> match_seg (ms_first cur) (ms_last cur) s = None).

Section JoinInvariant.
  Variable P : list multisegment -> multisegment -> list segment -> Prop. (* inner loop state *)
  Variable Q : list segment -> list multisegment -> Prop.                  (* outer loop state *)
  Hypothesis Hstart : forall segs lists, segs <> [] -> Q segs lists ->
    P lists [last segs dummy_seg] (removelast segs).
  Hypothesis Hstep : forall lists cur segs i s f,
    P lists cur segs -> pt_eqb (ms_first cur) (ms_last cur) = false ->
    nth_error segs i = Some s -> match_seg (ms_first cur) (ms_last cur) s = Some f ->
    P lists (apply_fit cur s f) (remove_nth i segs).
  Hypothesis Hdone : forall lists cur segs,
    P lists cur segs -> stopped cur segs -> Q segs (lists ++ [cur]).

  Lemma grow_inv : forall fuel lists cur segs cur' segs',
    grow fuel cur segs = Some (cur', segs') -> P lists cur segs ->
    P lists cur' segs' /\ stopped cur' segs'.
  Proof.
    induction fuel as [|fu IH]; intros lists cur segs cur' segs' Hg HP; [discriminate|].
    destruct segs as [|s0 r] eqn:Es.
    - simpl in Hg. inversion Hg; subst. split; [assumption|left; reflexivity].
    - rewrite <- Es in *. rewrite grow_unfold in Hg by (subst; discriminate).
      destruct (pt_eqb (ms_first cur) (ms_last cur)) eqn:Hc.
      + inversion Hg; subst cur' segs'. split; [assumption|right; left; assumption].
      + destruct (find_fit (ms_first cur) (ms_last cur) segs 0) as [[[i s] f]|] eqn:Hfind.
        * apply find_fit_spec in Hfind. destruct Hfind as (j & Hi & Hn & Hm). simpl in Hi. subst i.
          assert (Hj : (j < length segs)%nat) by (apply nth_error_Some; congruence).
          rewrite remove_shift_eq in Hg by assumption.
          eapply IH; [exact Hg|]. eapply Hstep; eassumption.
        * inversion Hg; subst cur' segs'. split; [assumption|].
          right; right. eapply find_fit_none; eassumption.
  Qed.

  Lemma join_loop_inv : forall fuel segs lists out,
    join_loop fuel segs lists = Some out -> Q segs lists -> Q [] out.
  Proof.
    induction fuel as [|fu IH]; intros segs lists out Hj HQ; [discriminate|].
    destruct segs as [|s0 r] eqn:Es.
    - simpl in Hj. inversion Hj; subst. assumption.
    - rewrite <- Es in *. rewrite join_loop_unfold in Hj by (subst; discriminate).
      destruct (grow (S (length (removelast segs))) [last segs dummy_seg] (removelast segs))
        as [[c' s']|] eqn:Hg; [|discriminate].
      eapply grow_inv in Hg; [|apply Hstart; [subst; discriminate|exact HQ]].
      destruct Hg as [HP Hs]. eapply IH; [exact Hj|]. apply Hdone; assumption.
  Qed.

  Lemma join_inv : forall segments out,
    Q (compact segments) [] -> join segments = JoinOk out -> Q [] out.
  Proof.
    intros segments out HQ Hj. unfold join in Hj.
    destruct (join_loop (S (length (compact segments))) (compact segments) []) as [l|] eqn:E;
      [|discriminate].
    inversion Hj; subst. eapply join_loop_inv; eassumption.
  Qed.
End JoinInvariant.
