(* Geo/Orient.v — the shoelace computations of the code (with an offset, two variants) equal the
   textbook signed area on closed lines; reversal negates it; MultiSegment.Ring(o) returns the
   ring wound as o both without and with truthful member orientations; annotateOrientation
   writes the direction of the original way. *)
From Coq Require Import ZArith List Bool Lia Arith.
From Verif Require Import Geo.Model Geo.JoinProofs Geo.Conserve.
Import ListNotations.
Open Scope Z_scope.

(* textbook shoelace sum over consecutive pairs (twice the signed area for a closed line) *)
Fixpoint shoelace (l : line) : Z :=
  match l with
  | p :: ((q :: _) as r) => (fst p * snd q - fst q * snd p) + shoelace r
  | _ => 0
  end.

Lemma area_from_shoelace : forall off p l,
  area_from off (p :: l) =
  shoelace (p :: l) - snd off * (fst p - fst (llast (p :: l))) - fst off * (snd (llast (p :: l)) - snd p).
Proof.
  intros off p l. revert p. induction l as [|q l IH]; intros p.
  - unfold llast. simpl. lia.
  - change (area_from off (p :: q :: l)) with (cross_off off p q + area_from off (q :: l)).
    change (shoelace (p :: q :: l)) with ((fst p * snd q - fst q * snd p) + shoelace (q :: l)).
    rewrite IH. change (llast (p :: q :: l)) with (llast (q :: l)).
    unfold cross_off. lia.
Qed.

Definition line_closed (l : line) : Prop := lfirst l = llast l.

Lemma area_from_closed : forall off l, line_closed l -> area_from off l = shoelace l.
Proof.
  intros off [|p l] H; [reflexivity|]. rewrite area_from_shoelace.
  unfold line_closed, lfirst in H. simpl hd in H. rewrite <- H. lia.
Qed.

(* orb.Ring.Orientation's sum (skips the first pair, which is zero) *)
Lemma ring_area2_eq : forall r, line_closed r -> ring_area2 r = shoelace r.
Proof.
  intros [|p r] H; [reflexivity|]. unfold ring_area2.
  rewrite <- (area_from_closed p (p :: r) H).
  destruct r as [|q r]; [reflexivity|].
  change (area_from p (p :: q :: r)) with (cross_off p p q + area_from p (q :: r)).
  unfold cross_off. lia.
Qed.

(* MultiSegment.Orientation's sum (starts with a zero term) *)
Lemma ms_area2_eq : forall ms, line_closed (ms_line ms) -> ms_area2 ms = shoelace (ms_line ms).
Proof.
  intros ms H. unfold ms_area2. destruct (ms_line ms) as [|p l] eqn:E; [reflexivity|].
  rewrite <- (area_from_closed p (p :: l) H).
  change (area_from p (p :: p :: l)) with (cross_off p p p + area_from p (p :: l)).
  unfold cross_off. lia.
Qed.

Lemma shoelace_snoc : forall l p q,
  shoelace ((l ++ [p]) ++ [q]) = shoelace (l ++ [p]) + (fst p * snd q - fst q * snd p).
Proof.
  induction l as [|a l IH]; intros p q.
  - simpl. lia.
  - destruct l as [|b l'].
    + simpl. lia.
    + change (((a :: b :: l') ++ [p]) ++ [q]) with (a :: ((b :: l') ++ [p]) ++ [q]).
      change ((a :: b :: l') ++ [p]) with (a :: (b :: l') ++ [p]).
      change (shoelace (a :: ((b :: l') ++ [p]) ++ [q]))
        with ((fst a * snd b - fst b * snd a) + shoelace (((b :: l') ++ [p]) ++ [q])).
      change (shoelace (a :: (b :: l') ++ [p]))
        with ((fst a * snd b - fst b * snd a) + shoelace ((b :: l') ++ [p])).
      rewrite IH. lia.
Qed.

Lemma shoelace_rev : forall l, shoelace (rev l) = - shoelace l.
Proof.
  induction l as [|a l IH]; [reflexivity|].
  destruct l as [|b l']; [reflexivity|].
  change (rev (a :: b :: l')) with ((rev l' ++ [b]) ++ [a]).
  rewrite shoelace_snoc. change (rev l' ++ [b]) with (rev (b :: l')). rewrite IH.
  change (shoelace (a :: b :: l')) with ((fst a * snd b - fst b * snd a) + shoelace (b :: l')). lia.
Qed.

Lemma line_closed_rev : forall l, line_closed l -> line_closed (rev l).
Proof. intros l H. unfold line_closed in *. rewrite lfirst_rev, llast_rev. symmetry. exact H. Qed.

Lemma sign_neg : forall a, sign (- a) = - sign a.
Proof. intros a. unfold sign. destruct (a >? 0) eqn:E1, (a <? 0) eqn:E2, (- a >? 0) eqn:E3, (- a <? 0) eqn:E4; lia. Qed.

Lemma sign_cases : forall a, a <> 0 -> sign a = 1 \/ sign a = -1.
Proof. intros a H. unfold sign. destruct (a >? 0) eqn:E1; [left; reflexivity|]. destruct (a <? 0) eqn:E2; [right; reflexivity|lia]. Qed.

(* ---------------------------------------------------------------- Ring(o) *)
(* d = the direction the chain currently runs.  A member annotation is truthful when it states
   the direction of the ORIGINAL way: d if the segment was not reversed, -d if it was. *)
Definition truthful (d : Z) (ms : multisegment) : Prop :=
  forall s, In s ms -> seg_orient s = 0 \/ seg_orient s = (if seg_rev s then - d else d).

Lemma says_reversed_truthful : forall d o ms, (d = 1 \/ d = -1) -> (o = 1 \/ o = -1) ->
  truthful d ms -> have_orient ms = true -> says_reversed o ms = negb (d =? o).
Proof.
  intros d o ms Hd Ho Ht Hh. unfold says_reversed, have_orient in *.
  apply existsb_exists in Hh. destruct Hh as (s0 & Hin0 & Hs0).
  destruct (d =? o) eqn:Edo; simpl.
  - apply Z.eqb_eq in Edo. subst o.
    destruct (existsb _ ms) eqn:E; [|reflexivity]. exfalso.
    apply existsb_exists in E. destruct E as (s & Hin & Hs).
    apply andb_true_iff in Hs. destruct Hs as [Hn He].
    destruct (Ht s Hin) as [Hz|Hz]; [rewrite Hz in Hn; discriminate|].
    rewrite Hz in He. destruct (seg_rev s); simpl in He.
    + destruct (- d =? d) eqn:E'; [apply Z.eqb_eq in E'; lia|discriminate].
    + rewrite Z.eqb_refl in He. discriminate.
  - apply Z.eqb_neq in Edo. apply existsb_exists. exists s0. split; [assumption|].
    rewrite Hs0. simpl. destruct (Ht s0 Hin0) as [Hz|Hz]; [rewrite Hz in Hs0; discriminate|].
    rewrite Hz. destruct (seg_rev s0); simpl.
    + destruct (- d =? o) eqn:E'; [reflexivity|apply Z.eqb_neq in E'; lia].
    + destruct (d =? o) eqn:E'; [apply Z.eqb_eq in E'; lia|reflexivity].
Qed.

Theorem ring_of_orientation : forall o ms,
  (o = 1 \/ o = -1) ->
  line_closed (ms_line ms) -> shoelace (ms_line ms) <> 0 ->
  truthful (sign (shoelace (ms_line ms))) ms ->
  sign (shoelace (ring_of o ms)) = o /\
  line_closed (ring_of o ms) /\
  (ring_of o ms = ms_line ms \/ ring_of o ms = rev (ms_line ms)).
Proof.
  intros o ms Ho Hc Hnz Ht. set (L := ms_line ms) in *. set (d := sign (shoelace L)) in *.
  assert (Hd : d = 1 \/ d = -1) by (apply sign_cases; assumption).
  assert (Hflip : (if negb (d =? o) then rev L else L) = ring_of o ms).
  { unfold ring_of. fold L. destruct (have_orient ms) eqn:Hh; simpl.
    - rewrite (says_reversed_truthful d o ms Hd Ho Ht Hh). rewrite orb_false_r. reflexivity.
    - unfold ring_orientation. rewrite (ring_area2_eq L Hc). fold d. reflexivity. }
  rewrite <- Hflip. destruct (d =? o) eqn:E; simpl.
  - apply Z.eqb_eq in E. split; [exact E|]. split; [exact Hc|left; reflexivity].
  - apply Z.eqb_neq in E. split; [|split; [apply line_closed_rev; exact Hc|right; reflexivity]].
    rewrite shoelace_rev, sign_neg. fold d. lia.
Qed.

(* no member carries an annotation: a special case *)
Corollary ring_of_orientation_none : forall o ms,
  (o = 1 \/ o = -1) -> line_closed (ms_line ms) -> shoelace (ms_line ms) <> 0 ->
  (forall s, In s ms -> seg_orient s = 0) ->
  sign (shoelace (ring_of o ms)) = o /\ line_closed (ring_of o ms).
Proof.
  intros o ms Ho Hc Hnz Hn.
  destruct (ring_of_orientation o ms Ho Hc Hnz) as (H1 & H2 & _); [|split; assumption].
  intros s Hin. left. apply Hn. assumption.
Qed.

(* ---------------------------------------------------------------- annotateOrientation *)
Lemma ms_orientation_sign : forall ms, line_closed (ms_line ms) -> shoelace (ms_line ms) <> 0 ->
  ms_orientation ms = sign (shoelace (ms_line ms)).
Proof.
  intros ms Hc Hnz. unfold ms_orientation. rewrite (ms_area2_eq ms Hc). unfold sign, CCW, CW.
  destruct (shoelace (ms_line ms) >? 0) eqn:E1; [reflexivity|].
  destruct (shoelace (ms_line ms) <? 0) eqn:E2; [reflexivity|lia].
Qed.

(* the value written for segment s of a chain running in direction d *)
Definition way_direction (d : Z) (s : segment) : Z := if seg_rev s then - d else d.

Lemma nth_set_nth_same : forall {A} n (v d : A) l, (n < length l)%nat -> nth n (set_nth n v l) d = v.
Proof. intros A n v d l. revert n. induction l as [|a l IH]; intros [|n] H; simpl in *; try lia; [reflexivity|apply IH; lia]. Qed.
Lemma nth_set_nth_other : forall {A} n m (v d : A) l, n <> m -> nth m (set_nth n v l) d = nth m l d.
Proof. intros A n m v d l. revert n m. induction l as [|a l IH]; intros [|n] [|m] H; simpl in *; try reflexivity; try lia. apply IH. lia. Qed.
Lemma set_nth_length : forall {A} n (v : A) l, length (set_nth n v l) = length l.
Proof. intros A n v l. revert n. induction l as [|a l IH]; intros [|n]; simpl; try reflexivity. rewrite IH. reflexivity. Qed.

Definition idx (s : segment) : nat := Z.to_nat (seg_index s).

Lemma annotate_fold : forall (g : segment -> Z) ms os i,
  let os' := fold_left (fun os s => set_nth (idx s) (g s) os) ms os in
  length os' = length os /\
  ((forall s, In s ms -> idx s <> i) -> nth i os' 0 = nth i os 0) /\
  (forall s, In s ms -> idx s = i -> NoDup (map idx ms) -> (i < length os)%nat -> nth i os' 0 = g s).
Proof.
  intros g ms. induction ms as [|a ms IH]; intros os i; simpl.
  - split; [reflexivity|]. split; [reflexivity|]. intros s [].
  - destruct (IH (set_nth (idx a) (g a) os) i) as (Hlen & Hother & Hsame).
    rewrite set_nth_length in Hlen. split; [exact Hlen|]. split.
    + intros Hn. rewrite Hother by (intros s Hs; apply Hn; right; assumption).
      apply nth_set_nth_other. apply Hn. left. reflexivity.
    + intros s Hin Hi Hnd Hlt. inversion Hnd as [|x l Hnotin Hnd' Ex]. destruct Hin as [->|Hin].
      * rewrite Hother.
        -- rewrite <- Hi. apply nth_set_nth_same. rewrite Hi. assumption.
        -- intros s' Hs' E. apply Hnotin. rewrite Hi, <- E. apply in_map. assumption.
      * apply (Hsame s Hin Hi Hnd'). rewrite set_nth_length. assumption.
Qed.

(* annotateOrientation on a closed chain of non-zero area writes, for every segment of the
   chain, the direction in which the original way runs around the ring (o is CCW or CW) *)
Theorem annotate_ms_truthful : forall o ms os s,
  (o = 1 \/ o = -1) -> line_closed (ms_line ms) -> shoelace (ms_line ms) <> 0 ->
  NoDup (map idx ms) -> In s ms -> (idx s < length os)%nat ->
  nth (idx s) (annotate_ms o os ms) 0 = way_direction (sign (shoelace (ms_line ms))) s.
Proof.
  intros o ms os s Ho Hc Hnz Hnd Hin Hlt. unfold annotate_ms.
  rewrite (ms_orientation_sign ms Hc Hnz). set (d := sign (shoelace (ms_line ms))).
  assert (Hd : d = 1 \/ d = -1) by (apply sign_cases; assumption).
  set (factor := if d =? o then 1 else -1).
  assert (Hf : factor * o = d).
  { unfold factor. destruct (d =? o) eqn:E; [apply Z.eqb_eq in E; lia|apply Z.eqb_neq in E; lia]. }
  pose proof (annotate_fold (fun s => if seg_rev s then -1 * factor * o else factor * o) ms os (idx s))
    as (_ & _ & Hsame).
  unfold idx in *. rewrite (Hsame s Hin eq_refl Hnd Hlt).
  unfold way_direction. destruct (seg_rev s); lia.
Qed.

(* ... and leaves every other member alone *)
Theorem annotate_ms_frame : forall o ms os i,
  (forall s, In s ms -> idx s <> i) -> nth i (annotate_ms o os ms) 0 = nth i os 0.
Proof.
  intros o ms os i H. unfold annotate_ms.
  set (factor := if ms_orientation ms =? o then 1 else -1).
  pose proof (annotate_fold (fun s => if seg_rev s then -1 * factor * o else factor * o) ms os i)
    as (_ & Hother & _).
  apply Hother. exact H.
Qed.
