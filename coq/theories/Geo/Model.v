(* Geo/Model.v — executable model of the multipolygon geometry code of paulmach/osm.
   Definitions only (no proofs), self-contained (stdlib only).

   Anchors (Go source in /repo, modelled loop by loop):
     internal/mputil/join.go     Join, compact
     internal/mputil/mputil.go   Segment.Reverse/First/Last, MultiSegment.First/Last/LineString/
                                 Ring/Orientation, Group
     osmgeojson/build_polygon.go buildPolygon (geometry part), addToMultiPolygon, polygonContains
     osmgeojson/convert.go       wayToLineString (both coordinate sources), wayMap/nodeMap
     annotate/geo.go             orientation, annotateOrientation
     orb                         Point.Equal, LineString.Reverse, Ring.Closed, Ring.Orientation

   Numbers.  Points are pairs of Z.  The harness only uses integer-valued doubles with
   |coordinate| < 2^13, for which every float operation the code performs is exact or
   order-exact: equality, differences and the products/sums of the shoelace formulas are integers
   below 2^53; in polygonContains the quotient q = (xj-xi)*(y-yi)/(yj-yi) is only evaluated when
   y lies between yi and yj, so |q| <= |xj-xi| < 2^14, its rounding error is < 2^-38, while a
   non-integer q differs from every integer by >= 1/|yj-yi| > 2^-14; rounding is monotone, so
   x < fl(fl(q)+xi)  <->  x - xi < q  <->  the cross-multiplied integer comparison used below.

   Conventions.  orb.Orientation is Z: CCW = 1, CW = -1, 0 = none.  Go panics (index out of
   range in First/Last on an empty line) are not represented as results: [lfirst]/[llast] return
   the origin on an empty line; Geo/Conserve.v proves that [join] never evaluates them on an
   empty line (loop invariant [consP]/[chain_rel]: remaining segments keep >= 2 points, chain
   segments >= 1; theorem [join_lines_nonempty] for the result).  Running out of fuel is an explicit result. *)
From Coq Require Import ZArith List Bool.
Import ListNotations.
Open Scope Z_scope.

(* ------------------------------------------------------------------ points, lines *)
Definition point := (Z * Z)%type.
Definition line := list point.
Definition origin : point := (0, 0).

Definition pt_eqb (a b : point) : bool := (fst a =? fst b) && (snd a =? snd b).

Definition lfirst (l : line) : point := hd origin l.
Definition llast (l : line) : point := last l origin.

Definition CCW : Z := 1.
Definition CW : Z := -1.

(* ------------------------------------------------------------------ mputil.Segment *)
Record segment := mkSeg {
  seg_index : Z;      (* Index: position of the member in the relation *)
  seg_orient : Z;     (* Orientation annotation of the member: 1, -1 or 0 *)
  seg_rev : bool;     (* Reversed *)
  seg_line : line }.

Definition multisegment := list segment.

Definition set_line (s : segment) (l : line) : segment :=
  mkSeg (seg_index s) (seg_orient s) (seg_rev s) l.

(* Segment.Reverse: flips Reversed, reverses the line *)
Definition seg_reverse (s : segment) : segment :=
  mkSeg (seg_index s) (seg_orient s) (negb (seg_rev s)) (rev (seg_line s)).

Definition seg_first (s : segment) : point := lfirst (seg_line s).
Definition seg_last (s : segment) : point := llast (seg_line s).

Definition dummy_seg : segment := mkSeg 0 0 false [].

(* MultiSegment.First / Last / LineString *)
Definition ms_first (ms : multisegment) : point := seg_first (hd dummy_seg ms).
Definition ms_last (ms : multisegment) : point := seg_last (last ms dummy_seg).
Definition ms_line (ms : multisegment) : line := flat_map seg_line ms.

(* ------------------------------------------------------------------ join.go *)
(* compact: drops segments whose line has <= 1 point, keeps the order *)
Definition compact (ms : list segment) : list segment :=
  filter (fun s => Nat.ltb 1 (length (seg_line s))) ms.

(* the four match cases of the inner range loop, tested in this order *)
Inductive fit := FitEnd | FitEndRev | FitStart | FitStartRev.

Definition match_seg (first last : point) (s : segment) : option fit :=
  if pt_eqb last (seg_first s) then Some FitEnd
  else if pt_eqb last (seg_last s) then Some FitEndRev
  else if pt_eqb first (seg_last s) then Some FitStart
  else if pt_eqb first (seg_first s) then Some FitStartRev
  else None.

(* what each case does to [current]: the matched segment is (reversed and) trimmed of the
   endpoint it shares with the chain, then appended / prepended *)
Definition fit_segment (s : segment) (f : fit) : segment :=
  match f with
  | FitEnd => set_line s (tl (seg_line s))
  | FitEndRev => let s' := seg_reverse s in set_line s' (tl (seg_line s'))
  | FitStart => set_line s (removelast (seg_line s))
  | FitStartRev => let s' := seg_reverse s in set_line s' (removelast (seg_line s'))
  end.

Definition fit_at_end (f : fit) : bool :=
  match f with FitEnd | FitEndRev => true | _ => false end.

Definition apply_fit (cur : multisegment) (s : segment) (f : fit) : multisegment :=
  if fit_at_end f then cur ++ [fit_segment s f] else fit_segment s f :: cur.

(* for i, segment := range segments { ... break } : first index with a match *)
Fixpoint find_fit (first last : point) (segs : list segment) (i : nat)
  : option (nat * segment * fit) :=
  match segs with
  | [] => None
  | s :: r =>
      match match_seg first last s with
      | Some f => Some (i, s, f)
      | None => find_fit first last r (S i)
      end
  end.

(* removal of segments[foundAt] by shifting, exactly as written:
   first half : for i := foundAt; i > 0; i-- { segments[i] = segments[i-1] }; segments[1:]
   second half: for i := foundAt+1; i < len; i++ { segments[i-1] = segments[i] }; segments[:len-1] *)
Definition shift_up (f : nat) (l : list segment) : list segment :=
  firstn 1 l ++ firstn f l ++ skipn (S f) l.
Definition shift_down (f : nat) (l : list segment) : list segment :=
  firstn f l ++ skipn (S f) l ++ [last l dummy_seg].
Definition remove_shift (f : nat) (l : list segment) : list segment :=
  if Nat.ltb f (Nat.div (length l) 2) then tl (shift_up f l) else removelast (shift_down f l).

(* inner loop: for len(segments) != 0 && !current.First().Equal(current.Last()) { ... }
   None = out of fuel *)
Fixpoint grow (fuel : nat) (cur : multisegment) (segs : list segment)
  : option (multisegment * list segment) :=
  match fuel with
  | O => None
  | S fu =>
      match segs with
      | [] => Some (cur, segs)
      | _ =>
          if pt_eqb (ms_first cur) (ms_last cur) then Some (cur, segs)
          else
            match find_fit (ms_first cur) (ms_last cur) segs 0 with
            | None => Some (cur, segs)           (* foundAt == -1: break *)
            | Some (i, s, f) => grow fu (apply_fit cur s f) (remove_shift i segs)
            end
      end
  end.

(* outer loop: current := segments[len-1]; segments = segments[:len-1]; ...; lists = append(lists, current) *)
Fixpoint join_loop (fuel : nat) (segs : list segment) (lists : list multisegment)
  : option (list multisegment) :=
  match fuel with
  | O => None
  | S fu =>
      match segs with
      | [] => Some lists
      | _ =>
          let cur := [last segs dummy_seg] in
          let segs' := removelast segs in
          match grow (S (length segs')) cur segs' with
          | None => None
          | Some (cur', segs'') => join_loop fu segs'' (lists ++ [cur'])
          end
      end
  end.

Inductive join_result :=
| JoinOk (l : list multisegment)
| JoinOutOfFuel.

Definition join (segments : list segment) : join_result :=
  let segs := compact segments in
  match join_loop (S (length segs)) segs [] with
  | Some l => JoinOk l
  | None => JoinOutOfFuel
  end.

(* ------------------------------------------------------------------ orientation *)
(* one term of the shoelace sums: (p - off) x (q - off) *)
Definition cross_off (off p q : point) : Z :=
  (fst p - fst off) * (snd q - snd off) - (fst q - fst off) * (snd p - snd off).

(* sum over consecutive pairs of l *)
Fixpoint area_from (off : point) (l : line) : Z :=
  match l with
  | p :: ((q :: _) as r) => cross_off off p q + area_from off r
  | _ => 0
  end.

(* orb.Ring.Orientation: offset r[0], pairs (r[i], r[i+1]) for i = 1 .. len-2; three-valued.
   (r = [] panics in Go; modelled as 0, never reached from build_polygon: see ring_of.) *)
Definition ring_area2 (r : line) : Z :=
  match r with [] => 0 | off :: rest => area_from off rest end.
Definition sign (a : Z) : Z := if a >? 0 then 1 else if a <? 0 then -1 else 0.
Definition ring_orientation (r : line) : Z := sign (ring_area2 r).

(* MultiSegment.Orientation: prev = offset = First(); every point of every line in turn;
   two-valued (area > 0 -> CCW, else CW) *)
Definition ms_area2 (ms : multisegment) : Z :=
  let l := ms_line ms in
  match l with [] => 0 | off :: _ => area_from off (off :: l) end.
Definition ms_orientation (ms : multisegment) : Z := if ms_area2 ms >? 0 then CCW else CW.

(* MultiSegment.Ring(o) *)
Definition have_orient (ms : multisegment) : bool :=
  existsb (fun s => negb (seg_orient s =? 0)) ms.
Definition says_reversed (o : Z) (ms : multisegment) : bool :=
  existsb (fun s => negb (seg_orient s =? 0) && Bool.eqb (seg_orient s =? o) (seg_rev s)) ms.
Definition ring_of (o : Z) (ms : multisegment) : line :=
  let ring := ms_line ms in
  if (have_orient ms && says_reversed o ms)
     || (negb (have_orient ms) && negb (ring_orientation ring =? o))
  then rev ring else ring.

(* ------------------------------------------------------------------ polygonContains *)
(* one edge test: i = current vertex, j = previous vertex.
   ((yi > y) != (yj > y)) && (x < (xj-xi)*(y-yi)/(yj-yi)+xi), the second conjunct
   cross-multiplied by the sign of the denominator d = yj - yi (d <> 0 when the first holds) *)
Definition crosses (p vi vj : point) : bool :=
  let '(x, y) := p in let '(xi, yi) := vi in let '(xj, yj) := vj in
  negb (Bool.eqb (yi >? y) (yj >? y)) &&
  (let d := yj - yi in
   let n := (xj - xi) * (y - yi) in
   if d >? 0 then (x - xi) * d <? n else n <? (x - xi) * d).

(* i, j := 0, len-1; for i < len { ...; j = i; i++ } *)
Fixpoint pir_loop (p prev : point) (l : line) (inside : bool) : bool :=
  match l with
  | [] => inside
  | cur :: r => pir_loop p cur r (if crosses p cur prev then negb inside else inside)
  end.
Definition point_in_ring (outer : line) (p : point) : bool :=
  pir_loop p (llast outer) outer false.

(* for _, p := range r { ...; if inside { return true } }; return false *)
Definition polygon_contains (outer r : line) : bool := existsb (point_in_ring outer) r.

(* ------------------------------------------------------------------ addToMultiPolygon *)
Definition polygon := list line.          (* outer ring first, then holes *)
Definition multipolygon := list polygon.

Fixpoint add_first (test : polygon -> bool) (mp : multipolygon) (ring : line)
  : option multipolygon :=
  match mp with
  | [] => None
  | poly :: rest =>
      if test poly then Some ((poly ++ [ring]) :: rest)
      else match add_first test rest ring with
           | Some rest' => Some (poly :: rest')
           | None => None
           end
  end.

Definition add_to_multipolygon (incl : bool) (mp : multipolygon) (ring : line) : multipolygon :=
  match add_first (fun poly => polygon_contains (hd [] poly) ring) mp ring with
  | Some mp' => mp'
  | None =>
      if negb incl then mp                       (* inner without its outer: dropped *)
      else
        match mp with
        | [] => mp ++ [[[]; ring]]
        | p0 :: rest =>
            let fr := hd [] p0 in
            if negb (Nat.eqb (length fr) 0) && negb (pt_eqb (lfirst fr) (llast fr))
            then (p0 ++ [ring]) :: rest
            else match add_first (fun poly => Nat.eqb (length (hd [] poly)) 0) mp ring with
                 | Some mp' => mp'
                 | None => mp ++ [[[]; ring]]
                 end
        end
  end.

(* ------------------------------------------------------------------ OSM input data *)
Record node := mkNode { node_id : Z; node_x : Z (* Lon *); node_y : Z (* Lat *) }.
Record waynode := mkWN { wn_id : Z; wn_version : Z; wn_x : Z (* Lon *); wn_y : Z (* Lat *) }.
Record way := mkWay { way_id : Z; way_nodes : list waynode }.
Inductive role := Outer | Inner | OtherRole.
Record member := mkMem {
  mem_is_way : bool; mem_ref : Z; mem_role : role; mem_orient : Z;
  mem_nodes : list waynode }.               (* Member.Nodes (annotated relation members) *)

(* Go maps built by a loop "m[k] = v": the last entry with a key wins: the first match in the
   reversed list ([rev_append l []] = [rev l], linear time) *)
Definition lookup_node (nodes : list node) (id : Z) : option node :=
  find (fun n => node_id n =? id) (rev_append nodes []).
Definition lookup_way (ways : list way) (id : Z) : option way :=
  find (fun w => way_id w =? id) (rev_append ways []).

(* convert.go wayToLineString: the annotated location if it is not (0,0), else the node object,
   else tainted *)
Fixpoint way_to_line (nodes : list node) (wns : list waynode) : line * bool :=
  match wns with
  | [] => ([], false)
  | wn :: r =>
      let '(ls, t) := way_to_line nodes r in
      if negb (wn_x wn =? 0) || negb (wn_y wn =? 0) then ((wn_x wn, wn_y wn) :: ls, t)
      else match lookup_node nodes (wn_id wn) with
           | Some n => ((node_x n, node_y n) :: ls, t)
           | None => (ls, true)
           end
  end.

(* ------------------------------------------------------------------ buildPolygon *)
Inductive geometry :=
| GNone                                  (* no feature *)
| GPolygon (p : polygon)
| GMultiPolygon (mp : multipolygon)
| GOutOfFuel.

Record collected := mkCol {
  col_outer : list segment; col_inner : list segment; col_tainted : bool; col_outer_count : nat }.

(* the member loop of buildPolygon (tags/skippable bookkeeping omitted: C17) *)
Definition collect_step (nodes : list node) (ways : list way) (c : collected) (m : member)
  : collected :=
  if negb (mem_is_way m) then c
  else match mem_role m with
  | OtherRole => c
  | r =>
      let oc := match r with Outer => S (col_outer_count c) | _ => col_outer_count c end in
      let w := match lookup_way ways (mem_ref m) with
               | Some w => Some w
               | None => match mem_nodes m with
                         | [] => None
                         | ns => Some (mkWay (mem_ref m) ns)
                         end
               end in
      match w with
      | None => mkCol (col_outer c) (col_inner c) true oc
      | Some w =>
          let '(ls, t) := way_to_line nodes (way_nodes w) in
          let tainted := col_tainted c || t in
          match ls with
          | [] => mkCol (col_outer c) (col_inner c) tainted oc
          | _ =>
              let s := mkSeg 0 (mem_orient m) false ls in
              match r with
              | Outer =>
                  let s := if seg_orient s =? CW then seg_reverse s else s in
                  mkCol (col_outer c ++ [s]) (col_inner c) tainted oc
              | _ =>
                  let s := if seg_orient s =? CCW then seg_reverse s else s in
                  mkCol (col_outer c) (col_inner c ++ [s]) tainted oc
              end
          end
      end
  end.

Definition collect (nodes : list node) (ways : list way) (members : list member) : collected :=
  fold_left (collect_step nodes ways) members (mkCol [] [] false O).

Definition closedb (r : line) : bool := pt_eqb (lfirst r) (llast r).
Definition valid_ring (r : line) : bool := Nat.leb 4 (length r) && closedb r.

Definition build_geometry (incl : bool) (c : collected) : geometry :=
  let outer := col_outer c in
  let inner := col_inner c in
  if Nat.eqb (length outer) 0 && negb incl then GNone
  else if Nat.eqb (length outer) 1 && Nat.eqb (col_outer_count c) 1 then
    (* old style: a single outer way *)
    let outer_ring := ring_of CCW outer in
    if negb (valid_ring outer_ring) then GNone
    else match join inner with
         | JoinOutOfFuel => GOutOfFuel
         | JoinOk sections => GPolygon (outer_ring :: map (ring_of CW) sections)
         end
  else
    match join outer, join inner with
    | JoinOk osec, JoinOk isec =>
        let rings := map (ring_of CCW) osec in
        let mp := map (fun r => [r])
                    (filter (fun r => incl || valid_ring r) rings) in
        if Nat.eqb (length mp) 0 && negb incl then GNone
        else
          let mp := fold_left (fun mp is => add_to_multipolygon incl mp (ring_of CW is)) isec mp in
          match mp with
          | [] => GNone
          | [p] => GPolygon p
          | _ => GMultiPolygon mp
          end
    | _, _ => GOutOfFuel
    end.

Definition build_polygon (incl : bool) (nodes : list node) (ways : list way)
  (members : list member) : geometry * bool :=
  let c := collect nodes ways members in
  (build_geometry incl c, col_tainted c).

(* ------------------------------------------------------------------ mputil.Group *)
(* Way.LineStringAt with no Updates (the C16 harness supplies none; updates are C15's):
   the annotated way-node points, skipping nodes with Version = 0 and location (0,0) *)
Definition line_string_at (w : way) : line :=
  map (fun n => (wn_x n, wn_y n))
      (filter (fun n => negb ((wn_version n =? 0) && (wn_x n =? 0) && (wn_y n =? 0)))
              (way_nodes w)).

Record grouped := mkGrp { grp_outer : list segment; grp_inner : list segment; grp_tainted : bool }.

Definition group_step (ways : list way) (g : grouped) (im : Z * member) : grouped :=
  let '(i, m) := im in
  if negb (mem_is_way m) then g
  else match lookup_way ways (mem_ref m) with
  | None => mkGrp (grp_outer g) (grp_inner g) true
  | Some w =>
      let ln := line_string_at w in
      let tainted := grp_tainted g || negb (Nat.eqb (length ln) (length (way_nodes w))) in
      match ln with
      | [] => mkGrp (grp_outer g) (grp_inner g) tainted
      | _ =>
          let l := mkSeg i (mem_orient m) false ln in
          match mem_role m with
          | Outer =>
              let l := if seg_orient l =? CW then seg_reverse l else l in
              mkGrp (grp_outer g ++ [l]) (grp_inner g) tainted
          | Inner =>
              let l := if seg_orient l =? CCW then seg_reverse l else l in
              mkGrp (grp_outer g) (grp_inner g ++ [l]) tainted
          | OtherRole => mkGrp (grp_outer g) (grp_inner g) tainted
          end
      end
  end.

Fixpoint index_from {A} (i : Z) (l : list A) : list (Z * A) :=
  match l with [] => [] | a :: r => (i, a) :: index_from (i + 1) r end.

Definition group (members : list member) (ways : list way) : grouped :=
  fold_left (group_step ways) (index_from 0 members) (mkGrp [] [] false).

(* ------------------------------------------------------------------ annotate/geo.go *)
Fixpoint set_nth {A} (n : nat) (v : A) (l : list A) : list A :=
  match l, n with
  | [], _ => []
  | _ :: r, O => v :: r
  | a :: r, S k => a :: set_nth k v r
  end.

(* annotateOrientation(members, ms, o): writes members[segment.Index].Orientation *)
Definition annotate_ms (o : Z) (orients : list Z) (ms : multisegment) : list Z :=
  let factor := if ms_orientation ms =? o then 1 else -1 in
  fold_left (fun os s =>
               set_nth (Z.to_nat (seg_index s))
                       (if seg_rev s then -1 * factor * o else factor * o) os)
            ms orients.

(* orientation(members, ways, at): Some (Member.Orientation of every member afterwards, tainted);
   None = join out of fuel *)
Definition annotate_orientation (members : list member) (ways : list way)
  : option (list Z * bool) :=
  let g := group members ways in
  match join (grp_outer g), join (grp_inner g) with
  | JoinOk outers, JoinOk inners =>
      let os := map mem_orient members in
      let os := fold_left (annotate_ms CCW) outers os in
      let os := fold_left (annotate_ms CW) inners os in
      Some (os, grp_tainted g)
  | _, _ => None
  end.
