(* Geo/Annotate.v — composition of annotateOrientation over all chains of a relation. *)
From Coq Require Import ZArith List Bool Lia Arith.
From Verif Require Import Geo.Model Geo.JoinProofs Geo.Conserve Geo.Orient.
Import ListNotations.
Open Scope Z_scope.

Definition ann_all (ocs : list (Z * multisegment)) (os : list Z) : list Z :=
  fold_left (fun os oc => annotate_ms (fst oc) os (snd oc)) ocs os.

Lemma annotate_ms_length : forall o os ms, length (annotate_ms o os ms) = length os.
Proof.
  intros o os ms. unfold annotate_ms.
  set (factor := if ms_orientation ms =? o then 1 else -1).
  pose proof (annotate_fold (fun s => if seg_rev s then -1 * factor * o else factor * o) ms os 0%nat)
    as (Hlen & _). exact Hlen.
Qed.

Lemma ann_all_frame : forall ocs os i,
  (forall oc s, In oc ocs -> In s (snd oc) -> idx s <> i) -> nth i (ann_all ocs os) 0 = nth i os 0.
Proof.
  induction ocs as [|[o ms] ocs IH]; intros os i H; [reflexivity|].
  unfold ann_all in *. simpl. rewrite IH.
  - apply annotate_ms_frame. intros s Hs. apply (H (o, ms) s); [left; reflexivity|exact Hs].
  - intros oc s Hoc Hs. apply (H oc s); [right; exact Hoc|exact Hs].
Qed.

Lemma ann_all_length : forall ocs os, length (ann_all ocs os) = length os.
Proof.
  induction ocs as [|[o ms] ocs IH]; intros os; [reflexivity|].
  unfold ann_all in *. simpl. rewrite IH. apply annotate_ms_length.
Qed.

Lemma NoDup_app_l : forall {A} (l1 l2 : list A), NoDup (l1 ++ l2) -> NoDup l1.
Proof. intros A l1 l2 H. induction l1 as [|a l IH]; [constructor|]. inversion H; subst. constructor; [intro Hin; apply H2; apply in_or_app; left; exact Hin|apply IH; assumption]. Qed.
Lemma NoDup_app_r : forall {A} (l1 l2 : list A), NoDup (l1 ++ l2) -> NoDup l2.
Proof. intros A l1 l2 H. induction l1 as [|a l IH]; [exact H|]. inversion H; subst. apply IH. assumption. Qed.
Lemma NoDup_app_disj : forall {A} (l1 l2 : list A) x, NoDup (l1 ++ l2) -> In x l1 -> In x l2 -> False.
Proof.
  intros A l1 l2 x H H1 H2. induction l1 as [|a l IH]; [contradiction|].
  inversion H; subst. destruct H1 as [->|H1].
  - apply H4. apply in_or_app. right. exact H2.
  - apply IH; assumption.
Qed.

Theorem ann_all_truthful : forall ocs os,
  NoDup (map idx (concat (map snd ocs))) ->
  (forall oc, In oc ocs -> (fst oc = 1 \/ fst oc = -1) /\
                           line_closed (ms_line (snd oc)) /\ shoelace (ms_line (snd oc)) <> 0) ->
  (forall oc s, In oc ocs -> In s (snd oc) -> (idx s < length os)%nat) ->
  forall oc s, In oc ocs -> In s (snd oc) ->
    nth (idx s) (ann_all ocs os) 0 = way_direction (sign (shoelace (ms_line (snd oc)))) s.
Proof.
  induction ocs as [|[o ms] ocs IH]; intros os Hnd Hok Hlt oc s Hoc Hs; [contradiction|].
  simpl in Hnd. rewrite map_app in Hnd.
  change (ann_all ((o, ms) :: ocs) os) with (ann_all ocs (annotate_ms o os ms)).
  destruct Hoc as [<-|Hoc].
  - rewrite ann_all_frame.
    + destruct (Hok (o, ms) (or_introl eq_refl)) as (Ho & Hc & Hnz). simpl in *.
      apply annotate_ms_truthful; try assumption.
      * eapply NoDup_app_l. exact Hnd.
      * apply (Hlt (o, ms) s); [left; reflexivity|exact Hs].
    + intros oc' s' Hoc' Hs' E. simpl in Hs.
      apply (NoDup_app_disj _ _ (idx s) Hnd).
      * apply in_map. exact Hs.
      * rewrite <- E. apply in_map. apply in_concat. exists (snd oc'). split; [apply in_map; exact Hoc'|exact Hs'].
  - apply IH; try assumption.
    + eapply NoDup_app_r. exact Hnd.
    + intros oc' Hoc'. apply Hok. right. exact Hoc'.
    + intros oc' s' Hoc' Hs'. rewrite annotate_ms_length. apply (Hlt oc' s'); [right; exact Hoc'|exact Hs'].
Qed.

(* annotate_orientation is ann_all over the outer chains (CCW) then the inner chains (CW) *)
Lemma annotate_orientation_eq : forall members ways outers inners,
  join (grp_outer (group members ways)) = JoinOk outers ->
  join (grp_inner (group members ways)) = JoinOk inners ->
  annotate_orientation members ways =
  Some (ann_all (map (pair CCW) outers ++ map (pair CW) inners) (map mem_orient members),
        grp_tainted (group members ways)).
Proof.
  intros members ways outers inners Ho Hi. unfold annotate_orientation. rewrite Ho, Hi.
  f_equal. f_equal. unfold ann_all. rewrite fold_left_app.
  assert (E : forall o chains os,
    fold_left (fun os oc => annotate_ms (fst oc) os (snd oc)) (map (pair o) chains) os =
    fold_left (annotate_ms o) chains os).
  { intros o chains. induction chains as [|c cs IH]; intros os; [reflexivity|]. simpl. apply IH. }
  rewrite !E. reflexivity.
Qed.

(* after annotate_orientation every member whose way lies in a closed chain of non-zero area
   carries the direction in which its way runs around that chain's ring *)
Theorem annotate_orientation_truthful : forall members ways outers inners os t,
  join (grp_outer (group members ways)) = JoinOk outers ->
  join (grp_inner (group members ways)) = JoinOk inners ->
  annotate_orientation members ways = Some (os, t) ->
  NoDup (map idx (concat (outers ++ inners))) ->
  (forall ms, In ms (outers ++ inners) -> line_closed (ms_line ms) /\ shoelace (ms_line ms) <> 0) ->
  (forall ms s, In ms (outers ++ inners) -> In s ms -> (idx s < length members)%nat) ->
  forall ms s, In ms (outers ++ inners) -> In s ms ->
    nth (idx s) os 0 = way_direction (sign (shoelace (ms_line ms))) s.
Proof.
  intros members ways outers inners os t Ho Hi Ha Hnd Hok Hlt ms s Hms Hs.
  rewrite (annotate_orientation_eq members ways outers inners Ho Hi) in Ha.
  inversion Ha; subst os t. clear Ha.
  set (ocs := map (pair CCW) outers ++ map (pair CW) inners).
  assert (Hsnd : map snd ocs = outers ++ inners).
  { unfold ocs. rewrite map_app, !map_map. simpl. rewrite !map_id. reflexivity. }
  assert (Hin : forall oc, In oc ocs -> In (snd oc) (outers ++ inners) /\ (fst oc = 1 \/ fst oc = -1)).
  { intros oc H. unfold ocs in H. apply in_app_or in H. destruct H as [H|H];
      apply in_map_iff in H; destruct H as (c & <- & Hc); simpl.
    - split; [apply in_or_app; left; exact Hc|left; reflexivity].
    - split; [apply in_or_app; right; exact Hc|right; reflexivity]. }
  assert (Hoc : exists oc, In oc ocs /\ snd oc = ms).
  { unfold ocs. apply in_app_or in Hms. destruct Hms as [H|H].
    - exists (CCW, ms). split; [apply in_or_app; left; apply in_map; exact H|reflexivity].
    - exists (CW, ms). split; [apply in_or_app; right; apply in_map; exact H|reflexivity]. }
  destruct Hoc as (oc & Hoc & <-).
  apply ann_all_truthful.
  - clear -Hnd Hsnd. rewrite <- Hsnd in Hnd. exact Hnd.
  - intros oc' H'. destruct (Hin oc' H') as [Hm Hf]. split; [exact Hf|]. apply Hok. exact Hm.
  - intros oc' s' H' Hs'. rewrite map_length. apply (Hlt (snd oc') s'); [apply Hin; exact H'|exact Hs'].
  - exact Hoc.
  - exact Hs.
Qed.
