(* Geo/GroupIdx.v — mputil.Group numbers the segments by member position: indices are distinct and
   in range, join keeps them, so the hypotheses "member indices distinct / in range" of
   annotate_orientation_truthful always hold. *)
From Coq Require Import ZArith List Bool Lia Arith Permutation.
From Verif Require Import Geo.Model Geo.JoinProofs Geo.Conserve Geo.Orient Geo.Annotate.
Import ListNotations.
Open Scope Z_scope.

Definition idx_ok (hi : Z) (l : list segment) : Prop :=
  NoDup (map seg_index l) /\ Forall (fun s => 0 <= seg_index s < hi) l.

Lemma idx_ok_add : forall hi l1 l2 x, 0 <= hi -> idx_ok hi (l1 ++ l2) -> seg_index x = hi ->
  idx_ok (hi + 1) ((l1 ++ [x]) ++ l2).
Proof.
  intros hi l1 l2 x H0 [Hnd Hall] Hx.
  assert (HP : Permutation ((l1 ++ [x]) ++ l2) (x :: l1 ++ l2)).
  { rewrite <- app_assoc. simpl. symmetry. apply Permutation_middle. }
  split.
  - eapply Permutation_NoDup; [apply Permutation_map; symmetry; exact HP|].
    simpl. constructor; [|exact Hnd]. intro Hin. apply in_map_iff in Hin.
    destruct Hin as (s & Es & Hs). rewrite Forall_forall in Hall. specialize (Hall s Hs). simpl in Hall. rewrite Es, Hx in Hall. destruct Hall as [_ Hlt]. apply Z.lt_irrefl in Hlt. exact Hlt.
  - eapply Permutation_Forall; [symmetry; exact HP|]. constructor; [lia|].
    eapply Forall_impl; [|exact Hall]. intros s Hs. simpl in Hs. lia.
Qed.

Lemma idx_ok_weaken : forall hi l, idx_ok hi l -> idx_ok (hi + 1) l.
Proof.
  intros hi l [Hnd Hall]. split; [exact Hnd|]. eapply Forall_impl; [|exact Hall].
  intros s Hs. simpl in Hs. lia.
Qed.

Lemma seg_index_reverse : forall s, seg_index (seg_reverse s) = seg_index s.
Proof. reflexivity. Qed.

Lemma group_step_idx : forall ways g i m, 0 <= i ->
  idx_ok i (grp_outer g ++ grp_inner g) ->
  let g' := group_step ways g (i, m) in idx_ok (i + 1) (grp_outer g' ++ grp_inner g').
Proof.
  intros ways g i m Hi H. unfold group_step.
  destruct (negb (mem_is_way m)); [apply idx_ok_weaken; exact H|].
  destruct (lookup_way ways (mem_ref m)) as [w|]; [|apply idx_ok_weaken; exact H].
  destruct (line_string_at w) as [|p ln] eqn:El; [apply idx_ok_weaken; exact H|].
  destruct (mem_role m); simpl grp_outer; simpl grp_inner.
  - apply idx_ok_add; [exact Hi|exact H|]. destruct (_ =? CW); reflexivity.
  - rewrite app_assoc. rewrite <- (app_nil_r ((grp_outer g ++ grp_inner g) ++ _)).
    apply idx_ok_add; [exact Hi|rewrite app_nil_r; exact H|]. destruct (_ =? CCW); reflexivity.
  - apply idx_ok_weaken. exact H.
Qed.

Lemma group_fold_idx : forall ways ms i g, 0 <= i ->
  idx_ok i (grp_outer g ++ grp_inner g) ->
  let g' := fold_left (group_step ways) (index_from i ms) g in
  idx_ok (i + Z.of_nat (length ms)) (grp_outer g' ++ grp_inner g').
Proof.
  intros ways ms. induction ms as [|m ms IH]; intros i g Hi H.
  - simpl. rewrite Z.add_0_r. exact H.
  - simpl index_from. simpl fold_left.
    replace (i + Z.of_nat (length (m :: ms))) with ((i + 1) + Z.of_nat (length ms))
      by (simpl length; lia).
    apply IH; [lia|]. apply group_step_idx; assumption.
Qed.

Theorem group_indices : forall members ways,
  idx_ok (Z.of_nat (length members))
         (grp_outer (group members ways) ++ grp_inner (group members ways)).
Proof.
  intros members ways. unfold group.
  apply (group_fold_idx ways members 0 (mkGrp [] [] false)); [lia|].
  split; [constructor|constructor].
Qed.

(* ---------------------------------------------------------------- join keeps the indices *)
Lemma chain_indices : forall obs c, chain_rel obs c ->
  map seg_index c = map (fun ob => seg_index (fst ob)) obs.
Proof.
  intros obs c H. induction H as [ob Hl|obs cur ob H IH Hl Hj|obs cur ob H IH Hl Hj].
  - destruct ob as [s b]. destruct b; reflexivity.
  - rewrite !map_app, IH. destruct ob as [s b]. destruct b; reflexivity.
  - simpl. rewrite IH. destruct ob as [s b]. destruct b; reflexivity.
Qed.

Lemma join_indices : forall segs chains, join segs = JoinOk chains ->
  Permutation (map seg_index (concat chains)) (map seg_index (compact segs)).
Proof.
  intros segs chains Hj. destruct (join_conserves _ _ Hj) as (obss & HF & HP).
  rewrite <- HP. rewrite map_map.
  clear HP Hj. induction HF as [|obs c obss chains Hc HF IH]; [reflexivity|].
  simpl. rewrite !map_app. apply Permutation_app; [|exact IH].
  rewrite (chain_indices _ _ Hc). reflexivity.
Qed.

Lemma idx_ok_incl : forall hi l l', idx_ok hi l ->
  NoDup (map seg_index l') -> incl l' l -> idx_ok hi l'.
Proof.
  intros hi l l' [_ Hall] Hnd Hincl. split; [exact Hnd|].
  apply Forall_forall. intros s Hs. rewrite Forall_forall in Hall. apply Hall. apply Hincl. exact Hs.
Qed.

Lemma nodup_map_filter : forall {A B} (f : A -> B) p l, NoDup (map f l) -> NoDup (map f (filter p l)).
Proof.
  intros A B f p l. induction l as [|a l IH]; intros H; [constructor|].
  simpl in *. inversion H; subst. destruct (p a); [|apply IH; assumption].
  simpl. constructor; [|apply IH; assumption].
  intro Hin. apply H2. apply in_map_iff in Hin. destruct Hin as (x & Ex & Hx).
  apply filter_In in Hx. apply in_map_iff. exists x. split; [exact Ex|apply Hx].
Qed.

Lemma NoDup_map_inj_on_Z : forall (l : list Z) hi, NoDup l -> (forall z, In z l -> 0 <= z < hi) ->
  NoDup (map Z.to_nat l).
Proof.
  intros l hi H. induction H as [|a l Hn H IH]; intros Hr; [constructor|].
  simpl. constructor.
  - intro Hin. apply in_map_iff in Hin. destruct Hin as (y & Ey & Hy).
    assert (y = a).
    { pose proof (Hr a (or_introl eq_refl)). pose proof (Hr y (or_intror Hy)). lia. }
    subst y. contradiction.
  - apply IH. intros z Hz. apply Hr. right. exact Hz.
Qed.

(* the chains of the two joins of a grouped relation: indices distinct, in range *)
Theorem grouped_chain_indices : forall members ways outers inners,
  join (grp_outer (group members ways)) = JoinOk outers ->
  join (grp_inner (group members ways)) = JoinOk inners ->
  NoDup (map idx (concat (outers ++ inners))) /\
  (forall ms s, In ms (outers ++ inners) -> In s ms -> (idx s < length members)%nat).
Proof.
  intros members ways outers inners Ho Hi.
  destruct (group_indices members ways) as [Hnd Hall].
  set (go := grp_outer (group members ways)) in *. set (gi := grp_inner (group members ways)) in *.
  pose proof (join_indices _ _ Ho) as Po. pose proof (join_indices _ _ Hi) as Pi.
  assert (HP : Permutation (map seg_index (concat (outers ++ inners)))
                           (map seg_index (compact go ++ compact gi))).
  { rewrite concat_app, !map_app. apply Permutation_app; assumption. }
  assert (Hnd2 : NoDup (map seg_index (compact go ++ compact gi))).
  { unfold compact. rewrite <- filter_app. apply nodup_map_filter. exact Hnd. }
  assert (Hrange : forall z, In z (map seg_index (concat (outers ++ inners))) ->
                             (0 <= z < Z.of_nat (length members))%Z).
  { intros z Hz. eapply Permutation_in in Hz; [|exact HP].
    apply in_map_iff in Hz. destruct Hz as (s & <- & Hs).
    rewrite Forall_forall in Hall. apply Hall.
    apply in_app_or in Hs. apply in_or_app.
    destruct Hs as [Hs|Hs]; [left|right]; unfold compact in Hs; apply filter_In in Hs; apply Hs. }
  split.
  - unfold idx. rewrite <- (map_map seg_index Z.to_nat).
    apply (NoDup_map_inj_on_Z _ (Z.of_nat (length members))).
    + eapply Permutation_NoDup; [symmetry; exact HP|exact Hnd2].
    + intros z Hz. apply Hrange. exact Hz.
  - intros ms s Hms Hs. unfold idx.
    assert (Hz : In (seg_index s) (map seg_index (concat (outers ++ inners)))).
    { apply in_map. apply in_concat. exists ms. split; assumption. }
    apply Hrange in Hz. lia.
Qed.
