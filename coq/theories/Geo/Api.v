(* Geo/Api.v — small stable interface of the geometry library for other properties (C17).

   Re-exports the executable model (Geo.Model: [point], [line], [segment], [multisegment],
   [join], [join_result], [compact], [ms_line], ...) and the edge-conservation theorems of join.
   Import this file only:   From Verif Require Import Geo.Api.  *)
From Coq Require Import ZArith List Permutation.
From Verif Require Export Geo.Model.
From Verif Require Geo.JoinProofs Geo.Conserve Geo.Edges.
Import ListNotations.

(* consecutive vertex pairs of a line; an undirected edge in canonical direction *)
Definition line_edges := Geo.Edges.line_edges.
Definition seg_edges := Geo.Edges.seg_edges.
Definition uedge := Geo.Edges.uedge.

(* join always returns (the model's fuel suffices) *)
Theorem join_terminates : forall segments, join segments <> JoinOutOfFuel.
Proof. exact Geo.JoinProofs.join_terminates. Qed.

(* the undirected edges of all output chain lines are, as a multiset, exactly the undirected
   edges of the input segments with >= 2 points ([compact]) *)
Theorem join_conserves_edges : forall segments chains, join segments = JoinOk chains ->
  Permutation (map uedge (flat_map seg_edges (compact segments)))
              (map uedge (flat_map (fun c => line_edges (ms_line c)) chains)).
Proof. exact Geo.Edges.join_conserves_edges. Qed.

(* every edge of every input segment appears in some chain line, in one of the two directions *)
Theorem join_keeps_every_edge : forall segments chains s a b,
  join segments = JoinOk chains -> In s segments -> In (a, b) (seg_edges s) ->
  exists c, In c chains /\
    (In (a, b) (line_edges (ms_line c)) \/ In (b, a) (line_edges (ms_line c))).
Proof. exact Geo.Edges.join_keeps_every_edge. Qed.
