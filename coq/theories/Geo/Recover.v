(* Geo/Recover.v — compositions: winding of ring lines, annotate_orientation on a cut scene. *)
From Coq Require Import ZArith List Bool Lia Arith Permutation.
From Verif Require Import Geo.Model Geo.JoinProofs Geo.Conserve Geo.Closes Geo.Cut Geo.Edges
  Geo.Orient Geo.Annotate Geo.Rings Geo.GroupIdx.
Import ListNotations.
Open Scope Z_scope.

(* ---------------------------------------------------------------- signed area through edges *)
Definition ecross (e : point * point) : Z := fst (fst e) * snd (snd e) - fst (snd e) * snd (fst e).
Definition esum (es : list (point * point)) : Z := fold_right (fun e a => ecross e + a) 0 es.

Lemma shoelace_esum : forall l, shoelace l = esum (line_edges l).
Proof.
  induction l as [|a l IH]; [reflexivity|]. destruct l as [|b l']; [reflexivity|].
  change (shoelace (a :: b :: l')) with ((fst a * snd b - fst b * snd a) + shoelace (b :: l')).
  change (line_edges (a :: b :: l')) with ((a, b) :: line_edges (b :: l')).
  rewrite IH. reflexivity.
Qed.

Lemma esum_perm : forall l l', Permutation l l' -> esum l = esum l'.
Proof. intros l l' H. induction H; simpl; lia. Qed.

Lemma shoelace_rot : forall s (r : line), (s < length r)%nat ->
  shoelace (close_ring (rot s r)) = shoelace (close_ring r).
Proof.
  intros s r H. rewrite !shoelace_esum. apply esum_perm. apply ringE_rot. exact H.
Qed.

Lemma close_ring_closed : forall r : line, r <> [] -> line_closed (close_ring r).
Proof.
  intros [|a r] H; [congruence|]. unfold line_closed, close_ring, lfirst, llast.
  simpl hd. rewrite last_last. reflexivity.
Qed.

Lemma rot_nonempty : forall s (r : line), r <> [] -> rot s r <> [].
Proof.
  intros s r H E. unfold rot in E. apply app_eq_nil in E. destruct E as [E1 E2].
  rewrite <- (firstn_skipn s r) in H. rewrite E1, E2 in H. apply H. reflexivity.
Qed.

(* the line of a ring: closed, and its signed area is the ring's, up to the direction *)
Lemma is_ring_line_area : forall r L, (1 <= length r)%nat -> is_ring_line r L ->
  line_closed L /\
  (shoelace L = shoelace (close_ring r) \/ shoelace L = - shoelace (close_ring r)).
Proof.
  intros r L Hr (s & Hs & [->| ->]).
  - split; [apply close_ring_closed; apply rot_nonempty; intro E; subst; simpl in Hr; lia|].
    left. apply shoelace_rot. exact Hs.
  - split.
    + apply line_closed_rev. apply close_ring_closed. apply rot_nonempty. intro E; subst; simpl in Hr; lia.
    + right. rewrite shoelace_rev, shoelace_rot by exact Hs. reflexivity.
Qed.

(* ---------------------------------------------------------------- annotate on a cut scene *)
(* ros / rhs: the outer and inner rings (distinct vertices, non-zero area), the grouped outer /
   inner segments are ANY cut of them (any reversal, any order).  Then after annotate_orientation
   every member whose way is in chain c carries the winding of c as traversed by the ORIGINAL
   way; and c is one of the rings (its line is that ring, from some start, in one direction). *)
Theorem annotate_orientation_recovers : forall members ways ros rhs os t,
  NoDup (concat ros) -> Forall (fun r => (3 <= length r)%nat) ros ->
  NoDup (concat rhs) -> Forall (fun r => (3 <= length r)%nat) rhs ->
  (forall r, In r (ros ++ rhs) -> shoelace (close_ring r) <> 0) ->
  is_cut (map close_ring ros) (grp_outer (group members ways)) ->
  is_cut (map close_ring rhs) (grp_inner (group members ways)) ->
  annotate_orientation members ways = Some (os, t) ->
  exists outers inners ros' rhs',
    join (grp_outer (group members ways)) = JoinOk outers /\
    join (grp_inner (group members ways)) = JoinOk inners /\
    Permutation ros' ros /\ Permutation rhs' rhs /\
    Forall2 (fun r c => is_ring_line r (ms_line c)) ros' outers /\
    Forall2 (fun r c => is_ring_line r (ms_line c)) rhs' inners /\
    forall c s, In c (outers ++ inners) -> In s c ->
      nth (idx s) os 0 = way_direction (sign (shoelace (ms_line c))) s.
Proof.
  intros members ways ros rhs os t Hndo Hleno Hndi Hleni Harea Hco Hci Ha.
  destruct (join (grp_outer (group members ways))) as [outers|] eqn:Ho;
    [|exfalso; exact (join_terminates _ Ho)].
  destruct (join (grp_inner (group members ways))) as [inners|] eqn:Hi;
    [|exfalso; exact (join_terminates _ Hi)].
  destruct (join_closes_rings ros _ outers Hndo Hleno Hco Ho) as (ros' & Pro & Fo).
  destruct (join_closes_rings rhs _ inners Hndi Hleni Hci Hi) as (rhs' & Pri & Fi).
  exists outers, inners, ros', rhs'.
  split; [reflexivity|]. split; [reflexivity|]. split; [exact Pro|]. split; [exact Pri|].
  split; [exact Fo|]. split; [exact Fi|].
  destruct (grouped_chain_indices members ways outers inners Ho Hi) as [Hnd Hlt].
  assert (Hok : forall ms, In ms (outers ++ inners) ->
                  line_closed (ms_line ms) /\ shoelace (ms_line ms) <> 0).
  { assert (Hgen : forall rs' rs chains, Permutation rs' rs ->
              Forall (fun r => (3 <= length r)%nat) rs ->
              (forall r, In r rs -> shoelace (close_ring r) <> 0) ->
              Forall2 (fun r c => is_ring_line r (ms_line c)) rs' chains ->
              forall ms, In ms chains -> line_closed (ms_line ms) /\ shoelace (ms_line ms) <> 0).
    { intros rs' rs chains HP Hl3 Hnz HF ms Hms.
      assert (Hex : exists r, In r rs' /\ is_ring_line r (ms_line ms)).
      { clear -HF Hms. induction HF as [|r c rs' chains Hrc HF IH]; [contradiction|].
        destruct Hms as [->|Hms]; [exists r; split; [left; reflexivity|exact Hrc]|].
        destruct (IH Hms) as (r' & Hr' & H'). exists r'. split; [right; exact Hr'|exact H']. }
      destruct Hex as (r & Hr & Hrl).
      assert (Hrin : In r rs) by (eapply Permutation_in; [exact HP|exact Hr]).
      rewrite Forall_forall in Hl3. pose proof (Hl3 r Hrin) as H3.
      destruct (is_ring_line_area r _ ltac:(lia) Hrl) as [Hc [E|E]]; split; try exact Hc;
        rewrite E; pose proof (Hnz r Hrin); lia. }
    intros ms Hms. apply in_app_or in Hms. destruct Hms as [Hms|Hms].
    - apply (Hgen ros' ros outers Pro Hleno); [|exact Fo|exact Hms].
      intros r Hr. apply Harea. apply in_or_app. left. exact Hr.
    - apply (Hgen rhs' rhs inners Pri Hleni); [|exact Fi|exact Hms].
      intros r Hr. apply Harea. apply in_or_app. right. exact Hr. }
  intros c s Hc Hs.
  apply (annotate_orientation_truthful members ways outers inners os t Ho Hi Ha Hnd Hok Hlt c s Hc Hs).
Qed.
