(* Geo/Truthful.v — truthful member orientations, stated on the input segments (the annotation is
   the direction in which the ORIGINAL way runs around its ring), imply the chain-level
   truthfulness that MultiSegment.Ring relies on: a piece inside a forward chain is forward. *)
From Coq Require Import ZArith List Bool Lia Arith Permutation.
From Verif Require Import Geo.Model Geo.JoinProofs Geo.Conserve Geo.Closes Geo.Cut Geo.Edges
  Geo.Orient Geo.Annotate Geo.Rings Geo.Recover.
Import ListNotations.
Open Scope Z_scope.

Definition ring_sign (r : line) : Z := sign (shoelace (close_ring r)).

(* every edge of l is a forward (backward) step of the ring r *)
Definition fwd (r l : line) : Prop := forall e, In e (line_edges l) -> step r (fst e) (snd e).
Definition bwd (r l : line) : Prop := forall e, In e (line_edges l) -> step r (snd e) (fst e).

(* a way with line l runs around ring r in direction d (1 ccw, -1 cw) *)
Definition runs (r : line) (d : Z) (l : line) : Prop :=
  (fwd r l /\ d = ring_sign r) \/ (bwd r l /\ d = - ring_sign r).

(* the annotation of a collected segment is absent, or it is the direction of the original way:
   the direction of the current line, negated iff the segment has been reversed *)
Definition seg_truthful (rs : list line) (s : segment) : Prop :=
  seg_orient s = 0 \/
  exists r d, In r rs /\ runs r d (seg_line s) /\ seg_orient s = (if seg_rev s then - d else d).

Lemma fwd_rev : forall r l, fwd r l -> bwd r (rev l).
Proof.
  intros r l H e He. rewrite line_edges_rev in He. apply in_rev in He.
  apply in_map_iff in He. destruct He as (e' & <- & He'). simpl. apply H. exact He'.
Qed.
Lemma bwd_rev : forall r l, bwd r l -> fwd r (rev l).
Proof.
  intros r l H e He. rewrite line_edges_rev in He. apply in_rev in He.
  apply in_map_iff in He. destruct He as (e' & <- & He'). simpl. apply H. exact He'.
Qed.

Lemma runs_rev : forall r d l, runs r d l -> runs r (- d) (rev l).
Proof.
  intros r d l [[H ->]|[H ->]]; [right; split; [apply fwd_rev; exact H|reflexivity]|].
  left. split; [apply bwd_rev; exact H|lia].
Qed.

(* the direction of a ring line *)
Lemma ring_line_runs : forall r L, (1 <= length r)%nat -> is_ring_line r L ->
  runs r (sign (shoelace L)) L.
Proof.
  intros r L Hr (s & Hs & HL).
  assert (Hf : fwd r (close_ring (rot s r))).
  { intros e He. apply ringE_step. eapply Permutation_in; [apply ringE_rot; exact Hs|].
    destruct e; exact He. }
  destruct HL as [->| ->].
  - left. split; [exact Hf|]. unfold ring_sign. rewrite shoelace_rot by exact Hs. reflexivity.
  - right. split; [apply fwd_rev; exact Hf|].
    unfold ring_sign. rewrite shoelace_rev, shoelace_rot by exact Hs. apply sign_neg.
Qed.

Lemma chain_member : forall obs c t, chain_rel obs c -> In t c ->
  exists ob, In ob obs /\ seg_orient t = seg_orient (orient ob) /\ seg_rev t = seg_rev (orient ob).
Proof.
  intros obs c t H. induction H as [ob Hl|obs cur ob H IH Hl Hj|obs cur ob H IH Hl Hj]; intros Hin.
  - destruct Hin as [<-|[]]. exists ob. split; [left; reflexivity|split; reflexivity].
  - apply in_app_or in Hin. destruct Hin as [Hin|[<-|[]]].
    + destruct (IH Hin) as (ob' & Ho & E). exists ob'. split; [apply in_or_app; left; exact Ho|exact E].
    + exists ob. split; [apply in_or_app; right; left; reflexivity|split; reflexivity].
  - destruct Hin as [<-|Hin].
    + exists ob. split; [left; reflexivity|split; reflexivity].
    + destruct (IH Hin) as (ob' & Ho & E). exists ob'. split; [right; exact Ho|exact E].
Qed.

Lemma len2_has_edge : forall s, len2 s -> exists e, In e (seg_edges s).
Proof.
  intros s H. unfold len2 in H. unfold seg_edges. destruct (seg_line s) as [|a [|b l]]; simpl in H; try lia.
  exists (a, b). left. reflexivity.
Qed.

Lemma runs_orient : forall (r : line) (d : Z) (s : segment) (b : bool), runs r d (seg_line s) ->
  runs r (if b then - d else d) (seg_line (orient (s, b))).
Proof. intros r d s b H. destruct b; [apply runs_rev; exact H|exact H]. Qed.

(* two directions of the same line around vertex-disjoint rings agree *)
Lemma runs_agree : forall (rs : list line) r r' d d' l e,
  NoDup (concat rs) -> Forall (fun r => (3 <= length r)%nat) rs -> In r rs -> In r' rs ->
  In e (line_edges l) -> runs r d l ->
  ((step r' (fst e) (snd e) /\ d' = ring_sign r') \/ (step r' (snd e) (fst e) /\ d' = - ring_sign r')) ->
  d = d'.
Proof.
  intros rs r r' d d' l e Hnd Hlen Hr Hr' He Hrun Hdir.
  assert (Hsame : forall u v, step r u v \/ step r v u -> step r' u v \/ step r' v u -> r = r').
  { intros u v H1 H2. apply (disjoint_rings rs r r' u Hnd Hr Hr').
    - destruct H1 as [H1|H1]; [eapply step_in_l|eapply step_in_r]; exact H1.
    - destruct H2 as [H2|H2]; [eapply step_in_l|eapply step_in_r]; exact H2. }
  assert (Hndr : NoDup r) by (apply (ring_nodup rs r Hnd Hr)).
  assert (H3 : (3 <= length r)%nat) by (rewrite Forall_forall in Hlen; apply Hlen; exact Hr).
  destruct Hrun as [[Hf ->]|[Hb ->]]; destruct Hdir as [[Hs ->]|[Hs ->]].
  - rewrite (Hsame _ _ (or_introl (Hf e He)) (or_introl Hs)). reflexivity.
  - exfalso. assert (E := Hsame _ _ (or_introl (Hf e He)) (or_intror Hs)). subst r'.
    apply (step_irrefl2 r _ _ Hndr H3 (Hf e He) Hs).
  - exfalso. assert (E := Hsame _ _ (or_intror (Hb e He)) (or_introl Hs)). subst r'.
    apply (step_irrefl2 r _ _ Hndr H3 Hs (Hb e He)).
  - rewrite (Hsame _ _ (or_intror (Hb e He)) (or_intror Hs)). reflexivity.
Qed.

Theorem chain_truthful : forall (rs : list line) obs c r',
  NoDup (concat rs) -> Forall (fun r => (3 <= length r)%nat) rs -> In r' rs ->
  chain_rel obs c -> is_ring_line r' (ms_line c) ->
  (forall ob, In ob obs -> seg_truthful rs (fst ob)) ->
  truthful (sign (shoelace (ms_line c))) c.
Proof.
  intros rs obs c r' Hnd Hlen Hr' Hc Hrl Htr t Ht.
  destruct (chain_member obs c t Hc Ht) as ([s b] & Hob & Eo & Er).
  destruct (Htr (s, b) Hob) as [Hz|(r & d & Hr & Hrun & Eor)]; simpl in Hz || simpl in Eor.
  - left. rewrite Eo. destruct b; exact Hz.
  - right.
    assert (H3' : (3 <= length r')%nat) by (rewrite Forall_forall in Hlen; apply Hlen; exact Hr').
    pose proof (ring_line_runs r' _ ltac:(lia) Hrl) as HL.
    pose proof (runs_orient r d s b Hrun) as Hro.
    destruct (chain_rel_explicit _ _ Hc) as (_ & _ & Hall). rewrite Forall_forall in Hall.
    destruct (len2_has_edge (orient (s, b)) (len2_orient (s, b) (Hall (s, b) Hob))) as (e & He).
    assert (HeL : In e (line_edges (ms_line c))).
    { rewrite (chain_edges _ _ Hc). apply in_flat_map. exists (s, b). split; [exact Hob|exact He]. }
    assert (Ed : (if b then - d else d) = sign (shoelace (ms_line c))).
    { apply (runs_agree rs r r' _ _ (seg_line (orient (s, b))) e Hnd Hlen Hr Hr' He Hro).
      destruct HL as [[Hf E]|[Hb E]]; [left|right]; (split; [|exact E]); [apply Hf|apply Hb]; exact HeL. }
    rewrite <- Ed. rewrite Eo, Er. simpl in Eor. destruct b; simpl; [|exact Eor].
    rewrite Eor. destruct (seg_rev s); simpl; lia.
Qed.
