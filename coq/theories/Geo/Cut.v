(* Geo/Cut.v — segments obtained by cutting closed rings into consecutive pieces, reversing some
   and permuting them, satisfy the even end-point condition; hence join closes every chain. *)
From Coq Require Import ZArith List Bool Lia Arith Permutation.
From Verif Require Import Geo.Model Geo.JoinProofs Geo.Conserve Geo.Closes.
Import ListNotations.
Open Scope Z_scope.

Fixpoint linked_lines (ps : list line) : Prop :=
  match ps with
  | a :: ((b :: _) as r) => llast a = lfirst b /\ linked_lines r
  | _ => True
  end.

(* [ps] cuts the closed line [ring] (the ring written from one of its cut vertices) into
   consecutive pieces of >= 2 points sharing their end points *)
Definition cut_of (ring : line) (ps : list line) : Prop :=
  ps <> [] /\ Forall (fun l => (2 <= length l)%nat) ps /\ linked_lines ps /\
  merge_lines ps = ring.

Definition line_ends (l : line) : list point := [lfirst l; llast l].

Lemma lfirst_app : forall a b, a <> [] -> lfirst (a ++ b) = lfirst a.
Proof. intros [|x a] b H; [congruence|reflexivity]. Qed.

Lemma last_app_ne : forall {A} (d : A) u w, w <> [] -> last (u ++ w) d = last w d.
Proof.
  intros A d u w H. induction u as [|x u IH]; [reflexivity|].
  simpl. destruct (u ++ w) eqn:E; [apply app_eq_nil in E; destruct E; congruence|exact IH].
Qed.

Lemma merge_cons2 : forall a b r, merge_lines (a :: b :: r) = a ++ tl b ++ flat_map (@tl point) r.
Proof. reflexivity. Qed.

(* ends of the glued line, and parity of the end-point counts of the pieces *)
Lemma cut_ends : forall ps, ps <> [] -> Forall (fun l => (2 <= length l)%nat) ps -> linked_lines ps ->
  lfirst (merge_lines ps) = lfirst (hd [] ps) /\
  llast (merge_lines ps) = llast (last ps []) /\
  forall p, exists k,
    (cnt p (flat_map line_ends ps) = cnt p [lfirst (hd [] ps); llast (last ps [])] + 2 * k)%nat.
Proof.
  induction ps as [|a ps IH]; intros Hne Hall Hl; [congruence|].
  inversion Hall as [|x y Ha Hall']; subst.
  destruct ps as [|b ps'].
  - simpl. rewrite app_nil_r. split; [reflexivity|]. split; [reflexivity|].
    intros p. exists 0%nat. simpl. lia.
  - destruct Hl as [Hab Hl]. destruct (IH ltac:(discriminate) Hall' Hl) as (I1 & I2 & I3).
    assert (Hane : a <> []) by (intro E; subst; simpl in Ha; lia).
    inversion Hall' as [|x y Hb _]; subst.
    split; [|split].
    + rewrite merge_cons2. apply lfirst_app. assumption.
    + change (last (a :: b :: ps') []) with (last (b :: ps') []). rewrite <- I2.
      rewrite merge_cons2. unfold merge_lines.
      destruct b as [|b0 [|b1 b']]; simpl in Hb; try lia.
      unfold llast. simpl tl.
      rewrite (last_app_ne origin a ((b1 :: b') ++ flat_map (@tl point) ps')) by discriminate.
      reflexivity.
    + intros p. destruct (I3 p) as [k Hk].
      change (flat_map line_ends (a :: b :: ps')) with (line_ends a ++ flat_map line_ends (b :: ps')).
      rewrite cnt_app, Hk. change (hd [] (b :: ps')) with b. change (hd [] (a :: b :: ps')) with a.
      change (last (a :: b :: ps') []) with (last (b :: ps') []).
      unfold line_ends. simpl. rewrite Hab.
      exists (k + b2n (pt_eqb p (lfirst b)))%nat. lia.
Qed.

Lemma cut_even : forall ring ps, cut_of ring ps -> lfirst ring = llast ring ->
  forall p, exists k, cnt p (flat_map line_ends ps) = (2 * k)%nat.
Proof.
  intros ring ps (Hne & Hall & Hl & Hm) Hc p.
  destruct (cut_ends ps Hne Hall Hl) as (E1 & E2 & E3).
  destruct (E3 p) as [k Hk]. rewrite <- E1, <- E2, Hm, <- Hc in Hk. simpl in Hk.
  exists (k + b2n (pt_eqb p (lfirst ring)))%nat. lia.
Qed.

Lemma line_ends_rev : forall p l, cnt p (line_ends (rev l)) = cnt p (line_ends l).
Proof. intros p l. unfold line_ends. rewrite lfirst_rev, llast_rev. simpl. lia. Qed.

Definition flip (lb : line * bool) : line := if snd lb then rev (fst lb) else fst lb.

Lemma deg_lines : forall p segs, deg p segs = cnt p (flat_map line_ends (map seg_line segs)).
Proof. intros p segs. unfold deg. induction segs as [|s r IH]; [reflexivity|]. simpl in *. rewrite IH. reflexivity. Qed.

Lemma cnt_flip : forall p pl,
  cnt p (flat_map line_ends (map flip pl)) = cnt p (flat_map line_ends (map fst pl)).
Proof.
  intros p pl. induction pl as [|[l b] pl IH]; [reflexivity|].
  change (cnt p (line_ends (flip (l, b)) ++ flat_map line_ends (map flip pl)) =
          cnt p (line_ends l ++ flat_map line_ends (map fst pl))).
  rewrite !cnt_app, IH. f_equal. unfold flip. simpl. destruct b; [apply line_ends_rev|reflexivity].
Qed.

Lemma concat_even : forall p (rings : list line) (pss : list (list line)),
  Forall2 cut_of rings pss -> Forall (fun r => lfirst r = llast r) rings ->
  exists k, cnt p (flat_map line_ends (concat pss)) = (2 * k)%nat.
Proof.
  intros p rings pss H. induction H as [|r ps rings pss Hc H IH]; intros Hcl.
  - exists 0%nat. reflexivity.
  - inversion Hcl; subst. destruct (IH H3) as [k1 Hk1]. destruct (cut_even r ps Hc H2 p) as [k2 Hk2].
    simpl. rewrite flat_map_app, cnt_app, Hk1, Hk2. exists (k2 + k1)%nat. lia.
Qed.

(* the segments are the pieces of cuts of closed rings, some reversed, in any order *)
Definition is_cut (rings : list line) (segs : list segment) : Prop :=
  Forall (fun r => lfirst r = llast r) rings /\
  exists (pss : list (list line)) (pl : list (line * bool)),
    Forall2 cut_of rings pss /\ map fst pl = concat pss /\
    Permutation (map seg_line segs) (map flip pl).

Lemma is_cut_len2 : forall rings segs, is_cut rings segs -> Forall len2 segs.
Proof.
  intros rings segs (_ & pss & pl & HF & Hfst & HP).
  assert (Hall : Forall (fun l => (2 <= length l)%nat) (concat pss)).
  { clear -HF. induction HF as [|r ps rings pss (_ & Hall & _) _ IH]; [constructor|].
    simpl. apply Forall_app. split; assumption. }
  assert (Hall2 : Forall (fun l => (2 <= length l)%nat) (map flip pl)).
  { rewrite <- Hfst in Hall. clear -Hall. induction pl as [|[l b] pl IH]; [constructor|].
    inversion Hall; subst. constructor; [|apply IH; assumption].
    unfold flip. simpl in *. destruct b; [rewrite rev_length|]; assumption. }
  apply Forall_forall. intros s Hin. rewrite Forall_forall in Hall2.
  apply Hall2. eapply Permutation_in; [exact HP|]. apply in_map. assumption.
Qed.

Lemma compact_id : forall segs, Forall len2 segs -> compact segs = segs.
Proof.
  intros segs H. unfold compact. induction H as [|s r Hs H IH]; [reflexivity|].
  simpl. unfold len2 in Hs. destruct (Nat.ltb 1 (length (seg_line s))) eqn:E.
  - rewrite IH. reflexivity.
  - apply Nat.ltb_ge in E. lia.
Qed.

Theorem is_cut_eulerian : forall rings segs, is_cut rings segs -> eulerian (compact segs).
Proof.
  intros rings segs H. rewrite (compact_id segs (is_cut_len2 _ _ H)).
  destruct H as (Hcl & pss & pl & HF & Hfst & HP). intros p.
  rewrite deg_lines. rewrite (cnt_perm p _ _ (Permutation_flat_map line_ends HP)).
  rewrite cnt_flip, Hfst. eapply concat_even; eassumption.
Qed.

(* every chain is closed, for EVERY cut, every choice of reversed pieces and every order *)
Theorem join_closes_cut : forall rings segs chains,
  is_cut rings segs -> join segs = JoinOk chains -> Forall closed chains.
Proof.
  intros rings segs chains H Hj. eapply join_closes; [|exact Hj]. eapply is_cut_eulerian. exact H.
Qed.
