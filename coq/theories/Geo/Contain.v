(* Geo/Contain.v — polygonContains does not depend on the start vertex or the direction in which
   the two rings are written: it is the parity of a count over the (multiset of) ring edges. *)
From Coq Require Import ZArith List Bool Lia Arith Permutation.
From Verif Require Import Geo.Model Geo.JoinProofs Geo.Conserve Geo.Edges Geo.Orient Geo.Rings Geo.Holes Geo.Recover.
Import ListNotations.
Open Scope Z_scope.

Definition ecrosses (p : point) (e : point * point) : bool := crosses p (snd e) (fst e).
Definition ncross (p : point) (es : list (point * point)) : nat := length (filter (ecrosses p) es).

Lemma pir_loop_count : forall p l prev inside,
  pir_loop p prev l inside = xorb inside (Nat.odd (ncross p (line_edges (prev :: l)))).
Proof.
  intros p l. induction l as [|cur r IH]; intros prev inside.
  - simpl. rewrite xorb_false_r. reflexivity.
  - change (pir_loop p prev (cur :: r) inside)
      with (pir_loop p cur r (if crosses p cur prev then negb inside else inside)).
    rewrite IH. change (line_edges (prev :: cur :: r)) with ((prev, cur) :: line_edges (cur :: r)).
    unfold ncross. cbn [filter]. unfold ecrosses at 2. cbn [fst snd].
    destruct (crosses p cur prev); [|reflexivity].
    cbn [length]. rewrite Nat.odd_succ, <- Nat.negb_odd.
    destruct inside, (Nat.odd (length (filter (ecrosses p) (line_edges (cur :: r))))); reflexivity.
Qed.

Lemma crosses_same_point : forall p u, crosses p u u = false.
Proof. intros [x y] [a b]. unfold crosses. rewrite eqb_reflx. reflexivity. Qed.

Lemma crosses_sym : forall p u v, crosses p u v = crosses p v u.
Proof.
  intros [x y] [xi yi] [xj yj]. unfold crosses.
  destruct (yi >? y) eqn:A, (yj >? y) eqn:B; cbn [Bool.eqb negb andb]; try reflexivity.
  - destruct (yj - yi >? 0) eqn:E1; [lia|]. destruct (yi - yj >? 0) eqn:E2; [|lia].
    destruct ((xj - xi) * (y - yi) <? (x - xi) * (yj - yi)) eqn:C1;
    destruct ((x - xj) * (yi - yj) <? (xi - xj) * (y - yj)) eqn:C2; try reflexivity;
      [apply Z.ltb_lt in C1; apply Z.ltb_ge in C2|apply Z.ltb_ge in C1; apply Z.ltb_lt in C2]; nia.
  - destruct (yj - yi >? 0) eqn:E1; [|lia]. destruct (yi - yj >? 0) eqn:E2; [lia|].
    destruct ((x - xi) * (yj - yi) <? (xj - xi) * (y - yi)) eqn:C1;
    destruct ((xi - xj) * (y - yj) <? (x - xj) * (yi - yj)) eqn:C2; try reflexivity;
      [apply Z.ltb_lt in C1; apply Z.ltb_ge in C2|apply Z.ltb_ge in C1; apply Z.ltb_lt in C2]; nia.
Qed.

Lemma ncross_perm : forall p es es', Permutation es es' -> ncross p es = ncross p es'.
Proof.
  intros p es es' H. unfold ncross. induction H; simpl.
  - reflexivity.
  - destruct (ecrosses p x); simpl; lia.
  - destruct (ecrosses p x), (ecrosses p y); simpl; lia.
  - lia.
Qed.

Lemma ncross_swap : forall p es, ncross p (map swap es) = ncross p es.
Proof.
  intros p es. unfold ncross. induction es as [|e es IH]; [reflexivity|].
  simpl. replace (ecrosses p (swap e)) with (ecrosses p e)
    by (unfold ecrosses, swap; simpl; apply crosses_sym).
  destruct (ecrosses p e); simpl; lia.
Qed.

(* for a closed line the extra edge (last, first) the loop starts with is degenerate *)
Lemma point_in_closed : forall L p, line_closed L ->
  point_in_ring L p = Nat.odd (ncross p (line_edges L)).
Proof.
  intros L p Hc. unfold point_in_ring. rewrite pir_loop_count. rewrite xorb_false_l.
  destruct L as [|a L']; [reflexivity|].
  change (line_edges (llast (a :: L') :: a :: L')) with ((llast (a :: L'), a) :: line_edges (a :: L')).
  unfold ncross. cbn [filter]. unfold ecrosses at 1. cbn [fst snd].
  unfold line_closed, lfirst in Hc. simpl hd in Hc. rewrite <- Hc, crosses_same_point. reflexivity.
Qed.

Theorem point_in_ring_line : forall o OL p, (1 <= length o)%nat -> is_ring_line o OL ->
  point_in_ring OL p = point_in_ring (close_ring o) p.
Proof.
  intros o OL p Ho Hrl.
  assert (Hne : o <> []) by (intro E; subst; simpl in Ho; lia).
  destruct (is_ring_line_area o OL Ho Hrl) as [Hc _].
  rewrite (point_in_closed OL p Hc), (point_in_closed _ p (close_ring_closed o Hne)).
  f_equal. destruct Hrl as (s & Hs & [->| ->]).
  - apply ncross_perm. apply ringE_rot. exact Hs.
  - rewrite line_edges_rev. rewrite (ncross_perm p _ _ (Permutation_sym (Permutation_rev _))).
    rewrite ncross_swap. apply ncross_perm. apply ringE_rot. exact Hs.
Qed.

(* vertices of a ring line are the vertices of the ring *)
Lemma in_rot : forall {A} s (l : list A) x, In x (rot s l) <-> In x l.
Proof.
  intros A s l x. unfold rot. rewrite in_app_iff. rewrite <- (firstn_skipn s l) at 3.
  rewrite in_app_iff. tauto.
Qed.

Lemma in_ring_line : forall r L x, (1 <= length r)%nat -> is_ring_line r L -> (In x L <-> In x r).
Proof.
  intros r L x Hr (s & Hs & HL).
  assert (E : In x (close_ring (rot s r)) <-> In x r).
  { unfold close_ring. rewrite in_app_iff, in_rot. split; [|tauto].
    intros [H|[<-|[]]]; [exact H|]. apply (in_rot s). 
    destruct (rot s r) as [|a t] eqn:Er; [exfalso; apply (rot_nonempty s r); [intro E0; subst; simpl in Hr; lia|exact Er]|].
    left. reflexivity. }
  destruct HL as [->| ->]; [exact E|]. rewrite <- in_rev. exact E.
Qed.

Theorem contains_ring_lines : forall o OL h HL, (1 <= length o)%nat -> (1 <= length h)%nat ->
  is_ring_line o OL -> is_ring_line h HL ->
  polygon_contains OL HL = existsb (point_in_ring (close_ring o)) h.
Proof.
  intros o OL h HL Ho Hh Hro Hrh. unfold polygon_contains.
  apply eq_true_iff_eq. rewrite !existsb_exists. split; intros (p & Hp & Hin).
  - exists p. split; [apply (in_ring_line h HL p Hh Hrh); exact Hp|].
    rewrite <- (point_in_ring_line o OL p Ho Hro). exact Hin.
  - exists p. split; [apply (in_ring_line h HL p Hh Hrh); exact Hp|].
    rewrite (point_in_ring_line o OL p Ho Hro). exact Hin.
Qed.

Lemma outside_bbox_ring_line : forall o OL p, (1 <= length o)%nat -> is_ring_line o OL ->
  outside_bbox (close_ring o) p -> outside_bbox OL p.
Proof.
  intros o OL p Ho Hrl H.
  assert (Hin : forall q, In q OL -> In q (close_ring o)).
  { intros q Hq. apply (in_ring_line o OL q Ho Hrl) in Hq. unfold close_ring. apply in_or_app. left. exact Hq. }
  destruct H as [H|[H|[H|H]]]; [left|right; left|right; right; left|right; right; right];
    intros q Hq; apply H; apply Hin; exact Hq.
Qed.
