(* Geo/BuildGeo.v — holes_assigned and build_polygon_recovers over GEOMETRIC containment: the
   outer rings are star-shaped (a kernel point sees every edge from its left, in one of the two
   drawing directions) and every vertex of a hole can be reached from the kernel point by an
   axis-parallel path that does not meet the outer ring. *)
From Coq Require Import ZArith List Bool Lia Arith Permutation.
From Verif Require Import Geo.Model Geo.JoinProofs Geo.Conserve Geo.Closes Geo.Cut Geo.Edges
  Geo.Orient Geo.Annotate Geo.Rings Geo.Holes Geo.Recover Geo.Contain Geo.Assign Geo.Truthful
  Geo.Build Geo.Collect Geo.Jordan.
Import ListNotations.
Open Scope Z_scope.

(* the hole h lies strictly inside the star-shaped ring o (drawn in either direction) *)
Definition inside_star (o h : line) : Prop :=
  h <> [] /\ exists c,
    (kernel (close_ring o) c /\ forall p, In p h -> reach (close_ring o) c p) \/
    (kernel (rev (close_ring o)) c /\ forall p, In p h -> reach (rev (close_ring o)) c p).

(* p lies outside the ring r: it is joined, by axis-parallel legs that do not meet r, to a point
   outside r's bounding box (p itself if it is outside the box: empty path).  r may have any shape. *)
Definition outside_ring (r : line) (p : point) : Prop :=
  exists z, outside_bbox r z /\ reach r z p.

Definition contained_geo (sc : gscene) : Prop :=
  (forall o hs h, In (o, hs) sc -> In h hs -> inside_star o h) /\
  (forall o hs h o' hs', In (o, hs) sc -> In h hs -> In (o', hs') sc -> o' <> o ->
     forall p, In p h -> outside_ring (close_ring o') p).

Theorem outside_ring_not_inside : forall r p, line_closed r -> outside_ring r p ->
  point_in_ring r p = false.
Proof.
  intros r p Hc (z & Hz & path & Hp & <-). rewrite (path_parity r path z Hc Hp).
  apply point_outside_bbox. exact Hz.
Qed.

Lemma rot_zero : forall (r : line), rot 0 r = r.
Proof. intros r. unfold rot. simpl. apply app_nil_r. Qed.

Lemma inside_star_even_odd : forall o h, (1 <= length o)%nat -> inside_star o h ->
  existsb (point_in_ring (close_ring o)) h = true.
Proof.
  intros o h Ho (Hne & c & [[Hk Hr]|[Hk Hr]]).
  - apply inside_star_contains; [intro E; subst; simpl in Ho; lia|].
    split; [exact Hne|]. exists c. split; assumption.
  - assert (Hon : o <> []) by (intro E; subst; simpl in Ho; lia).
    destruct h as [|p h']; [congruence|]. simpl.
    assert (Hrl : is_ring_line o (rev (close_ring o))).
    { exists 0%nat. split; [lia|]. right. rewrite rot_zero. reflexivity. }
    rewrite <- (point_in_ring_line o (rev (close_ring o)) p Ho Hrl).
    rewrite (reach_inside (rev (close_ring o)) c p); [reflexivity| |exact Hk|apply Hr; left; reflexivity].
    apply line_closed_rev. apply close_ring_closed. exact Hon.
Qed.

Theorem contained_geo_contained : forall sc,
  Forall (fun r => (3 <= length r)%nat) (s_outers sc) -> contained_geo sc -> contained sc.
Proof.
  intros sc Hlen [Hin Hout]. rewrite Forall_forall in Hlen.
  assert (H3 : forall o hs, In (o, hs) sc -> (3 <= length o)%nat).
  { intros o hs Hoh. apply Hlen. unfold s_outers. apply in_map_iff. exists (o, hs). split; [reflexivity|exact Hoh]. }
  split.
  - intros o hs h Hoh Hh. apply inside_star_even_odd; [|apply (Hin o hs h Hoh Hh)].
    pose proof (H3 o hs Hoh). lia.
  - intros o hs h o' hs' Hoh Hh Hoh' Hne.
    apply Bool.not_true_is_false. intro Ex. apply existsb_exists in Ex. destruct Ex as (p & Hp & Hin').
    rewrite (outside_ring_not_inside (close_ring o') p) in Hin'; [discriminate| |].
    + apply close_ring_closed. pose proof (H3 o' hs' Hoh'). intro E. subst. simpl in H. lia.
    + apply (Hout o hs h o' hs' Hoh Hh Hoh' Hne p Hp).
Qed.

(* holes_assigned over geometric containment *)
Theorem holes_assigned_geo : forall incl (sc' : gscene) orings rhs' hlines,
  NoDup (concat (s_outers sc')) -> NoDup (concat (s_holes sc')) ->
  Forall (fun r => (3 <= length r)%nat) (s_outers sc' ++ s_holes sc') ->
  contained_geo sc' ->
  Forall2 (fun oh ol => ccw_line (fst oh) ol) sc' orings ->
  Forall2 cw_line rhs' hlines -> Permutation rhs' (s_holes sc') ->
  let mp := add_all incl (map (fun r => [r]) orings) hlines in
  Forall2 poly_recovered sc' mp /\
  length (concat (map (@tl line) mp)) = length (s_holes sc').
Proof.
  intros incl sc' orings rhs' hlines Hndo Hndh Hlen Hg.
  apply assign_core; try assumption.
  apply contained_geo_contained; [|exact Hg].
  apply Forall_app in Hlen. apply Hlen.
Qed.

(* build_polygon_recovers over geometric containment *)
Theorem build_polygon_recovers_geo : forall incl nodes ways members ds (sc : gscene),
  sc <> [] ->
  NoDup (concat (s_outers sc)) -> NoDup (concat (s_holes sc)) ->
  Forall (fun r => (3 <= length r)%nat) (s_outers sc ++ s_holes sc) ->
  (forall r, In r (s_outers sc ++ s_holes sc) -> shoelace (close_ring r) <> 0) ->
  contained_geo sc ->
  Forall2 (member_ok nodes ways (s_outers sc) (s_holes sc)) members ds ->
  is_cut_lines (map close_ring (s_outers sc)) (outer_lines ds) ->
  is_cut_lines (map close_ring (s_holes sc)) (inner_lines ds) ->
  exists mp sc',
    geom_polys (fst (build_polygon incl nodes ways members)) = Some mp /\
    snd (build_polygon incl nodes ways members) = false /\
    Permutation sc' sc /\ Forall2 poly_recovered sc' mp /\
    length (concat (map (@tl line) mp)) = length (s_holes sc).
Proof.
  intros incl nodes ways members ds sc Hne Hndo Hndh Hlen Harea Hg.
  apply build_polygon_recovers; try assumption.
  apply contained_geo_contained; [|exact Hg].
  apply Forall_app in Hlen. apply Hlen.
Qed.
