(* Geo/Collect.v — the member loop of buildPolygon: from relation members, ways and node objects /
   annotated way nodes to the collected outer and inner segments; build_polygon_recovers stated
   on the arguments of buildPolygon; independence from the coordinate source. *)
From Coq Require Import ZArith List Bool Lia Arith Permutation.
From Verif Require Import Geo.Model Geo.JoinProofs Geo.Conserve Geo.Closes Geo.Cut Geo.Edges
  Geo.Orient Geo.Annotate Geo.Rings Geo.Holes Geo.Recover Geo.Contain Geo.Assign Geo.Truthful
  Geo.Build Geo.Sources.
Import ListNotations.
Open Scope Z_scope.

(* ---------------------------------------------------------------- cuts as lists of lines *)
Definition is_cut_lines (rings : list line) (ls : list line) : Prop :=
  Forall (fun r => lfirst r = llast r) rings /\
  exists (pss : list (list line)) (pl : list (line * bool)),
    Forall2 cut_of rings pss /\ map fst pl = concat pss /\ Permutation ls (map flip pl).

Lemma is_cut_iff : forall rings segs, is_cut rings segs <-> is_cut_lines rings (map seg_line segs).
Proof. intros. unfold is_cut, is_cut_lines. tauto. Qed.

(* reversing one line of a cut gives a cut *)
Lemma is_cut_lines_rev_one : forall rings l1 x l2,
  is_cut_lines rings (l1 ++ x :: l2) -> is_cut_lines rings (l1 ++ rev x :: l2).
Proof.
  intros rings l1 x l2 (Hc & pss & pl & HF & Hfst & HP). split; [exact Hc|].
  assert (Hin : In x (map flip pl)).
  { eapply Permutation_in; [exact HP|]. apply in_or_app. right. left. reflexivity. }
  apply in_map_iff in Hin. destruct Hin as ([l b] & Ex & Hlb).
  destruct (in_split _ _ Hlb) as (p1 & p2 & Epl). subst pl.
  exists pss, (p1 ++ (l, negb b) :: p2). split; [exact HF|]. split.
  - rewrite <- Hfst. rewrite !map_app. reflexivity.
  - rewrite map_app in HP. simpl in HP. rewrite Ex in HP.
    apply Permutation_app_inv in HP.
    rewrite map_app. simpl.
    assert (Er : flip (l, negb b) = rev x).
    { unfold flip in *. simpl in *. destruct b; simpl; subst x; [symmetry; apply rev_involutive|reflexivity]. }
    rewrite Er. apply Permutation_elt. exact HP.
Qed.

Lemma is_cut_lines_rev_some : forall rings pre ls ls',
  Forall2 (fun l l' => l' = l \/ l' = rev l) ls ls' ->
  is_cut_lines rings (pre ++ ls) -> is_cut_lines rings (pre ++ ls').
Proof.
  intros rings pre ls ls' H. revert pre. induction H as [|l l' ls ls' Hl H IH]; intros pre Hc; [exact Hc|].
  replace (pre ++ l' :: ls') with ((pre ++ [l']) ++ ls') by (rewrite <- app_assoc; reflexivity).
  apply IH. rewrite <- app_assoc. simpl.
  destruct Hl as [->| ->]; [exact Hc|apply is_cut_lines_rev_one; exact Hc].
Qed.

(* ---------------------------------------------------------------- what one member contributes *)
Definition empty_col : collected := mkCol [] [] false O.

Lemma collect_step_add : forall nodes ways c m,
  let d := collect_step nodes ways empty_col m in
  collect_step nodes ways c m =
  mkCol (col_outer c ++ col_outer d) (col_inner c ++ col_inner d)
        (col_tainted c || col_tainted d) (col_outer_count c + col_outer_count d).
Proof.
  intros nodes ways [co ci ct cn] m. unfold collect_step. cbn -[way_to_line].
  destruct (mem_is_way m); cbn -[way_to_line]; [|rewrite !app_nil_r, orb_false_r, Nat.add_0_r; reflexivity].
  destruct (mem_role m) eqn:Er; cbn -[way_to_line].
  - destruct (lookup_way ways (mem_ref m)) as [w|].
    + destruct (way_to_line nodes (way_nodes w)) as [ls t]. destruct ls as [|p ls']; cbn -[way_to_line];
        rewrite ?app_nil_r, ?orb_false_r; f_equal; try lia; try reflexivity.
    + destruct (mem_nodes m) as [|n ns]; cbn -[way_to_line].
      * rewrite !app_nil_r, orb_true_r. f_equal; lia.
      * destruct (way_to_line nodes (n :: ns)) as [ls t]. destruct ls as [|p ls']; cbn -[way_to_line];
          rewrite ?app_nil_r, ?orb_false_r; f_equal; try lia; try reflexivity.
  - destruct (lookup_way ways (mem_ref m)) as [w|].
    + destruct (way_to_line nodes (way_nodes w)) as [ls t]. destruct ls as [|p ls']; cbn -[way_to_line];
        rewrite ?app_nil_r, ?orb_false_r; f_equal; try lia; try reflexivity.
    + destruct (mem_nodes m) as [|n ns]; cbn -[way_to_line].
      * rewrite !app_nil_r, orb_true_r. f_equal; lia.
      * destruct (way_to_line nodes (n :: ns)) as [ls t]. destruct ls as [|p ls']; cbn -[way_to_line];
          rewrite ?app_nil_r, ?orb_false_r; f_equal; try lia; try reflexivity.
  - rewrite !app_nil_r, orb_false_r, Nat.add_0_r. reflexivity.
Qed.

Definition contrib (nodes : list node) (ways : list way) (m : member) : collected :=
  collect_step nodes ways empty_col m.

Lemma collect_fold : forall nodes ways ms c,
  let r := fold_left (collect_step nodes ways) ms c in
  col_outer r = col_outer c ++ flat_map (fun m => col_outer (contrib nodes ways m)) ms /\
  col_inner r = col_inner c ++ flat_map (fun m => col_inner (contrib nodes ways m)) ms /\
  col_tainted r = col_tainted c || existsb (fun m => col_tainted (contrib nodes ways m)) ms.
Proof.
  intros nodes ways ms. induction ms as [|m ms IH]; intros c.
  - simpl. rewrite !app_nil_r, orb_false_r. repeat split; reflexivity.
  - simpl fold_left. cbn zeta. rewrite (collect_step_add nodes ways c m). cbn zeta.
    match goal with |- context [fold_left _ ms ?x] => set (c' := x) end.
    destruct (IH c') as (E1 & E2 & E3). cbn zeta in E1, E2, E3. rewrite E1, E2, E3.
    unfold c', contrib. simpl. rewrite <- !app_assoc, orb_assoc. repeat split; reflexivity.
Qed.

(* ---------------------------------------------------------------- describing the members *)
Inductive mdesc := MIgnored | MPiece (ro : role) (l : line).

(* the member's way, as written in the data, runs along line l; an orientation annotation, if
   present, is the direction in which that way runs around its ring (one of rs) *)
Definition mem_truthful (rs : list line) (m : member) (l : line) : Prop :=
  mem_orient m = 0 \/ exists r d, In r rs /\ runs r d l /\ mem_orient m = d.

Definition member_ok (nodes : list node) (ways : list way) (ros rhs : list line)
  (m : member) (d : mdesc) : Prop :=
  match d with
  | MIgnored => mem_is_way m = false \/ mem_role m = OtherRole
  | MPiece ro l =>
      mem_is_way m = true /\ mem_role m = ro /\ (2 <= length l)%nat /\
      (exists w, lookup_way ways (mem_ref m) = Some w /\ way_to_line nodes (way_nodes w) = (l, false)) /\
      match ro with
      | Outer => mem_truthful ros m l
      | Inner => mem_truthful rhs m l
      | OtherRole => False
      end
  end.

Definition base_seg (m : member) (l : line) : segment := mkSeg 0 (mem_orient m) false l.
Definition outer_seg (m : member) (l : line) : segment :=
  if mem_orient m =? CW then seg_reverse (base_seg m l) else base_seg m l.
Definition inner_seg (m : member) (l : line) : segment :=
  if mem_orient m =? CCW then seg_reverse (base_seg m l) else base_seg m l.

Lemma contrib_piece : forall nodes ways ros rhs m ro l, member_ok nodes ways ros rhs m (MPiece ro l) ->
  contrib nodes ways m =
  match ro with
  | Outer => mkCol [outer_seg m l] [] false 1
  | Inner => mkCol [] [inner_seg m l] false 0
  | OtherRole => empty_col
  end.
Proof.
  intros nodes ways ros rhs m ro l (Hw & Hr & H2 & (w & Hl & Hwl) & Ht).
  unfold contrib, collect_step. rewrite Hw, Hr. cbn -[way_to_line].
  destruct ro; [| |contradiction]; rewrite Hl, Hwl;
    (destruct l as [|p l']; [simpl in H2; lia|]); reflexivity.
Qed.

Lemma contrib_ignored : forall nodes ways ros rhs m, member_ok nodes ways ros rhs m MIgnored ->
  contrib nodes ways m = empty_col.
Proof.
  intros nodes ways ros rhs m [H|H]; unfold contrib, collect_step.
  - rewrite H. reflexivity.
  - destruct (mem_is_way m); [|reflexivity]. rewrite H. reflexivity.
Qed.

Definition outer_lines (ds : list mdesc) : list line :=
  flat_map (fun d => match d with MPiece Outer l => [l] | _ => [] end) ds.
Definition inner_lines (ds : list mdesc) : list line :=
  flat_map (fun d => match d with MPiece Inner l => [l] | _ => [] end) ds.

Definition flipped (l l' : line) : Prop := l' = l \/ l' = rev l.

Lemma runs_neg_rev : forall r d l, runs r d l -> runs r (- d) (rev l).
Proof. exact runs_rev. Qed.

Lemma outer_seg_ok : forall rs m l, mem_truthful rs m l ->
  flipped l (seg_line (outer_seg m l)) /\ seg_truthful rs (outer_seg m l).
Proof.
  intros rs m l Ht. unfold outer_seg, CW. destruct (mem_orient m =? -1) eqn:E.
  - apply Z.eqb_eq in E. split; [right; reflexivity|].
    destruct Ht as [Hz|(r & d & Hr & Hrun & Ed)]; [lia|]. right.
    exists r, (- d). split; [exact Hr|]. split; [apply runs_rev; exact Hrun|]. simpl. lia.
  - split; [left; reflexivity|]. destruct Ht as [Hz|(r & d & Hr & Hrun & Ed)]; [left; exact Hz|].
    right. exists r, d. split; [exact Hr|]. split; [exact Hrun|exact Ed].
Qed.

Lemma inner_seg_ok : forall rs m l, mem_truthful rs m l ->
  flipped l (seg_line (inner_seg m l)) /\ seg_truthful rs (inner_seg m l).
Proof.
  intros rs m l Ht. unfold inner_seg, CCW. destruct (mem_orient m =? 1) eqn:E.
  - apply Z.eqb_eq in E. split; [right; reflexivity|].
    destruct Ht as [Hz|(r & d & Hr & Hrun & Ed)]; [lia|]. right.
    exists r, (- d). split; [exact Hr|]. split; [apply runs_rev; exact Hrun|]. simpl. lia.
  - split; [left; reflexivity|]. destruct Ht as [Hz|(r & d & Hr & Hrun & Ed)]; [left; exact Hz|].
    right. exists r, d. split; [exact Hr|]. split; [exact Hrun|exact Ed].
Qed.

(* what collect returns for described members *)
Lemma collect_described : forall nodes ways ros rhs members ds,
  Forall2 (member_ok nodes ways ros rhs) members ds ->
  let c := collect nodes ways members in
  Forall2 flipped (outer_lines ds) (map seg_line (col_outer c)) /\
  Forall2 flipped (inner_lines ds) (map seg_line (col_inner c)) /\
  (forall s, In s (col_outer c) -> seg_truthful ros s) /\
  (forall s, In s (col_inner c) -> seg_truthful rhs s) /\
  col_tainted c = false.
Proof.
  intros nodes ways ros rhs members ds HF.
  destruct (collect_fold nodes ways members empty_col) as (E1 & E2 & E3).
  change (fold_left (collect_step nodes ways) members empty_col) with (collect nodes ways members) in E1, E2, E3.
  cbn zeta. rewrite E1, E2, E3. simpl. clear E1 E2 E3.
  induction HF as [|m d members ds Hmd HF IH].
  - simpl. split; [constructor|]. split; [constructor|]. split; [intros s []|]. split; [intros s []|reflexivity].
  - destruct IH as (I1 & I2 & I3 & I4 & I5).
    destruct d as [|ro l].
    + simpl. rewrite (contrib_ignored _ _ _ _ m Hmd). simpl.
      split; [exact I1|]. split; [exact I2|]. split; [exact I3|]. split; [exact I4|exact I5].
    + pose proof (contrib_piece _ _ _ _ m ro l Hmd) as Ec.
      destruct Hmd as (_ & _ & _ & _ & Ht).
      destruct ro; [| |contradiction]; simpl; rewrite Ec; simpl.
      * destruct (outer_seg_ok ros m l Ht) as [Hf Hs].
        split; [constructor; assumption|]. split; [exact I2|]. split; [|split; [exact I4|exact I5]].
        intros s [<-|Hin]; [exact Hs|apply I3; exact Hin].
      * destruct (inner_seg_ok rhs m l Ht) as [Hf Hs].
        split; [exact I1|]. split; [constructor; assumption|]. split; [exact I3|]. split; [|exact I5].
        intros s [<-|Hin]; [exact Hs|apply I4; exact Hin].
Qed.

(* ---------------------------------------------------------------- build_polygon_recovers *)
(* From the arguments of buildPolygon.  sc: the scene (outer ring, its holes), rings as lists of
   pairwise distinct vertices written from one of their cut vertices; ds describes every
   member: ignored (not a way / other role) or a way with role outer / inner that is found,
   resolves completely (not tainted) to a line of >= 2 points and whose orientation annotation,
   if any, is the direction the way runs around its ring; the outer (inner) lines as written in
   the data are ANY cut of the outer (hole) rings, any subset reversed, in any member order. *)
Theorem build_polygon_recovers : forall incl nodes ways members ds (sc : gscene),
  sc <> [] ->
  NoDup (concat (s_outers sc)) -> NoDup (concat (s_holes sc)) ->
  Forall (fun r => (3 <= length r)%nat) (s_outers sc ++ s_holes sc) ->
  (forall r, In r (s_outers sc ++ s_holes sc) -> shoelace (close_ring r) <> 0) ->
  contained sc ->
  Forall2 (member_ok nodes ways (s_outers sc) (s_holes sc)) members ds ->
  is_cut_lines (map close_ring (s_outers sc)) (outer_lines ds) ->
  is_cut_lines (map close_ring (s_holes sc)) (inner_lines ds) ->
  exists mp sc',
    geom_polys (fst (build_polygon incl nodes ways members)) = Some mp /\
    snd (build_polygon incl nodes ways members) = false /\
    Permutation sc' sc /\ Forall2 poly_recovered sc' mp /\
    length (concat (map (@tl line) mp)) = length (s_holes sc).
Proof.
  intros incl nodes ways members ds sc Hne Hndo Hndh Hlen Harea Hcont Hok Hco Hci.
  destruct (collect_described nodes ways _ _ members ds Hok) as (Fo & Fi & To & Ti & Htaint).
  set (c := collect nodes ways members) in *.
  assert (Hco' : is_cut (map close_ring (s_outers sc)) (col_outer c)).
  { apply is_cut_iff. apply (is_cut_lines_rev_some _ [] _ _ Fo). exact Hco. }
  assert (Hci' : is_cut (map close_ring (s_holes sc)) (col_inner c)).
  { apply is_cut_iff. apply (is_cut_lines_rev_some _ [] _ _ Fi). exact Hci. }
  destruct (build_geometry_recovers incl c sc Hne Hndo Hndh Hlen Harea Hcont Hco' Hci' To Ti)
    as (mp & sc' & Hg & HP & HF & Hcnt).
  exists mp, sc'. unfold build_polygon. fold c. simpl. repeat split; assumption.
Qed.

(* ---------------------------------------------------------------- coordinate sources *)
Definition raw_way := (Z * list Z)%type.
Definition ways_bare (raw : list raw_way) : list way :=
  map (fun w => mkWay (fst w) (map bare (snd w))) raw.
Definition ways_annot (nodes : list node) (raw : list raw_way) : list way :=
  map (fun w => mkWay (fst w) (map (annotated nodes) (snd w))) raw.

Lemma find_rev_map : forall {A B} (f : A -> B) (p : B -> bool) l,
  find p (rev (map f l)) = option_map f (find (fun a => p (f a)) (rev l)).
Proof.
  intros A B f p l. rewrite <- map_rev. induction (rev l) as [|a r IH]; [reflexivity|].
  simpl. destruct (p (f a)); [reflexivity|exact IH].
Qed.

Lemma lookup_ways_map : forall (g : list Z -> list waynode) (raw : list raw_way) id,
  lookup_way (map (fun w => mkWay (fst w) (g (snd w))) raw) id =
  option_map (fun w => mkWay (fst w) (g (snd w))) (find (fun a : raw_way => fst a =? id) (rev raw)).
Proof. intros g raw id. unfold lookup_way. rewrite <- rev_alt, find_rev_map. reflexivity. Qed.

Lemma collect_step_sources : forall nodes raw c m,
  Forall not_origin nodes ->
  (forall w id, In w raw -> In id (snd w) -> lookup_node nodes id <> None) ->
  mem_nodes m = [] ->
  collect_step [] (ways_annot nodes raw) c m = collect_step nodes (ways_bare raw) c m /\
  collect_step nodes (ways_annot nodes raw) c m = collect_step nodes (ways_bare raw) c m.
Proof.
  intros nodes raw c m Hno Hres Hmn.
  assert (Hlk : forall g, lookup_way (map (fun w : raw_way => mkWay (fst w) (g (snd w))) raw) (mem_ref m) =
                 option_map (fun w : raw_way => mkWay (fst w) (g (snd w)))
                            (find (fun a : raw_way => fst a =? mem_ref m) (rev raw))).
  { intros g. apply lookup_ways_map. }
  unfold collect_step, ways_annot, ways_bare. rewrite !Hlk.
  generalize (eq_refl (find (fun a : raw_way => fst a =? mem_ref m) (rev raw))).
  generalize (find (fun a : raw_way => fst a =? mem_ref m) (rev raw)) at -1.
  intros fo Ef. destruct fo as [[wid ids]|]; cbn [option_map].
  - apply find_some in Ef. destruct Ef as [Ef _]. apply in_rev in Ef.
    destruct (way_to_line_sources nodes ids Hno (fun id Hid => Hres (wid, ids) id Ef Hid)) as (E1 & E2 & _).
    cbn [way_nodes snd fst]. rewrite E1, E2. split; reflexivity.
  - rewrite Hmn. split; reflexivity.
Qed.

Theorem build_polygon_sources : forall incl nodes raw members,
  Forall not_origin nodes ->
  (forall w id, In w raw -> In id (snd w) -> lookup_node nodes id <> None) ->
  Forall (fun m => mem_nodes m = []) members ->
  build_polygon incl [] (ways_annot nodes raw) members = build_polygon incl nodes (ways_bare raw) members /\
  build_polygon incl nodes (ways_annot nodes raw) members = build_polygon incl nodes (ways_bare raw) members.
Proof.
  intros incl nodes raw members Hno Hres Hmn.
  assert (E : forall c,
    fold_left (collect_step [] (ways_annot nodes raw)) members c =
      fold_left (collect_step nodes (ways_bare raw)) members c /\
    fold_left (collect_step nodes (ways_annot nodes raw)) members c =
      fold_left (collect_step nodes (ways_bare raw)) members c).
  { induction Hmn as [|m members Hm Hmn IH]; intros c; [split; reflexivity|].
    simpl. destruct (collect_step_sources nodes raw c m Hno Hres Hm) as [E1 E2].
    rewrite E1, E2. apply IH. }
  unfold build_polygon, collect. destruct (E (mkCol [] [] false O)) as [E1 E2].
  rewrite E1, E2. split; reflexivity.
Qed.
