(* Geo/Build.v — build_polygon_recovers: buildPolygon's geometry on any cut of a scene is exactly
   the scene's polygons: every outer ring counter-clockwise with precisely its own holes,
   clockwise, every ring closed and complete, up to start vertex and order. *)
From Coq Require Import ZArith List Bool Lia Arith Permutation.
From Verif Require Import Geo.Model Geo.JoinProofs Geo.Conserve Geo.Closes Geo.Cut Geo.Edges
  Geo.Orient Geo.Annotate Geo.Rings Geo.Holes Geo.Recover Geo.Contain Geo.Assign Geo.Truthful.
Import ListNotations.
Open Scope Z_scope.

(* ---------------------------------------------------------------- small facts *)
Lemma chain_orients : forall obs c, chain_rel obs c ->
  map seg_orient c = map (fun ob => seg_orient (fst ob)) obs.
Proof.
  intros obs c H. induction H as [ob Hl|obs cur ob H IH Hl Hj|obs cur ob H IH Hl Hj].
  - destruct ob as [s b]. destruct b; reflexivity.
  - rewrite !map_app, IH. destruct ob as [s b]. destruct b; reflexivity.
  - simpl. rewrite IH. destruct ob as [s b]. destruct b; reflexivity.
Qed.

Lemma join_unannotated : forall segs chains, join segs = JoinOk chains ->
  (forall s, In s segs -> seg_orient s = 0) ->
  forall c s, In c chains -> In s c -> seg_orient s = 0.
Proof.
  intros segs chains Hj Hz. destruct (join_conserves _ _ Hj) as (obss & HF & HP).
  assert (Hobs : forall ob, In ob (concat obss) -> seg_orient (fst ob) = 0).
  { intros ob Hob. apply Hz. assert (Hin : In (fst ob) (compact segs)).
    { eapply Permutation_in; [exact HP|]. apply in_map. exact Hob. }
    unfold compact in Hin. apply filter_In in Hin. apply Hin. }
  clear HP Hj. induction HF as [|obs c0 obss chains Hc HF IH]; intros c s Hc' Hs; [contradiction|].
  destruct Hc' as [<-|Hc'].
  - assert (Hin : In (seg_orient s) (map seg_orient c0)) by (apply in_map; exact Hs).
    rewrite (chain_orients _ _ Hc) in Hin. apply in_map_iff in Hin. destruct Hin as (ob & <- & Hob).
    apply Hobs. simpl. apply in_or_app. left. exact Hob.
  - apply (IH (fun ob Hob => Hobs ob (in_or_app _ _ _ (or_intror Hob))) c s Hc' Hs).
Qed.

Lemma is_ring_line_rev : forall r L, is_ring_line r L -> is_ring_line r (rev L).
Proof.
  intros r L (s & Hs & [->| ->]); exists s; (split; [exact Hs|]).
  - right. reflexivity.
  - left. apply rev_involutive.
Qed.

Lemma rot_length : forall {A} s (l : list A), length (rot s l) = length l.
Proof. intros A s l. unfold rot. rewrite app_length, skipn_length, firstn_length. lia. Qed.

Lemma is_ring_line_length : forall r L, is_ring_line r L -> length L = S (length r).
Proof.
  intros r L (s & Hs & [->| ->]); [|rewrite rev_length]; rewrite close_ring_length, rot_length; reflexivity.
Qed.

Lemma closed_closedb : forall L, line_closed L -> closedb L = true.
Proof. intros L H. unfold closedb. unfold line_closed in H. rewrite H. apply pt_eqb_refl. Qed.

Definition ccw_line (o l : line) : Prop := is_ring_line o l /\ sign (shoelace l) = 1.
Definition cw_line (h l : line) : Prop := is_ring_line h l /\ sign (shoelace l) = -1.

(* the rings produced from the chains of one join; every annotation that is present is truthful *)
Lemma rings_of_join : forall (rs : list line) segs chains o,
  (o = 1 \/ o = -1) ->
  NoDup (concat rs) -> Forall (fun r => (3 <= length r)%nat) rs ->
  (forall r, In r rs -> shoelace (close_ring r) <> 0) ->
  is_cut (map close_ring rs) segs -> (forall s, In s segs -> seg_truthful rs s) ->
  join segs = JoinOk chains ->
  exists rs', Permutation rs' rs /\
    Forall2 (fun r c => is_ring_line r (ring_of o c) /\ sign (shoelace (ring_of o c)) = o /\
                        valid_ring (ring_of o c) = true) rs' chains.
Proof.
  intros rs segs chains o Ho Hnd Hlen Harea Hcut Htr Hj.
  destruct (join_closes_rings rs segs chains Hnd Hlen Hcut Hj) as (rs' & HP & HF).
  exists rs'. split; [exact HP|].
  destruct (join_conserves _ _ Hj) as (obss & HFo & HPo).
  assert (Hobs : forall ob, In ob (concat obss) -> seg_truthful rs (fst ob)).
  { intros ob Hob. apply Htr. assert (Hin : In (fst ob) (compact segs)).
    { eapply Permutation_in; [exact HPo|]. apply in_map. exact Hob. }
    unfold compact in Hin. apply filter_In in Hin. apply Hin. }
  assert (Hchain : forall c, In c chains -> exists obs, chain_rel obs c /\
                     forall ob, In ob obs -> seg_truthful rs (fst ob)).
  { clear -HFo Hobs. induction HFo as [|obs c0 obss chains Hc HF IH]; intros c Hc'; [contradiction|].
    destruct Hc' as [<-|Hc'].
    - exists obs. split; [exact Hc|]. intros ob Hob. apply Hobs. simpl. apply in_or_app. left. exact Hob.
    - apply IH; [|exact Hc']. intros ob Hob. apply Hobs. simpl. apply in_or_app. right. exact Hob. }
  assert (Hin : forall r, In r rs' -> In r rs /\ (3 <= length r)%nat /\ shoelace (close_ring r) <> 0).
  { intros r Hr. assert (Hr' : In r rs) by (eapply Permutation_in; [exact HP|exact Hr]).
    rewrite Forall_forall in Hlen. split; [exact Hr'|]. split; [apply Hlen; exact Hr'|apply Harea; exact Hr']. }
  clear HP Hj Hcut HFo HPo Hobs. induction HF as [|r c rs' chains Hrc HF IH]; [constructor|].
  constructor.
  - destruct (Hin r (or_introl eq_refl)) as (Hr & H3 & Hnz).
    destruct (is_ring_line_area r _ ltac:(lia) Hrc) as [Hc Ha].
    assert (Hnz' : shoelace (ms_line c) <> 0) by (destruct Ha as [E|E]; rewrite E; lia).
    destruct (Hchain c (or_introl eq_refl)) as (obs & Hcr & Hobt).
    destruct (ring_of_orientation o c Ho Hc Hnz') as (Hs & Hcl & Hform).
    { apply (chain_truthful rs obs c r Hnd Hlen Hr Hcr Hrc Hobt). }
    assert (Hrl : is_ring_line r (ring_of o c)).
    { destruct Hform as [->| ->]; [exact Hrc|apply is_ring_line_rev; exact Hrc]. }
    split; [exact Hrl|]. split; [exact Hs|].
    unfold valid_ring. rewrite (is_ring_line_length _ _ Hrl), (closed_closedb _ Hcl).
    destruct (Nat.leb_spec 4 (S (length r))); [reflexivity|lia].
  - apply IH.
    + intros c0 Hc0. apply Hchain. right. exact Hc0.
    + intros r0 Hr0. apply Hin. right. exact Hr0.
Qed.

(* ---------------------------------------------------------------- list helpers *)
Lemma filter_all : forall {A} (f : A -> bool) l, (forall x, In x l -> f x = true) -> filter f l = l.
Proof.
  intros A f l H. induction l as [|a l IH]; [reflexivity|]. simpl.
  rewrite (H a (or_introl eq_refl)). f_equal. apply IH. intros x Hx. apply H. right. exact Hx.
Qed.

Lemma Forall2_nth_l : forall {A B} (P : A -> B -> Prop) l1 l2 k a,
  Forall2 P l1 l2 -> nth_error l1 k = Some a -> exists b, nth_error l2 k = Some b /\ P a b.
Proof.
  intros A B P l1 l2 k a H. revert k. induction H as [|x y l1 l2 Hxy H IH]; intros k Hk.
  - destruct k; discriminate.
  - destruct k as [|k]; [inversion Hk; subst; exists y; split; [reflexivity|exact Hxy]|apply IH; exact Hk].
Qed.

Lemma Forall2_nth_r : forall {A B} (P : A -> B -> Prop) l1 l2 k b,
  Forall2 P l1 l2 -> nth_error l2 k = Some b -> exists a, nth_error l1 k = Some a /\ P a b.
Proof.
  intros A B P l1 l2 k b H. revert k. induction H as [|x y l1 l2 Hxy H IH]; intros k Hk.
  - destruct k; discriminate.
  - destruct k as [|k]; [inversion Hk; subst; exists x; split; [reflexivity|exact Hxy]|apply IH; exact Hk].
Qed.

Lemma Forall2_in_l : forall {A B} (P : A -> B -> Prop) l1 l2 a,
  Forall2 P l1 l2 -> In a l1 -> exists b, In b l2 /\ P a b.
Proof.
  intros A B P l1 l2 a H Hin. induction H as [|x y l1 l2 Hxy H IH]; [contradiction|].
  destruct Hin as [->|Hin]; [exists y; split; [left; reflexivity|exact Hxy]|].
  destruct (IH Hin) as (b & Hb & Hp). exists b. split; [right; exact Hb|exact Hp].
Qed.

Lemma Forall2_in_r : forall {A B} (P : A -> B -> Prop) l1 l2 b,
  Forall2 P l1 l2 -> In b l2 -> exists a, In a l1 /\ P a b.
Proof.
  intros A B P l1 l2 b H Hin. induction H as [|x y l1 l2 Hxy H IH]; [contradiction|].
  destruct Hin as [->|Hin]; [exists x; split; [left; reflexivity|exact Hxy]|].
  destruct (IH Hin) as (a & Ha & Hp). exists a. split; [right; exact Ha|exact Hp].
Qed.

Lemma Forall2_nth_intro : forall {A B} (P : A -> B -> Prop) l1 l2, length l1 = length l2 ->
  (forall k a b, nth_error l1 k = Some a -> nth_error l2 k = Some b -> P a b) -> Forall2 P l1 l2.
Proof.
  intros A B P l1. induction l1 as [|a l1 IH]; intros l2 Hl H; destruct l2 as [|b l2]; simpl in Hl; try lia.
  - constructor.
  - constructor; [apply (H 0%nat); reflexivity|]. apply IH; [lia|].
    intros k x y Hx Hy. apply (H (S k)); assumption.
Qed.

Lemma Forall2_length' : forall {A B} (P : A -> B -> Prop) l1 l2, Forall2 P l1 l2 -> length l1 = length l2.
Proof. intros A B P l1 l2 H. induction H; simpl; lia. Qed.

Lemma Forall2_map_l : forall {A B C} (P : B -> C -> Prop) (f : A -> B) la lc,
  Forall2 P (map f la) lc -> Forall2 (fun a c => P (f a) c) la lc.
Proof.
  intros A B C P f la. induction la as [|a la IH]; intros lc H; destruct lc as [|c lc]; inversion H; subst.
  - constructor.
  - constructor; [assumption|apply IH; assumption].
Qed.

Lemma Forall2_map_r' : forall {A B C} (P : A -> C -> Prop) (g : B -> C) la lb,
  Forall2 (fun a b => P a (g b)) la lb -> Forall2 P la (map g lb).
Proof.
  intros A B C P g la lb H. induction H; simpl; constructor; assumption.
Qed.

Lemma Forall2_impl' : forall {A B} (P Q : A -> B -> Prop) l1 l2,
  (forall a b, P a b -> Q a b) -> Forall2 P l1 l2 -> Forall2 Q l1 l2.
Proof. intros A B P Q l1 l2 H F. induction F; constructor; auto. Qed.

Lemma NoDup_rings : forall R : list line, NoDup (concat R) -> Forall (fun r => (1 <= length r)%nat) R -> NoDup R.
Proof.
  induction R as [|r R IH]; intros Hnd Hne; [constructor|].
  inversion Hne as [|x y Hr Hne']; subst. simpl in Hnd. constructor.
  - intro Hin. destruct r as [|v r']; [simpl in Hr; lia|].
    apply (NoDup_app_disj _ _ v Hnd); [left; reflexivity|].
    apply in_concat. exists (v :: r'). split; [exact Hin|left; reflexivity].
  - apply IH; [eapply NoDup_app_r; exact Hnd|exact Hne'].
Qed.

(* a hole ring belongs to one polygon only *)
Lemma owner_unique : forall (LL : list (list line)) k k' A B (h : line),
  NoDup (concat (concat LL)) -> (1 <= length h)%nat ->
  nth_error LL k = Some A -> nth_error LL k' = Some B -> In h A -> In h B -> k = k'.
Proof.
  induction LL as [|X LL IH]; intros k k' A B h Hnd Hh Hk Hk' HA HB; [destruct k; discriminate|].
  destruct h as [|v h']; [simpl in Hh; lia|].
  simpl in Hnd. rewrite concat_app in Hnd.
  assert (Hv : forall (Y : list line), In (v :: h') Y -> In v (concat Y)).
  { intros Y HY. apply in_concat. exists (v :: h'). split; [exact HY|left; reflexivity]. }
  assert (Hrest : forall j Y, nth_error LL j = Some Y -> In (v :: h') Y -> In v (concat (concat LL))).
  { intros j Y Hj HY. apply in_concat. exists (v :: h'). split; [|left; reflexivity].
    apply in_concat. exists Y. split; [eapply nth_error_In; exact Hj|exact HY]. }
  destruct k as [|k], k' as [|k']; simpl in Hk, Hk'.
  - reflexivity.
  - inversion Hk; subst. exfalso. apply (NoDup_app_disj _ _ v Hnd); [apply Hv; exact HA|eapply Hrest; eassumption].
  - inversion Hk'; subst. exfalso. apply (NoDup_app_disj _ _ v Hnd); [apply Hv; exact HB|eapply Hrest; eassumption].
  - f_equal. apply (IH k k' A B (v :: h')); try assumption. eapply NoDup_app_r. exact Hnd.
Qed.

Lemma fold_add_map : forall {A} incl (g : A -> line) l mp,
  fold_left (fun mp x => add_to_multipolygon incl mp (g x)) l mp = add_all incl mp (map g l).
Proof.
  intros A incl g l. induction l as [|a l IH]; intros mp; [reflexivity|]. simpl. rewrite IH. reflexivity.
Qed.

Lemma join_single : forall s, len2 s -> join [s] = JoinOk [[s]].
Proof.
  intros s H. unfold join. rewrite (compact_id [s]) by (constructor; [exact H|constructor]). reflexivity.
Qed.

(* ---------------------------------------------------------------- scenes *)
Definition gscene := list (line * list line).     (* (outer ring, its holes): open rings *)
Definition s_outers (sc : gscene) : list line := map fst sc.
Definition s_holes (sc : gscene) : list line := concat (map snd sc).

Definition poly_recovered (oh : line * list line) (poly : polygon) : Prop :=
  exists ol hls, poly = ol :: hls /\ ccw_line (fst oh) ol /\
    Forall (fun l => exists h, In h (snd oh) /\ cw_line h l) hls /\
    (forall h, In h (snd oh) -> exists l, In l hls /\ cw_line h l).

(* containment as the even-odd rule (crossing parity, code's tie rule) defines it: some vertex of
   every hole has an odd crossing number w.r.t. its own outer, no vertex of it has an odd crossing
   number w.r.t. any other outer.  Outers may be of any shape and their bounding boxes may
   overlap.  (For vertex-disjoint, non-nested simple rings with every hole strictly inside its
   outer this is what the Jordan curve theorem gives; Geo/BuildGeo.v derives it from geometric
   hypotheses.) *)
Definition contained (sc : gscene) : Prop :=
  (forall o hs h, In (o, hs) sc -> In h hs -> existsb (point_in_ring (close_ring o)) h = true) /\
  (forall o hs h o' hs', In (o, hs) sc -> In h hs -> In (o', hs') sc -> o' <> o ->
     existsb (point_in_ring (close_ring o')) h = false).

Lemma tl_singletons : forall l : list line, concat (map (@tl line) (map (fun r => [r]) l)) = [].
Proof. induction l as [|a l IH]; [reflexivity|exact IH]. Qed.

Lemma assign_core : forall incl (sc' : gscene) orings rhs' hlines,
  NoDup (concat (s_outers sc')) -> NoDup (concat (s_holes sc')) ->
  Forall (fun r => (3 <= length r)%nat) (s_outers sc' ++ s_holes sc') ->
  contained sc' ->
  Forall2 (fun oh ol => ccw_line (fst oh) ol) sc' orings ->
  Forall2 cw_line rhs' hlines -> Permutation rhs' (s_holes sc') ->
  let mp := add_all incl (map (fun r => [r]) orings) hlines in
  Forall2 poly_recovered sc' mp /\
  length (concat (map (@tl line) mp)) = length (s_holes sc').
Proof.
  intros incl sc' orings rhs' hlines Hndo Hndh Hlen [Hin Hout] Fo Fh Ph mp.
  apply Forall_app in Hlen. destruct Hlen as [Hleno Hlenh].
  rewrite Forall_forall in Hleno, Hlenh.
  set (owner_ok := fun (k : nat) (l : line) =>
        exists o hs h, nth_error sc' k = Some (o, hs) /\ In h hs /\ cw_line h l).
  assert (Hfst : NoDup (map fst sc')).
  { apply NoDup_rings; [exact Hndo|]. apply Forall_forall. intros r Hr. specialize (Hleno r Hr). lia. }
  assert (Hshape0 : shape orings (map (fun r => [r]) orings)).
  { split; [apply map_length|]. intros k ol Hk. exists []. apply (map_nth_error (fun r => [r]) k orings Hk). }
  assert (Hholes_in : forall o hs h, In (o, hs) sc' -> In h hs -> In h (s_holes sc')).
  { intros o hs h Hoh Hh. unfold s_holes. apply in_concat. exists hs. split; [|exact Hh].
    apply in_map_iff. exists (o, hs). split; [reflexivity|exact Hoh]. }
  assert (Howners : Forall (has_owner orings owner_ok) hlines).
  { apply Forall_forall. intros l Hl.
    destruct (Forall2_in_r _ _ _ l Fh Hl) as (h & Hh & Hcw).
    assert (Hhs : In h (s_holes sc')) by (eapply Permutation_in; [exact Ph|exact Hh]).
    unfold s_holes in Hhs. apply in_concat in Hhs. destruct Hhs as (hs & Hhs & Hhin).
    apply in_map_iff in Hhs. destruct Hhs as ([o hs0] & E & Hoh). simpl in E. subst hs0.
    destruct (In_nth_error _ _ Hoh) as (k & Hk).
    destruct (Forall2_nth_l _ _ _ k _ Fo Hk) as (ol & Hol & [Hrl _]). simpl in Hrl.
    assert (Ho3 : (3 <= length o)%nat) by (apply Hleno; unfold s_outers; apply in_map_iff; exists (o, hs); split; [reflexivity|exact Hoh]).
    assert (Hh3 : (3 <= length h)%nat) by (apply Hlenh; eapply Hholes_in; eassumption).
    exists k, ol. split; [exact Hol|]. split; [exists o, hs, h; repeat split; try assumption; apply Hcw|]. split.
    - rewrite (contains_ring_lines o ol h l); try lia; [|exact Hrl|apply Hcw]. apply (Hin o hs h Hoh Hhin).
    - intros j olj Hj Holj.
      destruct (Forall2_nth_r _ _ _ j _ Fo Holj) as ([o' hs'] & Hj' & [Hrl' _]). simpl in Hrl'.
      assert (Hoh' : In (o', hs') sc') by (eapply nth_error_In; exact Hj').
      assert (Hne : o' <> o).
      { intro E. subst o'. apply Hj.
        apply (proj1 (NoDup_nth_error (map fst sc')) Hfst j k).
        - rewrite map_length. apply nth_error_Some. rewrite Hj'. discriminate.
        - rewrite (map_nth_error fst j sc' Hj'), (map_nth_error fst k sc' Hk). reflexivity. }
      assert (Ho3' : (3 <= length o')%nat) by (apply Hleno; unfold s_outers; apply in_map_iff; exists (o', hs'); split; [reflexivity|exact Hoh']).
      rewrite (contains_ring_lines o' olj h l); try lia; [|exact Hrl'|apply Hcw].
      apply (Hout o hs h o' hs' Hoh Hhin Hoh' Hne). }
  destruct (assign_holes incl orings owner_ok hlines _ Hshape0 Howners) as ([Hlenmp Hsh] & Hcnt & Hcov & Honly).
  fold mp in Hlenmp, Hsh, Hcnt, Hcov, Honly.
  split.
  - apply Forall2_nth_intro; [rewrite Hlenmp; apply (Forall2_length' _ _ _ Fo)|].
    intros k [o hs] poly Hk Hpoly.
    destruct (Forall2_nth_l _ _ _ k _ Fo Hk) as (ol & Hol & Hccw). simpl in Hccw.
    destruct (Hsh k ol Hol) as (hls & Hmp).
    assert (Epoly : poly = ol :: hls) by (pose proof (eq_trans (eq_sym Hmp) Hpoly) as X; inversion X; reflexivity).
    subst poly. exists ol, hls. split; [reflexivity|]. split; [exact Hccw|]. simpl fst. simpl snd. split.
    + apply Forall_forall. intros l Hl.
      destruct (Honly k (ol :: hls) l Hpoly Hl) as [(poly0 & H0 & Hl0)|[Hl1 (o2 & hs2 & h & Hk2 & Hh2 & Hcw)]].
      * exfalso. destruct (nth_error orings k) as [x|] eqn:Ex; [|discriminate].
        pose proof (map_nth_error (fun r => [r]) k orings Ex) as Hm.
        pose proof (eq_trans (eq_sym Hm) H0) as X. inversion X; subst. simpl in Hl0. exact Hl0.
      * rewrite Hk in Hk2. inversion Hk2; subst. exists h. split; assumption.
    + intros h Hh.
      assert (Hoh : In (o, hs) sc') by (eapply nth_error_In; exact Hk).
      assert (Hhs : In h rhs').
      { eapply Permutation_in; [symmetry; exact Ph|]. eapply Hholes_in; eassumption. }
      destruct (Forall2_in_l _ _ _ h Fh Hhs) as (l & Hl & Hcw).
      destruct (Hcov l Hl) as (k' & poly' & Hk' & (o2 & hs2 & h2 & Hk2 & Hh2 & Hcw2) & Hin').
      assert (Hh3 : (3 <= length h)%nat) by (apply Hlenh; exact (Hholes_in o hs h Hoh Hh)).
      assert (Hoh2 : In (o2, hs2) sc') by (eapply nth_error_In; exact Hk2).
      assert (Hh23 : (3 <= length h2)%nat) by (apply Hlenh; exact (Hholes_in o2 hs2 h2 Hoh2 Hh2)).
      assert (Eh : h2 = h).
      { destruct h as [|v h']; [simpl in Hh3; lia|].
        apply (disjoint_rings (s_holes sc') h2 (v :: h') v Hndh).
        - exact (Hholes_in o2 hs2 h2 Hoh2 Hh2).
        - exact (Hholes_in o hs _ Hoh Hh).
        - apply (in_ring_line h2 l v ltac:(lia) (proj1 Hcw2)).
          apply (in_ring_line (v :: h') l v ltac:(simpl; lia) (proj1 Hcw)). left. reflexivity.
        - left. reflexivity. }
      subst h2.
      assert (Ek : k' = k).
      { apply (owner_unique (map snd sc') k' k hs2 hs h); try assumption; try lia.
        - exact (map_nth_error snd k' sc' Hk2).
        - exact (map_nth_error snd k sc' Hk). }
      subst k'. pose proof (eq_trans (eq_sym Hk') Hpoly) as X. inversion X; subst poly'.
      exists l. split; [exact Hin'|exact Hcw].
  - rewrite Hcnt, tl_singletons. simpl.
    rewrite <- (Forall2_length' _ _ _ Fh). apply Permutation_length. exact Ph.
Qed.

(* ---------------------------------------------------------------- build_polygon_recovers *)
Definition geom_polys (g : geometry) : option multipolygon :=
  match g with GPolygon p => Some [p] | GMultiPolygon mp => Some mp | _ => None end.

Lemma contained_perm : forall sc sc', Permutation sc sc' -> contained sc -> contained sc'.
Proof.
  intros sc sc' HP [Hin Hout]. split.
  - intros o hs h Hoh Hh. apply (Hin o hs h); [eapply Permutation_in; [symmetry; exact HP|exact Hoh]|exact Hh].
  - intros o hs h o' hs' Hoh Hh Hoh' Hne. apply (Hout o hs h o' hs'); try assumption;
      (eapply Permutation_in; [symmetry; exact HP|assumption]).
Qed.

Theorem build_geometry_recovers : forall incl (c : collected) (sc : gscene),
  sc <> [] ->
  NoDup (concat (s_outers sc)) -> NoDup (concat (s_holes sc)) ->
  Forall (fun r => (3 <= length r)%nat) (s_outers sc ++ s_holes sc) ->
  (forall r, In r (s_outers sc ++ s_holes sc) -> shoelace (close_ring r) <> 0) ->
  contained sc ->
  is_cut (map close_ring (s_outers sc)) (col_outer c) ->
  is_cut (map close_ring (s_holes sc)) (col_inner c) ->
  (forall s, In s (col_outer c) -> seg_truthful (s_outers sc) s) ->
  (forall s, In s (col_inner c) -> seg_truthful (s_holes sc) s) ->
  exists mp sc',
    geom_polys (build_geometry incl c) = Some mp /\ Permutation sc' sc /\
    Forall2 poly_recovered sc' mp /\
    length (concat (map (@tl line) mp)) = length (s_holes sc).
Proof.
  intros incl c sc Hne Hndo Hndh Hlen Harea Hcont Hco Hci Hzo Hzi.
  pose proof Hlen as Hlen0. apply Forall_app in Hlen0. destruct Hlen0 as [Hleno Hlenh].
  set (outer := col_outer c) in *. set (inner := col_inner c) in *.
  destruct (join outer) as [osec|] eqn:Ho; [|exfalso; exact (join_terminates _ Ho)].
  destruct (join inner) as [isec|] eqn:Hi; [|exfalso; exact (join_terminates _ Hi)].
  destruct (rings_of_join (s_outers sc) outer osec 1 (or_introl eq_refl) Hndo Hleno) as (ros' & Pro & Fo);
    try assumption.
  { intros r Hr. apply Harea. apply in_or_app. left. exact Hr. }
  destruct (rings_of_join (s_holes sc) inner isec (-1) (or_intror eq_refl) Hndh Hlenh) as (rhs' & Pri & Fi);
    try assumption.
  { intros r Hr. apply Harea. apply in_or_app. right. exact Hr. }
  (* order the scene like the outer chains *)
  destruct (@Permutation_map_inv _ _ fst ros' sc Pro) as (sc' & Eros & Psc).
  assert (Hsc' : Permutation sc' sc) by (symmetry; exact Psc).
  assert (Pholes : Permutation (s_holes sc) (s_holes sc')).
  { unfold s_holes. apply perm_concat. apply Permutation_map. exact Psc. }
  assert (Pouters : Permutation (s_outers sc) (s_outers sc')).
  { unfold s_outers. apply Permutation_map. exact Psc. }
  assert (Hndo' : NoDup (concat (s_outers sc'))) by (eapply Permutation_NoDup; [apply perm_concat; exact Pouters|exact Hndo]).
  assert (Hndh' : NoDup (concat (s_holes sc'))) by (eapply Permutation_NoDup; [apply perm_concat; exact Pholes|exact Hndh]).
  assert (Hlen' : Forall (fun r => (3 <= length r)%nat) (s_outers sc' ++ s_holes sc')).
  { eapply Permutation_Forall; [apply Permutation_app; [exact Pouters|exact Pholes]|exact Hlen]. }
  pose proof (contained_perm sc sc' Psc Hcont) as Hcont'.
  set (orings := map (ring_of CCW) osec).
  set (hlines := map (ring_of CW) isec).
  assert (Fo' : Forall2 (fun oh ol => ccw_line (fst oh) ol) sc' orings).
  { unfold orings. apply Forall2_map_r'.
    apply (Forall2_map_l (fun r ch => ccw_line r (ring_of CCW ch)) fst). rewrite <- Eros.
    eapply Forall2_impl'; [|exact Fo]. intros r ch (H1 & H2 & _). split; assumption. }
  assert (Fh' : Forall2 cw_line rhs' hlines).
  { unfold hlines. apply Forall2_map_r'. eapply Forall2_impl'; [|exact Fi].
    intros r ch (H1 & H2 & _). split; assumption. }
  assert (Ph' : Permutation rhs' (s_holes sc')) by (rewrite Pri; exact Pholes).
  assert (Hvalid : forall x, In x orings -> (incl || valid_ring x) = true).
  { intros x Hx. unfold orings in Hx. apply in_map_iff in Hx. destruct Hx as (ch & <- & Hch).
    destruct (Forall2_in_r _ _ _ ch Fo Hch) as (r & _ & _ & _ & Hv). change CCW with 1. rewrite Hv. apply orb_true_r. }
  assert (Hosec : osec <> []).
  { intro E. pose proof (Forall2_length' _ _ _ Fo') as L. unfold orings in L. rewrite E in L. simpl in L.
    destruct sc'; [|discriminate]. apply Permutation_nil in Hsc'. contradiction. }
  assert (Houter : outer <> []).
  { intro E. rewrite E in Ho. vm_compute in Ho. inversion Ho. subst. contradiction. }
  destruct (assign_core incl sc' orings rhs' hlines Hndo' Hndh' Hlen' Hcont' Fo' Fh' Ph') as [Frec Hcnt].
  rewrite <- (Permutation_length Pholes) in Hcnt.
  unfold build_geometry. fold outer inner.
  destruct (Nat.eqb (length outer) 0 && negb incl) eqn:C1.
  { destruct outer; [contradiction|discriminate]. }
  destruct (Nat.eqb (length outer) 1 && Nat.eqb (col_outer_count c) 1) eqn:C2.
  - (* a single outer way *)
    apply andb_true_iff in C2. destruct C2 as [C2 _]. apply Nat.eqb_eq in C2.
    destruct outer as [|s0 [|s1 rest]]; try discriminate. clear C2.
    assert (Hs0 : len2 s0) by (pose proof (is_cut_len2 _ _ Hco) as H2; inversion H2; assumption).
    rewrite (join_single s0 Hs0) in Ho. inversion Ho; subst osec. clear Ho.
    rewrite Hi.
    assert (Hv : valid_ring (ring_of CCW [s0]) = true).
    { inversion Fo as [|r ch rs chs (_ & _ & Hv) Frest]; subst. exact Hv. }
    rewrite Hv. cbn [negb].
    exists [ring_of CCW [s0] :: hlines], sc'. split; [reflexivity|]. split; [exact Hsc'|].
    (* one polygon: all holes are its holes *)
    unfold orings in Fo'. cbn [map] in Fo'.
    inversion Fo' as [|[o hs] ol sct orest Hccw Frest]; subst. inversion Frest; subst.
    simpl in Hccw.
    assert (Ehs : s_holes [(o, hs)] = hs) by (unfold s_holes; simpl; apply app_nil_r).
    rewrite Ehs in Ph'. split.
    + constructor; [|constructor]. exists (ring_of CCW [s0]), hlines. split; [reflexivity|].
      split; [exact Hccw|]. simpl snd. split.
      * apply Forall_forall. intros l Hl. destruct (Forall2_in_r _ _ _ l Fh' Hl) as (h & Hh & Hcw).
        exists h. split; [eapply Permutation_in; [exact Ph'|exact Hh]|exact Hcw].
      * intros h Hh. assert (Hh' : In h rhs') by (eapply Permutation_in; [symmetry; exact Ph'|exact Hh]).
        destruct (Forall2_in_l _ _ _ h Fh' Hh') as (l & Hl & Hcw). exists l. split; assumption.
    + simpl. rewrite app_nil_r. rewrite <- (Forall2_length' _ _ _ Fh').
      rewrite (Permutation_length Ph'). rewrite <- Ehs. symmetry. apply Permutation_length. exact Pholes.
  - (* several outer ways / rings *)
    rewrite Ho, Hi. fold orings.
    rewrite (filter_all _ orings Hvalid).
    destruct (Nat.eqb (length (map (fun r => [r]) orings)) 0 && negb incl) eqn:C3.
    { apply andb_true_iff in C3. destruct C3 as [C3 _]. apply Nat.eqb_eq in C3.
      rewrite map_length in C3. unfold orings in C3. rewrite map_length in C3.
      destruct osec; [contradiction|discriminate]. }
    rewrite (fold_add_map incl (ring_of CW) isec). fold hlines.
    set (mp := add_all incl (map (fun r => [r]) orings) hlines) in *.
    assert (Hmplen : length mp = length sc') by (symmetry; apply (Forall2_length' _ _ _ Frec)).
    destruct mp as [|p [|q mp']] eqn:Emp.
    + exfalso. destruct sc'; [|discriminate]. apply Permutation_nil in Hsc'. contradiction.
    + exists [p], sc'. split; [reflexivity|]. split; [exact Hsc'|]. split; [exact Frec|exact Hcnt].
    + exists (p :: q :: mp'), sc'. split; [reflexivity|]. split; [exact Hsc'|]. split; [exact Frec|exact Hcnt].
Qed.
