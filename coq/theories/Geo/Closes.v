(* Geo/Closes.v — if every point is an end point of an even number of segment ends (in
   particular: the segments are a cut of closed rings), every chain produced by join is closed,
   whatever the cut, the reversals and the order. *)
From Coq Require Import ZArith List Bool Lia Arith Permutation.
From Verif Require Import Geo.Model Geo.JoinProofs Geo.Conserve.
Import ListNotations.
Open Scope Z_scope.

Definition b2n (b : bool) : nat := if b then 1%nat else 0%nat.
Fixpoint cnt (p : point) (l : list point) : nat :=
  match l with [] => 0%nat | q :: r => (b2n (pt_eqb p q) + cnt p r)%nat end.
Definition ends (s : segment) : list point := [seg_first s; seg_last s].
Definition deg (p : point) (segs : list segment) : nat := cnt p (flat_map ends segs).

(* every point is the end of an even number of segment ends *)
Definition eulerian (segs : list segment) : Prop := forall p, exists k, deg p segs = (2 * k)%nat.
(* decidable form: it is enough to look at the end points themselves *)
Definition eulerianb (segs : list segment) : bool :=
  forallb (fun p => Nat.even (deg p segs)) (flat_map ends segs).

Definition closed (ms : multisegment) : Prop := ms_first ms = ms_last ms.

Lemma cnt_app : forall p l1 l2, cnt p (l1 ++ l2) = (cnt p l1 + cnt p l2)%nat.
Proof. intros p l1 l2. induction l1 as [|a l IH]; simpl; [reflexivity|rewrite IH; lia]. Qed.

Lemma cnt_perm : forall p l1 l2, Permutation l1 l2 -> cnt p l1 = cnt p l2.
Proof. intros p l1 l2 H. induction H; simpl; lia. Qed.

Lemma cnt_notin : forall p l, (forall q, In q l -> pt_eqb p q = false) -> cnt p l = 0%nat.
Proof.
  intros p l H. induction l as [|a l IH]; [reflexivity|]. simpl.
  rewrite (H a) by (left; reflexivity). rewrite IH; [reflexivity|].
  intros q Hq. apply H. right. assumption.
Qed.

Lemma eulerianb_sound : forall segs, eulerianb segs = true -> eulerian segs.
Proof.
  intros segs H p. unfold eulerianb in H. rewrite forallb_forall in H.
  destruct (existsb (pt_eqb p) (flat_map ends segs)) eqn:E.
  - apply existsb_exists in E. destruct E as (q & Hin & Hq). apply pt_eqb_eq in Hq. subst q.
    apply H in Hin. apply Nat.even_spec in Hin. destruct Hin as [k Hk]. exists k. exact Hk.
  - exists 0%nat. unfold deg. apply cnt_notin. intros q Hq.
    destruct (pt_eqb p q) eqn:Epq; [|reflexivity].
    assert (existsb (pt_eqb p) (flat_map ends segs) = true) by (apply existsb_exists; exists q; split; assumption).
    congruence.
Qed.

Lemma deg_app : forall p l1 l2, deg p (l1 ++ l2) = (deg p l1 + deg p l2)%nat.
Proof. intros. unfold deg. rewrite flat_map_app. apply cnt_app. Qed.

Lemma deg_perm : forall p l1 l2, Permutation l1 l2 -> deg p l1 = deg p l2.
Proof. intros p l1 l2 H. unfold deg. apply cnt_perm. apply Permutation_flat_map. assumption. Qed.

Lemma deg_cons : forall p s l, deg p (s :: l) = (cnt p (ends s) + deg p l)%nat.
Proof. intros. unfold deg. simpl. lia. Qed.

Lemma ends_orient : forall p s b, cnt p (ends (orient (s, b))) = cnt p (ends s).
Proof.
  intros p s b. destruct b; [|reflexivity]. unfold orient, ends. simpl fst. simpl snd. cbv iota.
  rewrite seg_first_reverse, seg_last_reverse. simpl. lia.
Qed.

(* ends of the chain after one step *)
Lemma step_ends : forall obs cur s f, chain_rel obs cur -> len2 s ->
  match_seg (ms_first cur) (ms_last cur) s = Some f ->
  let o := orient (s, fit_rev f) in
  if fit_at_end f
  then ms_last cur = seg_first o /\ ms_first (apply_fit cur s f) = ms_first cur /\
       ms_last (apply_fit cur s f) = seg_last o
  else ms_first cur = seg_last o /\ ms_first (apply_fit cur s f) = seg_first o /\
       ms_last (apply_fit cur s f) = ms_last cur.
Proof.
  intros obs cur s f H Hl Hm o.
  pose proof (chain_rel_step _ _ _ _ H Hl Hm) as Hstep.
  pose proof (match_seg_end _ _ _ _ Hm) as He.
  destruct (chain_rel_nonempty _ _ H) as [Ho Hc].
  destruct (chain_rel_ends _ _ H) as [E1 E2].
  destruct (chain_rel_ends _ _ Hstep) as [N1 N2].
  destruct (fit_at_end f).
  - split; [exact He|]. split.
    + rewrite N1, hd_app_ne by assumption. symmetry. exact E1.
    + rewrite N2, last_last. reflexivity.
  - split; [exact He|]. split.
    + rewrite N1. reflexivity.
    + rewrite N2, last_cons_ne by assumption. symmetry. exact E2.
Qed.

Section Closes.
  Definition clQ (segs : list segment) (lists : list multisegment) : Prop :=
    Forall closed lists /\ eulerian segs /\ Forall len2 segs.
  Definition clP (lists : list multisegment) (cur : multisegment) (segs : list segment) : Prop :=
    Forall closed lists /\ (exists obs, chain_rel obs cur) /\
    (forall p, exists k, (cnt p [ms_first cur; ms_last cur] + deg p segs = 2 * k)%nat) /\
    Forall len2 segs.

  Lemma cl_start : forall segs lists, segs <> [] -> clQ segs lists ->
    clP lists [last segs dummy_seg] (removelast segs).
  Proof.
    intros segs lists Hne (HF & He & Hl).
    pose proof (app_removelast_last dummy_seg Hne) as Hs.
    assert (Hl' : Forall len2 (removelast segs) /\ len2 (last segs dummy_seg)).
    { rewrite Hs in Hl. apply Forall_app in Hl. destruct Hl as [Ha Hb]. inversion Hb; subst. split; assumption. }
    split; [assumption|]. split.
    - exists [(last segs dummy_seg, false)]. apply (CR_seed (last segs dummy_seg, false)). apply Hl'.
    - split; [|apply Hl']. intros p. destruct (He p) as [k Hk]. exists k.
      rewrite Hs in Hk. rewrite deg_app in Hk. unfold deg at 2 in Hk. simpl in Hk.
      unfold ms_first, ms_last. simpl. lia.
  Qed.

  Lemma cl_step : forall lists cur segs i s f,
    clP lists cur segs -> pt_eqb (ms_first cur) (ms_last cur) = false ->
    nth_error segs i = Some s -> match_seg (ms_first cur) (ms_last cur) s = Some f ->
    clP lists (apply_fit cur s f) (remove_nth i segs).
  Proof.
    intros lists cur segs i s f (HF & (obs & HC) & Hpar & Hl) _ Hn Hm.
    pose proof (remove_nth_perm i segs s Hn) as Hperm.
    assert (Hls : len2 s /\ Forall len2 (remove_nth i segs)).
    { rewrite Hperm in Hl. inversion Hl; subst. split; assumption. }
    split; [assumption|]. split.
    - eexists. apply chain_rel_step; [exact HC|apply Hls|exact Hm].
    - split; [|apply Hls]. intros p. destruct (Hpar p) as [k Hk].
      rewrite (deg_perm p _ _ Hperm), deg_cons in Hk.
      rewrite <- (ends_orient p s (fit_rev f)) in Hk.
      pose proof (step_ends _ _ _ _ HC (proj1 Hls) Hm) as Hse. cbv zeta in Hse.
      set (o := orient (s, fit_rev f)) in *.
      destruct (fit_at_end f).
      + destruct Hse as (E & -> & ->). rewrite E in Hk. unfold ends in Hk. simpl in Hk. simpl.
        exists (k - b2n (pt_eqb p (seg_first o)))%nat.
        destruct (pt_eqb p (seg_first o)); simpl in *; lia.
      + destruct Hse as (E & -> & ->). rewrite E in Hk. unfold ends in Hk. simpl in Hk. simpl.
        exists (k - b2n (pt_eqb p (seg_last o)))%nat.
        destruct (pt_eqb p (seg_last o)); simpl in *; lia.
  Qed.

  Lemma no_match_deg : forall a b segs,
    (forall s, In s segs -> match_seg a b s = None) -> deg a segs = 0%nat /\ deg b segs = 0%nat.
  Proof.
    intros a b segs H. induction segs as [|s r IH]; [split; reflexivity|].
    rewrite !deg_cons. destruct IH as [IHa IHb]; [intros; apply H; right; assumption|].
    rewrite IHa, IHb. pose proof (H s (or_introl eq_refl)) as Hm. unfold match_seg in Hm.
    destruct (pt_eqb b (seg_first s)) eqn:E1; [discriminate|].
    destruct (pt_eqb b (seg_last s)) eqn:E2; [discriminate|].
    destruct (pt_eqb a (seg_last s)) eqn:E3; [discriminate|].
    destruct (pt_eqb a (seg_first s)) eqn:E4; [discriminate|].
    unfold ends. simpl. rewrite E1, E2, E3, E4. split; reflexivity.
  Qed.

  Lemma cl_done : forall lists cur segs, clP lists cur segs -> stopped cur segs ->
    clQ segs (lists ++ [cur]).
  Proof.
    intros lists cur segs (HF & _ & Hpar & Hl) Hs.
    assert (Hc : pt_eqb (ms_first cur) (ms_last cur) = true).
    { destruct (pt_eqb (ms_first cur) (ms_last cur)) eqn:E; [reflexivity|exfalso].
      assert (Hd : deg (ms_first cur) segs = 0%nat).
      { destruct Hs as [->|[Hs|Hs]]; [reflexivity|congruence|]. apply (no_match_deg _ _ _ Hs). }
      destruct (Hpar (ms_first cur)) as [k Hk]. rewrite Hd in Hk. simpl in Hk.
      rewrite pt_eqb_refl, E in Hk. simpl in Hk. lia. }
    apply pt_eqb_eq in Hc. split; [|split; [|assumption]].
    - apply Forall_app. split; [assumption|constructor; [exact Hc|constructor]].
    - intros p. destruct (Hpar p) as [k Hk]. rewrite <- Hc in Hk. simpl in Hk.
      exists (k - b2n (pt_eqb p (ms_first cur)))%nat. destruct (pt_eqb p (ms_first cur)); simpl in *; lia.
  Qed.
End Closes.

Theorem join_closes : forall segments chains,
  eulerian (compact segments) -> join segments = JoinOk chains -> Forall closed chains.
Proof.
  intros segments chains He Hj.
  pose proof (join_inv clP clQ cl_start cl_step cl_done segments chains) as H.
  destruct H as (HF & _); [|assumption|assumption].
  split; [constructor|]. split; [assumption|apply compact_len2].
Qed.
