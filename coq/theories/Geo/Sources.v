(* Geo/Sources.v — wayToLineString gives the same line whether coordinates come from node
   objects or from annotated way nodes, provided no vertex sits at (0,0). *)
From Coq Require Import ZArith List Bool Lia.
From Verif Require Import Geo.Model.
Import ListNotations.
Open Scope Z_scope.

(* a way node carrying no location, and the same way node annotated from the node table *)
Definition bare (id : Z) : waynode := mkWN id 0 0 0.
Definition annotated (nodes : list node) (id : Z) : waynode :=
  match lookup_node nodes id with
  | Some n => mkWN id 0 (node_x n) (node_y n)
  | None => mkWN id 0 0 0
  end.

Definition not_origin (n : node) : Prop := node_x n <> 0 \/ node_y n <> 0.

Lemma lookup_node_in : forall nodes id n, lookup_node nodes id = Some n -> In n nodes.
Proof.
  intros nodes id n H. unfold lookup_node in H. rewrite <- rev_alt in H. apply find_some in H.
  destruct H as [H _]. apply in_rev in H. exact H.
Qed.

(* the three ways of supplying coordinates: node objects only / annotated way nodes only
   (no node objects at all) / both *)
Theorem way_to_line_sources : forall nodes ids,
  Forall not_origin nodes ->
  (forall id, In id ids -> lookup_node nodes id <> None) ->
  way_to_line [] (map (annotated nodes) ids) = way_to_line nodes (map bare ids) /\
  way_to_line nodes (map (annotated nodes) ids) = way_to_line nodes (map bare ids) /\
  snd (way_to_line nodes (map bare ids)) = false /\
  length (fst (way_to_line nodes (map bare ids))) = length ids.
Proof.
  intros nodes ids Hno Hall. induction ids as [|id ids IH].
  - repeat split; reflexivity.
  - destruct IH as (IH1 & IH2 & IH3 & IH4); [intros; apply Hall; right; assumption|].
    assert (Hid := Hall id (or_introl eq_refl)).
    destruct (lookup_node nodes id) as [n|] eqn:El; [|congruence].
    assert (Hn : not_origin n).
    { rewrite Forall_forall in Hno. apply Hno. eapply lookup_node_in. eassumption. }
    assert (Hb : negb (node_x n =? 0) || negb (node_y n =? 0) = true).
    { destruct Hn as [Hn|Hn]; apply Z.eqb_neq in Hn; rewrite Hn; simpl; [reflexivity|apply orb_true_r]. }
    simpl map. unfold annotated at 1 3. rewrite El.
    simpl way_to_line. rewrite Hb, El. simpl.
    rewrite IH1, IH2.
    destruct (way_to_line nodes (map bare ids)) as [ls t] eqn:Ew. simpl in *.
    repeat split; try assumption. rewrite IH4. reflexivity.
Qed.
