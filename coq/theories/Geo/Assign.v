(* Geo/Assign.v — folding addToMultiPolygon over the hole lines: every hole goes to the polygon of
   its own outer and to no other; nothing is lost or duplicated. *)
From Coq Require Import ZArith List Bool Lia Arith Permutation.
From Verif Require Import Geo.Model Geo.Holes.
Import ListNotations.
Open Scope nat_scope.

Definition upd {A} (k : nat) (v : A) (l : list A) : list A := firstn k l ++ v :: skipn (S k) l.

Lemma upd_length : forall {A} k (v : A) l, k < length l -> length (upd k v l) = length l.
Proof.
  intros A k v l H. unfold upd. rewrite app_length, firstn_length.
  change (length (v :: skipn (S k) l)) with (S (length (skipn (S k) l))). rewrite skipn_length. lia.
Qed.

Lemma upd_nth_same : forall {A} k (v : A) l, k < length l -> nth_error (upd k v l) k = Some v.
Proof.
  intros A k v l H. unfold upd. rewrite nth_error_app2 by (rewrite firstn_length; lia).
  rewrite firstn_length. replace (k - Nat.min k (length l)) with 0 by lia. reflexivity.
Qed.

Lemma upd_nth_other : forall {A} k j (v : A) l, k < length l -> j <> k ->
  nth_error (upd k v l) j = nth_error l j.
Proof.
  intros A k. induction k as [|k IH]; intros j v l Hk H.
  - destruct l as [|a l]; [simpl in Hk; lia|]. destruct j as [|j]; [lia|]. reflexivity.
  - destruct l as [|a l]; [simpl in Hk; lia|].
    destruct j as [|j]; [reflexivity|]. unfold upd in *. simpl. apply IH; simpl in Hk; lia.
Qed.

Lemma upd_tl_count : forall (k : nat) (poly : polygon) (x : line) (mp : multipolygon),
  nth_error mp k = Some poly -> poly <> [] ->
  length (concat (map (@tl line) (upd k (poly ++ [x]) mp))) = S (length (concat (map (@tl line) mp))).
Proof.
  intros k poly x mp. revert k. induction mp as [|a mp IH]; intros k Hn Hne; [destruct k; discriminate|].
  destruct k as [|k].
  - simpl in Hn. inversion Hn; subst. destruct poly as [|p0 ps]; [congruence|].
    unfold upd. cbn [firstn skipn app map concat tl]. change ((p0 :: ps) ++ [x]) with (p0 :: ps ++ [x]).
    cbn [tl]. rewrite !app_length. cbn [length]. lia.
  - simpl in Hn. specialize (IH k Hn Hne).
    change (upd (S k) (poly ++ [x]) (a :: mp)) with (a :: upd k (poly ++ [x]) mp).
    change (map (@tl line) (a :: upd k (poly ++ [x]) mp)) with (tl a :: map (@tl line) (upd k (poly ++ [x]) mp)).
    change (map (@tl line) (a :: mp)) with (tl a :: map (@tl line) mp).
    cbn [concat]. rewrite !app_length, IH. lia.
Qed.

Section AssignHoles.
  Variable incl : bool.
  Variable ols : list line.                       (* outer lines, one per polygon *)
  Variable owner_ok : nat -> line -> Prop.        (* the hole LINE belongs to polygon k *)

  (* state: same number of polygons, each starting with its outer line *)
  Definition shape (mp : multipolygon) : Prop :=
    length mp = length ols /\
    forall k ol, nth_error ols k = Some ol -> exists hs, @nth_error polygon mp k = Some (ol :: hs).

  (* every hole line has exactly one polygon whose outer line contains it *)
  Definition has_owner (l : line) : Prop :=
    exists k ol, nth_error ols k = Some ol /\ owner_ok k l /\ polygon_contains ol l = true /\
      forall j olj, j <> k -> nth_error ols j = Some olj -> polygon_contains olj l = false.

  Lemma assign_step : forall mp l, shape mp -> has_owner l ->
    exists k poly, @nth_error polygon mp k = Some poly /\ owner_ok k l /\ poly <> [] /\
      add_to_multipolygon incl mp l = upd k (poly ++ [l]) mp /\
      shape (upd k (poly ++ [l]) mp).
  Proof.
    intros mp l [Hlen Hsh] (k & ol & Hk & Hown & Hin & Hout).
    destruct (Hsh k ol Hk) as (hs & Hmp).
    exists k, (ol :: hs). split; [exact Hmp|]. split; [exact Hown|]. split; [discriminate|].
    assert (Hklt : k < length mp) by (apply nth_error_Some; congruence).
    split.
    - apply holes_assigned; [exact Hmp|exact Hin|].
      intros j p Hj Hp.
      assert (Hjlt : j < length ols). { rewrite <- Hlen. apply nth_error_Some. intro E. pose proof (eq_trans (eq_sym E) Hp) as X. discriminate X. }
      destruct (nth_error ols j) as [olj|] eqn:Ej; [|apply nth_error_None in Ej; lia].
      destruct (Hsh j olj Ej) as (hsj & Hmpj). pose proof (eq_trans (eq_sym Hmpj) Hp) as X. inversion X; subst.
      simpl. apply (Hout j olj Hj Ej).
    - split; [rewrite upd_length by exact Hklt; exact Hlen|].
      intros j olj Hj. destruct (Nat.eq_dec j k) as [->|Hne].
      + rewrite upd_nth_same by exact Hklt. rewrite Hk in Hj. inversion Hj; subst.
        exists (hs ++ [l]). reflexivity.
      + rewrite upd_nth_other by (try exact Hklt; exact Hne). apply Hsh. exact Hj.
  Qed.

  Definition add_all (mp : multipolygon) (ls : list line) : multipolygon :=
    fold_left (fun mp l => add_to_multipolygon incl mp l) ls mp.

  (* result of folding over all hole lines *)
  Theorem assign_holes : forall ls mp0,
    shape mp0 -> Forall has_owner ls ->
    let mp := add_all mp0 ls in
    shape mp /\
    length (concat (map (@tl line) mp)) = length (concat (map (@tl line) mp0)) + length ls /\
    (forall l, In l ls -> exists k poly, @nth_error polygon mp k = Some poly /\ owner_ok k l /\ In l (tl poly)) /\
    (forall k poly l, @nth_error polygon mp k = Some poly -> In l (tl poly) ->
        (exists poly0, @nth_error polygon mp0 k = Some poly0 /\ In l (tl poly0)) \/ (In l ls /\ owner_ok k l)).
  Proof.
    intros ls. induction ls as [|x ls IH] using rev_ind; intros mp0 Hsh Hall.
    - simpl. split; [exact Hsh|]. split; [lia|]. split; [intros l []|].
      intros k poly l Hn Hl. left. exists poly. split; assumption.
    - apply Forall_app in Hall. destruct Hall as [Hall Hx]. inversion Hx as [|y z Hxo _]; subst.
      destruct (IH mp0 Hsh Hall) as (Hsh1 & Hcnt & Hcov & Honly). clear IH.
      unfold add_all in *. rewrite fold_left_app. simpl.
      set (mp1 := fold_left (fun mp l => add_to_multipolygon incl mp l) ls mp0) in *.
      destruct (assign_step mp1 x Hsh1 Hxo) as (k & poly & Hk & Hown & Hne & Eadd & Hsh2).
      rewrite Eadd.
      assert (Hklt : k < length mp1) by (apply nth_error_Some; congruence).
      split; [exact Hsh2|]. split; [|split].
      + rewrite (upd_tl_count k poly x mp1 Hk Hne), Hcnt, app_length. simpl. lia.
      + intros l Hl. apply in_app_or in Hl. destruct Hl as [Hl|[<-|[]]].
        * destruct (Hcov l Hl) as (k' & poly' & Hk' & Hown' & Hin').
          destruct (Nat.eq_dec k' k) as [->|Hne'].
          -- exists k, (poly ++ [x]). rewrite upd_nth_same by exact Hklt.
             split; [reflexivity|]. split; [exact Hown'|].
             rewrite Hk in Hk'. inversion Hk'; subst poly'.
             destruct poly as [|p0 ps]; [congruence|]. simpl in *. apply in_or_app. left. exact Hin'.
          -- exists k', poly'. rewrite upd_nth_other by (try exact Hklt; exact Hne'). split; [exact Hk'|]. split; assumption.
        * exists k, (poly ++ [x]). rewrite upd_nth_same by exact Hklt.
          split; [reflexivity|]. split; [exact Hown|].
          destruct poly as [|p0 ps]; [congruence|]. simpl. apply in_or_app. right. left. reflexivity.
      + intros k' poly' l Hn Hl. destruct (Nat.eq_dec k' k) as [->|Hne'].
        * rewrite upd_nth_same in Hn by exact Hklt. inversion Hn; subst poly'.
          destruct poly as [|p0 ps]; [congruence|]. simpl in Hl. apply in_app_or in Hl.
          destruct Hl as [Hl|[<-|[]]].
          -- destruct (Honly k (p0 :: ps) l Hk Hl) as [H|[H1 H2]]; [left; exact H|right].
             split; [apply in_or_app; left; exact H1|exact H2].
          -- right. split; [apply in_or_app; right; left; reflexivity|exact Hown].
        * rewrite upd_nth_other in Hn by (try exact Hklt; exact Hne').
          destruct (Honly k' poly' l Hn Hl) as [H|[H1 H2]]; [left; exact H|right].
          split; [apply in_or_app; left; exact H1|exact H2].
  Qed.
End AssignHoles.
