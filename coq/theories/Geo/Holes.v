(* Geo/Holes.v — assignment of holes to outers.
   (1) combinational: if the ray-casting test says "inside this outer and no other", the hole is
       appended to that polygon and nothing else changes, whatever the order of polygons;
   (2) geometric, outside: a ring all of whose vertices lie outside the bounding box of an outer
       (as for outers in disjoint grid cells) is never reported inside it.
   NOT proved: that a ring strictly inside a simple outer is reported inside (the Jordan-curve
   side of ray casting); the harness checks it against the exact rational even-odd rule. *)
From Coq Require Import ZArith List Bool Lia Arith.
From Verif Require Import Geo.Model.
Import ListNotations.
Open Scope Z_scope.

(* ---------------------------------------------------------------- (1) *)
Lemma add_first_at : forall test mp ring k poly,
  nth_error mp k = Some poly -> test poly = true ->
  (forall j p, (j < k)%nat -> nth_error mp j = Some p -> test p = false) ->
  add_first test mp ring = Some (firstn k mp ++ (poly ++ [ring]) :: skipn (S k) mp).
Proof.
  intros test mp ring k. revert mp. induction k as [|k IH]; intros mp poly Hn Ht Hb.
  - destruct mp as [|a mp]; simpl in Hn; [discriminate|]. inversion Hn; subst. simpl. rewrite Ht. reflexivity.
  - destruct mp as [|a mp]; simpl in Hn; [discriminate|]. simpl.
    rewrite (Hb 0%nat a); [|lia|reflexivity].
    rewrite (IH mp poly Hn Ht); [reflexivity|].
    intros j p Hj Hp. apply (Hb (S j) p); [lia|exact Hp].
Qed.

Theorem holes_assigned : forall incl mp ring k poly,
  nth_error mp k = Some poly ->
  polygon_contains (hd [] poly) ring = true ->
  (forall j p, j <> k -> nth_error mp j = Some p -> polygon_contains (hd [] p) ring = false) ->
  add_to_multipolygon incl mp ring = firstn k mp ++ (poly ++ [ring]) :: skipn (S k) mp.
Proof.
  intros incl mp ring k poly Hn Ht Hother. unfold add_to_multipolygon.
  rewrite (add_first_at _ mp ring k poly Hn Ht); [reflexivity|].
  intros j p Hj Hp. apply (Hother j p); [lia|exact Hp].
Qed.

(* appending a hole does not change the outer ring the next holes are tested against *)
Lemma hd_app_hole : forall (poly : polygon) ring, poly <> [] -> hd [] (poly ++ [ring]) = hd [] poly.
Proof. intros [|a p] ring H; [congruence|reflexivity]. Qed.

(* ---------------------------------------------------------------- (2) *)
Definition above (p q : point) : bool := snd q >? snd p.     (* yi > y *)

Lemma last_default_irrel : forall {A} (l : list A) d d', l <> [] -> last l d = last l d'.
Proof.
  intros A l d d' H. induction l as [|a l IH]; [congruence|].
  destruct l as [|b l']; [reflexivity|]. change (last (b :: l') d = last (b :: l') d').
  apply IH. discriminate.
Qed.
Lemma last_cons_default : forall {A} (l : list A) a d, last (a :: l) d = last l a.
Proof.
  intros A l a d. destruct l as [|b l']; [reflexivity|].
  change (last (b :: l') d = last (b :: l') a). apply last_default_irrel. discriminate.
Qed.

Lemma pir_no_cross : forall p l prev inside,
  (forall u v, In u (prev :: l) -> In v (prev :: l) -> crosses p u v = false) ->
  pir_loop p prev l inside = inside.
Proof.
  intros p l. induction l as [|cur l IH]; intros prev inside H; [reflexivity|].
  simpl. rewrite (H cur prev) by (simpl; auto). apply IH.
  intros u v Hu Hv. apply H; right; assumption.
Qed.

Lemma pir_all_cross : forall p l prev inside,
  (forall u v, In u (prev :: l) -> In v (prev :: l) ->
     crosses p u v = xorb (above p u) (above p v)) ->
  pir_loop p prev l inside = xorb inside (xorb (above p prev) (above p (last l prev))).
Proof.
  intros p l. induction l as [|cur l IH]; intros prev inside H.
  - simpl. rewrite xorb_nilpotent, xorb_false_r. reflexivity.
  - change (pir_loop p prev (cur :: l) inside)
      with (pir_loop p cur l (if crosses p cur prev then negb inside else inside)).
    rewrite IH by (intros u v Hu Hv; apply H; right; assumption).
    rewrite (H cur prev) by (simpl; auto).
    rewrite (last_cons_default l cur prev).
    destruct (above p cur), (above p prev), (above p (last l cur)), inside; reflexivity.
Qed.

Lemma crosses_same_side : forall p u v, above p u = above p v -> crosses p u v = false.
Proof.
  intros [x y] [xi yi] [xj yj] H. unfold above in H. simpl in H. unfold crosses.
  rewrite H. rewrite eqb_reflx. reflexivity.
Qed.

Lemma crosses_right : forall p u v, fst u <= fst p -> fst v <= fst p -> crosses p u v = false.
Proof.
  intros [x y] [xi yi] [xj yj] Hu Hv. simpl in *. unfold crosses.
  destruct (Bool.eqb (yi >? y) (yj >? y)) eqn:E; [reflexivity|]. simpl.
  destruct (yi >? y) eqn:E1, (yj >? y) eqn:E2; simpl in E; try discriminate.
  - (* yi > y >= yj : d < 0 *)
    destruct (yj - yi >? 0) eqn:Ed; [lia|]. apply Z.ltb_ge. nia.
  - destruct (yj - yi >? 0) eqn:Ed; [|lia]. apply Z.ltb_ge. nia.
Qed.

Lemma crosses_left : forall p u v, fst p < fst u -> fst p < fst v ->
  crosses p u v = xorb (above p u) (above p v).
Proof.
  intros [x y] [xi yi] [xj yj] Hu Hv. simpl in *. unfold crosses, above. simpl.
  destruct (yi >? y) eqn:E1, (yj >? y) eqn:E2; simpl; try reflexivity.
  - destruct (yj - yi >? 0) eqn:Ed; [lia|]. apply Z.ltb_lt. nia.
  - destruct (yj - yi >? 0) eqn:Ed; [|lia]. apply Z.ltb_lt. nia.
Qed.

(* p lies outside the bounding box of the ring (with the half-open conventions of the code) *)
Definition outside_bbox (outer : line) (p : point) : Prop :=
  (forall q, In q outer -> snd q > snd p) \/ (forall q, In q outer -> snd q <= snd p) \/
  (forall q, In q outer -> fst q <= fst p) \/ (forall q, In q outer -> fst p < fst q).

Lemma llast_in : forall l : line, l <> [] -> In (llast l) l.
Proof.
  intros l H. unfold llast. destruct (exists_last H) as (l' & a & ->). rewrite last_last.
  apply in_or_app. right. left. reflexivity.
Qed.

Theorem point_outside_bbox : forall outer p, outside_bbox outer p -> point_in_ring outer p = false.
Proof.
  intros outer p H. unfold point_in_ring. destruct outer as [|a outer'] eqn:E; [reflexivity|].
  rewrite <- E in *. assert (Hne : outer <> []) by (subst; discriminate).
  assert (Hin : forall u, In u (llast outer :: outer) -> In u outer).
  { intros u [<-|Hu]; [apply llast_in; assumption|assumption]. }
  destruct H as [H|[H|[H|H]]].
  - apply pir_no_cross. intros u v Hu Hv. apply crosses_same_side. unfold above.
    pose proof (H u (Hin u Hu)). pose proof (H v (Hin v Hv)).
    destruct (snd u >? snd p) eqn:E1, (snd v >? snd p) eqn:E2; try reflexivity; lia.
  - apply pir_no_cross. intros u v Hu Hv. apply crosses_same_side. unfold above.
    pose proof (H u (Hin u Hu)). pose proof (H v (Hin v Hv)).
    destruct (snd u >? snd p) eqn:E1, (snd v >? snd p) eqn:E2; try reflexivity; lia.
  - apply pir_no_cross. intros u v Hu Hv. apply crosses_right; apply H; apply Hin; assumption.
  - rewrite pir_all_cross.
    + unfold llast. replace (last outer (last outer origin)) with (last outer origin).
      * rewrite xorb_nilpotent. reflexivity.
      * destruct (exists_last Hne) as (l' & z & ->). rewrite !last_last. reflexivity.
    + intros u v Hu Hv. apply crosses_left; apply H; apply Hin; assumption.
Qed.

(* a ring wholly outside the bounding box of an outer is never assigned to it *)
Theorem contains_outside_bbox : forall outer r,
  (forall p, In p r -> outside_bbox outer p) -> polygon_contains outer r = false.
Proof.
  intros outer r H. unfold polygon_contains.
  destruct (existsb (point_in_ring outer) r) eqn:E; [|reflexivity].
  apply existsb_exists in E. destruct E as (p & Hin & Hp).
  rewrite (point_outside_bbox outer p (H p Hin)) in Hp. discriminate.
Qed.
