(* Geo/GenSupport.v — vocabulary of the generated file gen/GenMputil.v (translator/cmd/mputil):
   comparisons of exact rationals as booleans. *)
From Coq Require Import ZArith QArith Bool.

Definition Qltb (a b : Q) : bool := match Qcompare a b with Lt => true | _ => false end.
Definition Qgtb (a b : Q) : bool := Qltb b a.
Definition Qleb (a b : Q) : bool := negb (Qltb b a).
Definition Qgeb (a b : Q) : bool := negb (Qltb a b).
Definition Qeqb (a b : Q) : bool := Qeq_bool a b.
