(* Geo/Edges.v — join conserves the undirected edges (consecutive vertex pairs) of the input
   segments: the edges of all output chain lines are, as a multiset and up to direction, exactly
   the edges of the input segments with >= 2 points. *)
From Coq Require Import ZArith List Bool Lia Arith Permutation.
From Verif Require Import Geo.Model Geo.JoinProofs Geo.Conserve.
Import ListNotations.
Open Scope Z_scope.

Fixpoint line_edges (l : line) : list (point * point) :=
  match l with
  | p :: ((q :: _) as r) => (p, q) :: line_edges r
  | _ => []
  end.

(* canonical direction of an undirected edge: lexicographically smaller end first *)
Definition ple (a b : point) : bool :=
  (fst a <? fst b) || ((fst a =? fst b) && (snd a <=? snd b)).
Definition uedge (e : point * point) : point * point :=
  if ple (fst e) (snd e) then e else (snd e, fst e).
Definition swap (e : point * point) : point * point := (snd e, fst e).

Lemma uedge_swap : forall e, uedge (swap e) = uedge e.
Proof.
  intros [[a1 a2] [b1 b2]]. unfold uedge, swap, ple. simpl.
  destruct (a1 <? b1) eqn:E1, (b1 <? a1) eqn:E2, (a1 =? b1) eqn:E3, (b1 =? a1) eqn:E4,
           (a2 <=? b2) eqn:E5, (b2 <=? a2) eqn:E6; simpl; try reflexivity; try lia.
  apply Z.eqb_eq in E3. apply Z.leb_le in E5. apply Z.leb_le in E6.
  assert (a2 = b2) by lia. subst. reflexivity.
Qed.

Lemma line_edges_glue : forall a b : line, a <> [] -> b <> [] -> llast a = lfirst b ->
  line_edges (a ++ tl b) = line_edges a ++ line_edges b.
Proof.
  induction a as [|x a IH]; intros b Ha Hb E; [congruence|].
  destruct a as [|y a'].
  - destruct b as [|p b']; [congruence|]. unfold llast, lfirst in E. simpl in E. subst p. reflexivity.
  - change ((x :: y :: a') ++ tl b) with (x :: (y :: a') ++ tl b).
    change (line_edges (x :: (y :: a') ++ tl b)) with ((x, y) :: line_edges ((y :: a') ++ tl b)).
    rewrite IH; [reflexivity|discriminate|assumption|exact E].
Qed.

Lemma line_edges_snoc : forall l p, l <> [] ->
  line_edges (l ++ [p]) = line_edges l ++ [(llast l, p)].
Proof.
  induction l as [|x l IH]; intros p H; [congruence|].
  destruct l as [|y l']; [reflexivity|].
  change ((x :: y :: l') ++ [p]) with (x :: (y :: l') ++ [p]).
  change (line_edges (x :: (y :: l') ++ [p])) with ((x, y) :: line_edges ((y :: l') ++ [p])).
  rewrite IH by discriminate. reflexivity.
Qed.

Lemma line_edges_rev : forall l, line_edges (rev l) = rev (map swap (line_edges l)).
Proof.
  induction l as [|x l IH]; [reflexivity|].
  destruct l as [|y l']; [reflexivity|].
  change (rev (x :: y :: l')) with (rev (y :: l') ++ [x]).
  rewrite line_edges_snoc.
  - rewrite IH. change (line_edges (x :: y :: l')) with ((x, y) :: line_edges (y :: l')).
    simpl map. simpl rev at 3. rewrite llast_rev. reflexivity.
  - simpl. intro E. apply app_eq_nil in E. destruct E; discriminate.
Qed.

Definition seg_edges (s : segment) : list (point * point) := line_edges (seg_line s).

Lemma uedges_orient : forall ob,
  Permutation (map uedge (seg_edges (orient ob))) (map uedge (seg_edges (fst ob))).
Proof.
  intros [s b]. unfold orient, seg_edges. simpl. destruct b; [|reflexivity].
  simpl. rewrite line_edges_rev, map_rev, map_map.
  rewrite <- Permutation_rev. erewrite map_ext; [reflexivity|]. intros e. apply uedge_swap.
Qed.

Lemma merge_edges : forall fs : list segment, linked fs -> Forall len2 fs ->
  line_edges (merge_lines (map seg_line fs)) = flat_map seg_edges fs /\
  (fs <> [] -> lfirst (merge_lines (map seg_line fs)) = seg_first (hd dummy_seg fs) /\
               merge_lines (map seg_line fs) <> []).
Proof.
  induction fs as [|a fs IH]; intros Hl Hall; [split; [reflexivity|congruence]|].
  inversion Hall as [|x y Ha Hall']; subst.
  destruct fs as [|b fs'].
  - simpl. rewrite !app_nil_r. split; [reflexivity|]. intros _. split; [reflexivity|apply len2_ne; assumption].
  - destruct Hl as [Hab Hl]. destruct (IH Hl Hall') as [IH1 IH2]. destruct (IH2 ltac:(discriminate)) as [IHf IHne].
    assert (Hm : merge_lines (map seg_line (a :: b :: fs')) =
                 seg_line a ++ tl (merge_lines (map seg_line (b :: fs')))).
    { simpl. destruct (seg_line b) eqn:Eb; [|reflexivity].
      inversion Hall' as [|x y Hb _]; subst. unfold len2 in Hb. rewrite Eb in Hb. simpl in Hb. lia. }
    rewrite Hm. split.
    + rewrite line_edges_glue; [|apply len2_ne; assumption|exact IHne|].
      * rewrite IH1. reflexivity.
      * rewrite IHf. exact Hab.
    + intros _. split.
      * unfold seg_first. simpl hd. unfold lfirst. destruct (seg_line a) eqn:Ea; [unfold len2 in Ha; rewrite Ea in Ha; simpl in Ha; lia|reflexivity].
      * intro E. apply app_eq_nil in E. destruct E as [E _]. apply (len2_ne a Ha E).
Qed.

Lemma chain_edges : forall obs cur, chain_rel obs cur ->
  line_edges (ms_line cur) = flat_map (fun ob => seg_edges (orient ob)) obs.
Proof.
  intros obs cur H. rewrite (chain_rel_line _ _ H).
  destruct (chain_rel_explicit _ _ H) as (_ & Hl & Hall).
  rewrite <- (map_map orient seg_line).
  destruct (merge_edges (map orient obs) Hl) as [E _].
  - apply Forall_map. eapply Forall_impl; [|exact Hall]. intros ob. apply len2_orient.
  - rewrite E. rewrite flat_map_concat_map, map_map, <- flat_map_concat_map. reflexivity.
Qed.

Lemma uedges_flat_orient : forall obs,
  Permutation (map uedge (flat_map (fun ob => seg_edges (orient ob)) obs))
              (map uedge (flat_map seg_edges (map fst obs))).
Proof.
  induction obs as [|ob obs IH]; [reflexivity|].
  simpl. rewrite !map_app. apply Permutation_app; [apply uedges_orient|exact IH].
Qed.

Theorem join_conserves_edges : forall segments chains, join segments = JoinOk chains ->
  Permutation (map uedge (flat_map seg_edges (compact segments)))
              (map uedge (flat_map (fun c => line_edges (ms_line c)) chains)).
Proof.
  intros segments chains Hj. destruct (join_conserves _ _ Hj) as (obss & HF & HP).
  assert (E : flat_map (fun c => line_edges (ms_line c)) chains =
              flat_map (fun ob => seg_edges (orient ob)) (concat obss)).
  { clear HP Hj. induction HF as [|obs c obss chains Hc HF IH]; [reflexivity|].
    simpl. rewrite flat_map_app, IH, (chain_edges _ _ Hc). reflexivity. }
  rewrite E, uedges_flat_orient. apply Permutation_map. apply Permutation_flat_map.
  symmetry. exact HP.
Qed.

(* consequence: every edge of every input segment appears in some chain line, in one of the
   two directions *)
Lemma uedge_eq_cases : forall e f, uedge e = uedge f -> e = f \/ e = swap f.
Proof.
  intros [a b] [c d]. unfold uedge, swap. simpl.
  destruct (ple a b), (ple c d); simpl; intro H; inversion H; subst; auto.
Qed.

Theorem join_keeps_every_edge : forall segments chains s a b,
  join segments = JoinOk chains -> In s segments -> In (a, b) (seg_edges s) ->
  exists c, In c chains /\
    (In (a, b) (line_edges (ms_line c)) \/ In (b, a) (line_edges (ms_line c))).
Proof.
  intros segments chains s a b Hj Hs He.
  assert (Hc : In s (compact segments)).
  { unfold compact. apply filter_In. split; [exact Hs|]. apply Nat.ltb_lt.
    unfold seg_edges in He. destruct (seg_line s) as [|p [|q l]]; simpl in *; try contradiction. lia. }
  pose proof (join_conserves_edges _ _ Hj) as HP.
  assert (Hin : In (uedge (a, b)) (map uedge (flat_map seg_edges (compact segments)))).
  { apply in_map. apply in_flat_map. exists s. split; assumption. }
  eapply Permutation_in in Hin; [|exact HP].
  apply in_map_iff in Hin. destruct Hin as (f & Hf & Hfin).
  apply in_flat_map in Hfin. destruct Hfin as (c & Hcin & Hfc). exists c. split; [exact Hcin|].
  symmetry in Hf. destruct (uedge_eq_cases _ _ Hf) as [E|E].
  - left. rewrite E. exact Hfc.
  - right. destruct f as [f1 f2]. unfold swap in E. simpl in E. inversion E; subst. exact Hfc.
Qed.
