(* Geo/Rotate.v — "written from one of its cut vertices" is without loss of generality: a ring
   line of a rotated ring is a ring line of the ring and conversely; distinctness of vertices,
   area and the ray-casting verdicts are invariant under rotation of the ring. *)
From Coq Require Import ZArith List Bool Lia Arith Permutation.
From Verif Require Import Geo.Model Geo.Conserve Geo.Edges Geo.Orient Geo.Rings Geo.Recover Geo.Contain.
Import ListNotations.
Open Scope nat_scope.

Lemma firstn_add : forall {A} k s (l : list A), firstn (k + s) l = firstn k l ++ firstn s (skipn k l).
Proof.
  intros A k. induction k as [|k IH]; intros s l; [reflexivity|].
  destruct l as [|a l]; [simpl; rewrite firstn_nil; reflexivity|]. simpl. rewrite IH. reflexivity.
Qed.

Lemma skipn_add : forall {A} s k (l : list A), skipn s (skipn k l) = skipn (k + s) l.
Proof.
  intros A s k. induction k as [|k IH]; intros l; [reflexivity|].
  destruct l as [|a l]; [simpl; apply skipn_nil|]. simpl. apply IH.
Qed.

Lemma rot_rot : forall {A} k s (l : list A), k <= length l -> s <= length l ->
  rot s (rot k l) = if Nat.leb (k + s) (length l) then rot (k + s) l else rot (k + s - length l) l.
Proof.
  intros A k s l Hk Hs. unfold rot.
  assert (La : length (skipn k l) = length l - k) by apply skipn_length.
  assert (Lb : length (firstn k l) = k) by (rewrite firstn_length; lia).
  rewrite skipn_app, firstn_app, La.
  destruct (Nat.leb_spec (k + s) (length l)) as [H|H].
  - replace (s - (length l - k)) with 0 by lia. simpl. rewrite app_nil_r.
    rewrite skipn_add, (firstn_add k s l), app_assoc. reflexivity.
  - set (s' := k + s - length l).
    replace (s - (length l - k)) with s' by (unfold s'; lia).
    rewrite (skipn_all2 (skipn k l)) by (rewrite La; lia).
    rewrite (firstn_all2 (skipn k l)) by (rewrite La; lia).
    rewrite firstn_firstn. replace (Nat.min s' k) with s' by (unfold s'; lia).
    simpl.
    assert (E : skipn s' l = skipn s' (firstn k l) ++ skipn k l).
    { rewrite <- (firstn_skipn k l) at 1. rewrite skipn_app, Lb.
      replace (s' - k) with 0 by (unfold s'; lia). reflexivity. }
    rewrite E, <- app_assoc. reflexivity.
Qed.

Lemma rot_length' : forall {A} k (l : list A), length (rot k l) = length l.
Proof. intros A k l. unfold rot. rewrite app_length, skipn_length, firstn_length. lia. Qed.

Lemma rot_full : forall {A} (l : list A), rot (length l) l = l.
Proof. intros A l. unfold rot. rewrite skipn_all, firstn_all. reflexivity. Qed.

(* a ring line of the rotated ring is a ring line of the ring *)
Theorem is_ring_line_of_rot : forall k (r L : line), k < length r ->
  is_ring_line (rot k r) L -> is_ring_line r L.
Proof.
  intros k r L Hk (s & Hs & HL). rewrite rot_length' in Hs. unfold line, point in *.
  rewrite (rot_rot k s r) in HL by lia.
  match type of HL with context [Nat.leb ?a ?b] => destruct (Nat.leb_spec a b) as [H|H] end.
  - destruct (Nat.eq_dec (k + s) (length r)) as [E|E].
    + exists 0. split; [unfold line, point in *; lia|]. rewrite E, rot_full in HL. unfold rot at 1 2. simpl. rewrite app_nil_r. exact HL.
    + exists (k + s). split; [unfold line, point in *; lia|exact HL].
  - exists (k + s - length r). split; [unfold line, point in *; lia|exact HL].
Qed.

(* ... and conversely *)
Theorem is_ring_line_rot : forall k (r L : line), k < length r ->
  is_ring_line r L -> is_ring_line (rot k r) L.
Proof.
  intros k r L Hk (s & Hs & HL). unfold line, point in *.
  (* rot s r = rot s' (rot k r) with s' = s - k or s - k + n *)
  assert (Hex : exists s', s' < length r /\ rot s' (rot k r) = rot s r).
  { destruct (le_lt_dec k s) as [H|H].
    - exists (s - k). split; [unfold line, point in *; lia|]. rewrite rot_rot by lia.
      match goal with |- context [Nat.leb ?a ?b] => destruct (Nat.leb_spec a b) end; [f_equal; lia|exfalso; lia].
    - exists (s + length r - k). split; [unfold line, point in *; lia|]. rewrite rot_rot by lia.
      match goal with |- context [Nat.leb ?a ?b] => destruct (Nat.leb_spec a b) end; [|f_equal; lia].
      assert (s = 0) by lia. subst s.
      replace (k + (0 + length r - k)) with (length r) by lia.
      rewrite rot_full. unfold rot. simpl. rewrite app_nil_r. reflexivity. }
  destruct Hex as (s' & Hs' & E). exists s'. rewrite rot_length'. split; [exact Hs'|]. unfold line, point in *. rewrite E. exact HL.
Qed.

Lemma rot_perm : forall {A} k (l : list A), Permutation (rot k l) l.
Proof.
  intros A k l. unfold rot. rewrite <- (firstn_skipn k l) at 3. apply Permutation_app_comm.
Qed.

Theorem nodup_rot : forall k (r : line), NoDup r -> NoDup (rot k r).
Proof. intros k r H. eapply Permutation_NoDup; [symmetry; apply rot_perm|exact H]. Qed.

Theorem area_rot : forall k (r : line), k < length r ->
  shoelace (close_ring (rot k r)) = shoelace (close_ring r).
Proof. intros k r H. apply shoelace_rot. exact H. Qed.

(* ray casting against a ring does not depend on the vertex from which the ring is written *)
Theorem point_in_ring_rot : forall k (o : line) p, k < length o ->
  point_in_ring (close_ring (rot k o)) p = point_in_ring (close_ring o) p.
Proof.
  intros k o p Hk. apply point_in_ring_line; [lia|].
  exists k. split; [exact Hk|left; reflexivity].
Qed.
