(* Geo/Conserve.v — join conserves the segments: every output chain is a linked sequence of input
   segments (each whole or reversed, as its Reversed flag says), trimmed only at the joints, and
   the input segments with >= 2 points are used exactly once. *)
From Coq Require Import ZArith List Bool Lia Arith Permutation.
From Verif Require Import Geo.Model Geo.JoinProofs.
Import ListNotations.
Open Scope Z_scope.

(* ---------------------------------------------------------------- points and line ends *)
Lemma pt_eqb_eq : forall a b, pt_eqb a b = true -> a = b.
Proof.
  intros [a1 a2] [b1 b2] H. unfold pt_eqb in H. simpl in H.
  apply andb_true_iff in H. destruct H as [H1 H2].
  apply Z.eqb_eq in H1. apply Z.eqb_eq in H2. subst. reflexivity.
Qed.

Lemma pt_eqb_refl : forall a, pt_eqb a a = true.
Proof. intros [a1 a2]. unfold pt_eqb. simpl. rewrite !Z.eqb_refl. reflexivity. Qed.

Lemma pt_eqb_neq : forall a b, pt_eqb a b = false -> a <> b.
Proof. intros a b H E. subst. rewrite pt_eqb_refl in H. discriminate. Qed.

Lemma lfirst_rev : forall l, lfirst (rev l) = llast l.
Proof.
  intros l. unfold lfirst, llast. destruct l as [|a l'] using rev_ind; [reflexivity|].
  rewrite rev_app_distr, last_last. reflexivity.
Qed.

Lemma llast_rev : forall l, llast (rev l) = lfirst l.
Proof. intros l. rewrite <- (rev_involutive l) at 2. rewrite lfirst_rev. reflexivity. Qed.

Lemma llast_tl : forall l, (2 <= length l)%nat -> llast (tl l) = llast l.
Proof. intros [|a [|b l]] H; simpl in *; try lia. reflexivity. Qed.

Lemma lfirst_removelast : forall l, (2 <= length l)%nat -> lfirst (removelast l) = lfirst l.
Proof. intros [|a [|b l]] H; simpl in *; try lia. reflexivity. Qed.

(* ---------------------------------------------------------------- oriented / trimmed segments *)
Definition len2 (s : segment) : Prop := (2 <= length (seg_line s))%nat.

(* an input segment together with "was reversed by join" *)
Definition oseg := (segment * bool)%type.
Definition orient (ob : oseg) : segment := if snd ob then seg_reverse (fst ob) else fst ob.
Definition trim_first (s : segment) : segment := set_line s (tl (seg_line s)).
Definition trim_last (s : segment) : segment := set_line s (removelast (seg_line s)).
Definition dummy_ob : oseg := (dummy_seg, false).

Lemma len2_orient : forall ob, len2 (fst ob) -> len2 (orient ob).
Proof.
  intros [s b] H. unfold orient, len2 in *. simpl in *. destruct b; [|assumption].
  simpl. rewrite rev_length. assumption.
Qed.

Lemma seg_first_reverse : forall s, seg_first (seg_reverse s) = seg_last s.
Proof. intros s. unfold seg_first, seg_last. simpl. apply lfirst_rev. Qed.
Lemma seg_last_reverse : forall s, seg_last (seg_reverse s) = seg_first s.
Proof. intros s. unfold seg_first, seg_last. simpl. apply llast_rev. Qed.

Lemma seg_last_trim_first : forall s, len2 s -> seg_last (trim_first s) = seg_last s.
Proof. intros s H. unfold seg_last, trim_first. simpl. apply llast_tl. assumption. Qed.
Lemma seg_first_trim_last : forall s, len2 s -> seg_first (trim_last s) = seg_first s.
Proof. intros s H. unfold seg_first, trim_last. simpl. apply lfirst_removelast. assumption. Qed.

(* the four cases of the loop body in these terms *)
Definition fit_rev (f : fit) : bool :=
  match f with FitEndRev | FitStartRev => true | _ => false end.

Lemma fit_segment_eq : forall s f,
  fit_segment s f = (if fit_at_end f then trim_first else trim_last) (orient (s, fit_rev f)).
Proof. intros s []; reflexivity. Qed.

Lemma match_seg_end : forall first last s f, match_seg first last s = Some f ->
  if fit_at_end f then last = seg_first (orient (s, fit_rev f))
  else first = seg_last (orient (s, fit_rev f)).
Proof.
  intros first last s f H. unfold match_seg in H.
  destruct (pt_eqb last (seg_first s)) eqn:E1; [inversion H; subst; simpl; apply pt_eqb_eq; assumption|].
  destruct (pt_eqb last (seg_last s)) eqn:E2;
    [inversion H; subst; simpl; unfold orient; simpl; rewrite seg_first_reverse; apply pt_eqb_eq; assumption|].
  destruct (pt_eqb first (seg_last s)) eqn:E3; [inversion H; subst; simpl; apply pt_eqb_eq; assumption|].
  destruct (pt_eqb first (seg_first s)) eqn:E4;
    [inversion H; subst; simpl; unfold orient; simpl; rewrite seg_last_reverse; apply pt_eqb_eq; assumption|].
  discriminate.
Qed.

(* ---------------------------------------------------------------- chains *)
Inductive chain_rel : list oseg -> multisegment -> Prop :=
| CR_seed : forall ob, len2 (fst ob) -> chain_rel [ob] [orient ob]
| CR_end : forall obs cur ob, chain_rel obs cur -> len2 (fst ob) ->
    seg_last (orient (last obs dummy_ob)) = seg_first (orient ob) ->
    chain_rel (obs ++ [ob]) (cur ++ [trim_first (orient ob)])
| CR_start : forall obs cur ob, chain_rel obs cur -> len2 (fst ob) ->
    seg_last (orient ob) = seg_first (orient (hd dummy_ob obs)) ->
    chain_rel (ob :: obs) (trim_last (orient ob) :: cur).

Lemma chain_rel_nonempty : forall obs cur, chain_rel obs cur -> obs <> [] /\ cur <> [].
Proof.
  intros obs cur H. induction H.
  - split; discriminate.
  - split; intro E; apply app_eq_nil in E; destruct E; discriminate.
  - split; discriminate.
Qed.

Lemma ms_first_app : forall cur x, cur <> [] -> ms_first (cur ++ x) = ms_first cur.
Proof. intros [|a c] x H; [congruence|reflexivity]. Qed.
Lemma ms_last_cons : forall cur x, cur <> [] -> ms_last (x :: cur) = ms_last cur.
Proof. intros [|a c] x H; [congruence|reflexivity]. Qed.
Lemma ms_last_snoc : forall cur x, ms_last (cur ++ [x]) = seg_last x.
Proof. intros cur x. unfold ms_last. rewrite last_last. reflexivity. Qed.
Lemma hd_app_ne : forall {A} (d : A) l x, l <> [] -> hd d (l ++ x) = hd d l.
Proof. intros A d [|a l] x H; [congruence|reflexivity]. Qed.
Lemma last_cons_ne : forall {A} (d : A) l x, l <> [] -> last (x :: l) d = last l d.
Proof. intros A d [|a l] x H; [congruence|reflexivity]. Qed.

Lemma chain_rel_ends : forall obs cur, chain_rel obs cur ->
  ms_first cur = seg_first (orient (hd dummy_ob obs)) /\
  ms_last cur = seg_last (orient (last obs dummy_ob)).
Proof.
  intros obs cur H. induction H as [ob Hl|obs cur ob H IH Hl Hj|obs cur ob H IH Hl Hj].
  - split; reflexivity.
  - destruct IH as [IH1 IH2]. destruct (chain_rel_nonempty _ _ H) as [Ho Hc]. split.
    + rewrite ms_first_app by assumption. rewrite hd_app_ne by assumption. assumption.
    + rewrite ms_last_snoc, last_last. apply seg_last_trim_first. apply len2_orient. assumption.
  - destruct IH as [IH1 IH2]. destruct (chain_rel_nonempty _ _ H) as [Ho Hc]. split.
    + unfold ms_first. simpl. apply seg_first_trim_last. apply len2_orient. assumption.
    + rewrite ms_last_cons by assumption. rewrite last_cons_ne by assumption. assumption.
Qed.

(* one step of the inner loop keeps the chain relation, adding (s, reversed?) at one end *)
Lemma chain_rel_step : forall obs cur s f, chain_rel obs cur -> len2 s ->
  match_seg (ms_first cur) (ms_last cur) s = Some f ->
  chain_rel (if fit_at_end f then obs ++ [(s, fit_rev f)] else (s, fit_rev f) :: obs)
            (apply_fit cur s f).
Proof.
  intros obs cur s f H Hl Hm. apply match_seg_end in Hm.
  destruct (chain_rel_ends _ _ H) as [E1 E2].
  unfold apply_fit. rewrite fit_segment_eq. destruct (fit_at_end f).
  - apply CR_end; [assumption|assumption|]. rewrite <- E2. assumption.
  - apply CR_start; [assumption|assumption|]. rewrite <- E1. symmetry. assumption.
Qed.

(* ---------------------------------------------------------------- the conservation theorem *)
Section Conserve.
  Variable input : list segment.

  Definition consQ (segs : list segment) (lists : list multisegment) : Prop :=
    exists obss, Forall2 chain_rel obss lists /\
      Permutation (map fst (concat obss) ++ segs) input /\ Forall len2 segs.
  Definition consP (lists : list multisegment) (cur : multisegment) (segs : list segment) : Prop :=
    exists obss obs, Forall2 chain_rel obss lists /\ chain_rel obs cur /\
      Permutation (map fst (concat obss) ++ map fst obs ++ segs) input /\ Forall len2 segs.

  Lemma cons_start : forall segs lists, segs <> [] -> consQ segs lists ->
    consP lists [last segs dummy_seg] (removelast segs).
  Proof.
    intros segs lists Hne (obss & HF & HP & Hl).
    pose proof (app_removelast_last dummy_seg Hne) as Hs.
    assert (Hl' : Forall len2 (removelast segs) /\ len2 (last segs dummy_seg)).
    { rewrite Hs in Hl. apply Forall_app in Hl. destruct Hl as [Ha Hb]. inversion Hb; subst. split; assumption. }
    exists obss, [(last segs dummy_seg, false)]. split; [assumption|]. split.
    - apply (CR_seed (last segs dummy_seg, false)). apply Hl'.
    - split; [|apply Hl']. simpl. rewrite <- HP. apply Permutation_app_head.
      transitivity (removelast segs ++ [last segs dummy_seg]);
        [apply (Permutation_app_comm [_])|rewrite <- Hs; reflexivity].
  Qed.

  Lemma cons_step : forall lists cur segs i s f,
    consP lists cur segs -> pt_eqb (ms_first cur) (ms_last cur) = false ->
    nth_error segs i = Some s -> match_seg (ms_first cur) (ms_last cur) s = Some f ->
    consP lists (apply_fit cur s f) (remove_nth i segs).
  Proof.
    intros lists cur segs i s f (obss & obs & HF & HC & HP & Hl) _ Hn Hm.
    pose proof (remove_nth_perm i segs s Hn) as Hperm.
    assert (Hls : len2 s /\ Forall len2 (remove_nth i segs)).
    { rewrite Hperm in Hl. inversion Hl; subst. split; assumption. }
    exists obss, (if fit_at_end f then obs ++ [(s, fit_rev f)] else (s, fit_rev f) :: obs).
    split; [assumption|]. split; [apply chain_rel_step; [assumption|apply Hls|assumption]|].
    split; [|apply Hls]. rewrite <- HP. apply Permutation_app_head.
    transitivity (map fst obs ++ s :: remove_nth i segs);
      [|apply Permutation_app_head; symmetry; exact Hperm].
    destruct (fit_at_end f).
    - rewrite map_app. simpl. rewrite <- app_assoc. simpl. reflexivity.
    - simpl. apply Permutation_middle.
  Qed.

  Lemma cons_done : forall lists cur segs, consP lists cur segs -> stopped cur segs ->
    consQ segs (lists ++ [cur]).
  Proof.
    intros lists cur segs (obss & obs & HF & HC & HP & Hl) _.
    exists (obss ++ [obs]). split; [apply Forall2_app; [assumption|constructor; [assumption|constructor]]|].
    split; [|assumption]. rewrite concat_app. simpl. rewrite app_nil_r, map_app, <- app_assoc. assumption.
  Qed.
End Conserve.

Lemma compact_len2 : forall segs, Forall len2 (compact segs).
Proof.
  intros segs. unfold compact. apply Forall_forall. intros s Hin.
  apply filter_In in Hin. destruct Hin as [_ H]. apply Nat.ltb_lt in H. unfold len2. lia.
Qed.

Theorem join_conserves : forall segments chains, join segments = JoinOk chains ->
  exists obss : list (list oseg),
    Forall2 chain_rel obss chains /\
    Permutation (map fst (concat obss)) (compact segments).
Proof.
  intros segments chains Hj.
  pose proof (join_inv (consP (compact segments)) (consQ (compact segments))
                (cons_start _) (cons_step _) (cons_done _) segments chains) as H.
  destruct H as (obss & HF & HP & _); [|assumption|].
  - exists []. split; [constructor|]. split; [reflexivity|apply compact_len2].
  - exists obss. split; [assumption|]. rewrite app_nil_r in HP. assumption.
Qed.

(* ---------------------------------------------------------------- what chain_rel says, explicitly *)
Fixpoint linked (l : list segment) : Prop :=
  match l with
  | a :: ((b :: _) as r) => seg_last a = seg_first b /\ linked r
  | _ => True
  end.

Lemma linked_snoc : forall l x, l <> [] -> linked l ->
  seg_last (last l dummy_seg) = seg_first x -> linked (l ++ [x]).
Proof.
  induction l as [|a l IH]; intros x Hne Hl Hj; [congruence|].
  destruct l as [|b l'].
  - simpl in *. split; [assumption|exact I].
  - destruct Hl as [Hab Hl]. change ((a :: b :: l') ++ [x]) with (a :: (b :: l') ++ [x]).
    simpl. split; [assumption|]. apply IH; [discriminate|assumption|assumption].
Qed.

Lemma last_map : forall {A B} (f : A -> B) l d, last (map f l) (f d) = f (last l d).
Proof. intros A B f l d. induction l as [|a [|b l] IH]; try reflexivity. exact IH. Qed.

(* every chain: a seed, segments before it without their last point, segments after it without
   their first point; consecutive (untrimmed) segments share the joint; all had >= 2 points *)
Theorem chain_rel_explicit : forall obs cur, chain_rel obs cur ->
  (exists pre seed post, obs = pre ++ seed :: post /\
     cur = map (fun ob => trim_last (orient ob)) pre ++ orient seed ::
           map (fun ob => trim_first (orient ob)) post) /\
  linked (map orient obs) /\ Forall (fun ob => len2 (fst ob)) obs.
Proof.
  intros obs cur H. induction H as [ob Hl|obs cur ob H IH Hl Hj|obs cur ob H IH Hl Hj].
  - split; [exists [], ob, []; split; reflexivity|]. split; [exact I|]. constructor; [assumption|constructor].
  - destruct IH as ((pre & seed & post & Eo & Ec) & Hlk & Hall).
    destruct (chain_rel_nonempty _ _ H) as [Ho _]. split; [|split].
    + exists pre, seed, (post ++ [ob]). subst. split.
      * rewrite <- app_assoc. reflexivity.
      * rewrite map_app. simpl. rewrite <- app_assoc. reflexivity.
    + rewrite map_app. simpl. apply linked_snoc.
      * destruct obs; [congruence|discriminate].
      * assumption.
      * change dummy_seg with (orient dummy_ob). rewrite last_map. assumption.
    + apply Forall_app. split; [assumption|constructor; [assumption|constructor]].
  - destruct IH as ((pre & seed & post & Eo & Ec) & Hlk & Hall).
    destruct (chain_rel_nonempty _ _ H) as [Ho _]. split; [|split].
    + exists (ob :: pre), seed, post. subst. split; reflexivity.
    + destruct obs as [|o1 obs']; [congruence|]. simpl. split; [assumption|assumption].
    + constructor; assumption.
Qed.

(* the line of a chain is the lines of its segments glued at the shared joints: nothing lost,
   duplicated or invented *)
Definition merge_lines (ls : list line) : line :=
  match ls with [] => [] | l :: r => l ++ flat_map (@tl point) r end.

Lemma glue : forall a b : line, a <> [] -> b <> [] -> llast a = lfirst b ->
  removelast a ++ b = a ++ tl b.
Proof.
  intros a b Ha Hb E. destruct b as [|p b']; [congruence|]. simpl in *.
  rewrite (app_removelast_last origin Ha) at 2. unfold llast, lfirst in E. simpl in E.
  rewrite E, <- app_assoc. reflexivity.
Qed.

Lemma len2_ne : forall s, len2 s -> seg_line s <> [].
Proof. intros s H E. unfold len2 in H. rewrite E in H. simpl in H. lia. Qed.

Theorem chain_rel_line : forall obs cur, chain_rel obs cur ->
  ms_line cur = merge_lines (map (fun ob => seg_line (orient ob)) obs).
Proof.
  intros obs cur H. induction H as [ob Hl|obs cur ob H IH Hl Hj|obs cur ob H IH Hl Hj].
  - unfold ms_line. simpl. rewrite app_nil_r. reflexivity.
  - destruct (chain_rel_nonempty _ _ H) as [Ho _].
    unfold ms_line in *. rewrite flat_map_app, IH. simpl. rewrite app_nil_r.
    destruct obs as [|o1 obs']; [congruence|]. simpl.
    rewrite map_app, flat_map_app. simpl. rewrite app_nil_r, app_assoc. reflexivity.
  - destruct (chain_rel_nonempty _ _ H) as [Ho _].
    unfold ms_line in *. simpl. rewrite IH.
    destruct obs as [|o1 obs']; [congruence|]. simpl in *.
    rewrite app_assoc, app_assoc. f_equal.
    apply glue.
    + apply len2_ne. apply len2_orient. assumption.
    + apply len2_ne. apply len2_orient. pose proof (chain_rel_explicit _ _ H) as (_ & _ & Hall).
      inversion Hall; subst. assumption.
    + exact Hj.
Qed.

(* ---------------------------------------------------------------- no empty line, no empty chain *)
(* the origin default of lfirst/llast is never used: every chain is non-empty and every line in
   it is non-empty (and inside the loop every remaining segment has >= 2 points: [consP]) *)
Theorem join_lines_nonempty : forall segments chains, join segments = JoinOk chains ->
  Forall (fun ms => ms <> [] /\ Forall (fun s => seg_line s <> []) ms) chains.
Proof.
  intros segments chains Hj. destruct (join_conserves _ _ Hj) as (obss & HF & _).
  clear Hj. induction HF as [|obs ms obss chains Hc HF IH]; constructor; [|exact IH].
  split; [apply (chain_rel_nonempty _ _ Hc)|].
  destruct (chain_rel_explicit _ _ Hc) as ((pre & seed & post & -> & ->) & _ & Hall).
  apply Forall_app in Hall. destruct Hall as [Hpre Hall]. inversion Hall as [|x y Hseed Hpost]; subst.
  assert (Htrim : forall l : line, (2 <= length l)%nat -> tl l <> [] /\ removelast l <> []).
  { intros [|a [|b l]] H; simpl in H; try lia. split; discriminate. }
  apply Forall_app. split; [|constructor].
  - apply Forall_map. eapply Forall_impl; [|exact Hpre]. intros ob Hl.
    apply (Htrim _ (len2_orient ob Hl)).
  - apply len2_ne. apply len2_orient. exact Hseed.
  - apply Forall_map. eapply Forall_impl; [|exact Hpost]. intros ob Hl.
    apply (Htrim _ (len2_orient ob Hl)).
Qed.
