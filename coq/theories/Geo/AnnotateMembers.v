(* Geo/AnnotateMembers.v — orientation_annotation_truthful at the level of relation MEMBERS, from
   hypotheses on the arguments of annotate (members, ways): every way member of role outer / inner
   ends up with the direction in which its way, as written in the data, runs around its ring
   ([Truthful.runs], the notion of theorem 8's [mem_truthful]).  Hence the annotated members
   satisfy the hypothesis of build_polygon_recovers: annotate -> convert is closed. *)
From Coq Require Import ZArith List Bool Lia Arith Permutation.
From Verif Require Import Geo.Model Geo.JoinProofs Geo.Conserve Geo.Closes Geo.Cut Geo.Edges
  Geo.Orient Geo.Annotate Geo.Rings Geo.Holes Geo.GroupIdx Geo.Recover Geo.Contain Geo.Assign Geo.Truthful
  Geo.Build Geo.Collect.
Import ListNotations.
Open Scope Z_scope.

Definition empty_grp : grouped := mkGrp [] [] false.
Definition gcontrib (ways : list way) (i : Z) (m : member) : grouped := group_step ways empty_grp (i, m).

Lemma group_step_add : forall ways g i m,
  let d := gcontrib ways i m in
  group_step ways g (i, m) =
  mkGrp (grp_outer g ++ grp_outer d) (grp_inner g ++ grp_inner d) (grp_tainted g || grp_tainted d).
Proof.
  intros ways [go gi gt] i m. unfold gcontrib, group_step. cbn -[line_string_at].
  destruct (mem_is_way m); cbn -[line_string_at]; [|rewrite !app_nil_r, orb_false_r; reflexivity].
  destruct (lookup_way ways (mem_ref m)) as [w|]; [|rewrite !app_nil_r, orb_true_r; reflexivity].
  destruct (line_string_at w) as [|p ln]; cbn -[line_string_at]; [rewrite !app_nil_r; reflexivity|].
  destruct (mem_role m); cbn; rewrite ?app_nil_r; reflexivity.
Qed.

Lemma group_fold : forall ways ms i g,
  let r := fold_left (group_step ways) (index_from i ms) g in
  grp_outer r = grp_outer g ++ flat_map (fun im => grp_outer (gcontrib ways (fst im) (snd im))) (index_from i ms) /\
  grp_inner r = grp_inner g ++ flat_map (fun im => grp_inner (gcontrib ways (fst im) (snd im))) (index_from i ms).
Proof.
  intros ways ms. induction ms as [|m ms IH]; intros i g.
  - simpl. rewrite !app_nil_r. split; reflexivity.
  - cbn [index_from fold_left]. cbn zeta. rewrite (group_step_add ways g i m). cbn zeta.
    match goal with |- context [fold_left _ _ ?x] => set (g' := x) end.
    destruct (IH (i + 1) g') as (E1 & E2). cbn zeta in E1, E2. rewrite E1, E2.
    unfold g'. simpl. rewrite <- !app_assoc. split; reflexivity.
Qed.

(* description of a member for annotate: ignored, or a way of role outer / inner that is found and
   whose annotated way nodes give the line l (>= 2 points) *)
Definition amember_ok (ways : list way) (m : member) (d : mdesc) : Prop :=
  match d with
  | MIgnored => mem_is_way m = false \/ mem_role m = OtherRole
  | MPiece ro l =>
      mem_is_way m = true /\ mem_role m = ro /\ ro <> OtherRole /\ (2 <= length l)%nat /\
      exists w, lookup_way ways (mem_ref m) = Some w /\ line_string_at w = l
  end.

Definition gbase (i : Z) (m : member) (l : line) : segment := mkSeg i (mem_orient m) false l.

Lemma gcontrib_piece : forall ways i m ro l, amember_ok ways m (MPiece ro l) ->
  exists s, seg_index s = i /\
    ((seg_rev s = false /\ seg_line s = l) \/ (seg_rev s = true /\ seg_line s = rev l)) /\
    match ro with
    | Outer => grp_outer (gcontrib ways i m) = [s] /\ grp_inner (gcontrib ways i m) = []
    | Inner => grp_outer (gcontrib ways i m) = [] /\ grp_inner (gcontrib ways i m) = [s]
    | OtherRole => False
    end.
Proof.
  intros ways i m ro l (Hw & Hr & Hro & H2 & w & Hl & Hls).
  unfold gcontrib, group_step. rewrite Hw, Hl, Hls, Hr. cbn [negb].
  destruct l as [|p l']; [simpl in H2; lia|].
  destruct ro; [| |congruence]; cbn.
  - destruct (mem_orient m =? CW).
    + exists (seg_reverse (mkSeg i (mem_orient m) false (p :: l'))). split; [reflexivity|].
      split; [right; split; reflexivity|split; reflexivity].
    + exists (mkSeg i (mem_orient m) false (p :: l')). split; [reflexivity|].
      split; [left; split; reflexivity|split; reflexivity].
  - destruct (mem_orient m =? CCW).
    + exists (seg_reverse (mkSeg i (mem_orient m) false (p :: l'))). split; [reflexivity|].
      split; [right; split; reflexivity|split; reflexivity].
    + exists (mkSeg i (mem_orient m) false (p :: l')). split; [reflexivity|].
      split; [left; split; reflexivity|split; reflexivity].
Qed.

Lemma gcontrib_ignored : forall ways i m, amember_ok ways m MIgnored ->
  grp_outer (gcontrib ways i m) = [] /\ grp_inner (gcontrib ways i m) = [].
Proof.
  intros ways i m [H|H]; unfold gcontrib, group_step.
  - rewrite H. split; reflexivity.
  - destruct (mem_is_way m); [|split; reflexivity]. cbn [negb].
    destruct (lookup_way ways (mem_ref m)) as [w|]; [|split; reflexivity].
    destruct (line_string_at w); [split; reflexivity|]. rewrite H. split; reflexivity.
Qed.

(* what Group returns for described members *)
Lemma group_described : forall ways members ds k,
  Forall2 (amember_ok ways) members ds ->
  let F := fun sel => flat_map (fun im => sel (gcontrib ways (fst im) (snd im))) (index_from k members) in
  Forall2 flipped (outer_lines ds) (map seg_line (F grp_outer)) /\
  Forall2 flipped (inner_lines ds) (map seg_line (F grp_inner)) /\
  forall i m ro l, nth_error members i = Some m -> nth_error ds i = Some (MPiece ro l) ->
    exists s, In s (match ro with Outer => F grp_outer | _ => F grp_inner end) /\
      seg_index s = k + Z.of_nat i /\
      ((seg_rev s = false /\ seg_line s = l) \/ (seg_rev s = true /\ seg_line s = rev l)).
Proof.
  intros ways members ds k HF. revert k. induction HF as [|m d members ds Hmd HF IH]; intros k; cbn zeta.
  - split; [constructor|]. split; [constructor|]. intros [|i]; discriminate.
  - destruct (IH (k + 1)) as (I1 & I2 & I3). cbn zeta in I1, I2, I3. simpl index_from. cbn [flat_map fst snd].
    destruct d as [|ro l].
    + destruct (gcontrib_ignored ways k m Hmd) as [E1 E2]. rewrite E1, E2. simpl.
      split; [exact I1|]. split; [exact I2|].
      intros [|i] m' ro l Hm Hd; [discriminate|]. simpl in Hm, Hd.
      destruct (I3 i m' ro l Hm Hd) as (s & Hin & Hidx & Hf). exists s.
      split; [exact Hin|]. split; [rewrite Hidx; lia|exact Hf].
    + destruct (gcontrib_piece ways k m ro l Hmd) as (s0 & Hi0 & Hf0 & Hc).
      assert (Hfl : flipped l (seg_line s0)).
      { destruct Hf0 as [[_ E]|[_ E]]; [left|right]; exact E. }
      destruct ro; [| |contradiction]; destruct Hc as [E1 E2]; rewrite E1, E2; simpl.
      * split; [constructor; assumption|]. split; [exact I2|].
        intros [|i] m' ro' l' Hm Hd; simpl in Hm, Hd.
        -- injection Hm as <-. injection Hd as <- <-. exists s0. split; [left; reflexivity|].
           split; [rewrite Hi0; lia|exact Hf0].
        -- destruct (I3 i m' ro' l' Hm Hd) as (s & Hin & Hidx & Hf). exists s.
           split; [destruct ro'; [right|..]; exact Hin|]. split; [rewrite Hidx; lia|exact Hf].
      * split; [exact I1|]. split; [constructor; assumption|].
        intros [|i] m' ro' l' Hm Hd; simpl in Hm, Hd.
        -- injection Hm as <-. injection Hd as <- <-. exists s0. split; [left; reflexivity|].
           split; [rewrite Hi0; lia|exact Hf0].
        -- destruct (I3 i m' ro' l' Hm Hd) as (s & Hin & Hidx & Hf). exists s.
           split; [destruct ro'; [exact Hin|right; exact Hin|right; exact Hin]|]. split; [rewrite Hidx; lia|exact Hf].
Qed.

(* ---------------------------------------------------------------- from chains back to members *)
Lemma chain_member_inv : forall obs c ob, chain_rel obs c -> In ob obs ->
  exists t, In t c /\ seg_index t = seg_index (fst ob) /\ seg_rev t = seg_rev (orient ob).
Proof.
  intros obs c ob H. induction H as [o Hl|obs cur o H IH Hl Hj|obs cur o H IH Hl Hj]; intros Hin.
  - destruct Hin as [<-|[]]. exists (orient o). split; [left; reflexivity|]. destruct o as [s b]; destruct b; split; reflexivity.
  - apply in_app_or in Hin. destruct Hin as [Hin|[<-|[]]].
    + destruct (IH Hin) as (t & Ht & E). exists t. split; [apply in_or_app; left; exact Ht|exact E].
    + exists (trim_first (orient o)). split; [apply in_or_app; right; left; reflexivity|].
      destruct o as [s b]; destruct b; split; reflexivity.
  - destruct Hin as [<-|Hin].
    + exists (trim_last (orient o)). split; [left; reflexivity|]. destruct o as [s b]; destruct b; split; reflexivity.
    + destruct (IH Hin) as (t & Ht & E). exists t. split; [right; exact Ht|exact E].
Qed.

Lemma runs_sub : forall r d L l, runs r d L ->
  (forall e, In e (line_edges l) -> In e (line_edges L)) -> runs r d l.
Proof.
  intros r d L l [[H E]|[H E]] Hs; [left|right]; (split; [|exact E]); intros e He; apply H; apply Hs; exact He.
Qed.

(* one join: the member segment s (index i) of a cut ends up in a chain whose ring it runs
   around in the direction annotate writes for index i *)
Lemma segment_direction : forall (rs : list line) segs chains rs' s l,
  NoDup (concat rs) -> Forall (fun r => (3 <= length r)%nat) rs ->
  join segs = JoinOk chains -> Permutation rs' rs ->
  Forall2 (fun r c => is_ring_line r (ms_line c)) rs' chains ->
  In s segs -> len2 s ->
  ((seg_rev s = false /\ seg_line s = l) \/ (seg_rev s = true /\ seg_line s = rev l)) ->
  exists c t r, In c chains /\ In t c /\ seg_index t = seg_index s /\ In r rs /\
    runs r (way_direction (sign (shoelace (ms_line c))) t) l.
Proof.
  intros rs segs chains rs' s l Hnd Hlen Hj HP HF Hs Hl2 Hflip.
  destruct (join_conserves _ _ Hj) as (obss & HFo & HPo).
  assert (Hsc : In s (compact segs)).
  { unfold compact. apply filter_In. split; [exact Hs|]. apply Nat.ltb_lt. unfold len2 in Hl2. lia. }
  assert (Hob : exists ob, In ob (concat obss) /\ fst ob = s).
  { eapply Permutation_in in Hsc; [|symmetry; exact HPo]. apply in_map_iff in Hsc.
    destruct Hsc as (ob & E & Hin). exists ob. split; assumption. }
  destruct Hob as ([s' b] & Hob & Es). simpl in Es. subst s'.
  apply in_concat in Hob. destruct Hob as (obs & Hobs & Hin).
  destruct (Forall2_in_l _ _ _ obs HFo Hobs) as (c & Hc & Hcr).
  destruct (Forall2_in_r _ _ _ c HF Hc) as (r & Hr' & Hrl).
  assert (Hr : In r rs) by (eapply Permutation_in; [exact HP|exact Hr']).
  destruct (chain_member_inv obs c (s, b) Hcr Hin) as (t & Ht & Eidx & Erev).
  exists c, t, r. split; [exact Hc|]. split; [exact Ht|]. split; [exact Eidx|]. split; [exact Hr|].
  assert (H3 : (3 <= length r)%nat) by (rewrite Forall_forall in Hlen; apply Hlen; exact Hr).
  pose proof (ring_line_runs r _ ltac:(lia) Hrl) as HL.
  set (D := sign (shoelace (ms_line c))) in *.
  assert (Ho : runs r D (seg_line (orient (s, b)))).
  { apply (runs_sub r D (ms_line c)); [exact HL|]. intros e He.
    rewrite (chain_edges _ _ Hcr). apply in_flat_map. exists (s, b). split; [exact Hin|exact He]. }
  unfold way_direction. rewrite Erev. unfold orient in *. cbn [fst snd] in *.
  destruct b; cbn [seg_reverse seg_rev seg_line] in *.
  - (* reversed by join *)
    destruct Hflip as [[Er El]|[Er El]]; rewrite Er; cbn [negb].
    + rewrite El in Ho. apply runs_rev in Ho. rewrite rev_involutive in Ho. exact Ho.
    + rewrite El, rev_involutive in Ho. exact Ho.
  - destruct Hflip as [[Er El]|[Er El]]; rewrite Er.
    + rewrite El in Ho. exact Ho.
    + rewrite El in Ho. apply runs_rev in Ho. rewrite rev_involutive in Ho. exact Ho.
Qed.

(* ---------------------------------------------------------------- the member-level theorem *)
Definition rings_of_role (ros rhs : list line) (ro : role) : list line :=
  match ro with Outer => ros | _ => rhs end.

Theorem annotate_members_truthful : forall members ways ds ros rhs os t,
  NoDup (concat ros) -> Forall (fun r => (3 <= length r)%nat) ros ->
  NoDup (concat rhs) -> Forall (fun r => (3 <= length r)%nat) rhs ->
  (forall r, In r (ros ++ rhs) -> shoelace (close_ring r) <> 0) ->
  Forall2 (amember_ok ways) members ds ->
  is_cut_lines (map close_ring ros) (outer_lines ds) ->
  is_cut_lines (map close_ring rhs) (inner_lines ds) ->
  annotate_orientation members ways = Some (os, t) ->
  forall i m ro l, nth_error members i = Some m -> nth_error ds i = Some (MPiece ro l) ->
    exists r d, In r (rings_of_role ros rhs ro) /\ runs r d l /\ nth i os 0 = d.
Proof.
  intros members ways ds ros rhs os t Hndo Hleno Hndi Hleni Harea Hok Hco Hci Ha i m ro l Hm Hd.
  destruct (group_described ways members ds 0 Hok) as (Fo & Fi & Hseg). cbn zeta in Fo, Fi, Hseg.
  destruct (group_fold ways members 0 empty_grp) as (E1 & E2). cbn zeta in E1, E2. simpl in E1, E2.
  change (fold_left (group_step ways) (index_from 0 members) empty_grp) with (group members ways) in E1, E2.
  rewrite <- E1 in Fo, Hseg. rewrite <- E2 in Fi, Hseg.
  set (g := group members ways) in *.
  assert (Hco' : is_cut (map close_ring ros) (grp_outer g)).
  { apply is_cut_iff. apply (is_cut_lines_rev_some _ [] _ _ Fo). exact Hco. }
  assert (Hci' : is_cut (map close_ring rhs) (grp_inner g)).
  { apply is_cut_iff. apply (is_cut_lines_rev_some _ [] _ _ Fi). exact Hci. }
  destruct (annotate_orientation_recovers members ways ros rhs os t Hndo Hleno Hndi Hleni Harea Hco' Hci' Ha)
    as (outers & inners & ros' & rhs' & Ho & Hi & Pro & Pri & Fro & Fri & Hval).
  destruct (Hseg i m ro l Hm Hd) as (s & Hs & Hidx & Hflip). simpl in Hidx.
  assert (Hro : ro = Outer \/ ro = Inner).
  { assert (Hin : In (MPiece ro l) ds) by (eapply nth_error_In; exact Hd).
    destruct (Forall2_in_r _ _ _ _ Hok Hin) as (m' & _ & Hm'). destruct Hm' as (_ & _ & Hne & _).
    destruct ro; [left; reflexivity|right; reflexivity|congruence]. }
  assert (Gen : forall rs segs chains rs',
            NoDup (concat rs) -> Forall (fun r => (3 <= length r)%nat) rs -> is_cut (map close_ring rs) segs ->
            join segs = JoinOk chains -> Permutation rs' rs ->
            Forall2 (fun r c => is_ring_line r (ms_line c)) rs' chains -> In s segs ->
            (forall c, In c chains -> In c (outers ++ inners)) ->
            exists r d, In r rs /\ runs r d l /\ nth i os 0 = d).
  { intros rs segs chains rs' Hnd Hlen Hcut Hj HP HF Hin Hsub.
    assert (Hl2 : len2 s).
    { pose proof (is_cut_len2 _ _ Hcut) as Hall. rewrite Forall_forall in Hall. apply Hall. exact Hin. }
    destruct (segment_direction rs segs chains rs' s l Hnd Hlen Hj HP HF Hin Hl2 Hflip)
      as (c & tt & r & Hc & Ht & Eidx & Hr & Hrun).
    exists r, (way_direction (sign (shoelace (ms_line c))) tt). split; [exact Hr|]. split; [exact Hrun|].
    rewrite <- (Hval c tt (Hsub c Hc) Ht). f_equal. unfold idx. rewrite Eidx, Hidx. symmetry. apply Nat2Z.id. }
  destruct Hro as [-> | ->]; simpl.
  - apply (Gen ros (grp_outer g) outers ros'); try assumption.
    intros c Hc. apply in_or_app. left. exact Hc.
  - apply (Gen rhs (grp_inner g) inners rhs'); try assumption.
    intros c Hc. apply in_or_app. right. exact Hc.
Qed.

(* the members as annotate leaves them satisfy theorem 8's [mem_truthful] *)
Definition set_orient (m : member) (o : Z) : member :=
  mkMem (mem_is_way m) (mem_ref m) (mem_role m) o (mem_nodes m).

Corollary annotated_members_mem_truthful : forall members ways ds ros rhs os t,
  NoDup (concat ros) -> Forall (fun r => (3 <= length r)%nat) ros ->
  NoDup (concat rhs) -> Forall (fun r => (3 <= length r)%nat) rhs ->
  (forall r, In r (ros ++ rhs) -> shoelace (close_ring r) <> 0) ->
  Forall2 (amember_ok ways) members ds ->
  is_cut_lines (map close_ring ros) (outer_lines ds) ->
  is_cut_lines (map close_ring rhs) (inner_lines ds) ->
  annotate_orientation members ways = Some (os, t) ->
  forall i m ro l, nth_error members i = Some m -> nth_error ds i = Some (MPiece ro l) ->
    mem_truthful (rings_of_role ros rhs ro) (set_orient m (nth i os 0)) l.
Proof.
  intros members ways ds ros rhs os t H1 H2 H3 H4 H5 H6 H7 H8 H9 i m ro l Hm Hd.
  destruct (annotate_members_truthful members ways ds ros rhs os t H1 H2 H3 H4 H5 H6 H7 H8 H9 i m ro l Hm Hd)
    as (r & d & Hr & Hrun & E).
  right. exists r, d. split; [exact Hr|]. split; [exact Hrun|exact E].
Qed.
