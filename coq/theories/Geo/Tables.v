(* Geo/Tables.v — the decision structure of the model as data, so that the translator's output
   (gen/GenMputil.v, regenerated from /repo on every run) can be compared with it:
   the four cases of Join's range loop as a table with an interpreter proved equal to
   [match_seg] / [apply_fit]. *)
From Coq Require Import ZArith List Bool.
From Verif Require Import Geo.Model.
Import ListNotations.
Open Scope Z_scope.

Record join_case := mkCase {
  jc_chain_last : bool;   (* the chain end compared: last (true) / first *)
  jc_seg_first : bool;    (* with segment.First() (true) / segment.Last() *)
  jc_reverse : bool;      (* segment.Reverse() *)
  jc_trim_first : bool;   (* Line[1:] (true) / Line[:len-1] *)
  jc_append : bool }.     (* appended at the end (true) / put in front *)

Definition join_cases : list join_case :=
  [mkCase true true false true true;       (* nice fit at the end of current *)
   mkCase true false true true true;       (* reverse it and it'll fit at the end *)
   mkCase false false false false false;   (* nice fit at the start of current *)
   mkCase false true true false false].    (* reverse it and it'll fit at the start *)

Definition case_tuple (c : join_case) : bool * bool * bool * bool * bool :=
  (jc_chain_last c, jc_seg_first c, jc_reverse c, jc_trim_first c, jc_append c).

Definition case_matches (first last : point) (s : segment) (c : join_case) : bool :=
  pt_eqb (if jc_chain_last c then last else first)
         (if jc_seg_first c then seg_first s else seg_last s).

Definition case_apply (cur : multisegment) (s : segment) (c : join_case) : multisegment :=
  let s' := if jc_reverse c then seg_reverse s else s in
  let t := set_line s' (if jc_trim_first c then tl (seg_line s') else removelast (seg_line s')) in
  if jc_append c then cur ++ [t] else t :: cur.

Fixpoint first_case (first last : point) (s : segment) (cs : list join_case) : option join_case :=
  match cs with
  | [] => None
  | c :: r => if case_matches first last s c then Some c else first_case first last s r
  end.

(* the model's four-way test and its effect are the table, read top to bottom *)
Theorem match_seg_is_table : forall cur first last s,
  option_map (apply_fit cur s) (match_seg first last s) =
  option_map (case_apply cur s) (first_case first last s join_cases).
Proof.
  intros cur first last s. unfold match_seg, join_cases, first_case, case_matches. cbn [jc_chain_last jc_seg_first].
  destruct (pt_eqb last (seg_first s)); [reflexivity|].
  destruct (pt_eqb last (seg_last s)); [reflexivity|].
  destruct (pt_eqb first (seg_last s)); [reflexivity|].
  destruct (pt_eqb first (seg_first s)); reflexivity.
Qed.

(* MultiSegment.Ring's three tests, as the model uses them *)
Definition ring_annotated (orientation : Z) : bool := negb (orientation =? 0).
Definition ring_says_reversed (orientation o : Z) (reversed : bool) : bool :=
  Bool.eqb (orientation =? o) reversed.
Definition ring_reverse (have_orient reversed : bool) (ring_orient o : Z) : bool :=
  (have_orient && reversed) || (negb have_orient && negb (ring_orient =? o)).

Theorem ring_of_is_tests : forall o ms,
  ring_of o ms =
  let ring := ms_line ms in
  let have := existsb (fun s => ring_annotated (seg_orient s)) ms in
  let reversed := existsb (fun s => ring_annotated (seg_orient s) &&
                                    ring_says_reversed (seg_orient s) o (seg_rev s)) ms in
  if ring_reverse have reversed (ring_orientation ring) o then rev ring else ring.
Proof. reflexivity. Qed.
