(* Geo/Invalid.v — addToMultiPolygon on ARBITRARY input (malformed relations included): what is
   kept and what is dropped, with and without IncludeInvalidPolygons. *)
From Coq Require Import ZArith List Bool Lia Arith.
From Verif Require Import Geo.Model Geo.Holes Geo.Assign.
Import ListNotations.
Open Scope nat_scope.

Lemma add_first_some : forall test mp ring mp', add_first test mp ring = Some mp' ->
  exists k poly, @nth_error polygon mp k = Some poly /\ test poly = true /\
    (forall j p, j < k -> @nth_error polygon mp j = Some p -> test p = false) /\
    mp' = upd k (poly ++ [ring]) mp.
Proof.
  intros test mp ring. induction mp as [|a mp IH]; intros mp' H; simpl in H; [discriminate|].
  destruct (test a) eqn:Ea.
  - inversion H; subst. exists 0, a. split; [reflexivity|]. split; [exact Ea|]. split; [intros; lia|reflexivity].
  - destruct (add_first test mp ring) as [rest|] eqn:Er; [|discriminate]. inversion H; subst.
    destruct (IH rest eq_refl) as (k & poly & Hk & Ht & Hb & E). exists (S k), poly.
    split; [exact Hk|]. split; [exact Ht|]. split.
    + intros [|j] p Hj Hp; simpl in Hp; [inversion Hp; subst; exact Ea|apply (Hb j p); [lia|exact Hp]].
    + rewrite E. reflexivity.
Qed.

Lemma add_first_none : forall test mp ring, add_first test mp ring = None <->
  (forall p, In p mp -> test p = false).
Proof.
  intros test mp ring. induction mp as [|a mp IH]; simpl.
  - split; [intros _ p []|reflexivity].
  - destruct (test a) eqn:Ea.
    + split; [discriminate|]. intros H. rewrite (H a (or_introl eq_refl)) in Ea. discriminate.
    + destruct (add_first test mp ring) as [rest|].
      * split; [discriminate|]. intros H. exfalso.
        assert (X : Some rest = None) by (apply IH; intros p Hp; apply H; right; exact Hp).
        discriminate X.
      * split; [|reflexivity]. intros _ p [<-|Hp]; [exact Ea|]. apply (proj1 IH eq_refl p Hp).
Qed.

(* some polygon's first ring contains the ring *)
Definition contains_in (mp : multipolygon) (ring : line) : bool :=
  existsb (fun poly => polygon_contains (hd [] poly) ring) mp.

(* number of rings that are not first rings *)
Definition holes_total (mp : multipolygon) : nat := length (concat (map (@tl line) mp)).

Definition nonempty_polys (mp : multipolygon) : Prop := Forall (fun p : polygon => p <> []) mp.

(* the three outcomes of addToMultiPolygon, for every input *)
Theorem add_cases : forall incl mp ring,
  let res := add_to_multipolygon incl mp ring in
  (contains_in mp ring = true /\
   exists k poly, @nth_error polygon mp k = Some poly /\ polygon_contains (hd [] poly) ring = true /\
     (forall j p, j < k -> @nth_error polygon mp j = Some p -> polygon_contains (hd [] p) ring = false) /\
     res = upd k (poly ++ [ring]) mp) \/
  (contains_in mp ring = false /\ incl = false /\ res = mp) \/
  (contains_in mp ring = false /\ incl = true /\
   ((exists k poly, @nth_error polygon mp k = Some poly /\ res = upd k (poly ++ [ring]) mp /\
       ((k = 0 /\ hd [] poly <> [] /\ closedb (hd [] poly) = false) \/ hd [] poly = [])) \/
    res = mp ++ [[[]; ring]])).
Proof.
  intros incl mp ring. cbn zeta. unfold add_to_multipolygon.
  destruct (add_first (fun poly => polygon_contains (hd [] poly) ring) mp ring) as [mp'|] eqn:E.
  - left. destruct (add_first_some _ _ _ _ E) as (k & poly & Hk & Ht & Hb & Em). split.
    + unfold contains_in. apply existsb_exists. exists poly. split; [eapply nth_error_In; exact Hk|exact Ht].
    + exists k, poly. repeat split; assumption.
  - right. assert (Hc : contains_in mp ring = false).
    { unfold contains_in. apply Bool.not_true_is_false. intro Ex.
      apply existsb_exists in Ex. destruct Ex as (p & Hp & Ht).
      rewrite (proj1 (add_first_none (fun poly => polygon_contains (hd [] poly) ring) mp ring) E p Hp) in Ht. discriminate. }
    destruct incl; [right|left; split; [exact Hc|split; reflexivity]].
    split; [exact Hc|]. split; [reflexivity|]. cbn [negb].
    destruct mp as [|p0 rest]; [right; reflexivity|].
    destruct (negb (Nat.eqb (length (hd [] p0)) 0) && negb (pt_eqb (lfirst (hd [] p0)) (llast (hd [] p0)))) eqn:C.
    + left. exists 0, p0. split; [reflexivity|]. split; [reflexivity|]. left.
      apply andb_true_iff in C. destruct C as [C1 C2]. split; [reflexivity|]. split.
      * intro E0. rewrite E0 in C1. discriminate.
      * unfold closedb. destruct (pt_eqb _ _); [discriminate|reflexivity].
    + destruct (add_first (fun poly => Nat.eqb (length (hd [] poly)) 0) (p0 :: rest) ring) as [mp'|] eqn:E2.
      * left. destruct (add_first_some _ _ _ _ E2) as (k & poly & Hk & Ht & _ & Em).
        exists k, poly. split; [exact Hk|]. split; [exact Em|]. right.
        apply Nat.eqb_eq in Ht. destruct (hd [] poly); [reflexivity|discriminate].
      * right. reflexivity.
Qed.

Lemma holes_total_app_new : forall mp ring, holes_total (mp ++ [[[]; ring]]) = S (holes_total mp).
Proof.
  intros mp ring. unfold holes_total. rewrite map_app, concat_app, app_length.
  change (length (concat (map (@tl line) [[[]; ring]]))) with 1. rewrite Nat.add_1_r. reflexivity.
Qed.

(* one call: nothing that was there is lost; the ring is kept exactly once iff some first ring
   contains it or IncludeInvalidPolygons is set; otherwise nothing changes *)
Theorem add_keeps : forall incl mp ring, nonempty_polys mp ->
  let res := add_to_multipolygon incl mp ring in
  nonempty_polys res /\
  holes_total res = holes_total mp + (if contains_in mp ring || incl then 1 else 0) /\
  (forall k poly, @nth_error polygon mp k = Some poly ->
     exists poly', @nth_error polygon res k = Some poly' /\ (poly' = poly \/ poly' = poly ++ [ring])) /\
  (incl = false -> map (hd []) res = map (hd []) mp).
Proof.
  intros incl mp ring Hne. cbn zeta.
  assert (Hupd : forall k poly, @nth_error polygon mp k = Some poly ->
    nonempty_polys (upd k (poly ++ [ring]) mp) /\
    holes_total (upd k (poly ++ [ring]) mp) = S (holes_total mp) /\
    (forall j p, @nth_error polygon mp j = Some p ->
       exists p', @nth_error polygon (upd k (poly ++ [ring]) mp) j = Some p' /\ (p' = p \/ p' = p ++ [ring])) /\
    map (hd []) (upd k (poly ++ [ring]) mp) = map (hd []) mp).
  { intros k poly Hk.
    assert (Hklt : k < length mp) by (apply nth_error_Some; rewrite Hk; discriminate).
    assert (Hp : poly <> []) by (unfold nonempty_polys in Hne; rewrite Forall_forall in Hne; apply Hne; eapply nth_error_In; exact Hk).
    split; [|split; [|split]].
    - unfold nonempty_polys, upd. apply Forall_app. split.
      + apply Forall_forall. intros x Hx. unfold nonempty_polys in Hne. rewrite Forall_forall in Hne.
        apply Hne. rewrite <- (firstn_skipn k mp). apply in_or_app. left. exact Hx.
      + constructor; [intro E; apply app_eq_nil in E; destruct E; discriminate|].
        apply Forall_forall. intros x Hx. unfold nonempty_polys in Hne. rewrite Forall_forall in Hne.
        apply Hne. rewrite <- (firstn_skipn (S k) mp). apply in_or_app. right. exact Hx.
    - unfold holes_total. apply upd_tl_count; assumption.
    - intros j p Hj. destruct (Nat.eq_dec j k) as [->|Hjk].
      + rewrite upd_nth_same by exact Hklt. exists (poly ++ [ring]). split; [reflexivity|].
        right. rewrite Hk in Hj. inversion Hj. reflexivity.
      + rewrite upd_nth_other by (try exact Hklt; exact Hjk). exists p. split; [exact Hj|left; reflexivity].
    - unfold upd. rewrite map_app. simpl. destruct poly as [|a poly']; [congruence|]. simpl.
      rewrite <- (firstn_skipn k mp) at 3. rewrite map_app. f_equal.
      assert (Es : skipn k mp = (a :: poly') :: skipn (S k) mp).
      { clear -Hk. revert k Hk. induction mp as [|x mp IH]; intros [|k] Hk; simpl in *; try discriminate.
        - inversion Hk; reflexivity.
        - apply IH. exact Hk. }
      rewrite Es. reflexivity. }
  destruct (add_cases incl mp ring) as [(Hc & k & poly & Hk & _ & _ & E)|[(Hc & Hi & E)|(Hc & Hi & [(k & poly & Hk & E & _)|E])]];
    cbn zeta in E; rewrite E, Hc.
  - destruct (Hupd k poly Hk) as (H1 & H2 & H3 & H4). cbn [orb].
    split; [exact H1|]. split; [rewrite H2, Nat.add_1_r; reflexivity|]. split; [exact H3|intros _; exact H4].
  - subst incl. cbn [orb]. split; [exact Hne|]. split; [rewrite Nat.add_0_r; reflexivity|].
    split; [|reflexivity]. intros k poly Hk. exists poly. split; [exact Hk|left; reflexivity].
  - subst incl. destruct (Hupd k poly Hk) as (H1 & H2 & H3 & H4). cbn [orb].
    split; [exact H1|]. split; [rewrite H2, Nat.add_1_r; reflexivity|]. split; [exact H3|discriminate].
  - subst incl. cbn [orb]. split; [|split; [|split]].
    + apply Forall_app. split; [exact Hne|constructor; [discriminate|constructor]].
    + rewrite holes_total_app_new, Nat.add_1_r. reflexivity.
    + intros k poly Hk. exists poly. split; [|left; reflexivity].
      rewrite nth_error_app1; [exact Hk|apply nth_error_Some; rewrite Hk; discriminate].
    + discriminate.
Qed.

Lemma contains_in_heads : forall mp mp' ring, map (hd []) mp = map (hd []) mp' ->
  contains_in mp ring = contains_in mp' ring.
Proof.
  intros mp mp' ring H. unfold contains_in.
  assert (E : forall m : multipolygon, existsb (fun poly => polygon_contains (hd [] poly) ring) m =
               existsb (fun o => polygon_contains o ring) (map (hd []) m)).
  { induction m as [|a m IH]; [reflexivity|]. simpl. rewrite IH. reflexivity. }
  rewrite !E, H. reflexivity.
Qed.

(* the whole inner loop of buildPolygon, for arbitrary rings and polygons:
   - no polygon and no ring that was there is lost or reordered; what is added to a polygon are
     rings of the list;
   - with IncludeInvalidPolygons every ring of the list is kept exactly once (possibly in a new
     polygon without outer ring);
   - without it exactly the rings contained in some first ring are kept, once each, the others
     are dropped, and no polygon is created *)
Theorem add_all_kept : forall incl0 ls mp0, nonempty_polys mp0 ->
  let res := add_all incl0 mp0 ls in
  nonempty_polys res /\
  (incl0 = true -> holes_total res = holes_total mp0 + length ls) /\
  (incl0 = false -> holes_total res = holes_total mp0 + length (filter (contains_in mp0) ls) /\
                   map (hd []) res = map (hd []) mp0) /\
  (forall k poly, @nth_error polygon mp0 k = Some poly ->
     exists extra, @nth_error polygon res k = Some (poly ++ extra) /\ List.incl extra ls).
Proof.
  intros incl0 ls. induction ls as [|l ls IH]; intros mp0 Hne.
  - simpl. split; [exact Hne|]. split; [intros _; rewrite Nat.add_0_r; reflexivity|].
    split; [intros _; split; [rewrite Nat.add_0_r; reflexivity|reflexivity]|].
    intros k poly Hk. exists []. rewrite app_nil_r. split; [exact Hk|intros x []].
  - cbn zeta. change (add_all incl0 mp0 (l :: ls)) with (add_all incl0 (add_to_multipolygon incl0 mp0 l) ls).
    destruct (add_keeps incl0 mp0 l Hne) as (Hne1 & Hcnt1 & Hpre1 & Hhd1).
    destruct (IH (add_to_multipolygon incl0 mp0 l) Hne1) as (Hne2 & Ht & Hf & Hpre2).
    split; [exact Hne2|]. split; [|split].
    + intros Hi. subst incl0. rewrite (Ht eq_refl), Hcnt1, orb_true_r. cbn [length].
      rewrite <- Nat.add_assoc. reflexivity.
    + intros Hi. subst incl0. destruct (Hf eq_refl) as [Hc Hh]. rewrite Hc, Hcnt1, orb_false_r.
      rewrite (Hhd1 eq_refl) in Hh. split; [|exact Hh].
      assert (Ef : filter (contains_in (add_to_multipolygon false mp0 l)) ls = filter (contains_in mp0) ls).
      { apply filter_ext. intros r. apply contains_in_heads. apply Hhd1. reflexivity. }
      rewrite Ef. cbn [filter]. destruct (contains_in mp0 l); cbn [length].
      * rewrite <- Nat.add_assoc. reflexivity.
      * rewrite Nat.add_0_r. reflexivity.
    + intros k poly Hk. destruct (Hpre1 k poly Hk) as (poly' & Hk' & Hp').
      destruct (Hpre2 k poly' Hk') as (extra & Hk2 & Hinc).
      destruct Hp' as [->| ->].
      * exists extra. split; [exact Hk2|]. intros x Hx. right. apply Hinc. exact Hx.
      * exists (l :: extra). rewrite <- app_assoc in Hk2. split; [exact Hk2|].
        intros x [<-|Hx]; [left; reflexivity|right; apply Hinc; exact Hx].
Qed.
