(* Geo/Rings.v — a closed walk whose undirected edges are distinct edges of vertex-disjoint simple
   rings runs through exactly one ring, once: it is that ring from some start vertex, forwards or
   backwards.  With conservation of edges this gives join_closes_rings. *)
From Coq Require Import ZArith List Bool Lia Arith Permutation.
From Verif Require Import Geo.Model Geo.JoinProofs Geo.Conserve Geo.Closes Geo.Cut Geo.Edges Geo.Annotate.
Import ListNotations.
Open Scope nat_scope.

(* ---------------------------------------------------------------- rings as index cycles *)
Definition close_ring (r : line) : line := r ++ [hd origin r].
Definition rot {A} (k : nat) (l : list A) : list A := skipn k l ++ firstn k l.
Definition pnth (i : nat) (l : line) : point := nth i l origin.

(* successor index on a cycle of n *)
Definition si (n i : nat) : nat := if Nat.eqb (S i) n then 0 else S i.

(* v is the successor of u on the ring r *)
Definition step (r : line) (u v : point) : Prop :=
  exists i, i < length r /\ u = pnth i r /\ v = pnth (si (length r) i) r.

Lemma NoDup_pnth_inj : forall r i j, NoDup r -> i < length r -> j < length r ->
  pnth i r = pnth j r -> i = j.
Proof. intros r i j H Hi Hj E. unfold pnth in E. apply (proj1 (NoDup_nth r origin) H i j Hi Hj E). Qed.

Lemma si_lt : forall n i, i < n -> si n i < n.
Proof. intros n i H. unfold si. destruct (Nat.eqb_spec (S i) n); lia. Qed.

Lemma si_inj : forall n i j, i < n -> j < n -> si n i = si n j -> i = j.
Proof.
  intros n i j Hi Hj E. revert E. unfold si.
  destruct (Nat.eqb_spec (S i) n), (Nat.eqb_spec (S j) n); intro E; lia.
Qed.

Lemma step_fun : forall r u v v', NoDup r -> step r u v -> step r u v' -> v = v'.
Proof.
  intros r u v v' H (i & Hi & Eu & Ev) (j & Hj & Eu' & Ev').
  assert (i = j) by (apply (NoDup_pnth_inj r); try assumption; congruence). subst j. congruence.
Qed.

Lemma step_inj : forall r u u' v, NoDup r -> step r u v -> step r u' v -> u = u'.
Proof.
  intros r u u' v H (i & Hi & Eu & Ev) (j & Hj & Eu' & Ev').
  assert (E : si (length r) i = si (length r) j).
  { apply (NoDup_pnth_inj r); try assumption; try (apply si_lt; assumption). congruence. }
  apply si_inj in E; try assumption. subst j. congruence.
Qed.

Lemma step_irrefl2 : forall r u v, NoDup r -> 3 <= length r -> step r u v -> step r v u -> False.
Proof.
  intros r u v H Hn (i & Hi & Eu & Ev) (j & Hj & Ev' & Eu').
  assert (E1 : j = si (length r) i).
  { apply (NoDup_pnth_inj r); try assumption; [apply si_lt; assumption|congruence]. }
  assert (E2 : i = si (length r) j).
  { apply (NoDup_pnth_inj r); try assumption; [apply si_lt; assumption|congruence]. }
  revert E1 E2. unfold si.
  destruct (Nat.eqb_spec (S i) (length r)), (Nat.eqb_spec (S j) (length r)); intros E1 E2; lia.
Qed.

(* closed form of the iterated successor, without mod: valid for j <= n *)
Fixpoint iter_si (n j s : nat) : nat :=
  match j with O => s | S j' => si n (iter_si n j' s) end.

Lemma iter_si_closed : forall n j s, s < n -> j <= n ->
  iter_si n j s = if Nat.ltb (s + j) n then s + j else s + j - n.
Proof.
  intros n j s Hs. induction j as [|j IH]; intros Hj.
  - simpl. replace (s + 0) with s by lia. destruct (Nat.ltb_spec s n); lia.
  - simpl. rewrite IH by lia. unfold si.
    destruct (Nat.ltb_spec (s + j) n); destruct (Nat.ltb_spec (s + S j) n).
    + destruct (Nat.eqb_spec (S (s + j)) n); lia.
    + destruct (Nat.eqb_spec (S (s + j)) n); lia.
    + lia.
    + destruct (Nat.eqb_spec (S (s + j - n)) n); lia.
Qed.

Lemma iter_si_lt : forall n j s, s < n -> iter_si n j s < n.
Proof. intros n j s H. induction j; simpl; [assumption|apply si_lt; assumption]. Qed.

(* ---------------------------------------------------------------- lines by index *)
Lemma line_edges_length : forall l, length (line_edges l) = pred (length l).
Proof.
  induction l as [|a l IH]; [reflexivity|]. destruct l as [|b l']; [reflexivity|].
  change (line_edges (a :: b :: l')) with ((a, b) :: line_edges (b :: l')).
  simpl length in *. rewrite IH. reflexivity.
Qed.

Lemma line_edges_nth : forall l j, S j < length l ->
  nth j (line_edges l) (origin, origin) = (pnth j l, pnth (S j) l).
Proof.
  induction l as [|a l IH]; intros j H; [simpl in H; lia|].
  destruct l as [|b l']; [simpl in H; lia|].
  change (line_edges (a :: b :: l')) with ((a, b) :: line_edges (b :: l')).
  destruct j as [|j]; [reflexivity|].
  simpl nth at 1. rewrite IH by (simpl in *; lia). reflexivity.
Qed.

Lemma nth_skipn_add : forall {A} s (l : list A) j d, nth j (skipn s l) d = nth (s + j) l d.
Proof.
  intros A s. induction s as [|s IH]; intros l j d; [reflexivity|].
  destruct l as [|a l]; [destruct j; reflexivity|]. simpl. apply IH.
Qed.
Lemma nth_firstn_lt : forall {A} s (l : list A) j d, j < s -> nth j (firstn s l) d = nth j l d.
Proof.
  intros A s. induction s as [|s IH]; intros l j d H; [lia|].
  destruct l as [|a l]; [reflexivity|]. destruct j as [|j]; [reflexivity|]. simpl. apply IH. lia.
Qed.

Lemma hd_rot : forall s (r : line), s < length r -> hd origin (rot s r) = nth s r origin.
Proof.
  intros s r H. unfold rot.
  assert (Hsk : skipn s r <> []).
  { intro E0. pose proof (skipn_length s r) as Hl0. rewrite E0 in Hl0. simpl in Hl0. lia. }
  rewrite <- (firstn_skipn s r) at 3. rewrite app_nth2 by (rewrite firstn_length; lia).
  rewrite firstn_length. replace (s - Nat.min s (length r)) with 0 by lia.
  destruct (skipn s r) as [|x t]; [congruence|reflexivity].
Qed.

(* ---------------------------------------------------------------- the forward walk *)
Section Forward.
  Variable r : line.
  Hypothesis Hnd : NoDup r.
  Hypothesis Hn : 3 <= length r.
  Let n := length r.

  Variable L : line.
  Variable m : nat.
  Hypothesis Hlen : length L = S m.
  Hypothesis Hm : 1 <= m.
  Hypothesis Hclosed : pnth 0 L = pnth m L.
  Hypothesis Hsteps : forall j, j < m -> step r (pnth j L) (pnth (S j) L).
  Hypothesis Hedges : NoDup (map uedge (line_edges L)).

  Lemma fwd_index : exists s, s < n /\ forall j, j <= m -> pnth j L = pnth (iter_si n j s) r.
  Proof.
    destruct (Hsteps 0 ltac:(lia)) as (s & Hs & E0 & _).
    exists s. split; [exact Hs|]. induction j as [|j IH]; intros Hj; [exact E0|].
    destruct (Hsteps j ltac:(lia)) as (i & Hi & Eu & Ev).
    rewrite IH in Eu by lia.
    assert (i = iter_si n j s).
    { symmetry. apply (NoDup_pnth_inj r); try assumption. apply iter_si_lt. exact Hs. }
    subst i. exact Ev.
  Qed.

  Lemma fwd_m_le_n : forall s, s < n -> (forall j, j <= m -> pnth j L = pnth (iter_si n j s) r) -> m <= n.
  Proof.
    intros s Hs Hidx. destruct (le_lt_dec m n) as [H|H]; [exact H|exfalso].
    (* edges 0 and n coincide *)
    assert (E : nth 0 (map uedge (line_edges L)) (uedge (origin, origin)) =
                nth n (map uedge (line_edges L)) (uedge (origin, origin))).
    { rewrite !map_nth. rewrite !line_edges_nth by lia.
      rewrite (Hidx 0), (Hidx 1), (Hidx n), (Hidx (S n)) by lia.
      assert (En : iter_si n n s = s).
      { rewrite iter_si_closed by lia. destruct (Nat.ltb_spec (s + n) n); lia. }
      simpl iter_si. rewrite En. reflexivity. }
    apply (proj1 (NoDup_nth _ _) Hedges) in E; [unfold n in *; lia| |];
      rewrite map_length, line_edges_length, Hlen; simpl; lia.
  Qed.

  Theorem forward_walk_is_ring : exists s, s < n /\ L = close_ring (rot s r).
  Proof.
    destruct fwd_index as (s & Hs & Hidx). exists s. split; [exact Hs|].
    pose proof (fwd_m_le_n s Hs Hidx) as Hle.
    assert (Hmn : m = n).
    { pose proof (Hidx m (le_n m)) as Em. rewrite <- Hclosed, (Hidx 0 ltac:(lia)) in Em. simpl in Em.
      apply (NoDup_pnth_inj r) in Em; [|assumption|exact Hs|apply iter_si_lt; exact Hs].
      rewrite iter_si_closed in Em by lia.
      destruct (Nat.ltb_spec (s + m) n); lia. }
    subst m.
    assert (Hrl : length (rot s r) = n) by (unfold rot; rewrite app_length, skipn_length, firstn_length; unfold n; lia).
    apply (nth_ext _ _ origin origin).
    - unfold close_ring. rewrite app_length, Hrl, Hlen. simpl. lia.
    - intros j Hj. rewrite Hlen in Hj. fold (pnth j L). rewrite (Hidx j) by lia.
      rewrite iter_si_closed by lia. unfold close_ring, rot, pnth.
      destruct (Nat.eq_dec j n) as [->|Hne].
      + (* the closing vertex *)
        change (skipn s r ++ firstn s r) with (rot s r).
        rewrite app_nth2 by (rewrite Hrl; lia).
        rewrite Hrl, Nat.sub_diag. cbn [nth]. rewrite hd_rot by exact Hs.
        destruct (Nat.ltb_spec (s + n) n); [lia|].
        replace (s + n - n) with s by lia. reflexivity.
      + rewrite app_nth1 by (fold (rot s r); rewrite Hrl; lia).
        destruct (Nat.ltb_spec (s + j) n) as [E|E].
        * rewrite app_nth1 by (rewrite skipn_length; unfold n in *; lia).
          rewrite nth_skipn_add. reflexivity.
        * rewrite app_nth2 by (rewrite skipn_length; unfold n in *; lia).
          rewrite skipn_length. rewrite nth_firstn_lt by (unfold n in *; lia).
          f_equal. unfold n in *. lia.
  Qed.
End Forward.

(* ---------------------------------------------------------------- ring edges and steps *)
Definition ringE (r : line) : list (point * point) := line_edges (close_ring r).

Lemma pnth_in : forall i (r : line), i < length r -> In (pnth i r) r.
Proof. intros i r H. unfold pnth. apply nth_In. exact H. Qed.

Lemma step_in_l : forall r u v, step r u v -> In u r.
Proof. intros r u v (i & Hi & -> & _). apply pnth_in. exact Hi. Qed.
Lemma step_in_r : forall r u v, step r u v -> In v r.
Proof. intros r u v (i & Hi & _ & ->). apply pnth_in. apply si_lt. exact Hi. Qed.

Lemma close_ring_length : forall r, length (close_ring r) = S (length r).
Proof. intros r. unfold close_ring. rewrite app_length. simpl. lia. Qed.

Lemma ringE_step : forall r u v, In (u, v) (ringE r) -> step r u v.
Proof.
  intros r u v H. unfold ringE in H.
  apply (In_nth _ _ (origin, origin)) in H. destruct H as (j & Hj & E).
  rewrite line_edges_length, close_ring_length in Hj. simpl in Hj.
  rewrite line_edges_nth in E by (rewrite close_ring_length; lia).
  inversion E as [[Eu Ev]]. exists j. split; [exact Hj|]. unfold close_ring, pnth. split.
  - rewrite app_nth1 by exact Hj. reflexivity.
  - unfold si. destruct (Nat.eqb_spec (S j) (length r)) as [E1|E1].
    + rewrite app_nth2 by lia. rewrite E1, Nat.sub_diag. simpl. destruct r; reflexivity.
    + rewrite app_nth1 by lia. reflexivity.
Qed.

Lemma disjoint_rings : forall (R : list line) r1 r2 u, NoDup (concat R) ->
  In r1 R -> In r2 R -> In u r1 -> In u r2 -> r1 = r2.
Proof.
  induction R as [|a R IH]; intros r1 r2 u Hnd H1 H2 U1 U2; [contradiction|].
  simpl in Hnd. destruct H1 as [->|H1], H2 as [->|H2].
  - reflexivity.
  - exfalso. apply (NoDup_app_disj _ _ u Hnd U1). apply in_concat. exists r2. split; assumption.
  - exfalso. apply (NoDup_app_disj _ _ u Hnd U2). apply in_concat. exists r1. split; assumption.
  - apply (IH r1 r2 u); try assumption. eapply NoDup_app_r. exact Hnd.
Qed.

(* an edge of the walk that is (undirected) a ring edge and touches r is a step of r *)
Lemma adjacent_in_ring : forall (R : list line) r u v, NoDup (concat R) -> In r R -> In u r ->
  In (uedge (u, v)) (map uedge (flat_map ringE R)) -> step r u v \/ step r v u.
Proof.
  intros R r u v Hnd Hr Hu H. apply in_map_iff in H. destruct H as ([a b] & He & Hin).
  apply in_flat_map in Hin. destruct Hin as (r2 & Hr2 & Hab). apply ringE_step in Hab.
  destruct (uedge_eq_cases _ _ He) as [E|E].
  - inversion E; subst a b.
    assert (r2 = r) by (apply (disjoint_rings R r2 r u Hnd Hr2 Hr); [eapply step_in_l; exact Hab|exact Hu]).
    subst r2. left. exact Hab.
  - unfold swap in E. simpl in E. inversion E; subst a b.
    assert (r2 = r) by (apply (disjoint_rings R r2 r u Hnd Hr2 Hr); [eapply step_in_r; exact Hab|exact Hu]).
    subst r2. right. exact Hab.
Qed.

(* ---------------------------------------------------------------- ring edges are distinct *)
Lemma map_fst_line_edges : forall (r : line) x, map fst (line_edges (r ++ [x])) = r.
Proof.
  induction r as [|a r IH]; intros x; [reflexivity|].
  destruct r as [|b r']; [reflexivity|].
  change ((a :: b :: r') ++ [x]) with (a :: (b :: r') ++ [x]).
  change (line_edges (a :: (b :: r') ++ [x])) with ((a, b) :: line_edges ((b :: r') ++ [x])).
  rewrite map_cons, IH. reflexivity.
Qed.

Lemma map_fst_ringE_all : forall R : list line, map fst (flat_map ringE R) = concat R.
Proof.
  induction R as [|r R IH]; [reflexivity|]. simpl. rewrite map_app, IH. f_equal.
  unfold ringE, close_ring. apply map_fst_line_edges.
Qed.

Lemma NoDup_map_inj_on : forall {A B} (f : A -> B) l,
  NoDup l -> (forall x y, In x l -> In y l -> f x = f y -> x = y) -> NoDup (map f l).
Proof.
  intros A B f l H. induction H as [|a l Hn H IH]; intros Hinj; [constructor|].
  simpl. constructor.
  - intro Hin. apply in_map_iff in Hin. destruct Hin as (y & Ey & Hy).
    assert (y = a) by (apply Hinj; [right; exact Hy|left; reflexivity|exact Ey]). subst y. contradiction.
  - apply IH. intros x y Hx Hy. apply Hinj; right; assumption.
Qed.

Lemma ring_uedges_nodup : forall R : list line, NoDup (concat R) ->
  Forall (fun r => 3 <= length r) R -> NoDup (map uedge (flat_map ringE R)).
Proof.
  intros R Hnd Hlen. apply NoDup_map_inj_on.
  - apply (NoDup_map_inv fst). rewrite map_fst_ringE_all. exact Hnd.
  - intros [a b] [c d] Hx Hy E.
    destruct (uedge_eq_cases _ _ E) as [E'|E']; [exact E'|exfalso].
    unfold swap in E'. simpl in E'. inversion E'; subst c d.
    apply in_flat_map in Hx. destruct Hx as (r1 & Hr1 & H1). apply ringE_step in H1.
    apply in_flat_map in Hy. destruct Hy as (r2 & Hr2 & H2). apply ringE_step in H2.
    assert (r1 = r2) by (apply (disjoint_rings R r1 r2 a Hnd Hr1 Hr2); [eapply step_in_l; exact H1|eapply step_in_r; exact H2]).
    subst r2. rewrite Forall_forall in Hlen.
    apply (step_irrefl2 r1 a b); try assumption.
    + pose proof (map_fst_ringE_all R) as _. 
      assert (Hsub : NoDup (concat R) -> In r1 R -> NoDup r1).
      { clear. induction R as [|x R IH]; intros Hn Hin; [contradiction|]. simpl in Hn.
        destruct Hin as [->|Hin]; [eapply NoDup_app_l; exact Hn|apply IH; [eapply NoDup_app_r; exact Hn|exact Hin]]. }
      apply Hsub; assumption.
    + apply Hlen. exact Hr1.
Qed.

Lemma ring_nodup : forall (R : list line) r, NoDup (concat R) -> In r R -> NoDup r.
Proof.
  induction R as [|x R IH]; intros r Hn Hin; [contradiction|]. simpl in Hn.
  destruct Hin as [->|Hin]; [eapply NoDup_app_l; exact Hn|apply IH; [eapply NoDup_app_r; exact Hn|exact Hin]].
Qed.

(* ---------------------------------------------------------------- a closed trail is one ring *)
Lemma pnth_rev : forall (L : line) m j, length L = S m -> j <= m -> pnth j (rev L) = pnth (m - j) L.
Proof.
  intros L m j Hl Hj. unfold pnth. rewrite rev_nth by lia. f_equal. lia.
Qed.

Lemma uedges_rev_nodup : forall L, NoDup (map uedge (line_edges L)) ->
  NoDup (map uedge (line_edges (rev L))).
Proof.
  intros L H. rewrite line_edges_rev, map_rev, map_map.
  apply NoDup_rev. erewrite map_ext; [exact H|]. intros e. apply uedge_swap.
Qed.

Section Trail.
  Variable R : list line.
  Hypothesis HndR : NoDup (concat R).
  Hypothesis HlenR : Forall (fun r => 3 <= length r) R.
  Variable r : line.
  Hypothesis Hr : In r R.

  Variable L : line.
  Variable m : nat.
  Hypothesis Hlen : length L = S m.
  Hypothesis Hm : 1 <= m.
  Hypothesis Hclosed : pnth 0 L = pnth m L.
  Hypothesis Hedges : NoDup (map uedge (line_edges L)).
  Hypothesis Hadj : forall e, In e (line_edges L) -> In (uedge e) (map uedge (flat_map ringE R)).
  Hypothesis Hstart : In (pnth 0 L) r.

  Let Hndr : NoDup r := ring_nodup R r HndR Hr.
  Let Hn : 3 <= length r := proj1 (Forall_forall _ _) HlenR r Hr.

  Lemma trail_edge_in : forall j, j < m -> In (pnth j L, pnth (S j) L) (line_edges L).
  Proof.
    intros j Hj. rewrite <- (line_edges_nth L j) by lia. apply nth_In.
    rewrite line_edges_length, Hlen. simpl. exact Hj.
  Qed.

  Lemma trail_adjacent : forall j, j < m ->
    In (pnth j L) r /\ (step r (pnth j L) (pnth (S j) L) \/ step r (pnth (S j) L) (pnth j L)).
  Proof.
    induction j as [|j IH]; intros Hj.
    - split; [exact Hstart|].
      apply (adjacent_in_ring R r _ _ HndR Hr Hstart). apply Hadj. apply trail_edge_in. exact Hj.
    - destruct (IH ltac:(lia)) as [_ Hs].
      assert (Hin : In (pnth (S j) L) r).
      { destruct Hs as [Hs|Hs]; [eapply step_in_r; exact Hs|eapply step_in_l; exact Hs]. }
      split; [exact Hin|].
      apply (adjacent_in_ring R r _ _ HndR Hr Hin). apply Hadj. apply trail_edge_in. exact Hj.
  Qed.

  Lemma no_backtrack : forall j, S j < m -> pnth (S (S j)) L <> pnth j L.
  Proof.
    intros j Hj E.
    assert (Eq : nth j (map uedge (line_edges L)) (uedge (origin, origin)) =
                 nth (S j) (map uedge (line_edges L)) (uedge (origin, origin))).
    { rewrite !map_nth, !line_edges_nth by lia. rewrite E.
      rewrite <- (uedge_swap (pnth (S j) L, pnth j L)). reflexivity. }
    apply (proj1 (NoDup_nth _ _) Hedges) in Eq; [lia| |];
      rewrite map_length, line_edges_length, Hlen; simpl; lia.
  Qed.

  Lemma all_forward : step r (pnth 0 L) (pnth 1 L) -> forall j, j < m -> step r (pnth j L) (pnth (S j) L).
  Proof.
    intros H0. induction j as [|j IH]; intros Hj; [exact H0|].
    destruct (trail_adjacent (S j) Hj) as [_ [Hs|Hs]]; [exact Hs|exfalso].
    apply (no_backtrack j Hj). eapply step_inj; [exact Hndr|exact Hs|apply IH; lia].
  Qed.

  Lemma all_backward : step r (pnth 1 L) (pnth 0 L) -> forall j, j < m -> step r (pnth (S j) L) (pnth j L).
  Proof.
    intros H0. induction j as [|j IH]; intros Hj; [exact H0|].
    destruct (trail_adjacent (S j) Hj) as [_ [Hs|Hs]]; [exfalso|exact Hs].
    apply (no_backtrack j Hj). eapply step_fun; [exact Hndr|exact Hs|apply IH; lia].
  Qed.

  Theorem closed_trail_is_ring : exists s, s < length r /\
    (L = close_ring (rot s r) \/ L = rev (close_ring (rot s r))).
  Proof.
    destruct (trail_adjacent 0 ltac:(lia)) as [_ [H0|H0]].
    - destruct (forward_walk_is_ring r Hndr Hn L m Hlen Hm Hclosed (all_forward H0) Hedges) as (s & Hs & E).
      exists s. split; [exact Hs|left; exact E].
    - pose proof (all_backward H0) as Hb.
      destruct (forward_walk_is_ring r Hndr Hn (rev L) m) as (s & Hs & E).
      + rewrite rev_length. exact Hlen.
      + exact Hm.
      + rewrite !(pnth_rev L m) by (try exact Hlen; lia). rewrite Nat.sub_diag, Nat.sub_0_r. symmetry. exact Hclosed.
      + intros j Hj. rewrite !(pnth_rev L m) by (try exact Hlen; lia).
        replace (m - j) with (S (m - S j)) by lia. apply Hb. lia.
      + apply uedges_rev_nodup. exact Hedges.
      + exists s. split; [exact Hs|right]. rewrite <- E. symmetry. apply rev_involutive.
  Qed.
End Trail.

(* ---------------------------------------------------------------- rotation keeps the edges *)
Lemma skipn_cons_nth : forall s (r : line), s < length r ->
  skipn s r = nth s r origin :: skipn (S s) r.
Proof.
  induction s as [|s IH]; intros r H; destruct r as [|a r]; simpl in H; try lia; [reflexivity|].
  simpl. apply IH. lia.
Qed.

Lemma ringE_rot : forall s (r : line), s < length r ->
  Permutation (line_edges (close_ring (rot s r))) (ringE r).
Proof.
  intros s r Hs. unfold ringE. destruct s as [|s].
  - unfold rot. simpl. rewrite app_nil_r. reflexivity.
  - set (X := firstn (S s) r ++ [nth (S s) r origin]).
    set (Y := skipn (S s) r ++ [hd origin r]).
    assert (Hf : firstn (S s) r = hd origin r :: tl (firstn (S s) r)).
    { destruct r as [|a r]; [simpl in Hs; lia|reflexivity]. }
    assert (Hsk := skipn_cons_nth (S s) r Hs).
    assert (E1 : close_ring r = X ++ tl Y).
    { unfold close_ring, X, Y. rewrite Hsk. simpl tl.
      rewrite <- (firstn_skipn (S s) r) at 1. rewrite Hsk, <- !app_assoc. reflexivity. }
    assert (E2 : close_ring (rot (S s) r) = Y ++ tl X).
    { unfold close_ring. rewrite hd_rot by exact Hs. unfold rot, X, Y.
      rewrite Hf at 2. simpl tl. rewrite Hf at 1. rewrite <- !app_assoc. reflexivity. }
    rewrite E1, E2.
    assert (HX : X <> []) by (unfold X; intro E; apply app_eq_nil in E; destruct E; discriminate).
    assert (HY : Y <> []) by (unfold Y; intro E; apply app_eq_nil in E; destruct E; discriminate).
    rewrite !line_edges_glue; try assumption.
    + apply Permutation_app_comm.
    + unfold X, Y, llast, lfirst. rewrite last_last. rewrite Hsk. reflexivity.
    + unfold X, Y, llast, lfirst. rewrite last_last. rewrite Hf. reflexivity.
Qed.

Lemma uedges_rev : forall L,
  Permutation (map uedge (line_edges (rev L))) (map uedge (line_edges L)).
Proof.
  intros L. rewrite line_edges_rev, map_rev, map_map. rewrite <- Permutation_rev.
  erewrite map_ext; [reflexivity|]. intros e. apply uedge_swap.
Qed.

Definition is_ring_line (r L : line) : Prop :=
  exists s, s < length r /\ (L = close_ring (rot s r) \/ L = rev (close_ring (rot s r))).

Lemma is_ring_line_uedges : forall r L, is_ring_line r L ->
  Permutation (map uedge (line_edges L)) (map uedge (ringE r)).
Proof.
  intros r L (s & Hs & [->| ->]).
  - apply Permutation_map. apply ringE_rot. exact Hs.
  - rewrite uedges_rev. apply Permutation_map. apply ringE_rot. exact Hs.
Qed.

Lemma last_pnth : forall (L : line), llast L = pnth (pred (length L)) L.
Proof.
  induction L as [|a L IH]; [reflexivity|]. destruct L as [|b L']; [reflexivity|].
  change (llast (a :: b :: L')) with (llast (b :: L')). rewrite IH. reflexivity.
Qed.

Lemma perm_concat : forall {A} (l l' : list (list A)), Permutation l l' ->
  Permutation (concat l) (concat l').
Proof.
  intros A l l' H. induction H; simpl.
  - reflexivity.
  - apply Permutation_app_head. assumption.
  - rewrite !app_assoc. apply Permutation_app_tail. apply Permutation_app_comm.
  - etransitivity; eassumption.
Qed.

(* ---------------------------------------------------------------- all closed trails together *)
Theorem trails_are_rings : forall (Ls : list line) (R : list line),
  NoDup (concat R) -> Forall (fun r => 3 <= length r) R ->
  Forall (fun L => 2 <= length L /\ lfirst L = llast L) Ls ->
  Permutation (map uedge (flat_map line_edges Ls)) (map uedge (flat_map ringE R)) ->
  exists R', Permutation R' R /\ Forall2 is_ring_line R' Ls.
Proof.
  induction Ls as [|L Ls IH]; intros R Hnd Hlen HL HP.
  - simpl in HP. apply Permutation_nil in HP.
    destruct R as [|r R]; [exists []; split; constructor|exfalso].
    inversion Hlen as [|x y Hr _]; subst. simpl in HP. rewrite map_app in HP.
    apply app_eq_nil in HP. destruct HP as [HP _]. apply map_eq_nil in HP.
    assert (Hl : length (ringE r) = length r).
    { unfold ringE. rewrite line_edges_length, close_ring_length. reflexivity. }
    rewrite HP in Hl. simpl in Hl. lia.
  - inversion HL as [|x y [HL2 HLc] HL']; subst.
    simpl in HP. rewrite map_app in HP.
    pose proof (ring_uedges_nodup R Hnd Hlen) as HndE.
    assert (HndL : NoDup (map uedge (line_edges L) ++ map uedge (flat_map line_edges Ls))).
    { eapply Permutation_NoDup; [symmetry; exact HP|exact HndE]. }
    set (m := pred (length L)).
    assert (Hlm : length L = S m) by (unfold m; lia).
    assert (Hm : 1 <= m) by (unfold m; lia).
    assert (Hadj : forall e, In e (line_edges L) -> In (uedge e) (map uedge (flat_map ringE R))).
    { intros e He. eapply Permutation_in; [exact HP|]. apply in_or_app. left. apply in_map. exact He. }
    (* the ring of the first vertex *)
    assert (He0 : In (pnth 0 L, pnth 1 L) (line_edges L)).
    { rewrite <- (line_edges_nth L 0) by lia. apply nth_In. rewrite line_edges_length. lia. }
    pose proof (Hadj _ He0) as H0. apply in_map_iff in H0. destruct H0 as ([a b] & Eab & Hab).
    apply in_flat_map in Hab. destruct Hab as (r & Hr & Hab). apply ringE_step in Hab.
    assert (Hstart : In (pnth 0 L) r).
    { destruct (uedge_eq_cases _ _ Eab) as [E|E]; [|unfold swap in E; simpl in E]; inversion E; subst.
      - eapply step_in_l. exact Hab.
      - eapply step_in_r. exact Hab. }
    assert (Hclosed : pnth 0 L = pnth m L).
    { unfold m. rewrite <- last_pnth. rewrite <- HLc. unfold lfirst, pnth. destruct L; reflexivity. }
    pose proof (closed_trail_is_ring R Hnd Hlen r Hr L m Hlm Hm Hclosed
                  (NoDup_app_l _ _ HndL) Hadj Hstart) as Hring.
    (* remove the ring and its edges *)
    destruct (in_split _ _ Hr) as (R1 & R2 & ER).
    assert (HPR : Permutation R (r :: R1 ++ R2)) by (rewrite ER; symmetry; apply Permutation_middle).
    assert (HPE : Permutation (map uedge (flat_map ringE R))
                              (map uedge (ringE r) ++ map uedge (flat_map ringE (R1 ++ R2)))).
    { rewrite <- map_app. apply Permutation_map.
      change (ringE r ++ flat_map ringE (R1 ++ R2)) with (flat_map ringE (r :: R1 ++ R2)).
      apply Permutation_flat_map. exact HPR. }
    assert (HP' : Permutation (map uedge (flat_map line_edges Ls)) (map uedge (flat_map ringE (R1 ++ R2)))).
    { apply (Permutation_app_inv_l (map uedge (ringE r))).
      rewrite <- HPE, <- HP. apply Permutation_app_tail. symmetry. apply is_ring_line_uedges. exact Hring. }
    assert (Hnd' : NoDup (concat (R1 ++ R2))).
    { assert (Hc : Permutation (concat R) (r ++ concat (R1 ++ R2))).
      { change (r ++ concat (R1 ++ R2)) with (concat (r :: R1 ++ R2)). apply perm_concat. exact HPR. }
      eapply NoDup_app_r. eapply Permutation_NoDup; [exact Hc|exact Hnd]. }
    assert (Hlen' : Forall (fun r => 3 <= length r) (R1 ++ R2)).
    { assert (Hf : Forall (fun r => 3 <= length r) (r :: R1 ++ R2)) by (eapply Permutation_Forall; [exact HPR|exact Hlen]).
      inversion Hf; assumption. }
    destruct (IH (R1 ++ R2) Hnd' Hlen' HL' HP') as (R' & HR' & HF).
    exists (r :: R'). split.
    + rewrite HPR. apply perm_skip. exact HR'.
    + constructor; assumption.
Qed.

(* ---------------------------------------------------------------- cuts: edges of the pieces *)
Lemma linked_of_lines : forall ps : list line, linked_lines ps -> linked (map (mkSeg 0 0 false) ps).
Proof.
  induction ps as [|a ps IH]; intros H; [exact I|]. destruct ps as [|b ps']; [exact I|].
  destruct H as [Hab H]. split; [exact Hab|]. apply IH. exact H.
Qed.

Lemma lines_of_linked : forall fs : list segment, linked fs -> linked_lines (map seg_line fs).
Proof.
  induction fs as [|a fs IH]; intros H; [exact I|]. destruct fs as [|b fs']; [exact I|].
  destruct H as [Hab H]. split; [exact Hab|]. apply IH. exact H.
Qed.

Lemma cut_edges : forall ring ps, cut_of ring ps -> flat_map line_edges ps = line_edges ring.
Proof.
  intros ring ps (Hne & Hall & Hl & Hm). rewrite <- Hm.
  destruct (merge_edges (map (mkSeg 0 0 false) ps) (linked_of_lines ps Hl)) as [E _].
  - apply Forall_map. eapply Forall_impl; [|exact Hall]. intros l Hl2. exact Hl2.
  - rewrite map_map in E. simpl in E. rewrite map_id in E. rewrite E.
    clear. induction ps as [|a ps IH]; [reflexivity|]. simpl. rewrite IH. reflexivity.
Qed.

Lemma uedges_flip : forall pl : list (line * bool),
  Permutation (map uedge (flat_map line_edges (map flip pl)))
              (map uedge (flat_map line_edges (map fst pl))).
Proof.
  induction pl as [|[l b] pl IH]; [reflexivity|].
  simpl. rewrite !map_app. apply Permutation_app; [|exact IH].
  unfold flip. simpl. destruct b; [apply uedges_rev|reflexivity].
Qed.

Lemma is_cut_uedges : forall rs segs, is_cut (map close_ring rs) segs ->
  Permutation (map uedge (flat_map seg_edges segs)) (map uedge (flat_map ringE rs)).
Proof.
  intros rs segs (_ & pss & pl & HF & Hfst & HP).
  assert (E1 : flat_map seg_edges segs = flat_map line_edges (map seg_line segs)).
  { rewrite !flat_map_concat_map, map_map. reflexivity. }
  rewrite E1. rewrite (Permutation_map uedge (Permutation_flat_map line_edges HP)).
  rewrite uedges_flip, Hfst. apply Permutation_map.
  assert (E2 : flat_map line_edges (concat pss) = flat_map ringE rs); [|rewrite E2; reflexivity].
  clear -HF. remember (map close_ring rs) as rings eqn:Er. revert rs Er.
  induction HF as [|ring ps rings pss Hc HF IH]; intros rs Er.
  - destruct rs; [reflexivity|discriminate].
  - destruct rs as [|r rs]; [discriminate|]. simpl in Er. inversion Er; subst.
    simpl. rewrite flat_map_app, (cut_edges _ _ Hc), (IH rs eq_refl). reflexivity.
Qed.

(* ---------------------------------------------------------------- chain lines *)
Lemma chain_line_shape : forall obs c, chain_rel obs c ->
  2 <= length (ms_line c) /\ lfirst (ms_line c) = ms_first c /\ llast (ms_line c) = ms_last c.
Proof.
  intros obs c H. destruct (chain_rel_ends _ _ H) as [Ef El].
  destruct (chain_rel_explicit _ _ H) as (_ & Hlk & Hall).
  destruct (chain_rel_nonempty _ _ H) as [Hne _].
  rewrite (chain_rel_line _ _ H). rewrite <- (map_map orient seg_line).
  set (fs := map orient obs).
  assert (Hfs : fs <> []) by (unfold fs; destruct obs; [congruence|discriminate]).
  assert (Hall2 : Forall (fun l : line => 2 <= length l) (map seg_line fs)).
  { unfold fs. rewrite map_map. apply Forall_map. eapply Forall_impl; [|exact Hall].
    intros ob Hob. apply (len2_orient ob Hob). }
  destruct (cut_ends (map seg_line fs)) as (C1 & C2 & _).
  - destruct fs; [congruence|discriminate].
  - exact Hall2.
  - apply lines_of_linked. exact Hlk.
  - split; [|split].
    + destruct fs as [|f fs']; [congruence|]. simpl. rewrite app_length.
      inversion Hall2; subst. lia.
    + rewrite C1, Ef. unfold fs. destruct obs; [congruence|reflexivity].
    + rewrite C2, El. unfold fs.
      change [] with (seg_line dummy_seg) at 1. rewrite last_map.
      change dummy_seg with (orient dummy_ob). rewrite last_map. reflexivity.
Qed.

Lemma Forall2_map_r : forall {A B C} (P : A -> C -> Prop) (f : B -> C) la lb,
  Forall2 P la (map f lb) -> Forall2 (fun a b => P a (f b)) la lb.
Proof.
  intros A B C P f la. induction la as [|a la IH]; intros lb H; destruct lb as [|b lb]; inversion H; subst.
  - constructor.
  - constructor; [assumption|apply IH; assumption].
Qed.

(* ---------------------------------------------------------------- join_closes_rings *)
(* rs: the rings as lists of distinct vertices (first vertex not repeated), written from one of
   their cut vertices; all vertices of the scene pairwise distinct; segs: any cut of the closed
   rings into consecutive pieces, any subset reversed, in any order.  Then the chains of join are
   in bijection with the rings, and the line of each chain is its ring: closed, from some start
   vertex, forwards or backwards — no vertex lost, duplicated or invented. *)
Theorem join_closes_rings : forall (rs : list line) segs chains,
  NoDup (concat rs) -> Forall (fun r => 3 <= length r) rs ->
  is_cut (map close_ring rs) segs -> join segs = JoinOk chains ->
  exists rs', Permutation rs' rs /\
              Forall2 (fun r c => is_ring_line r (ms_line c)) rs' chains.
Proof.
  intros rs segs chains Hnd Hlen Hcut Hj.
  pose proof (join_closes_cut _ _ _ Hcut Hj) as Hclosed.
  destruct (join_conserves _ _ Hj) as (obss & HF & _).
  pose proof (join_conserves_edges _ _ Hj) as HE.
  rewrite (compact_id segs (is_cut_len2 _ _ Hcut)) in HE.
  rewrite (is_cut_uedges rs segs Hcut) in HE.
  destruct (trails_are_rings (map ms_line chains) rs Hnd Hlen) as (rs' & HP & HF2).
  - clear -HF Hclosed. induction HF as [|obs c obss chains Hc HF IH]; [constructor|].
    inversion Hclosed; subst. simpl. constructor; [|apply IH; assumption].
    destruct (chain_line_shape _ _ Hc) as (Hlen2 & Hf & Hl). split; [exact Hlen2|].
    rewrite Hf, Hl. assumption.
  - assert (E : flat_map line_edges (map ms_line chains) =
               flat_map (fun c => line_edges (ms_line c)) chains).
    { clear. induction chains as [|c cs IH]; [reflexivity|]. simpl. rewrite IH. reflexivity. }
    rewrite E. symmetry. exact HE.
  - exists rs'. split; [exact HP|]. apply Forall2_map_r. exact HF2.
Qed.
