(* Geo/Rings.v — a closed walk whose undirected edges are distinct edges of vertex-disjoint simple
   rings runs through exactly one ring, once: it is that ring from some start vertex, forwards or
   backwards.  With conservation of edges this gives join_closes_rings. *)
From Coq Require Import ZArith List Bool Lia Arith Permutation.
From Verif Require Import Geo.Model Geo.JoinProofs Geo.Conserve Geo.Closes Geo.Cut Geo.Edges.
Import ListNotations.
Open Scope nat_scope.

(* ---------------------------------------------------------------- rings as index cycles *)
Definition close_ring (r : line) : line := r ++ [hd origin r].
Definition rot {A} (k : nat) (l : list A) : list A := skipn k l ++ firstn k l.
Definition pnth (i : nat) (l : line) : point := nth i l origin.

(* successor index on a cycle of n *)
Definition si (n i : nat) : nat := if Nat.eqb (S i) n then 0 else S i.

(* v is the successor of u on the ring r *)
Definition step (r : line) (u v : point) : Prop :=
  exists i, i < length r /\ u = pnth i r /\ v = pnth (si (length r) i) r.

Lemma NoDup_pnth_inj : forall r i j, NoDup r -> i < length r -> j < length r ->
  pnth i r = pnth j r -> i = j.
Proof. intros r i j H Hi Hj E. unfold pnth in E. apply (proj1 (NoDup_nth r origin) H i j Hi Hj E). Qed.

Lemma si_lt : forall n i, i < n -> si n i < n.
Proof. intros n i H. unfold si. destruct (Nat.eqb_spec (S i) n); lia. Qed.

Lemma si_inj : forall n i j, i < n -> j < n -> si n i = si n j -> i = j.
Proof.
  intros n i j Hi Hj E. revert E. unfold si.
  destruct (Nat.eqb_spec (S i) n), (Nat.eqb_spec (S j) n); intro E; lia.
Qed.

Lemma step_fun : forall r u v v', NoDup r -> step r u v -> step r u v' -> v = v'.
Proof.
  intros r u v v' H (i & Hi & Eu & Ev) (j & Hj & Eu' & Ev').
  assert (i = j) by (apply (NoDup_pnth_inj r); try assumption; congruence). subst j. congruence.
Qed.

Lemma step_inj : forall r u u' v, NoDup r -> step r u v -> step r u' v -> u = u'.
Proof.
  intros r u u' v H (i & Hi & Eu & Ev) (j & Hj & Eu' & Ev').
  assert (E : si (length r) i = si (length r) j).
  { apply (NoDup_pnth_inj r); try assumption; try (apply si_lt; assumption). congruence. }
  apply si_inj in E; try assumption. subst j. congruence.
Qed.

Lemma step_irrefl2 : forall r u v, NoDup r -> 3 <= length r -> step r u v -> step r v u -> False.
Proof.
  intros r u v H Hn (i & Hi & Eu & Ev) (j & Hj & Ev' & Eu').
  assert (E1 : j = si (length r) i).
  { apply (NoDup_pnth_inj r); try assumption; [apply si_lt; assumption|congruence]. }
  assert (E2 : i = si (length r) j).
  { apply (NoDup_pnth_inj r); try assumption; [apply si_lt; assumption|congruence]. }
  revert E1 E2. unfold si.
  destruct (Nat.eqb_spec (S i) (length r)), (Nat.eqb_spec (S j) (length r)); intros E1 E2; lia.
Qed.

(* closed form of the iterated successor, without mod: valid for j <= n *)
Fixpoint iter_si (n j s : nat) : nat :=
  match j with O => s | S j' => si n (iter_si n j' s) end.

Lemma iter_si_closed : forall n j s, s < n -> j <= n ->
  iter_si n j s = if Nat.ltb (s + j) n then s + j else s + j - n.
Proof.
  intros n j s Hs. induction j as [|j IH]; intros Hj.
  - simpl. replace (s + 0) with s by lia. destruct (Nat.ltb_spec s n); lia.
  - simpl. rewrite IH by lia. unfold si.
    destruct (Nat.ltb_spec (s + j) n); destruct (Nat.ltb_spec (s + S j) n).
    + destruct (Nat.eqb_spec (S (s + j)) n); lia.
    + destruct (Nat.eqb_spec (S (s + j)) n); lia.
    + lia.
    + destruct (Nat.eqb_spec (S (s + j - n)) n); lia.
Qed.

Lemma iter_si_lt : forall n j s, s < n -> iter_si n j s < n.
Proof. intros n j s H. induction j; simpl; [assumption|apply si_lt; assumption]. Qed.

(* ---------------------------------------------------------------- lines by index *)
Lemma line_edges_length : forall l, length (line_edges l) = pred (length l).
Proof.
  induction l as [|a l IH]; [reflexivity|]. destruct l as [|b l']; [reflexivity|].
  change (line_edges (a :: b :: l')) with ((a, b) :: line_edges (b :: l')).
  simpl length in *. rewrite IH. reflexivity.
Qed.

Lemma line_edges_nth : forall l j, S j < length l ->
  nth j (line_edges l) (origin, origin) = (pnth j l, pnth (S j) l).
Proof.
  induction l as [|a l IH]; intros j H; [simpl in H; lia|].
  destruct l as [|b l']; [simpl in H; lia|].
  change (line_edges (a :: b :: l')) with ((a, b) :: line_edges (b :: l')).
  destruct j as [|j]; [reflexivity|].
  simpl nth at 1. rewrite IH by (simpl in *; lia). reflexivity.
Qed.

Lemma nth_skipn_add : forall {A} s (l : list A) j d, nth j (skipn s l) d = nth (s + j) l d.
Proof.
  intros A s. induction s as [|s IH]; intros l j d; [reflexivity|].
  destruct l as [|a l]; [destruct j; reflexivity|]. simpl. apply IH.
Qed.
Lemma nth_firstn_lt : forall {A} s (l : list A) j d, j < s -> nth j (firstn s l) d = nth j l d.
Proof.
  intros A s. induction s as [|s IH]; intros l j d H; [lia|].
  destruct l as [|a l]; [reflexivity|]. destruct j as [|j]; [reflexivity|]. simpl. apply IH. lia.
Qed.

Lemma hd_rot : forall s (r : line), s < length r -> hd origin (rot s r) = nth s r origin.
Proof.
  intros s r H. unfold rot.
  assert (Hsk : skipn s r <> []).
  { intro E0. pose proof (skipn_length s r) as Hl0. rewrite E0 in Hl0. simpl in Hl0. lia. }
  rewrite <- (firstn_skipn s r) at 3. rewrite app_nth2 by (rewrite firstn_length; lia).
  rewrite firstn_length. replace (s - Nat.min s (length r)) with 0 by lia.
  destruct (skipn s r) as [|x t]; [congruence|reflexivity].
Qed.

(* ---------------------------------------------------------------- the forward walk *)
Section Forward.
  Variable r : line.
  Hypothesis Hnd : NoDup r.
  Hypothesis Hn : 3 <= length r.
  Let n := length r.

  Variable L : line.
  Variable m : nat.
  Hypothesis Hlen : length L = S m.
  Hypothesis Hm : 1 <= m.
  Hypothesis Hclosed : pnth 0 L = pnth m L.
  Hypothesis Hsteps : forall j, j < m -> step r (pnth j L) (pnth (S j) L).
  Hypothesis Hedges : NoDup (map uedge (line_edges L)).

  Lemma fwd_index : exists s, s < n /\ forall j, j <= m -> pnth j L = pnth (iter_si n j s) r.
  Proof.
    destruct (Hsteps 0 ltac:(lia)) as (s & Hs & E0 & _).
    exists s. split; [exact Hs|]. induction j as [|j IH]; intros Hj; [exact E0|].
    destruct (Hsteps j ltac:(lia)) as (i & Hi & Eu & Ev).
    rewrite IH in Eu by lia.
    assert (i = iter_si n j s).
    { symmetry. apply (NoDup_pnth_inj r); try assumption. apply iter_si_lt. exact Hs. }
    subst i. exact Ev.
  Qed.

  Lemma fwd_m_le_n : forall s, s < n -> (forall j, j <= m -> pnth j L = pnth (iter_si n j s) r) -> m <= n.
  Proof.
    intros s Hs Hidx. destruct (le_lt_dec m n) as [H|H]; [exact H|exfalso].
    (* edges 0 and n coincide *)
    assert (E : nth 0 (map uedge (line_edges L)) (uedge (origin, origin)) =
                nth n (map uedge (line_edges L)) (uedge (origin, origin))).
    { rewrite !map_nth. rewrite !line_edges_nth by lia.
      rewrite (Hidx 0), (Hidx 1), (Hidx n), (Hidx (S n)) by lia.
      assert (En : iter_si n n s = s).
      { rewrite iter_si_closed by lia. destruct (Nat.ltb_spec (s + n) n); lia. }
      simpl iter_si. rewrite En. reflexivity. }
    apply (proj1 (NoDup_nth _ _) Hedges) in E; [unfold n in *; lia| |];
      rewrite map_length, line_edges_length, Hlen; simpl; lia.
  Qed.

  Theorem forward_walk_is_ring : exists s, s < n /\ L = close_ring (rot s r).
  Proof.
    destruct fwd_index as (s & Hs & Hidx). exists s. split; [exact Hs|].
    pose proof (fwd_m_le_n s Hs Hidx) as Hle.
    assert (Hmn : m = n).
    { pose proof (Hidx m (le_n m)) as Em. rewrite <- Hclosed, (Hidx 0 ltac:(lia)) in Em. simpl in Em.
      apply (NoDup_pnth_inj r) in Em; [|assumption|exact Hs|apply iter_si_lt; exact Hs].
      rewrite iter_si_closed in Em by lia.
      destruct (Nat.ltb_spec (s + m) n); lia. }
    subst m.
    assert (Hrl : length (rot s r) = n) by (unfold rot; rewrite app_length, skipn_length, firstn_length; unfold n; lia).
    apply (nth_ext _ _ origin origin).
    - unfold close_ring. rewrite app_length, Hrl, Hlen. simpl. lia.
    - intros j Hj. rewrite Hlen in Hj. fold (pnth j L). rewrite (Hidx j) by lia.
      rewrite iter_si_closed by lia. unfold close_ring, rot, pnth.
      destruct (Nat.eq_dec j n) as [->|Hne].
      + (* the closing vertex *)
        change (skipn s r ++ firstn s r) with (rot s r).
        rewrite app_nth2 by (rewrite Hrl; lia).
        rewrite Hrl, Nat.sub_diag. cbn [nth]. rewrite hd_rot by exact Hs.
        destruct (Nat.ltb_spec (s + n) n); [lia|].
        replace (s + n - n) with s by lia. reflexivity.
      + rewrite app_nth1 by (fold (rot s r); rewrite Hrl; lia).
        destruct (Nat.ltb_spec (s + j) n) as [E|E].
        * rewrite app_nth1 by (rewrite skipn_length; unfold n in *; lia).
          rewrite nth_skipn_add. reflexivity.
        * rewrite app_nth2 by (rewrite skipn_length; unfold n in *; lia).
          rewrite skipn_length. rewrite nth_firstn_lt by (unfold n in *; lia).
          f_equal. unfold n in *. lia.
  Qed.
End Forward.
