(* Geo/Jordan.v — a Jordan-style characterisation of polygonContains for star-shaped rings.

   kernel r c : c sees every edge of the closed ring r from its left (r is star-shaped about c and
                counter-clockwise), and the horizontal line through c is crossed upwards by exactly
                one edge.  Then c has an odd crossing number.
   Moving a point along an axis-parallel leg that meets no edge does not change the parity of
   its crossing number (the code's tie rule included).  Hence every point that can be reached
   from the kernel point by an axis-parallel path avoiding the boundary is reported inside. *)
From Coq Require Import ZArith List Bool Lia Arith Permutation.
From Verif Require Import Geo.Model Geo.Conserve Geo.Edges Geo.Orient Geo.Rings Geo.Holes Geo.Recover Geo.Contain.
Import ListNotations.
Open Scope Z_scope.

(* twice the signed area of (a, b, p): > 0 iff p is strictly left of the directed line a -> b *)
Definition side (a b p : point) : Z :=
  (fst b - fst a) * (snd p - snd a) - (snd b - snd a) * (fst p - fst a).

Definition up (p z : point) : bool := snd z >? snd p.

(* the crossing test in terms of sides: the edge a -> b is counted iff it straddles the height of
   p (half-open) and p is on its left if it goes up, on its right if it goes down *)
Lemma crosses_side : forall p a b,
  crosses p b a = negb (Bool.eqb (up p b) (up p a)) &&
                  (if up p b then side a b p >? 0 else side a b p <? 0).
Proof.
  intros [x y] [xj yj] [xi yi]. unfold crosses, up, side. cbn [fst snd].
  destruct (yi >? y) eqn:A, (yj >? y) eqn:B; cbn [Bool.eqb negb andb]; try reflexivity.
  - (* b above, a not: upward *)
    assert (E : (x - xi) * (yj - yi) - (xj - xi) * (y - yi) = (xi - xj) * (y - yj) - (yi - yj) * (x - xj)) by ring.
    destruct (yj - yi >? 0) eqn:D; [lia|].
    destruct ((xj - xi) * (y - yi) <? (x - xi) * (yj - yi)) eqn:C1;
    destruct ((xi - xj) * (y - yj) - (yi - yj) * (x - xj) >? 0) eqn:C2; try reflexivity; lia.
  - (* b not above, a above: downward *)
    assert (E : (x - xi) * (yj - yi) - (xj - xi) * (y - yi) = (xi - xj) * (y - yj) - (yi - yj) * (x - xj)) by ring.
    destruct (yj - yi >? 0) eqn:D; [|lia].
    destruct ((x - xi) * (yj - yi) <? (xj - xi) * (y - yi)) eqn:C1;
    destruct ((xi - xj) * (y - yj) - (yi - yj) * (x - xj) <? 0) eqn:C2; try reflexivity; lia.
Qed.

Lemma ecrosses_side : forall p e,
  ecrosses p e = negb (Bool.eqb (up p (snd e)) (up p (fst e))) &&
                 (if up p (snd e) then side (fst e) (snd e) p >? 0 else side (fst e) (snd e) p <? 0).
Proof. intros p [a b]. unfold ecrosses. cbn [fst snd]. apply crosses_side. Qed.

(* ---------------------------------------------------------------- the kernel point *)
Definition upward (c : point) (e : point * point) : bool := negb (up c (fst e)) && up c (snd e).

Definition kernel (r : line) (c : point) : Prop :=
  (forall e, In e (line_edges r) -> side (fst e) (snd e) c > 0) /\
  length (filter (upward c) (line_edges r)) = 1%nat.

Theorem kernel_inside : forall r c, line_closed r -> kernel r c -> point_in_ring r c = true.
Proof.
  intros r c Hc [Hk1 Hk2]. rewrite (point_in_closed r c Hc). unfold ncross.
  assert (E : filter (ecrosses c) (line_edges r) = filter (upward c) (line_edges r)).
  { apply filter_ext_in. intros e He. rewrite ecrosses_side. unfold upward.
    pose proof (Hk1 e He) as Hs.
    destruct (up c (snd e)), (up c (fst e)); cbn [Bool.eqb negb andb]; try reflexivity.
    - destruct (side (fst e) (snd e) c >? 0) eqn:C; [reflexivity|lia].
    - destruct (side (fst e) (snd e) c <? 0) eqn:C; [lia|reflexivity]. }
  rewrite E, Hk2. reflexivity.
Qed.

(* ---------------------------------------------------------------- moving the point *)
(* parity bookkeeping along a line: if the two crossing tests differ on an edge exactly when a
   vertex predicate differs at its ends, the two parities differ by the predicate at the ends of
   the line *)
Lemma parity_transfer : forall (f g : point * point -> bool) (rho : point -> bool) (l : line),
  (forall e, In e (line_edges l) -> xorb (f e) (g e) = xorb (rho (fst e)) (rho (snd e))) ->
  xorb (Nat.odd (length (filter f (line_edges l)))) (Nat.odd (length (filter g (line_edges l)))) =
  xorb (rho (lfirst l)) (rho (llast l)).
Proof.
  intros f g rho l. induction l as [|a l IH]; intros H; [simpl; rewrite xorb_nilpotent; reflexivity|].
  destruct l as [|b l'].
  - simpl. unfold lfirst, llast. simpl. rewrite xorb_nilpotent. reflexivity.
  - change (line_edges (a :: b :: l')) with ((a, b) :: line_edges (b :: l')) in *.
    assert (IH' := IH (fun e He => H e (or_intror He))).
    assert (H0 := H (a, b) (or_introl eq_refl)). cbn [fst snd] in H0.
    change (llast (a :: b :: l')) with (llast (b :: l')).
    change (lfirst (a :: b :: l')) with a. change (lfirst (b :: l')) with b in IH'.
    cbn [filter]. 
    destruct (f (a, b)), (g (a, b)); cbn [length]; rewrite ?Nat.odd_succ, <- ?Nat.negb_odd;
      destruct (Nat.odd (length (filter f (line_edges (b :: l'))))),
               (Nat.odd (length (filter g (line_edges (b :: l'))))),
               (rho a), (rho b), (rho (llast (b :: l'))); simpl in *; congruence.
Qed.

(* horizontal leg: p and q at the same height; the edge a -> b stays strictly above or strictly
   below that height, or p and q are strictly on the same side of its line *)
Definition clear_edge (a b p q : point) : Prop :=
  (side a b p > 0 /\ side a b q > 0) \/ (side a b p < 0 /\ side a b q < 0).

Definition clear_h (a b p q : point) : Prop :=
  (snd a > snd p /\ snd b > snd p) \/ (snd a < snd p /\ snd b < snd p) \/ clear_edge a b p q.

Lemma move_h : forall a b p q, snd p = snd q -> clear_h a b p q ->
  ecrosses p (a, b) = ecrosses q (a, b).
Proof.
  intros a b p q Hy Hc. rewrite !ecrosses_side. cbn [fst snd]. unfold up. rewrite <- Hy.
  destruct (snd b >? snd p) eqn:B, (snd a >? snd p) eqn:A; cbn [Bool.eqb negb andb]; try reflexivity.
  - destruct Hc as [Hc|[Hc|[[H1 H2]|[H1 H2]]]]; try lia;
      destruct (side a b p >? 0) eqn:C1, (side a b q >? 0) eqn:C2; try reflexivity; lia.
  - destruct Hc as [Hc|[Hc|[[H1 H2]|[H1 H2]]]]; try lia;
      destruct (side a b p <? 0) eqn:C1, (side a b q <? 0) eqn:C2; try reflexivity; lia.
Qed.

(* vertical leg: p and q on the same vertical line; the edge stays strictly left or strictly right
   of it, or p and q are strictly on the same side of its line *)
Definition clear_v (a b p q : point) : Prop :=
  (fst a > fst p /\ fst b > fst p) \/ (fst a < fst p /\ fst b < fst p) \/ clear_edge a b p q.

(* the region swept between the two rays: strictly above p, not above q, strictly right *)
Definition swept (p q z : point) : bool := up p z && negb (up q z) && (fst z >? fst p).

Lemma move_v : forall a b p q, fst p = fst q -> snd p < snd q -> clear_v a b p q ->
  xorb (ecrosses p (a, b)) (ecrosses q (a, b)) = xorb (swept p q a) (swept p q b).
Proof.
  intros [ax ay] [bx by_] [x py] [x' qy] Hx Hlt Hc. cbn [fst snd] in Hx, Hlt. subst x'.
  rewrite !ecrosses_side. unfold swept, up, side, clear_v, clear_edge, side in *. cbn [fst snd] in *.
  destruct Hc as [[H1 H2]|[[H1 H2]|Hc]].
  - (* edge strictly right of the line: counted iff it straddles *)
    destruct (ax >? x) eqn:X1; [|lia]. destruct (bx >? x) eqn:X2; [|lia].
    destruct (by_ >? py) eqn:Bp, (ay >? py) eqn:Ap, (by_ >? qy) eqn:Bq, (ay >? qy) eqn:Aq;
      cbn [Bool.eqb negb andb xorb]; try lia; try reflexivity.
    all: repeat match goal with
         | |- context [?u >? 0] => let C := fresh "C" in destruct (u >? 0) eqn:C
         | |- context [?u <? 0] => let C := fresh "C" in destruct (u <? 0) eqn:C
         end; cbn [xorb andb]; try reflexivity; exfalso; nia.
  - (* edge strictly left: never counted *)
    destruct (ax >? x) eqn:X1; [lia|]. destruct (bx >? x) eqn:X2; [lia|].
    rewrite !andb_false_r.
    destruct (by_ >? py) eqn:Bp, (ay >? py) eqn:Ap, (by_ >? qy) eqn:Bq, (ay >? qy) eqn:Aq;
      cbn [Bool.eqb negb andb xorb]; try lia; try reflexivity.
    all: repeat match goal with
         | |- context [?u >? 0] => let C := fresh "C" in destruct (u >? 0) eqn:C
         | |- context [?u <? 0] => let C := fresh "C" in destruct (u <? 0) eqn:C
         end; cbn [xorb andb]; try reflexivity; exfalso; nia.
  - (* p and q strictly on the same side of the edge line *)
    destruct (by_ >? py) eqn:Bp, (ay >? py) eqn:Ap, (by_ >? qy) eqn:Bq, (ay >? qy) eqn:Aq;
      cbn [Bool.eqb negb andb xorb]; try lia.
    all: destruct (ax >? x) eqn:X1, (bx >? x) eqn:X2; cbn [andb xorb].
    all: repeat match goal with
         | |- context [?u >? 0] => let C := fresh "C" in destruct (u >? 0) eqn:C
         | |- context [?u <? 0] => let C := fresh "C" in destruct (u <? 0) eqn:C
         end; cbn [xorb andb]; try reflexivity; exfalso; nia.
Qed.

(* ---------------------------------------------------------------- legs and paths *)
Definition leg_clear (r : line) (p q : point) : Prop :=
  (snd p = snd q /\ forall e, In e (line_edges r) -> clear_h (fst e) (snd e) p q) \/
  (fst p = fst q /\ forall e, In e (line_edges r) -> clear_v (fst e) (snd e) p q).

Lemma clear_edge_sym : forall a b p q, clear_edge a b p q -> clear_edge a b q p.
Proof. intros a b p q [[H1 H2]|[H1 H2]]; [left|right]; split; assumption. Qed.

Lemma clear_v_sym : forall a b p q, fst p = fst q -> clear_v a b p q -> clear_v a b q p.
Proof.
  intros a b p q E [H|[H|H]]; [left|right; left|right; right; apply clear_edge_sym; exact H];
    rewrite <- E; exact H.
Qed.

Lemma leg_parity_v : forall r p q, line_closed r -> fst p = fst q -> snd p < snd q ->
  (forall e, In e (line_edges r) -> clear_v (fst e) (snd e) p q) ->
  point_in_ring r p = point_in_ring r q.
Proof.
  intros r p q Hc Hx Hlt Hcl. rewrite !(point_in_closed r _ Hc). unfold ncross.
  assert (HT := parity_transfer (ecrosses p) (ecrosses q) (swept p q) r
                 (fun e He => move_v (fst e) (snd e) p q Hx Hlt (Hcl e He))).
  unfold line_closed in Hc. rewrite Hc, xorb_nilpotent in HT.
  destruct (Nat.odd (length (filter (ecrosses p) (line_edges r)))),
           (Nat.odd (length (filter (ecrosses q) (line_edges r)))); simpl in HT; congruence.
Qed.

Theorem leg_parity : forall r p q, line_closed r -> leg_clear r p q ->
  point_in_ring r p = point_in_ring r q.
Proof.
  intros r p q Hc [[Hy Hcl]|[Hx Hcl]].
  - rewrite !(point_in_closed r _ Hc). unfold ncross. f_equal. f_equal.
    apply filter_ext_in. intros [a b] He. apply move_h; [exact Hy|exact (Hcl (a, b) He)].
  - destruct (Z.lt_trichotomy (snd p) (snd q)) as [H|[H|H]].
    + apply leg_parity_v; assumption.
    + destruct p, q. simpl in *. subst. reflexivity.
    + symmetry. apply leg_parity_v; [exact Hc|symmetry; exact Hx|exact H|].
      intros e He. apply clear_v_sym; [exact Hx|exact (Hcl e He)].
Qed.

Fixpoint path_clear (r : line) (w : point) (path : list point) : Prop :=
  match path with
  | [] => True
  | w' :: rest => leg_clear r w w' /\ path_clear r w' rest
  end.

(* p can be reached from c by axis-parallel legs none of which meets the ring *)
Definition reach (r : line) (c p : point) : Prop :=
  exists path, path_clear r c path /\ last path c = p.

Lemma path_parity : forall r path w, line_closed r -> path_clear r w path ->
  point_in_ring r (last path w) = point_in_ring r w.
Proof.
  intros r path. induction path as [|w' rest IH]; intros w Hc Hp; [reflexivity|].
  destruct Hp as [Hl Hp]. rewrite (leg_parity r w w' Hc Hl).
  rewrite <- (IH w' Hc Hp). rewrite (last_cons_default rest w' w). reflexivity.
Qed.

(* every point reachable from the kernel point without meeting the ring is reported inside *)
Theorem reach_inside : forall r c p, line_closed r -> kernel r c -> reach r c p ->
  point_in_ring r p = true.
Proof.
  intros r c p Hc Hk (path & Hp & <-). rewrite (path_parity r path c Hc Hp).
  apply kernel_inside; assumption.
Qed.

(* a hole lies strictly inside the star-shaped outer ring o: o has a kernel point from which every
   vertex of the hole can be reached without meeting o *)
Definition strictly_inside_star (o h : line) : Prop :=
  h <> [] /\ exists c, kernel (close_ring o) c /\ forall p, In p h -> reach (close_ring o) c p.

Theorem inside_star_contains : forall o h, o <> [] -> strictly_inside_star o h ->
  existsb (point_in_ring (close_ring o)) h = true.
Proof.
  intros o h Ho (Hne & c & Hk & Hr). destruct h as [|p h']; [congruence|].
  simpl. rewrite (reach_inside (close_ring o) c p (close_ring_closed o Ho) Hk (Hr p (or_introl eq_refl))).
  reflexivity.
Qed.
