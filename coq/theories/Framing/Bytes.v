(* Framing/Bytes.v — byte-level refinement of the frame model.

   A stream is a list of bytes.  A block is written as the 4-byte big-endian length of its
   BlobHeader, the BlobHeader bytes, the Blob bytes.  [b_scan] is the scan of Framing/Model.v
   restated over the byte list: io.ReadFull takes bytes off the front, the prefix is decoded with
   binary.BigEndian.Uint32, proto.Unmarshal is an ARBITRARY function of the bytes read
   ([parse_hdr], [parse_blob]: section variables, so every statement holds for all of them).
   [parse_blob] is also given the block type of the BlobHeader just read: it stands for
   proto.Unmarshal of the Blob AND for what the payload decodes to, and the code chooses the
   payload decoder (decodeOSMHeader / dataDecoder.Decode) by that type, not by the content.
   A cut at byte offset k is [firstn k bytes].

   Main results: [bytes_refine] — on every prefix of the concatenation of aligned byte frames the
   byte-level scan equals the frame-level scan with [avail = k]; [truncation_bytes] — property C06's
   first sentence literally "for every byte offset of the file"; [b_scan_total] — on EVERY byte
   string (no alignment, no validity: lying prefixes, stray bytes, garbage) the scan of the current
   code ends with Done or Failed: never a crash, a hang or an outcome outside the model. *)
From Coq Require Import ZArith List Bool Lia.
From Verif Require Import Framing.Model Framing.Valid Framing.Proofs.
Import ListNotations.
Open Scope Z_scope.

Ltac Zify.zify_post_hook ::= Z.div_mod_to_equations.

(* ---- binary.BigEndian ---- *)
Definition be32 (n : Z) : list Z :=
  [n / 16777216 mod 256; n / 65536 mod 256; n / 256 mod 256; n mod 256].
Definition be32_dec (l : list Z) : Z :=
  match l with
  | [a; b; c; d] => ((a * 256 + b) * 256 + c) * 256 + d
  | _ => -1
  end.

Lemma be32_roundtrip n : 0 <= n < 4294967296 -> be32_dec (be32 n) = n.
Proof. intros H. unfold be32, be32_dec. lia. Qed.

Lemma be32_length n : length (be32 n) = 4%nat.
Proof. reflexivity. Qed.

Section Bytes.
Context {T : Type}.
Variable parse_hdr : list Z -> hdr.          (* proto.Unmarshal(buf, &BlobHeader{}) *)
Variable parse_blob : btype -> list Z -> blobp T.  (* proto.Unmarshal(buf, &Blob{}) and what the payload
                                                    decodes to under the decoder chosen by the type *)

(* io.ReadFull(r, buf[:n]) on the remaining bytes s: the bytes read and the rest, or the error *)
Definition bread (n : Z) (s : list Z) : rerr + (list Z * list Z) :=
  if n <=? 0 then inr ([], s)
  else match s with
       | [] => inl REOF
       | _ => if Z.of_nat (length s) <? n then inl RUnexpectedEOF
              else inr (firstn (Z.to_nat n) s, skipn (Z.to_nat n) s)
       end.

Inductive bfb :=
  | BErr (e : err) | BPanic
  | BOk (ty : btype) (b : blob T) (rest : list Z) (consumed : Z).

(* readFileBlock on bytes *)
Definition b_read_file_block (v : variant) (s : list Z) : bfb :=
  match bread 4 s with
  | inl e => BErr (top_err e)
  | inr (pre, s1) =>
    let size := be32_dec pre in
    if size >=? maxBlobHeaderSize then BErr EOther else
    match bread size s1 with
    | inl e => BErr (inner_err v e)
    | inr (hb, s2) =>
      match parse_hdr hb with
      | HdrBad => BErr EOther
      | HdrOk ty ds =>
        if ds >=? maxBlobSize then BErr EOther else
        if ds <? 0 then (if v_neg_datasize_panics v then BPanic else BErr EOther) else
        match bread ds s2 with
        | inl e => BErr (inner_err v e)
        | inr (bb, s3) =>
          match parse_blob ty bb with
          | BlobBad => BErr EOther
          | BlobOk b => BOk ty b s3 (4 + size + ds)
          end
        end
      end
    end
  end.

(* the reader loop; every successful iteration consumes at least the 4 prefix bytes, so
   [length s + 1] iterations always suffice; running out of fuel is an explicit outcome *)
Fixpoint b_loop (v : variant) (fuel : nat) (s : list Z) (off : Z) : result T :=
  match fuel with
  | O => stop OutOfModel
  | S fuel' =>
      match b_read_file_block v s with
      | BErr e => of_err e
      | BPanic => stop Crashed
      | BOk ty b rest n =>
          match ty with
          | TyData =>
              match decode_data v b with
              | SObjs objs => deliver off objs (b_loop v fuel' rest (off + n))
              | SErr => stop Failed
              | SPanic => stop Crashed
              | SOut => stop OutOfModel
              | SHang => stop Hung
              end
          | _ => stop Failed
          end
      end
  end.

Definition b_scan (v : variant) (s : list Z) : result T :=
  match b_read_file_block v s with
  | BErr e => of_err e
  | BPanic => stop Crashed
  | BOk ty b rest n =>
      let as_data :=
        match decode_data v b with
        | SObjs objs => deliver 0 objs (b_loop v (S (length rest)) rest n)
        | SErr => stop Failed
        | SPanic => stop Crashed
        | SOut => stop OutOfModel
        | SHang => stop Hung
        end in
      match ty with
      | TyHeader =>
          match decode_header v b with
          | SObjs _ => b_loop v (S (length rest)) rest n
          | SErr => stop Failed
          | SPanic => stop Crashed
          | SOut => stop OutOfModel
          | SHang => stop Hung
          end
      | TyData => as_data
      | TyOther => if v_first_other_is_data v then as_data else stop Failed
      end
  end.

(* ---- byte frames and their abstraction ---- *)
Record bframe := BFrame { bf_pfx : Z; bf_hdr : list Z; bf_blob : list Z }.

Definition bytes_of (bf : bframe) : list Z := be32 (bf_pfx bf) ++ bf_hdr bf ++ bf_blob bf.
Definition encode (bfs : list bframe) : list Z := flat_map bytes_of bfs.

Definition hdr_ty (h : hdr) : btype := match h with HdrOk ty _ => ty | HdrBad => TyOther end.

Definition abstract (bf : bframe) : frame T :=
  Frame (bf_pfx bf) (Z.of_nat (length (bf_hdr bf))) (parse_hdr (bf_hdr bf))
        (Z.of_nat (length (bf_blob bf))) (parse_blob (hdr_ty (parse_hdr (bf_hdr bf))) (bf_blob bf)).

(* the prefix says how long the header is, and a datasize within the limits says how long the blob is *)
Definition aligned (bf : bframe) : Prop :=
  bf_pfx bf = Z.of_nat (length (bf_hdr bf)) /\ bf_pfx bf < 4294967296 /\
  (forall ty ds, parse_hdr (bf_hdr bf) = HdrOk ty ds -> 0 <= ds < maxBlobSize ->
                 ds = Z.of_nat (length (bf_blob bf))).

Lemma frame_size_abstract bf : frame_size (abstract bf) = Z.of_nat (length (bytes_of bf)).
Proof.
  unfold frame_size, abstract, bytes_of. cbn [f_hlen f_blen].
  rewrite !app_length, be32_length. lia.
Qed.

Lemma total_size_encode bfs : total_size (map abstract bfs) = Z.of_nat (length (encode bfs)).
Proof.
  induction bfs as [|bf r IH]; [reflexivity|].
  cbn [map encode flat_map]. change (total_size (abstract bf :: map abstract r))
    with (frame_size (abstract bf) + total_size (map abstract r)).
  rewrite IH, frame_size_abstract, app_length. unfold encode. lia.
Qed.

(* ---- reading a segment off a cut stream ---- *)
Lemma bread_segment (a t : list Z) (k : nat) :
  (k <= length (a ++ t))%nat ->
  bread (Z.of_nat (length a)) (firstn k (a ++ t)) =
  match read_full (Z.of_nat (length a)) (Z.of_nat k) with
  | Some e => inl e
  | None => inr (a, firstn (k - length a) t)
  end.
Proof.
  intros Hk. unfold bread, read_full.
  destruct (Z.of_nat (length a) <=? 0) eqn:E0.
  - apply Z.leb_le in E0. assert (length a = O) by lia. destruct a; [|discriminate].
    cbn [app length]. rewrite Nat.sub_0_r. reflexivity.
  - apply Z.leb_gt in E0.
    assert (Hlen : length (firstn k (a ++ t)) = k) by (apply firstn_length_le; exact Hk).
    destruct (Z.of_nat k <=? 0) eqn:E1.
    + apply Z.leb_le in E1. assert (k = O) by lia. subst k. reflexivity.
    + apply Z.leb_gt in E1.
      remember (firstn k (a ++ t)) as s eqn:Es. destruct s as [|x s']; [cbn in Hlen; lia|].
      rewrite Hlen.
      destruct (Z.of_nat k <? Z.of_nat (length a)) eqn:E2; [reflexivity|].
      apply Z.ltb_ge in E2. rewrite Nat2Z.id. rewrite Es.
      rewrite firstn_app. assert (Hka : (length a <= k)%nat) by lia.
      rewrite (firstn_all2 a Hka).
      rewrite firstn_app, firstn_all, Nat.sub_diag. cbn [firstn]. rewrite app_nil_r.
      rewrite skipn_app, skipn_all, Nat.sub_diag. cbn [skipn app]. reflexivity.
Qed.

(* ---- one block: bytes vs frame ---- *)
Definition fb_matches (k sz : nat) (tail : list Z) (r : fb_res T) (b : bfb) : Prop :=
  match r, b with
  | FbErr e, BErr e' => e = e'
  | FbPanic, BPanic => True
  | FbOk ty bl n, BOk ty' bl' rest n' =>
      ty = ty' /\ bl = bl' /\ n = n' /\ n = Z.of_nat sz /\ (4 <= sz <= k)%nat
      /\ rest = firstn (k - sz) tail
  | _, _ => False
  end.

Lemma block_refine v bf tail k :
  aligned bf -> 0 <= bf_pfx bf -> (k <= length (bytes_of bf ++ tail))%nat ->
  fb_matches k (length (bytes_of bf)) tail (read_file_block v (Some (abstract bf)) (Z.of_nat k))
             (b_read_file_block v (firstn k (bytes_of bf ++ tail))).
Proof.
  intros (Hp & Hp32 & Hds) Hp0 Hk.
  unfold read_file_block, b_read_file_block, bytes_of in *. cbn [abstract f_pfx f_hlen f_hdr f_blen f_blob].
  rewrite <- !app_assoc in *.
  pose proof (bread_segment (be32 (bf_pfx bf)) (bf_hdr bf ++ bf_blob bf ++ tail) k Hk) as B1.
  rewrite be32_length in B1. change (Z.of_nat 4) with 4 in B1. rewrite B1.
  destruct (read_full 4 (Z.of_nat k)) as [e|] eqn:R1; [reflexivity|].
  rewrite (be32_roundtrip (bf_pfx bf)) by lia.
  destruct (bf_pfx bf >=? maxBlobHeaderSize); [reflexivity|].
  assert (H4 : (4 <= k)%nat).
  { unfold read_full in R1. cbn in R1. destruct (Z.of_nat k <=? 0) eqn:E; [discriminate|].
    destruct (Z.of_nat k <? 4) eqn:E'; [discriminate|]. apply Z.ltb_ge in E'. lia. }
  assert (Hk2 : (k - 4 <= length (bf_hdr bf ++ bf_blob bf ++ tail))%nat).
  { rewrite app_length, be32_length in Hk. lia. }
  pose proof (bread_segment (bf_hdr bf) (bf_blob bf ++ tail) (k - 4) Hk2) as B2.
  rewrite <- Hp in B2. rewrite B2.
  replace (Z.of_nat (k - 4)) with (Z.of_nat k - 4) by lia.
  destruct (read_full (bf_pfx bf) (Z.of_nat k - 4)) as [e|] eqn:R2; [reflexivity|].
  assert (Eq1 : (bf_pfx bf =? Z.of_nat (length (bf_hdr bf))) = true) by (apply Z.eqb_eq; exact Hp).
  rewrite Eq1. cbn [negb].
  destruct (parse_hdr (bf_hdr bf)) as [|ty ds] eqn:Eh; [reflexivity|].
  destruct (ds >=? maxBlobSize) eqn:E3; [reflexivity|].
  destruct (ds <? 0) eqn:E4; [destruct (v_neg_datasize_panics v); reflexivity|].
  apply geb_false_inv in E3. apply Z.ltb_ge in E4.
  pose proof (Hds ty ds eq_refl (conj E4 E3)) as Hd.
  assert (Hh : (length (bf_hdr bf) <= k - 4)%nat).
  { unfold read_full in R2. destruct (bf_pfx bf <=? 0) eqn:E; [apply Z.leb_le in E; lia|].
    destruct (Z.of_nat k - 4 <=? 0) eqn:E'; [discriminate|].
    destruct (Z.of_nat k - 4 <? bf_pfx bf) eqn:E''; [discriminate|]. apply Z.ltb_ge in E''. lia. }
  assert (Hk3 : (k - 4 - length (bf_hdr bf) <= length (bf_blob bf ++ tail))%nat).
  { rewrite app_length in Hk2. lia. }
  pose proof (bread_segment (bf_blob bf) tail (k - 4 - length (bf_hdr bf)) Hk3) as B3.
  rewrite <- Hd in B3. rewrite B3.
  replace (Z.of_nat (k - 4 - length (bf_hdr bf))) with (Z.of_nat k - 4 - bf_pfx bf) by lia.
  destruct (read_full ds (Z.of_nat k - 4 - bf_pfx bf)) as [e|] eqn:R3; [reflexivity|].
  assert (Eq2 : (ds =? Z.of_nat (length (bf_blob bf))) = true) by (apply Z.eqb_eq; exact Hd).
  rewrite Eq2. cbn [negb].
  cbn [hdr_ty]. destruct (parse_blob ty (bf_blob bf)) as [|b]; [reflexivity|].
  assert (Hb : (length (bf_blob bf) <= k - 4 - length (bf_hdr bf))%nat).
  { unfold read_full in R3. destruct (ds <=? 0) eqn:E; [apply Z.leb_le in E; lia|].
    destruct (Z.of_nat k - 4 - bf_pfx bf <=? 0) eqn:E'; [discriminate|].
    destruct (Z.of_nat k - 4 - bf_pfx bf <? ds) eqn:E''; [discriminate|]. apply Z.ltb_ge in E''. lia. }
  assert (Hsz : length (be32 (bf_pfx bf) ++ bf_hdr bf ++ bf_blob bf)
                = (4 + length (bf_hdr bf) + length (bf_blob bf))%nat)
    by (rewrite !app_length; reflexivity).
  unfold fb_matches. rewrite Hsz. repeat split; try lia. f_equal. lia.
Qed.

Lemma fb_matches_none v : read_file_block v (@None (frame T)) 0 = FbErr EEOF /\ b_read_file_block v [] = BErr EEOF.
Proof. split; reflexivity. Qed.

(* ---- the reader loop ---- *)
Lemma loop_refine v : forall bfs k fuel off,
  Forall aligned bfs -> Forall (fun bf => 0 <= bf_pfx bf) bfs ->
  (k <= length (encode bfs))%nat -> (k < fuel)%nat ->
  b_loop v fuel (firstn k (encode bfs)) off = blocks_loop v (map abstract bfs) (Z.of_nat k) off.
Proof.
  induction bfs as [|bf r IH]; intros k fuel off Ha Hp Hk Hf.
  - cbn in Hk. assert (k = O) by lia. subst k. destruct fuel as [|fuel]; [lia|]. reflexivity.
  - inversion Ha as [|? ? Ha1 Ha2]; subst. inversion Hp as [|? ? Hp1 Hp2]; subst.
    destruct fuel as [|fuel]; [lia|].
    cbn [encode flat_map map blocks_loop b_loop]. fold (encode r).
    pose proof (block_refine v bf (encode r) k Ha1 Hp1 Hk) as M.
    destruct (read_file_block v (Some (abstract bf)) (Z.of_nat k)) as [e| | |ty b n];
      destruct (b_read_file_block v (firstn k (bytes_of bf ++ encode r))) as [e'| |ty' b' rest n'];
      unfold fb_matches in M; try contradiction.
    + subst e'. reflexivity.
    + reflexivity.
    + destruct M as (<- & <- & <- & Hn & Hsz & ->).
      destruct ty; try reflexivity.
      destruct (decode_data v b); try reflexivity. f_equal.
      cbn [encode flat_map] in Hk. fold (encode r) in Hk. rewrite app_length in Hk.
      rewrite IH; [f_equal; lia|assumption|assumption|lia|lia].
Qed.

(* ---- the whole scan ---- *)
Theorem bytes_refine v : forall bfs k,
  Forall aligned bfs -> Forall (fun bf => 0 <= bf_pfx bf) bfs ->
  (k <= length (encode bfs))%nat ->
  b_scan v (firstn k (encode bfs)) = scan v (map abstract bfs) (Z.of_nat k).
Proof.
  intros [|bf r] k Ha Hp Hk.
  - cbn in Hk. assert (k = O) by lia. subst k. reflexivity.
  - inversion Ha as [|? ? Ha1 Ha2]; subst. inversion Hp as [|? ? Hp1 Hp2]; subst.
    cbn [encode flat_map map scan]. fold (encode r). unfold b_scan.
    pose proof (block_refine v bf (encode r) k Ha1 Hp1 Hk) as M.
    destruct (read_file_block v (Some (abstract bf)) (Z.of_nat k)) as [e| | |ty b n];
      destruct (b_read_file_block v (firstn k (bytes_of bf ++ encode r))) as [e'| |ty' b' rest n'];
      unfold fb_matches in M; try contradiction.
    + subst e'. reflexivity.
    + reflexivity.
    + destruct M as (<- & <- & <- & Hn & Hsz & ->).
      cbn [encode flat_map] in Hk. fold (encode r) in Hk. rewrite app_length in Hk.
      assert (Hk' : (k - length (bytes_of bf) <= length (encode r))%nat) by lia.
      assert (L : b_loop v (S (length (firstn (k - length (bytes_of bf)) (encode r))))
                         (firstn (k - length (bytes_of bf)) (encode r)) n
                  = blocks_loop v (map abstract r) (Z.of_nat k - n) n).
      { rewrite (firstn_length_le _ Hk').
        rewrite (loop_refine v r (k - length (bytes_of bf)) (S (k - length (bytes_of bf))) n Ha2 Hp2 Hk'
                             (Nat.lt_succ_diag_r _)).
        f_equal. lia. }
      rewrite L. reflexivity.
Qed.

(* ---- C06, first sentence, literally for every byte offset of the file ---- *)
Lemma valid_aligned bf : framed (abstract bf) = true ->
  (forall ty ds, parse_hdr (bf_hdr bf) = HdrOk ty ds -> ds = Z.of_nat (length (bf_blob bf))) ->
  aligned bf /\ 0 <= bf_pfx bf.
Proof.
  intros Hf Hd. destruct (framed_facts _ Hf) as (Hp & Hl & _). cbn [abstract f_pfx f_hlen] in *.
  repeat split; try lia; intros ty ds Hh _; eapply Hd; exact Hh.
Qed.

(* a byte file whose frames are valid: the prefix is the header length, the header parses to the
   real blob length, the blob is accepted, payloads decode *)
Definition valid_bytes (bfs : list bframe) : Prop :=
  valid_file (map abstract bfs) = true /\
  Forall (fun bf => forall ty ds, parse_hdr (bf_hdr bf) = HdrOk ty ds ->
                                  ds = Z.of_nat (length (bf_blob bf))) bfs.

Lemma valid_bytes_aligned bfs : valid_bytes bfs ->
  Forall aligned bfs /\ Forall (fun bf => 0 <= bf_pfx bf) bfs.
Proof.
  intros [Hv Hd].
  assert (Hfr : Forall (fun bf => framed (abstract bf) = true) bfs).
  { destruct bfs as [|bf r]; [constructor|]. cbn [map valid_file] in Hv.
    apply andb_prop in Hv as [Hf Hr]. constructor.
    - apply orb_prop in Hf as [Hh|Hdt].
      + destruct (good_header_frame_inv _ Hh) as (b & (Hfm & _) & _). exact Hfm.
      + apply good_data_framed. exact Hdt.
    - clear - Hr. induction r as [|x r IH]; [constructor|]. cbn [map forallb] in Hr.
      apply andb_prop in Hr as [Hx Hr]. constructor; [apply good_data_framed; exact Hx|auto]. }
  clear Hv. induction bfs as [|bf r IH]; [split; constructor|].
  inversion Hd; subst. inversion Hfr; subst. destruct (IH H2 H4) as [I1 I2].
  destruct (valid_aligned bf H3 H1) as [A1 A2]. split; constructor; assumption.
Qed.

(* ---- totality: every byte string ---- *)
(* what the two Unmarshal oracles are assumed to do: the payload of a data block is decoded by the
   block decoder and that of a header block by decodeOSMHeader (so the oracle answers in the
   matching vocabulary), and the block decoder does not panic (layer L1:
   C06/Bridge.v decode_tree_never_panics, for every message tree and every worker state) *)
Definition parse_sound : Prop :=
  forall ty bb b, parse_blob ty bb = BlobOk b ->
    match ty, b_pay b with
    | TyData, PData d => d <> DPanic
    | TyData, PHeader _ => False
    | TyHeader, PHeader _ => True
    | TyHeader, PData _ => False
    | TyOther, _ => True
    end.

Lemma bread_rest n s a rest : bread n s = inr (a, rest) ->
  (length rest <= length s)%nat /\ (0 < n -> Z.of_nat (length rest) = Z.of_nat (length s) - n).
Proof.
  unfold bread. destruct (n <=? 0) eqn:E0.
  - intros H. inversion H; subst. split; [lia|]. apply Z.leb_le in E0. lia.
  - apply Z.leb_gt in E0. destruct s as [|x s']; [discriminate|].
    destruct (Z.of_nat (length (x :: s')) <? n) eqn:E1; [discriminate|].
    apply Z.ltb_ge in E1. intros H. inversion H; subst. rewrite skipn_length. split; lia.
Qed.

Lemma brfb_ok v s ty b rest n : b_read_file_block v s = BOk ty b rest n ->
  (length rest < length s)%nat /\ exists bb, parse_blob ty bb = BlobOk b.
Proof.
  unfold b_read_file_block.
  destruct (bread 4 s) as [e|[pre s1]] eqn:B1; [discriminate|].
  destruct (be32_dec pre >=? maxBlobHeaderSize); [discriminate|].
  destruct (bread (be32_dec pre) s1) as [e|[hb s2]] eqn:B2; [discriminate|].
  destruct (parse_hdr hb) as [|ty' ds]; [discriminate|].
  destruct (ds >=? maxBlobSize); [discriminate|].
  destruct (ds <? 0); [destruct (v_neg_datasize_panics v); discriminate|].
  destruct (bread ds s2) as [e|[bb s3]] eqn:B3; [discriminate|].
  destruct (parse_blob ty' bb) as [|b'] eqn:Pb; [discriminate|].
  intros H. inversion H; subst.
  destruct (bread_rest _ _ _ _ B1) as [_ L1]. specialize (L1 ltac:(lia)).
  destruct (bread_rest _ _ _ _ B2) as [L2 _]. destruct (bread_rest _ _ _ _ B3) as [L3 _].
  split; [lia|]. exists bb. exact Pb.
Qed.

Lemma brfb_no_panic s : b_read_file_block current s <> BPanic.
Proof.
  unfold b_read_file_block.
  destruct (bread 4 s) as [e|[pre s1]]; [discriminate|].
  destruct (be32_dec pre >=? maxBlobHeaderSize); [discriminate|].
  destruct (bread (be32_dec pre) s1) as [e|[hb s2]]; [discriminate|].
  destruct (parse_hdr hb) as [|ty' ds]; [discriminate|].
  destruct (ds >=? maxBlobSize); [discriminate|].
  destruct (ds <? 0); [cbn; discriminate|].
  destruct (bread ds s2) as [e|[bb s3]]; [discriminate|].
  destruct (parse_blob ty' bb); discriminate.
Qed.

Definition settled (o : outcome) : Prop := o = Done \/ o = Failed.

Lemma of_err_settled e : settled (out (@of_err T e)).
Proof. destruct e; [left|right|right]; reflexivity. Qed.

Lemma decode_data_sound (b : blob T) bb : parse_sound -> parse_blob TyData bb = BlobOk b ->
  decode_data current b = SErr \/ exists objs, decode_data current b = SObjs objs.
Proof.
  intros PS Pb. specialize (PS _ _ _ Pb). unfold decode_data.
  pose proof (get_data_no_panic 0 (b_enc b)) as NP. pose proof (get_data_no_hang 0 (b_enc b)) as NH.
  destruct (get_data current 0 (b_enc b)); try contradiction; [|left; reflexivity].
  destruct (b_pay b) as [h|[objs| |]]; try contradiction.
  - right. exists objs. reflexivity.
  - left. reflexivity.
Qed.

Lemma decode_header_sound (b : blob T) bb : parse_sound -> parse_blob TyHeader bb = BlobOk b ->
  decode_header current b = SErr \/ exists objs, decode_header current b = SObjs objs.
Proof.
  intros PS Pb. specialize (PS _ _ _ Pb). unfold decode_header.
  pose proof (get_data_no_panic 0 (b_enc b)) as NP. pose proof (get_data_no_hang 0 (b_enc b)) as NH.
  destruct (get_data current 0 (b_enc b)); try contradiction; [|left; reflexivity].
  destruct (b_pay b) as [[|[|]]|d]; try contradiction.
  - left. reflexivity.
  - right. exists []. reflexivity.
  - left. reflexivity.
Qed.

(* the fuel given by [b_scan] is never used up, and no other branch leaves {Done, Failed} *)
Lemma b_loop_total : parse_sound -> forall fuel s off,
  (length s < fuel)%nat -> settled (out (b_loop current fuel s off)).
Proof.
  intros PS. induction fuel as [|fuel IH]; intros s off Hf; [lia|].
  cbn [b_loop]. pose proof (brfb_no_panic s) as NP.
  destruct (b_read_file_block current s) as [e| |ty b rest n] eqn:R.
  - apply of_err_settled.
  - contradiction.
  - destruct (brfb_ok _ _ _ _ _ _ R) as [Hl [bb Pb]].
    destruct ty; try (right; reflexivity).
    destruct (decode_data_sound b bb PS Pb) as [E|[objs E]]; rewrite E.
    + right. reflexivity.
    + cbn [deliver out]. apply IH. lia.
Qed.

Theorem b_scan_total : parse_sound -> forall s, settled (out (b_scan current s)).
Proof.
  intros PS s. unfold b_scan. pose proof (brfb_no_panic s) as NP.
  destruct (b_read_file_block current s) as [e| |ty b rest n] eqn:R.
  - apply of_err_settled.
  - contradiction.
  - destruct (brfb_ok _ _ _ _ _ _ R) as [Hl [bb Pb]].
    destruct ty; cbn [v_first_other_is_data current].
    + destruct (decode_header_sound b bb PS Pb) as [E|[objs E]]; rewrite E.
      * right. reflexivity.
      * apply b_loop_total; [exact PS|lia].
    + destruct (decode_data_sound b bb PS Pb) as [E|[objs E]]; rewrite E.
      * right. reflexivity.
      * cbn [deliver out]. apply b_loop_total; [exact PS|lia].
    + right. reflexivity.
Qed.

End Bytes.
