(* Framing/Model.v — layer L2 of the PBF model: framing, blobs, and the sequential scan
   (osmpbf/decode.go readFileBlock .. decodeOSMHeader, Start, the reader loop, Next;
   scanner.go Scan/Err/FullyScannedBytes).  Executable definitions only.

   Abstraction.  The byte stream is a list of FRAMES as a writer laid them out; a frame is three
   segments: the 4-byte big-endian size prefix (value [f_pfx]), the BlobHeader bytes ([f_hlen] of
   them, [f_hdr] = what proto.Unmarshal returns for exactly those bytes) and the Blob bytes
   ([f_blen], [f_blob]).  The parsed values are ORACLES about COMPLETE segments (supplied by the
   harness's independent writer); the model never looks at the content of a segment it has not
   read completely.  A reader positioned at the start of frame i with [avail] bytes left in the
   stream (avail < size of the remaining frames when the stream was cut) is all the state
   io.ReadFull depends on.  What a worker's dataDecoder.Decode makes of a block's payload is the
   abstract value [dres] (Ok objs | Err | Panic): decode_data.go is layer L1 (theories/Pbf).

   The scan is the SEQUENTIAL one: blocks are read, decoded and delivered in file order.  That
   the goroutine pipeline delivers exactly this sequence for every decoder count is C02.

   [variant] switches between the code as it is now ([current], after the fix: commits) and the
   code as it was found ([legacy]); the legacy variant only serves the [_refuted] witnesses. *)
From Coq Require Import ZArith List Bool.
Import ListNotations.
Open Scope Z_scope.

Set Implicit Arguments.

(* ---- constants (checked against the translated source constants in Framing/GenOk.v) ---- *)
Definition maxBlobHeaderSize : Z := 65536.       (* 64 * 1024 *)
Definition maxBlobSize : Z := 33554432.          (* 32 * 1024 * 1024 *)
Definition minRead : Z := 512.                   (* bytes.MinRead *)

(* ---- oracle values ---- *)
Inductive btype := TyHeader | TyData | TyOther.

(* proto.Unmarshal of a complete BlobHeader segment *)
Inductive hdr := HdrBad | HdrOk (ty : btype) (datasize : Z).

(* zlib: reader/stream error, or the number of bytes the stream inflates to *)
(* InflTrailing n: a complete zlib stream inflating to n bytes FOLLOWED BY extra bytes inside
   zlib_data (compress/zlib ignores them; the streaming czlib reader of the cgo build spun forever
   on them, see v_trailing_spins).
   n is the length of the WHOLE inflated stream, i.e. what an inflater without a bound would
   produce; it is not bounded by anything in the file (deflate expands up to 1032:1, so a blob
   below the 32 MiB limit can hold a stream of 32 GiB).  How much of it getData materialises is
   [inflated_bytes] below. *)
Inductive inflate := InflErr | InflOk (n : Z) | InflTrailing (n : Z).
Inductive encoding := EncRaw | EncZlib (raw_size : Z) (z : inflate) | EncNone.

(* in-block decode outcome of dataDecoder.scanPrimitiveBlock on the payload *)
Inductive dres (O : Type) := DOk (objs : list O) | DErr | DPanic.
Arguments DErr {O}.
Arguments DPanic {O}.

(* HeaderBlock: does not unmarshal | unmarshals, and every required feature is (not) supported *)
Inductive hres := HBad | HOk (supported : bool).

Inductive payload (O : Type) := PHeader (h : hres) | PData (d : dres O).
Arguments PHeader {O}.

Record blob (O : Type) := Blob { b_enc : encoding; b_pay : payload O }.

(* proto.Unmarshal of a complete Blob segment *)
Inductive blobp (O : Type) := BlobBad | BlobOk (b : blob O).
Arguments BlobBad {O}.

Record frame (O : Type) := Frame {
  f_pfx : Z;           (* value of the 4-byte prefix *)
  f_hlen : Z;          (* BlobHeader bytes actually in the stream *)
  f_hdr : hdr;
  f_blen : Z;          (* Blob bytes actually in the stream *)
  f_blob : blobp O }.

Definition frame_size {O} (f : frame O) : Z := 4 + f_hlen f + f_blen f.
Definition total_size {O} (fs : list (frame O)) : Z := fold_right (fun f a => frame_size f + a) 0 fs.

(* ---- variants of the code ---- *)
Record variant := Variant {
  v_eof_passthrough : bool;   (* io.EOF of a ReadFull inside a block is returned as is *)
  v_neg_datasize_panics : bool; (* blobBuf[:datasize] with datasize < 0 *)
  v_first_other_is_data : bool; (* a first block that is neither OSMHeader nor OSMData is decoded as data *)
  v_rawsize_unchecked : bool;   (* raw_size is used for the allocation before any check *)
  v_trailing_spins : bool;      (* cgo build: streaming czlib reader, never returns when bytes follow
                                   the end of the zlib stream (repaired: one inflate call) *)
  v_inflate_unbounded : bool    (* the whole stream is inflated before its length is compared with
                                   raw_size (repaired 066d256: at most raw_size + 1 bytes) *)
}.
Definition legacy : variant := Variant true true true true true true.
Definition current : variant := Variant false false false false false false.

(* ---- io.ReadFull on a stream with [avail] bytes left ---- *)
Inductive rerr := REOF | RUnexpectedEOF.

Definition read_full (n avail : Z) : option rerr :=
  if n <=? 0 then None                 (* min = 0: returns (0, nil) without reading *)
  else if avail <=? 0 then Some REOF   (* nothing could be read *)
  else if avail <? n then Some RUnexpectedEOF
  else None.

(* errors as the scanner sees them *)
Inductive err := EEOF | EUnexpectedEOF | EOther.

Definition top_err (e : rerr) : err :=
  match e with REOF => EEOF | RUnexpectedEOF => EUnexpectedEOF end.
(* an error of a read inside a block (header or blob segment) *)
Definition inner_err (v : variant) (e : rerr) : err :=
  match e with
  | REOF => if v_eof_passthrough v then EEOF else EUnexpectedEOF
  | RUnexpectedEOF => EUnexpectedEOF
  end.

(* ---- readFileBlock ---- *)
Inductive fb_res (O : Type) :=
  | FbErr (e : err)
  | FbPanic
  | FbOut                       (* outside the abstraction: the reader is no longer aligned with the frames *)
  | FbOk (ty : btype) (b : blob O) (consumed : Z).
Arguments FbErr {O}.
Arguments FbPanic {O}.
Arguments FbOut {O}.

Definition read_file_block {O} (v : variant) (of : option (frame O)) (avail : Z) : fb_res O :=
  match of with
  | None => if avail <=? 0 then FbErr EEOF else FbOut
  | Some f =>
    match read_full 4 avail with
    | Some e => FbErr (top_err e)
    | None =>
      if f_pfx f >=? maxBlobHeaderSize then FbErr EOther else
      match read_full (f_pfx f) (avail - 4) with
      | Some e => FbErr (inner_err v e)
      | None =>
        if negb (f_pfx f =? f_hlen f) then FbOut else
        match f_hdr f with
        | HdrBad => FbErr EOther
        | HdrOk ty ds =>
          if ds >=? maxBlobSize then FbErr EOther else
          if ds <? 0 then (if v_neg_datasize_panics v then FbPanic else FbErr EOther) else
          match read_full ds (avail - 4 - f_pfx f) with
          | Some e => FbErr (inner_err v e)
          | None =>
            if negb (ds =? f_blen f) then FbOut else
            match f_blob f with
            | BlobBad => FbErr EOther
            | BlobOk b => FbOk ty b (4 + f_pfx f + ds)
            end
          end
        end
      end
    end
  end.

(* ---- getData ---- *)
Inductive gres := GOk | GErr | GPanic | GHang.

Definition wrap32 (x : Z) : Z := (x + 2147483648) mod 4294967296 - 2147483648.

(* [cap0]: capacity of the buffer handed in (0 for the header block and for a fresh decoder) *)
Definition get_data (v : variant) (cap0 : Z) (e : encoding) : gres :=
  match e with
  | EncRaw => GOk
  | EncNone => GErr
  | EncZlib rs z =>
      if negb (v_rawsize_unchecked v) && ((rs <? 0) || (rs >=? maxBlobSize)) then GErr else
      let l := wrap32 (rs + minRead) in
      if (cap0 <? l) && (wrap32 (l + Z.quot l 10) <? 0) then GPanic   (* make([]byte, 0, negative) *)
      else match z with
           | InflErr => GErr
           | InflOk n => if n =? rs then GOk else GErr
           | InflTrailing n =>
               if v_trailing_spins v then GHang else if n =? rs then GOk else GErr
           end
  end.

(* the number of bytes getData lets the inflater produce for one blob (memory, and time, of the
   call): one byte more than announced is enough to notice a longer stream *)
Definition inflate_len (z : inflate) : Z :=
  match z with InflErr => 0 | InflOk n | InflTrailing n => n end.
Definition inflated_bytes (v : variant) (e : encoding) : Z :=
  match e with
  | EncZlib rs z =>
      if v_inflate_unbounded v then inflate_len z
      else if (rs <? 0) || (rs >=? maxBlobSize) then 0
      else Z.min (inflate_len z) (rs + 1)
  | _ => 0
  end.

(* ---- what becomes of one block ---- *)
Inductive step (O : Type) := SObjs (objs : list O) | SErr | SPanic | SOut | SHang.
Arguments SErr {O}.
Arguments SPanic {O}.
Arguments SOut {O}.
Arguments SHang {O}.

(* dataDecoder.Decode.  The code hands getData the worker's reused buffer dec.data (capacity > 0
   after its first zlib block); the model always passes capacity 0, the fresh-decoder case.  For
   [current] this loses nothing ([get_data_no_panic] is for every capacity: the size check comes
   first); the [legacy] raw_size witness is therefore that of a decoder's FIRST zlib block. *)
Definition decode_data {O} (v : variant) (b : blob O) : step O :=
  match get_data v 0 (b_enc b) with
  | GErr => SErr
  | GPanic => SPanic
  | GHang => SHang
  | GOk => match b_pay b with
           | PData (DOk objs) => SObjs objs
           | PData DErr => SErr
           | PData DPanic => SPanic
           | PHeader _ => SOut
           end
  end.

(* decodeOSMHeader: SObjs [] stands for "header accepted" *)
Definition decode_header {O} (v : variant) (b : blob O) : step O :=
  match get_data v 0 (b_enc b) with
  | GErr => SErr
  | GPanic => SPanic
  | GHang => SHang
  | GOk => match b_pay b with
           | PHeader HBad => SErr
           | PHeader (HOk true) => SObjs []
           | PHeader (HOk false) => SErr
           | PData _ => SOut
           end
  end.

(* ---- the scan ---- *)
Inductive outcome := Done (* Scan returned false, Err() = nil *)
                   | Failed (* Scan returned false, Err() <> nil *)
                   | Crashed (* a panic: the calling process dies *)
                   | OutOfModel
                   | Hung (* a decoder never returns: the scan hangs *).

(* blocks handed to the consumer, in order: (offset carried with the block, objects) *)
Record result (O : Type) := Result { deliveries : list (Z * list O); out : outcome }.

Definition stop {O} (o : outcome) : result O := Result [] o.
Definition deliver {O} (off : Z) (objs : list O) (r : result O) : result O :=
  Result ((off, objs) :: deliveries r) (out r).

Definition of_err {O} (e : err) : result O :=
  match e with EEOF => stop Done | _ => stop Failed end.

(* the reader loop + worker + serializer + Next, in file order; [off] = dec.bytesRead *)
Fixpoint blocks_loop {O} (v : variant) (fs : list (frame O)) (avail off : Z) : result O :=
  match fs with
  | [] => match read_file_block v (@None (frame O)) avail with
          | FbErr e => of_err e
          | _ => stop OutOfModel
          end
  | f :: fs' =>
      match read_file_block v (Some f) avail with
      | FbErr e => of_err e
      | FbPanic => stop Crashed
      | FbOut => stop OutOfModel
      | FbOk ty b n =>
          match ty with
          | TyData =>
              match decode_data v b with
              | SObjs objs => deliver off objs (blocks_loop v fs' (avail - n) (off + n))
              | SErr => stop Failed
              | SPanic => stop Crashed
              | SOut => stop OutOfModel
              | SHang => stop Hung
              end
          | _ => stop Failed            (* unexpected fileblock of type ... *)
          end
      end
  end.

(* decoder.Start followed by Scan until it returns false *)
Definition scan {O} (v : variant) (fs : list (frame O)) (avail : Z) : result O :=
  match fs with
  | [] => blocks_loop v fs avail 0      (* Start: readFileBlock -> EOF *)
  | f :: fs' =>
      match read_file_block v (Some f) avail with
      | FbErr e => of_err e
      | FbPanic => stop Crashed
      | FbOut => stop OutOfModel
      | FbOk ty b n =>
          let as_data :=
            match decode_data v b with
            | SObjs objs => deliver 0 objs (blocks_loop v fs' (avail - n) n)
            | SErr => stop Failed
            | SPanic => stop Crashed
            | SOut => stop OutOfModel
            | SHang => stop Hung
            end in
          match ty with
          | TyHeader =>
              match decode_header v b with
              | SObjs _ => blocks_loop v fs' (avail - n) n
              | SErr => stop Failed
              | SPanic => stop Crashed
              | SOut => stop OutOfModel
              | SHang => stop Hung
              end
          | TyData => as_data
          | TyOther => if v_first_other_is_data v then as_data else stop Failed
          end
      end
  end.

Definition objects {O} (r : result O) : list O := concat (map snd (deliveries r)).

(* ---- the consumer side: decoder.Next and the two offset accessors ---- *)
(* every returned object with FullyScannedBytes and PreviousFullyScannedBytes as read right
   after the Scan that returned it; [c] = dec.cOffset before the block is taken *)
Fixpoint consume {O} (c : Z) (ds : list (Z * list O)) : list (O * Z * Z) :=
  match ds with
  | [] => []
  | (off, objs) :: r => map (fun o => (o, off, c)) objs ++ consume off r
  end.

Definition trace {O} (r : result O) : list (O * Z * Z) := consume 0 (deliveries r).

(* FullyScannedBytes after [k] objects were returned (0 before the first).  Total functions:
   for k beyond the number of objects the value is -1, which is no offset ([seek (-1) _ = None]);
   the theorems that use them bound k (C09_reported_offsets puts the option on the spec side,
   C09_stop_and_resume_loses_nothing could not meet its existential with the default). *)
Definition fsb_after {O} (r : result O) (k : nat) : Z :=
  match k with
  | O => 0
  | S k' => match nth_error (trace r) k' with Some (_, c, _) => c | None => -1 end
  end.
Definition pfsb_after {O} (r : result O) (k : nat) : Z :=
  match k with
  | O => 0
  | S k' => match nth_error (trace r) k' with Some (_, _, p) => p | None => -1 end
  end.

(* (PreviousFullyScannedBytes, FullyScannedBytes) once Scan has returned false at the end of a
   complete scan: every delivered block was taken, the EOF marker is not *)
Fixpoint final_offsets {O} (p c : Z) (ds : list (Z * list O)) : Z * Z :=
  match ds with
  | [] => (p, c)
  | (off, _) :: r => final_offsets c off r
  end.

(* ---- the two offsets after a scan that ended with an ERROR (modelled and observed behaviour;
   outside property C09, which speaks of stop positions after returned objects) ----
   An error reaches Next as a pair too, and Next shifts pOffset := cOffset; cOffset := pair.Offset
   BEFORE it looks at the pair's error.  A reader-side error (a block cut short, a block of an
   unexpected type, any readFileBlock error) travels as iPair{Err: err}: Offset 0.  A decode
   error travels as oPair{Offset: p.Offset, Err: err}: the offset of the bad block.  An error of
   Start (first block) is returned directly: no pair, nothing shifts.  [*_err_off]: the Offset of
   the error pair, None when the scan ends without one. *)
Fixpoint loop_err_off {O} (v : variant) (fs : list (frame O)) (avail off : Z) : option Z :=
  match fs with
  | [] => match read_file_block v (@None (frame O)) avail with
          | FbErr EEOF => None
          | FbErr _ => Some 0
          | _ => None
          end
  | f :: fs' =>
      match read_file_block v (Some f) avail with
      | FbErr EEOF => None
      | FbErr _ => Some 0
      | FbOk ty b n =>
          match ty with
          | TyData =>
              match decode_data v b with
              | SObjs _ => loop_err_off v fs' (avail - n) (off + n)
              | SErr => Some off
              | _ => None
              end
          | _ => Some 0
          end
      | _ => None
      end
  end.

Definition scan_err_off {O} (v : variant) (fs : list (frame O)) (avail : Z) : option Z :=
  match fs with
  | [] => None
  | f :: fs' =>
      match read_file_block v (Some f) avail with
      | FbOk ty b n =>
          let as_data :=
            match decode_data v b with
            | SObjs _ => loop_err_off v fs' (avail - n) n
            | SErr => Some 0
            | _ => None
            end in
          match ty with
          | TyHeader => match decode_header v b with
                        | SObjs _ => loop_err_off v fs' (avail - n) n
                        | _ => None
                        end
          | TyData => as_data
          | TyOther => if v_first_other_is_data v then as_data else None
          end
      | _ => None
      end
  end.

(* (PreviousFullyScannedBytes, FullyScannedBytes) once Scan has returned false, error or not *)
Definition end_offsets {O} (r : result O) (eo : option Z) : Z * Z :=
  let '(p, c) := final_offsets 0 0 (deliveries r) in
  match eo with Some o => (c, o) | None => (p, c) end.

(* data[off:] as frames: Some rest when [off] is the start of a frame (or the end), None otherwise *)
Fixpoint seek {O} (off : Z) (fs : list (frame O)) : option (list (frame O)) :=
  if off =? 0 then Some fs else
  match fs with
  | [] => None
  | f :: fs' => if off <? frame_size f then None else seek (off - frame_size f) fs'
  end.
