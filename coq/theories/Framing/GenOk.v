(* Framing/GenOk.v — obligations tying the model's constants to the ones re-read from
   /repo/osmpbf/decode.go on every run (translator/cmd/pbfconsts -> gen/GenPbfConsts.v). *)
From Coq Require Import ZArith List String.
From Verif Require Import Framing.Model.
From VerifGen Require GenPbfConsts.
Import ListNotations.
Open Scope Z_scope.
Open Scope string_scope.

Lemma gen_maxBlobHeaderSize : GenPbfConsts.maxBlobHeaderSize = Model.maxBlobHeaderSize.
Proof. reflexivity. Qed.

Lemma gen_maxBlobSize : GenPbfConsts.maxBlobSize = Model.maxBlobSize.
Proof. reflexivity. Qed.

(* the block type names the oracle values TyHeader / TyData stand for *)
Lemma gen_block_types :
  GenPbfConsts.osmHeaderType = "OSMHeader" /\ GenPbfConsts.osmDataType = "OSMData".
Proof. split; reflexivity. Qed.

(* the feature gate: the harness computes "every required feature is supported" against exactly
   this set (sorted by the translator) *)
Lemma gen_capabilities :
  GenPbfConsts.parseCapabilities = ["DenseNodes"; "HistoricalInformation"; "OsmSchema-V0.6"].
Proof. reflexivity. Qed.

(* the comparisons of the size checks, as (operator, limit) pairs: the model's
   [f_pfx >=? maxBlobHeaderSize], [ds >=? maxBlobSize], [ds <? 0], [rs <? 0], [rs >=? maxBlobSize] *)
Lemma gen_size_checks :
  GenPbfConsts.checks_readBlobHeaderSize = [">= maxBlobHeaderSize"] /\
  (List.In ">= maxBlobSize" GenPbfConsts.checks_readBlobHeader /\ List.In "< 0" GenPbfConsts.checks_readBlobHeader
   /\ List.length GenPbfConsts.checks_readBlobHeader = 2%nat) /\
  (List.In ">= maxBlobSize" GenPbfConsts.checks_getData /\ List.In "< 0" GenPbfConsts.checks_getData
   /\ List.length GenPbfConsts.checks_getData = 2%nat).
Proof. cbn. intuition. Qed.

(* bytesRead += 4 + headerSize + datasize : the model's [consumed = 4 + f_pfx + ds] *)
Lemma gen_accounting : GenPbfConsts.bytesRead_increment = ["op +"; "op +"; "lit 4"].
Proof. reflexivity. Qed.
