(* Framing/GenOk.v — obligations tying the model's constants to the ones re-read from
   /repo/osmpbf/decode.go on every run (translator/cmd/pbfconsts -> gen/GenPbfConsts.v). *)
From Coq Require Import ZArith List String Bool.
From Verif Require Import Framing.Model.
From VerifGen Require GenPbfConsts.
Import ListNotations.
Open Scope Z_scope.
Open Scope string_scope.

Lemma gen_maxBlobHeaderSize : GenPbfConsts.maxBlobHeaderSize = Model.maxBlobHeaderSize.
Proof. reflexivity. Qed.

Lemma gen_maxBlobSize : GenPbfConsts.maxBlobSize = Model.maxBlobSize.
Proof. reflexivity. Qed.

(* the block type names the oracle values TyHeader / TyData stand for *)
Lemma gen_block_types :
  GenPbfConsts.osmHeaderType = "OSMHeader" /\ GenPbfConsts.osmDataType = "OSMData".
Proof. split; reflexivity. Qed.

(* the feature gate: the harness computes "every required feature is supported" against exactly
   this set (sorted by the translator); no claim when the source represents the set differently *)
Lemma gen_capabilities :
  GenPbfConsts.parseCapabilities_found = false \/
  GenPbfConsts.parseCapabilities = ["DenseNodes"; "HistoricalInformation"; "OsmSchema-V0.6"].
Proof. right. reflexivity. Qed.

(* every comparison against one of the two limit constants, anywhere in decode.go, is the model's
   [>=?] (f_pfx >=? maxBlobHeaderSize, ds >=? maxBlobSize, rs >=? maxBlobSize), and both limits are
   compared at least once.  Independent of function, helper and variable names. *)
Lemma gen_size_checks :
  forallb (fun s => String.eqb s ">= maxBlobHeaderSize" || String.eqb s ">= maxBlobSize")
          GenPbfConsts.limit_checks
  && existsb (String.eqb ">= maxBlobHeaderSize") GenPbfConsts.limit_checks
  && existsb (String.eqb ">= maxBlobSize") GenPbfConsts.limit_checks = true.
Proof. vm_compute. reflexivity. Qed.

(* bytesRead += 4 + headerSize + datasize (the model's [consumed = 4 + f_pfx + ds]): whenever the
   translator recognises the shape of the increment, the only constant in it is 4 and the only
   operator is + *)
Lemma gen_accounting :
  forallb (fun s => String.eqb s "lit 4" || String.eqb s "op +") GenPbfConsts.bytesRead_increment
  && (match GenPbfConsts.bytesRead_increment with [] => true | _ => false end
      || existsb (String.eqb "lit 4") GenPbfConsts.bytesRead_increment) = true.
Proof. vm_compute. reflexivity. Qed.
