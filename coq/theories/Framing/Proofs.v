(* Framing/Proofs.v — lemmas about the framing layer: what readFileBlock does to an intact frame
   with enough / too few / no bytes left, the scan of a cut stream, crash freedom. *)
From Coq Require Import ZArith List Bool Lia.
From Verif Require Import Framing.Model Framing.Valid.
Import ListNotations.
Open Scope Z_scope.

Section Proofs.
Context {T : Type}.
Implicit Types (f : frame T) (fs : list (frame T)).

Lemma maxBlobHeaderSize_val : maxBlobHeaderSize = 65536. Proof. reflexivity. Qed.
Lemma maxBlobSize_val : maxBlobSize = 33554432. Proof. reflexivity. Qed.

Lemma geb_false : forall a b, a < b -> (a >=? b) = false.
Proof. intros a b H. rewrite Z.geb_leb. apply Z.leb_gt. exact H. Qed.
Lemma geb_false_inv : forall a b, (a >=? b) = false -> a < b.
Proof. intros a b H. rewrite Z.geb_leb in H. apply Z.leb_gt in H. exact H. Qed.

(* ---- io.ReadFull ---- *)
Lemma read_full_enough : forall n avail, n <= avail -> read_full n avail = None.
Proof.
  intros n avail H. unfold read_full.
  destruct (n <=? 0) eqn:E0; [reflexivity|].
  apply Z.leb_gt in E0.
  destruct (avail <=? 0) eqn:E1; [apply Z.leb_le in E1; lia|].
  destruct (avail <? n) eqn:E2; [apply Z.ltb_lt in E2; lia|reflexivity].
Qed.

Lemma read_full_short : forall n avail, 0 < n -> avail < n ->
  read_full n avail = Some (if avail <=? 0 then REOF else RUnexpectedEOF).
Proof.
  intros n avail Hn H. unfold read_full.
  destruct (n <=? 0) eqn:E0; [apply Z.leb_le in E0; lia|].
  destruct (avail <=? 0) eqn:E1; [reflexivity|].
  destruct (avail <? n) eqn:E2; [reflexivity|apply Z.ltb_ge in E2; lia].
Qed.

(* ---- getData ---- *)
Lemma wrap32_small : forall x, -2147483648 <= x < 2147483648 -> wrap32 x = x.
Proof.
  intros x H. unfold wrap32. rewrite Z.mod_small by lia. lia.
Qed.

Lemma get_data_ok : forall e, enc_ok e = true -> get_data current 0 e = GOk.
Proof.
  intros [|rs [|n|n]|] H; simpl in H; try discriminate; [reflexivity| |].
  all: apply andb_prop in H as [H Hn]; apply andb_prop in H as [H0 H1];
    apply Z.leb_le in H0; apply Z.ltb_lt in H1; rewrite maxBlobSize_val in H1;
    unfold get_data; cbn [v_rawsize_unchecked v_trailing_spins current negb andb];
    assert (E1 : (rs <? 0) = false) by (apply Z.ltb_ge; lia);
    assert (E2 : (rs >=? maxBlobSize) = false) by (rewrite maxBlobSize_val; apply geb_false; lia);
    rewrite E1, E2; cbn [orb]; unfold minRead;
    rewrite (wrap32_small (rs + 512)) by lia;
    assert (Hq : 0 <= Z.quot (rs + 512) 10 <= rs + 512)
      by (split; [apply Z.quot_pos; lia|apply Z.quot_le_upper_bound; lia]);
    rewrite (wrap32_small (rs + 512 + Z.quot (rs + 512) 10)) by lia;
    assert (E3 : (rs + 512 + Z.quot (rs + 512) 10 <? 0) = false) by (apply Z.ltb_ge; lia);
    rewrite E3, andb_false_r; rewrite Hn; reflexivity.
Qed.

Lemma get_data_no_panic : forall cap0 e, get_data current cap0 e <> GPanic.
Proof.
  intros cap0 [|rs z|]; unfold get_data; try discriminate.
  cbn [v_rawsize_unchecked current negb andb].
  destruct (rs <? 0) eqn:E1; [discriminate|].
  destruct (rs >=? maxBlobSize) eqn:E2; [discriminate|].
  cbn [orb]. apply Z.ltb_ge in E1. apply geb_false_inv in E2.
  rewrite maxBlobSize_val in E2. unfold minRead.
  rewrite (wrap32_small (rs + 512)) by lia.
  assert (Hq : 0 <= Z.quot (rs + 512) 10 <= rs + 512).
  { split; [apply Z.quot_pos; lia|]. apply Z.quot_le_upper_bound; lia. }
  rewrite (wrap32_small (rs + 512 + Z.quot (rs + 512) 10)) by lia.
  assert (E3 : (rs + 512 + Z.quot (rs + 512) 10 <? 0) = false) by (apply Z.ltb_ge; lia).
  rewrite E3, andb_false_r. cbn [v_trailing_spins current].
  destruct z as [|n|n]; [discriminate| |]; destruct (n =? rs); discriminate.
Qed.

(* ... and never hangs: the inflater returns whatever follows the zlib stream *)
Lemma get_data_no_hang : forall cap0 e, get_data current cap0 e <> GHang.
Proof.
  intros cap0 [|rs z|]; unfold get_data; try discriminate.
  cbn [v_rawsize_unchecked v_trailing_spins current negb andb].
  destruct ((rs <? 0) || (rs >=? maxBlobSize)); [discriminate|].
  destruct ((cap0 <? wrap32 (rs + minRead)) &&
            (wrap32 (wrap32 (rs + minRead) + Z.quot (wrap32 (rs + minRead)) 10) <? 0)); [discriminate|].
  destruct z as [|n|n]; [discriminate| |]; destruct (n =? rs); discriminate.
Qed.

(* ... and never lets the inflater produce more than the blob size limit, whatever the stream
   would inflate to *)
Lemma inflated_bytes_bounded : forall e, inflated_bytes current e <= maxBlobSize.
Proof.
  intros [|rs z|]; unfold inflated_bytes; cbn [v_inflate_unbounded current]; unfold maxBlobSize; try lia.
  destruct ((rs <? 0) || (rs >=? 33554432)) eqn:E; [lia|].
  apply orb_false_iff in E. destruct E as [_ E]. apply geb_false_inv in E. lia.
Qed.

Lemma inflated_bytes_follow_raw_size : forall rs z,
  inflated_bytes current (EncZlib rs z) <= Z.max 0 (rs + 1).
Proof.
  intros rs z. unfold inflated_bytes; cbn [v_inflate_unbounded current].
  destruct ((rs <? 0) || (rs >=? maxBlobSize)); lia.
Qed.

Lemma get_data_bad : forall e, enc_bad e = true -> get_data current 0 e = GErr.
Proof.
  intros [|rs z|] H; cbn [enc_bad] in H; try discriminate; [|reflexivity].
  unfold get_data. cbn [v_rawsize_unchecked current negb andb].
  destruct ((rs <? 0) || (rs >=? maxBlobSize)) eqn:E; [reflexivity|].
  pose proof (get_data_no_panic 0 (EncZlib rs z)) as Hnp.
  unfold get_data in Hnp. cbn [v_rawsize_unchecked current negb andb] in Hnp. rewrite E in Hnp.
  destruct ((0 <? wrap32 (rs + minRead)) &&
            (wrap32 (wrap32 (rs + minRead) + Z.quot (wrap32 (rs + minRead)) 10) <? 0)) eqn:E3;
    [exfalso; apply Hnp; reflexivity|].
  cbn [v_trailing_spins current].
  destruct z as [|n|n]; [reflexivity| |]; cbn [enc_bad] in H; cbn [orb] in H;
    apply negb_true_iff in H; rewrite H; reflexivity.
Qed.

(* ---- readFileBlock on a frame whose three segments are what prefix and datasize say ---- *)
Definition good_frame (ty : btype) (b : blob T) f : Prop :=
  framed f = true /\ f_hdr f = HdrOk ty (f_blen f) /\ f_blob f = BlobOk b.

Lemma framed_facts : forall f, framed f = true ->
  f_pfx f = f_hlen f /\ 0 < f_hlen f < 65536 /\ 0 < f_blen f < 33554432.
Proof.
  intros f H. unfold framed in H.
  repeat (apply andb_prop in H as [H ?]).
  apply Z.eqb_eq in H.
  repeat match goal with h : (_ <? _) = true |- _ => apply Z.ltb_lt in h end.
  rewrite maxBlobHeaderSize_val in *. rewrite maxBlobSize_val in *. lia.
Qed.

Lemma rfb_complete : forall v ty b f avail, good_frame ty b f -> frame_size f <= avail ->
  read_file_block v (Some f) avail = FbOk ty b (frame_size f).
Proof.
  intros v ty b f avail (Hf & Hh & Hb) Ha.
  destruct (framed_facts f Hf) as (Hp & Hl & Hbl). unfold frame_size in *.
  unfold read_file_block.
  rewrite (read_full_enough 4 avail) by lia.
  assert (E1 : (f_pfx f >=? maxBlobHeaderSize) = false)
    by (rewrite maxBlobHeaderSize_val; apply geb_false; lia).
  rewrite E1. rewrite (read_full_enough (f_pfx f) (avail - 4)) by lia.
  assert (E2 : (f_pfx f =? f_hlen f) = true) by (apply Z.eqb_eq; exact Hp).
  rewrite E2. cbn [negb]. rewrite Hh.
  assert (E3 : (f_blen f >=? maxBlobSize) = false)
    by (rewrite maxBlobSize_val; apply geb_false; lia).
  rewrite E3.
  assert (E4 : (f_blen f <? 0) = false) by (apply Z.ltb_ge; lia).
  rewrite E4. rewrite (read_full_enough (f_blen f) (avail - 4 - f_pfx f)) by lia.
  rewrite Z.eqb_refl. cbn [negb]. rewrite Hb. rewrite Hp. reflexivity.
Qed.

(* the input ends strictly inside the frame: an error, and (after the fix) never io.EOF *)
Lemma rfb_cut_inside : forall ty b f avail, good_frame ty b f -> 0 < avail < frame_size f ->
  read_file_block current (Some f) avail = FbErr EUnexpectedEOF.
Proof.
  intros ty b f avail (Hf & Hh & Hb) Ha.
  destruct (framed_facts f Hf) as (Hp & Hl & Hbl). unfold frame_size in *.
  unfold read_file_block.
  destruct (Z_lt_ge_dec avail 4) as [H4|H4].
  { rewrite (read_full_short 4 avail) by lia.
    assert (E : (avail <=? 0) = false) by (apply Z.leb_gt; lia). rewrite E. reflexivity. }
  rewrite (read_full_enough 4 avail) by lia.
  assert (E1 : (f_pfx f >=? maxBlobHeaderSize) = false)
    by (rewrite maxBlobHeaderSize_val; apply geb_false; lia).
  rewrite E1.
  destruct (Z_lt_ge_dec (avail - 4) (f_pfx f)) as [H5|H5].
  { rewrite (read_full_short (f_pfx f) (avail - 4)) by lia.
    destruct (avail - 4 <=? 0); reflexivity. }
  rewrite (read_full_enough (f_pfx f) (avail - 4)) by lia.
  assert (E2 : (f_pfx f =? f_hlen f) = true) by (apply Z.eqb_eq; exact Hp).
  rewrite E2. cbn [negb]. rewrite Hh.
  assert (E3 : (f_blen f >=? maxBlobSize) = false)
    by (rewrite maxBlobSize_val; apply geb_false; lia).
  rewrite E3.
  assert (E4 : (f_blen f <? 0) = false) by (apply Z.ltb_ge; lia).
  rewrite E4.
  rewrite (read_full_short (f_blen f) (avail - 4 - f_pfx f)) by lia.
  destruct (avail - 4 - f_pfx f <=? 0); reflexivity.
Qed.

Lemma rfb_nothing : forall v f avail, avail <= 0 ->
  read_file_block v (Some f) avail = FbErr EEOF.
Proof.
  intros v f avail Ha. unfold read_file_block.
  rewrite (read_full_short 4 avail) by lia.
  assert (E : (avail <=? 0) = true) by (apply Z.leb_le; lia). rewrite E. reflexivity.
Qed.

Lemma good_data_frame_inv : forall f, good_data_frame f = true ->
  exists b objs, good_frame TyData b f /\ enc_ok (b_enc b) = true /\ b_pay b = PData (DOk objs)
                 /\ frame_objs f = objs.
Proof.
  intros f H. unfold good_data_frame in H. apply andb_prop in H as [Hf H].
  destruct (f_hdr f) as [|ty ds] eqn:Eh; [discriminate|].
  destruct ty; try discriminate.
  destruct (f_blob f) as [|b] eqn:Eb; [discriminate|].
  apply andb_prop in H as [H Hp]. apply andb_prop in H as [Hd He].
  apply Z.eqb_eq in Hd. subst ds.
  destruct (b_pay b) as [h|[objs| |]] eqn:Epay; try discriminate.
  exists b, objs. unfold good_frame, frame_objs. rewrite Eb, Epay. auto.
Qed.

Lemma good_header_frame_inv : forall f, good_header_frame f = true ->
  exists b, good_frame TyHeader b f /\ enc_ok (b_enc b) = true /\ b_pay b = PHeader (HOk true)
            /\ frame_objs f = [] /\ is_header_frame f = true.
Proof.
  intros f H. unfold good_header_frame in H. apply andb_prop in H as [Hf H].
  destruct (f_hdr f) as [|ty ds] eqn:Eh; [discriminate|].
  destruct ty; try discriminate.
  destruct (f_blob f) as [|b] eqn:Eb; [discriminate|].
  apply andb_prop in H as [H Hp]. apply andb_prop in H as [Hd He].
  apply Z.eqb_eq in Hd. subst ds.
  destruct (b_pay b) as [[|[|]]|d] eqn:Epay; try discriminate.
  exists b. unfold good_frame, frame_objs, is_header_frame. rewrite Eb, Epay, Eh. auto.
Qed.

Lemma good_data_not_header : forall f, good_data_frame f = true -> is_header_frame f = false.
Proof.
  intros f H. destruct (good_data_frame_inv f H) as (b & objs & (_ & Hh & _) & _).
  unfold is_header_frame. rewrite Hh. reflexivity.
Qed.

Lemma decode_data_good : forall (b : blob T) objs, enc_ok (b_enc b) = true -> b_pay b = PData (DOk objs) ->
  decode_data current b = SObjs objs.
Proof.
  intros b objs He Hp. unfold decode_data. rewrite (get_data_ok _ He), Hp. reflexivity.
Qed.

Lemma decode_header_good : forall (b : blob T), enc_ok (b_enc b) = true -> b_pay b = PHeader (HOk true) ->
  decode_header current b = @SObjs T [].
Proof.
  intros b He Hp. unfold decode_header. rewrite (get_data_ok _ He), Hp. reflexivity.
Qed.

Lemma frame_size_pos : forall f, framed f = true -> 0 < frame_size f.
Proof. intros f H. destruct (framed_facts f H). unfold frame_size. lia. Qed.

Lemma good_data_framed : forall f, good_data_frame f = true -> framed f = true.
Proof. intros f H. unfold good_data_frame in H. apply andb_prop in H as [H _]. exact H. Qed.

Lemma total_size_nonneg : forall fs, forallb good_data_frame fs = true -> 0 <= total_size fs.
Proof.
  induction fs as [|f r IH]; simpl; intros H; [lia|].
  apply andb_prop in H as [Hf Hr].
  pose proof (frame_size_pos f (good_data_framed f Hf)). specialize (IH Hr). lia.
Qed.

End Proofs.
