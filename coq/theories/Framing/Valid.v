(* Framing/Valid.v — boolean well-formedness predicates (the hypotheses of the theorems; the
   harness generates files inside them and Check.v re-evaluates them on every case), the
   enumerated damage classes of property C06, and the frame-level specification of what a
   scan delivers.  Executable definitions only. *)
From Coq Require Import ZArith List Bool.
From Verif Require Import Framing.Model.
Import ListNotations.
Open Scope Z_scope.

Section Valid.
Context {T : Type}.

(* an encoding getData accepts *)
Definition enc_ok (e : encoding) : bool :=
  match e with
  | EncRaw => true
  | EncZlib rs (InflOk n) | EncZlib rs (InflTrailing n) =>
      (0 <=? rs) && (rs <? maxBlobSize) && (n =? rs)   (* extra bytes after the stream are ignored *)
  | _ => false
  end.

(* prefix and datasize say what is really there; segments are non-empty and below the limits *)
Definition framed (f : frame T) : bool :=
  (f_pfx f =? f_hlen f) && (0 <? f_hlen f) && (f_hlen f <? maxBlobHeaderSize)
  && (0 <? f_blen f) && (f_blen f <? maxBlobSize).

Definition good_data_frame (f : frame T) : bool :=
  framed f &&
  match f_hdr f, f_blob f with
  | HdrOk TyData ds, BlobOk b =>
      (ds =? f_blen f) && enc_ok (b_enc b)
      && match b_pay b with PData (DOk _) => true | _ => false end
  | _, _ => false
  end.

Definition good_header_frame (f : frame T) : bool :=
  framed f &&
  match f_hdr f, f_blob f with
  | HdrOk TyHeader ds, BlobOk b =>
      (ds =? f_blen f) && enc_ok (b_enc b)
      && match b_pay b with PHeader (HOk true) => true | _ => false end
  | _, _ => false
  end.

(* a valid stream: an optional header frame (absent after a resume) followed by data frames *)
Definition valid_file (fs : list (frame T)) : bool :=
  match fs with
  | [] => true
  | f :: r => (good_header_frame f || good_data_frame f) && forallb good_data_frame r
  end.

Definition is_header_frame (f : frame T) : bool :=
  match f_hdr f with HdrOk TyHeader _ => true | _ => false end.

(* objects a frame contributes when it is intact (a header block contributes none) *)
Definition frame_objs (f : frame T) : list T :=
  match f_blob f with
  | BlobOk b => match b_pay b with PData (DOk objs) => objs | _ => [] end
  | BlobBad => []
  end.

(* what the consumer must be handed: every data block with the offset of its first byte *)
Fixpoint deliveries_from (off : Z) (fs : list (frame T)) : list (Z * list T) :=
  match fs with
  | [] => []
  | f :: r => (off, frame_objs f) :: deliveries_from (off + frame_size f) r
  end.
Definition spec_deliveries (fs : list (frame T)) : list (Z * list T) :=
  match fs with
  | [] => []
  | f :: r => if is_header_frame f then deliveries_from (frame_size f) r else deliveries_from 0 fs
  end.

(* no block whose in-block decoding panics (that decode_data.go never panics is layer L1) *)
Definition no_dpanic (f : frame T) : bool :=
  match f_blob f with
  | BlobOk b => match b_pay b with PData DPanic => false | _ => true end
  | BlobBad => true
  end.

(* ---- damage classes (property C06), as decidable predicates on one frame ----
   [first]: the frame is the first of the stream; [a]: bytes available from its first byte. *)
Inductive damage :=
  | DmgPrefixTooBig | DmgHeaderUnparsable | DmgDatasizeTooBig | DmgDatasizeNegative
  | DmgDatasizePastEnd | DmgBlobUnparsable | DmgBlockType | DmgEncoding
  | DmgHeaderBlock | DmgFeature | DmgInBlock.

Definition all_damages : list damage :=
  [DmgPrefixTooBig; DmgHeaderUnparsable; DmgDatasizeTooBig; DmgDatasizeNegative;
   DmgDatasizePastEnd; DmgBlobUnparsable; DmgBlockType; DmgEncoding;
   DmgHeaderBlock; DmgFeature; DmgInBlock].

(* encodings getData must reject: no/unknown encoding, corrupt zlib stream, wrong or
   out-of-range uncompressed size *)
Definition enc_bad (e : encoding) : bool :=
  match e with
  | EncRaw => false
  | EncNone => true
  | EncZlib rs InflErr => true
  | EncZlib rs (InflOk n) | EncZlib rs (InflTrailing n) =>
      (rs <? 0) || (rs >=? maxBlobSize) || negb (n =? rs)
  end.

(* the header segment is really there and parses *)
Definition hdr_read (f : frame T) (a : Z) : bool :=
  (f_pfx f =? f_hlen f) && (0 <=? f_pfx f) && (f_pfx f <? maxBlobHeaderSize) && (4 + f_pfx f <=? a).

(* header and blob segments are really there and parse; gives type and blob *)
Definition block_read (f : frame T) (a : Z) : option (btype * blob T) :=
  match f_hdr f, f_blob f with
  | HdrOk ty ds, BlobOk b =>
      if hdr_read f a && (ds =? f_blen f) && (0 <=? ds) && (ds <? maxBlobSize) && (frame_size f <=? a)
      then Some (ty, b) else None
  | _, _ => None
  end.

Definition has_damage (d : damage) (first : bool) (f : frame T) (a : Z) : bool :=
  match d with
  | DmgPrefixTooBig => (4 <=? a) && (f_pfx f >=? maxBlobHeaderSize)
  | DmgHeaderUnparsable => hdr_read f a && match f_hdr f with HdrBad => true | _ => false end
  | DmgDatasizeTooBig =>
      hdr_read f a && match f_hdr f with HdrOk _ ds => ds >=? maxBlobSize | _ => false end
  | DmgDatasizeNegative =>
      hdr_read f a && match f_hdr f with HdrOk _ ds => ds <? 0 | _ => false end
  | DmgDatasizePastEnd =>
      hdr_read f a && match f_hdr f with
                      | HdrOk _ ds => (0 <? ds) && (ds <? maxBlobSize) && (a <? 4 + f_pfx f + ds)
                      | _ => false end
  | DmgBlobUnparsable =>
      hdr_read f a && match f_hdr f, f_blob f with
                      | HdrOk _ ds, BlobBad => (ds =? f_blen f) && (0 <=? ds) && (ds <? maxBlobSize)
                                               && (frame_size f <=? a)
                      | _, _ => false end
  | DmgBlockType =>
      match block_read f a with
      | Some (ty, _) => match ty with
                        | TyOther => true
                        | TyHeader => negb first
                        | TyData => false
                        end
      | None => false
      end
  | DmgEncoding =>
      match block_read f a with
      | Some (ty, b) => enc_bad (b_enc b)
                        && match ty with TyData => true | TyHeader => first | TyOther => false end
      | None => false
      end
  | DmgHeaderBlock =>
      first && match block_read f a with
               | Some (TyHeader, b) => enc_ok (b_enc b)
                                       && match b_pay b with PHeader HBad => true | _ => false end
               | _ => false
               end
  | DmgFeature =>
      first && match block_read f a with
               | Some (TyHeader, b) => enc_ok (b_enc b)
                                       && match b_pay b with PHeader (HOk false) => true | _ => false end
               | _ => false
               end
  | DmgInBlock =>
      match block_read f a with
      | Some (TyData, b) => enc_ok (b_enc b)
                            && match b_pay b with PData DErr => true | _ => false end
      | _ => false
      end
  end.

Definition damaged (first : bool) (f : frame T) (a : Z) : bool :=
  existsb (fun d => has_damage d first f a) all_damages.

End Valid.
