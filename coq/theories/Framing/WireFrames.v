(* Framing/WireFrames.v — readers for the frame descriptions written by harness/pbfrun
   (EmitFrames / EmitToks).  An object is a single token: kind + 4 * h, h the first 58 bits of the
   sha256 of the object's canonical rendering (harness/pbfrun Tok / ElemTok: every field of the
   element), so equal tokens mean equal content up to hash collisions.  Executable only. *)
From Coq Require Import ZArith List Bool.
From Verif Require Import Base.Wire Framing.Model.
Import ListNotations.
Open Scope Z_scope.
Open Scope wire_scope.

Definition obj := Z.

Definition pobjs : P (list obj) := plist ptok.

Definition pbtype : P btype :=
  c <- pint ;;
  if c =? 0 then ret TyHeader else if c =? 1 then ret TyData else if c =? 2 then ret TyOther else pfail.

Definition phdr : P hdr :=
  c <- pint ;;
  if c =? 0 then ret HdrBad
  else if c =? 1 then (ty <- pbtype ;; ds <- pint ;; ret (HdrOk ty ds))
  else pfail.

Definition pinflate : P inflate :=
  c <- pint ;;
  if c =? 0 then ret InflErr else if c =? 1 then (n <- pint ;; ret (InflOk n))
  else if c =? 2 then (n <- pint ;; ret (InflTrailing n)) else pfail.

Definition pencoding : P encoding :=
  c <- pint ;;
  if c =? 0 then ret EncRaw
  else if c =? 1 then (rs <- pint ;; z <- pinflate ;; ret (EncZlib rs z))
  else if c =? 2 then ret EncNone
  else pfail.

Definition ppayload : P (payload obj) :=
  c <- pint ;;
  if c =? 0 then
    (h <- pint ;;
     if h =? 0 then ret (PHeader HBad)
     else if h =? 1 then (s <- pbool ;; ret (PHeader (HOk s)))
     else pfail)
  else if c =? 1 then
    (d <- pint ;;
     if d =? 0 then (l <- pobjs ;; ret (PData (DOk l)))
     else if d =? 1 then ret (PData DErr)
     else if d =? 2 then ret (PData DPanic)
     else pfail)
  else pfail.

Definition pblobp : P (blobp obj) :=
  c <- pint ;;
  if c =? 0 then ret BlobBad
  else if c =? 1 then (e <- pencoding ;; p <- ppayload ;; ret (BlobOk (Blob e p)))
  else pfail.

Definition pframe : P (frame obj) :=
  pfx <- pint ;; hlen <- pint ;; h <- phdr ;; blen <- pint ;; b <- pblobp ;;
  ret (Frame pfx hlen h blen b).

Definition pframes : P (list (frame obj)) := plist pframe.

(* observed outcome codes: 0 Err()==nil, 1 Err()<>nil, 2 crash, 3 hang *)
Definition outcome_code (o : outcome) : Z :=
  match o with Done => 0 | Failed => 1 | Crashed => 2 | OutOfModel => 9 | Hung => 3 end.

Definition objs_eqb : list obj -> list obj -> bool := list_eqb Z.eqb.

Fixpoint is_prefix (a b : list obj) : bool :=
  match a, b with
  | [], _ => true
  | x :: a', y :: b' => (x =? y) && is_prefix a' b'
  | _, [] => false
  end.
