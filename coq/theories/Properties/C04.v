(* Properties/C04.v — XML marshal/unmarshal round-trips every object and container.
   Only statements; proofs are in Verif.C04.*. *)
From Coq Require Import List String Bool ZArith.
From Verif Require Import Codec.Schema Codec.Value Codec.Xml Codec.Wf Codec.Scan C04.Refuted.
From VerifGen Require Import GenSchema.
Import ListNotations.
Open Scope string_scope.

(* The defect this property exposed (fixed in /repo, commit e8ed5c6): with Bounds lacking a
   MarshalXML method the round trip of OSM and Change containers with top-level bounds is false. *)
Theorem roundtrip_osm_refuted :
  exists v e, wfb prefix_schema "OSM" v = true /\ encode1 prefix_schema "OSM" v = Ok e /\
              decode prefix_schema "OSM" e <> Ok v /\ map xname (xkids e) = ["Bounds"].
Proof. exact roundtrip_osm_refuted_prefix. Qed.
Print Assumptions roundtrip_osm_refuted.

Theorem roundtrip_change_refuted :
  exists v e, wfb prefix_schema "Change" v = true /\ encode1 prefix_schema "Change" v = Ok e /\
              decode prefix_schema "Change" e <> Ok v.
Proof. exact roundtrip_change_refuted_prefix. Qed.
Print Assumptions roundtrip_change_refuted.
