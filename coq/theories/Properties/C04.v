(* Properties/C04.v — XML marshal/unmarshal round-trips every object and container.
   Only statements; proofs are in Verif.Codec.* and Verif.C04.*.

   FULL STATEMENT (target; see PARTIAL below for what is kernel-checked today):

     Theorem xml_roundtrip_T : forall v,
       wfb gen_schema T v = true ->
       exists e, encode1 gen_schema T v = Ok e /\ decode gen_schema T e = Ok v
     for T in Node, Way, Relation, Changeset, Note, User, Bounds, OSM, Change, Diff (and, with the
     field name of their parent, WayNode, Member, Update, Tag, ChangesetComment, NoteComment, Date),
     and  marshal_decodable_by_scanner :
       fst (scan_el gen_schema e) has, per object kind, the objects collect gen_schema T v.
     Its generic form is Codec.ProofsRT.RT (induction on the depth of the value, all fuels).

   PARTIAL: the induction RT itself is not finished.  What is proved, for ALL values /
   documents / fuels, are its two loop lemmas and their combination:
     - struct_decoder_is_fieldwise: the attribute loop nest and the child-routing loop of the
       struct decoder compute, per field, the fold of that field's own attributes / children;
     - attrs_written_are_read_back: the attributes marshal_attrs writes for a struct are read back
       by the decoder's attribute phase into exactly the attribute fields of the value;
     - kids_written_are_read_back: the concatenated per-field element lists are routed back to
       their fields (element names distinct, no a>b path);
     - attr_field_roundtrip: one attribute field of scalar / time / pointer-to-scalar type.
   Missing: the assembly over the type structure (pointers, slices, nested structs, the
   transcribed methods of OSM / Change / Action / ChangesetDiscussion / Date / Bounds, a>b paths
   of Note and User).  The round trip of every generated value is evaluated inside Coq on each
   run by Check.v (judgement 1: model, judgement 2: implementation). *)
From Coq Require Import List String Bool ZArith.
From Verif Require Import Codec.Schema Codec.Value Codec.Xml Codec.Wf Codec.Scan Codec.SpecNames
     Codec.ProofsAttr Codec.ProofsKids Codec.ProofsRT C04.Refuted C04.SchemaOk.
From VerifGen Require Import GenSchema.
Import ListNotations.
Open Scope string_scope.
Open Scope Z_scope.

(* --- the schema regenerated from /repo uses the OSM XML vocabulary --- *)
Theorem schema_ok : schema_okb gen_schema = true /\ literals_okb = true.
Proof. split; [exact gen_schema_ok | exact gen_literals_ok]. Qed.
Print Assumptions schema_ok.

(* --- the defect this property exposed (fixed in /repo, commit e8ed5c6) --- *)
Theorem roundtrip_osm_refuted :
  exists v e, wfb prefix_schema "OSM" v = true /\ encode1 prefix_schema "OSM" v = Ok e /\
              decode prefix_schema "OSM" e <> Ok v /\ map xname (xkids e) = ["Bounds"].
Proof. exact roundtrip_osm_refuted_prefix. Qed.
Print Assumptions roundtrip_osm_refuted.

Theorem roundtrip_change_refuted :
  exists v e, wfb prefix_schema "Change" v = true /\ encode1 prefix_schema "Change" v = Ok e /\
              decode prefix_schema "Change" e <> Ok v.
Proof. exact roundtrip_change_refuted_prefix. Qed.
Print Assumptions roundtrip_change_refuted.

Theorem scanner_and_decoder_disagreed_before_fix :
  encode1 prefix_schema "OSM" w_osm = Ok w_osm_xml /\
  fst (scan_el prefix_schema w_osm_xml) = [("Bounds", w_bounds)] /\
  decode prefix_schema "OSM" w_osm_xml = Ok (zero prefix_schema FUEL (TNamed "OSM")).
Proof. exact scanner_decoder_disagreed_prefix. Qed.
Print Assumptions scanner_and_decoder_disagreed_before_fix.

(* --- round trip, partial (see header) --- *)
Theorem struct_decoder_is_fieldwise_partial : forall sch unm d bs e st1 st2,
  all_supported (struct_fields d) = true ->
  (String.eqb (xmlname_tag d) "" || String.eqb (xmlname_tag d) (xname e)) = true ->
  no_parents (struct_fields d) = true ->
  nodup_strb (elem_names sch (struct_fields d)) = true ->
  Forall3 (fun f b r => absorb_attrs sch f b (xattrs e) = Ok r) (struct_fields d) bs st1 ->
  Forall3 (fun f b r => absorb_kids sch unm f b (xkids e) = Ok r) (struct_fields d) st1 st2 ->
  unmarshal_struct sch unm d (VStruct bs) e = Ok (VStruct st2).
Proof. exact unmarshal_struct_fieldwise. Qed.
Print Assumptions struct_decoder_is_fieldwise_partial.

Theorem attrs_written_are_read_back_partial : forall sch fs vs bases al,
  marshal_attrs sch fs vs = Ok al ->
  nodup_strb (attr_names sch fs) = true ->
  Forall3 (attr_field_rt sch) fs vs bases ->
  Forall3 (fun f b r => absorb_attrs sch f b al = Ok r) fs bases
          (map (fun fvb => if is_attr (fst (fst fvb)) then snd (fst fvb) else snd fvb)
               (combine (combine fs vs) bases)).
Proof. exact attrs_roundtrip. Qed.
Print Assumptions attrs_written_are_read_back_partial.

Theorem kids_written_are_read_back_partial : forall sch unm fs vs bases ess,
  nodup_strb (elem_names sch fs) = true ->
  Forall3 (fun f (vb : value * value) es =>
             own_names sch f es /\ (is_elem f = true -> absorb_kids sch unm f (snd vb) es = Ok (fst vb)))
          fs (combine vs bases) ess ->
  List.length vs = List.length bases ->
  Forall3 (fun f b r => absorb_kids sch unm f b (List.concat ess) = Ok r) fs bases
          (map (fun fvb => if is_elem (fst (fst fvb)) then snd (fst fvb) else snd fvb)
               (combine (combine fs vs) bases)).
Proof. exact kids_roundtrip. Qed.
Print Assumptions kids_written_are_read_back_partial.

Theorem attr_field_roundtrip_partial : forall sch n f v b,
  attr_ty_ok sch (f_type f) = true ->
  wf sch (S (S n)) (f_type f) v = true ->
  zero_like sch (S (S n)) (f_type f) b = true ->
  attr_field_rt sch f v b.
Proof. exact attr_rt_of_wf. Qed.
Print Assumptions attr_field_roundtrip_partial.

(* --- non-vacuity --- *)
Definition ex_node : value :=
  Eval vm_compute in
  mk gen_schema "Node"
     [("ID", VInt 5); ("Lat", VFloat 192); ("Lon", VFloat (-288)); ("User", VStr [97]); ("UserID", VInt 7);
      ("Visible", VBool true); ("Version", VInt 2); ("ChangesetID", VInt 9);
      ("Timestamp", VTime 1000000000500000000);
      ("Tags", VList [mk gen_schema "Tag" [("Key", VStr [107]); ("Value", VStr [60; 38])]]);
      ("Committed", VPtr (Some (VTime 5)))].

Example ex_node_wf : wfb gen_schema "Node" ex_node = true.
Proof. vm_compute. reflexivity. Qed.
Example ex_node_roundtrip :
  (do e <- encode1 gen_schema "Node" ex_node; decode gen_schema "Node" e) = Ok ex_node.
Proof. vm_compute. reflexivity. Qed.
Example ex_container_roundtrips_after_fix :
  wfb gen_schema "Change" w_change = true /\
  (do e <- encode1 gen_schema "Change" w_change; decode gen_schema "Change" e) = Ok w_change.
Proof. split; vm_compute; reflexivity. Qed.
(* the Node struct meets the hypotheses of the partial theorems *)
Example ex_node_struct_hyps :
  match lookup_type gen_schema "Node" with
  | Some d => all_supported (struct_fields d) && no_parents (struct_fields d)
              && nodup_strb (elem_names gen_schema (struct_fields d))
              && nodup_strb (attr_names gen_schema (struct_fields d))
              && forallb (fun f => negb (is_attr f) || attr_ty_ok gen_schema (f_type f)) (struct_fields d)
  | None => false
  end = true.
Proof. vm_compute. reflexivity. Qed.
