(* Properties/C04.v — XML marshal/unmarshal round-trips every object and container.
   Only statements; proofs are in Verif.Codec.* and Verif.C04.*.

   PROVED (all values, kernel-checked): xml_roundtrip_object for Node, Way, Relation, Changeset
   (with discussion), Note (with comments and dates), User, Bounds; xml_roundtrip_as_field for the
   nested types and the object lists; the generic induction xml_roundtrip_generic.
   See the end of the file for the containers. *)
From Coq Require Import List String Bool ZArith.
From Verif Require Import Codec.Schema Codec.Value Codec.Xml Codec.Wf Codec.Scan Codec.SpecNames
     Codec.ProofsAttr Codec.ProofsKids Codec.ProofsRT Codec.ProofsMain Codec.ProofsTop Codec.ProofsScan C04.Refuted C04.SchemaOk C04.Roundtrip.
From VerifGen Require Import GenSchema.
Import ListNotations.
Open Scope string_scope.
Open Scope Z_scope.

(* --- the schema regenerated from /repo uses the OSM XML vocabulary --- *)
Theorem schema_ok : schema_okb gen_schema = true /\ literals_okb = true.
Proof. split; [exact gen_schema_ok | exact gen_literals_ok]. Qed.
Print Assumptions schema_ok.

(* --- the defect this property exposed (fixed in /repo, commit e8ed5c6) --- *)
Theorem roundtrip_osm_refuted :
  exists v e, wfb prefix_schema "OSM" v = true /\ encode1 prefix_schema "OSM" v = Ok e /\
              decode prefix_schema "OSM" e <> Ok v /\ map xname (xkids e) = ["Bounds"].
Proof. exact roundtrip_osm_refuted_prefix. Qed.
Print Assumptions roundtrip_osm_refuted.

Theorem roundtrip_change_refuted :
  exists v e, wfb prefix_schema "Change" v = true /\ encode1 prefix_schema "Change" v = Ok e /\
              decode prefix_schema "Change" e <> Ok v.
Proof. exact roundtrip_change_refuted_prefix. Qed.
Print Assumptions roundtrip_change_refuted.

Theorem scanner_and_decoder_disagreed_before_fix_refuted :
  encode1 prefix_schema "OSM" w_osm = Ok w_osm_xml /\
  fst (scan_el prefix_schema w_osm_xml) = [("Bounds", w_bounds)] /\
  decode prefix_schema "OSM" w_osm_xml = Ok (zero prefix_schema FUEL (TNamed "OSM")).
Proof. exact scanner_decoder_disagreed_prefix. Qed.
Print Assumptions scanner_and_decoder_disagreed_before_fix_refuted.

(* --- round trip of every object type: xml.Marshal then xml.Unmarshal gives the value back,
       and the document element carries the OSM XML name --- *)
Theorem xml_roundtrip_object : forall T nm v,
  In (T, nm) [("Node", "node"); ("Way", "way"); ("Relation", "relation"); ("Changeset", "changeset");
              ("Note", "note"); ("User", "user"); ("Bounds", "bounds")] ->
  wfb gen_schema T v = true ->
  exists e, encode1 gen_schema T v = Ok e /\ decode gen_schema T e = Ok v /\ xname e = nm.
Proof. exact roundtrip_object. Qed.
Print Assumptions xml_roundtrip_object.

(* --- the nested types, written under their parent's field name (WayNode(s) as nd, Member(s),
       Update(s), Tag(s), discussion with comments, note comments, note dates, element bounds,
       and the object lists of the containers) --- *)
Theorem xml_roundtrip_as_field : forall ty nm omit v,
  In (ty, nm, omit) field_types ->
  wf gen_schema FUEL ty v = true ->
  exists es, marshal gen_schema FUEL ty v (Some (nm, omit)) None = Ok es
             /\ Forall (fun e => xname e = nm) es
             /\ absorb gen_schema FUEL ty (zero gen_schema FUEL ty) es = Ok v.
Proof. exact roundtrip_as_field. Qed.
Print Assumptions xml_roundtrip_as_field.

(* --- the containers with hand-written MarshalXML: an <osm> document and an osmChange with
       create/modify/delete blocks, each with its own top-level bounds (the case the fixed defect
       broke), any lists of nodes, ways, relations, changesets, notes, users --- *)
Theorem xml_roundtrip_OSM : forall v,
  wfb gen_schema "OSM" v = true ->
  exists e, encode1 gen_schema "OSM" v = Ok e /\ decode gen_schema "OSM" e = Ok v /\ xname e = "osm".
Proof. exact roundtrip_OSM. Qed.
Print Assumptions xml_roundtrip_OSM.

Theorem xml_roundtrip_Change : forall v,
  wfb gen_schema "Change" v = true ->
  exists e, encode1 gen_schema "Change" v = Ok e /\ decode gen_schema "Change" e = Ok v /\ xname e = "osmChange".
Proof. exact roundtrip_Change. Qed.
Print Assumptions xml_roundtrip_Change.

(* --- the Diff container: actions written and read by Action.MarshalXML / Action.UnmarshalXML
       (a create action holds one bare node, way or relation; modify / delete actions hold old and
       new blocks with any objects and bounds) plus changesets --- *)
Theorem xml_roundtrip_Diff : forall v,
  wfb gen_schema "Diff" v = true ->
  exists e, encode1 gen_schema "Diff" v = Ok e /\ decode gen_schema "Diff" e = Ok v /\ xname e = "osm".
Proof. exact roundtrip_Diff. Qed.
Print Assumptions xml_roundtrip_Diff.

(* --- the marshalled text of every object is decodable by the streaming scanner with the same
       result (marshal_decodable_by_scanner, object level) --- *)
Theorem marshal_decodable_by_scanner_object : forall T nm v,
  In (T, nm) [("Node", "node"); ("Way", "way"); ("Relation", "relation"); ("Changeset", "changeset");
              ("Note", "note"); ("User", "user"); ("Bounds", "bounds")] ->
  wfb gen_schema T v = true ->
  exists e, encode1 gen_schema T v = Ok e /\ scan_el gen_schema e = ([(T, v)], None).
Proof. exact scanner_reads_object. Qed.
Print Assumptions marshal_decodable_by_scanner_object.

(* --- the generic theorem behind both: any schema, any type passing the static check tyok,
       any well-formed value, any fuel above its depth --- *)
Theorem xml_roundtrip_generic : forall sch n, (n <= FUEL)%nat -> RT sch n.
Proof. exact RT_all. Qed.
Print Assumptions xml_roundtrip_generic.

Theorem struct_decoder_is_fieldwise : forall sch unm d bs e st1 st2,
  all_supported (struct_fields d) = true ->
  (String.eqb (xmlname_tag d) "" || String.eqb (xmlname_tag d) (xname e)) = true ->
  parents_ok (struct_fields d) = true ->
  nodup_strb (elem_keys sch (struct_fields d)) = true ->
  Forall3 (fun f b r => absorb_attrs sch f b (xattrs e) = Ok r) (struct_fields d) bs st1 ->
  Forall3 (fun f b r => absorb_kids sch unm f b (xkids e) = Ok r) (struct_fields d) st1 st2 ->
  unmarshal_struct sch unm d (VStruct bs) e = Ok (VStruct st2).
Proof. exact unmarshal_struct_fieldwise. Qed.
Print Assumptions struct_decoder_is_fieldwise.

(* --- KNOWN FINDINGS (known_findings.d/C04.json): two classes of values in the property's domain
       ("second-or-finer times", "any combination of empty/non-empty optional fields") do not come
       back equal on the real code, by design of the formats; they are outside wfb and the
       round-trip statement is refuted for them on the current schema ---

     Full statement (false): forall T v, shaped T v -> exists e, encode1 T v = Ok e /\ decode T e = Ok v. *)
Theorem xml_roundtrip_note_date_refuted :
  wfb gen_schema "Note" w_date_subsecond = false /\
  exists v', comes_back "Note" w_date_subsecond = Ok v' /\ v' <> w_date_subsecond
             /\ v' = mk gen_schema "Note" [("ID", VInt 2); ("DateCreated", VStruct [VTime 1600000000000000000])].
Proof. exact note_date_subsecond_refuted. Qed.
Print Assumptions xml_roundtrip_note_date_refuted.

Theorem xml_roundtrip_empty_discussion_refuted :
  wfb gen_schema "Changeset" w_empty_discussion = false /\
  exists v', comes_back "Changeset" w_empty_discussion = Ok v' /\ v' <> w_empty_discussion
             /\ v' = mk gen_schema "Changeset" [("ID", VInt 2)].
Proof. exact empty_discussion_refuted. Qed.
Print Assumptions xml_roundtrip_empty_discussion_refuted.

(* --- non-vacuity --- *)
Definition ex_node : value :=
  Eval vm_compute in
  mk gen_schema "Node"
     [("ID", VInt 5); ("Lat", VFloat 192); ("Lon", VFloat (-288)); ("User", VStr [97]); ("UserID", VInt 7);
      ("Visible", VBool true); ("Version", VInt 2); ("ChangesetID", VInt 9);
      ("Timestamp", VTime 1000000000500000000);
      ("Tags", VList [mk gen_schema "Tag" [("Key", VStr [107]); ("Value", VStr [60; 38])]]);
      ("Committed", VPtr (Some (VTime 5)))].

Example ex_node_wf : wfb gen_schema "Node" ex_node = true.
Proof. vm_compute. reflexivity. Qed.
Example ex_node_roundtrip :
  (do e <- encode1 gen_schema "Node" ex_node; decode gen_schema "Node" e) = Ok ex_node.
Proof. vm_compute. reflexivity. Qed.
Example ex_container_roundtrips_after_fix :
  wfb gen_schema "Change" w_change = true /\
  (do e <- encode1 gen_schema "Change" w_change; decode gen_schema "Change" e) = Ok w_change.
Proof. split; vm_compute; reflexivity. Qed.
(* the Node struct meets the hypotheses of the partial theorems *)
Example ex_node_struct_hyps :
  match lookup_type gen_schema "Node" with
  | Some d => all_supported (struct_fields d) && parents_ok (struct_fields d)
              && nodup_strb (elem_keys gen_schema (struct_fields d))
              && nodup_strb (attr_names gen_schema (struct_fields d))
              && tyok gen_schema FUEL (TNamed "Node") "node" false false
  | None => false
  end = true.
Proof. vm_compute. reflexivity. Qed.

(* --- marshal_decodable_by_scanner for the containers: the scanner, run on the marshalled text,
       yields the container's objects in document order (bounds, nodes, ways, relations,
       changesets, notes, users of the document, resp. of the create, modify, delete blocks) —
       by xml_roundtrip_OSM / xml_roundtrip_Change these are the objects of the value the
       whole-document decoder returns --- *)
Theorem marshal_decodable_by_scanner_OSM : forall v,
  wfb gen_schema "OSM" v = true ->
  exists e, encode1 gen_schema "OSM" v = Ok e
            /\ scan_el gen_schema e = (osm_objects (d_of "OSM") v, None).
Proof. exact scanner_reads_OSM. Qed.
Print Assumptions marshal_decodable_by_scanner_OSM.

Theorem marshal_decodable_by_scanner_Change : forall v,
  wfb gen_schema "Change" v = true ->
  exists e, encode1 gen_schema "Change" v = Ok e
            /\ scan_el gen_schema e = (change_objects (d_of "Change") (d_of "OSM") v, None).
Proof. exact scanner_reads_Change. Qed.
Print Assumptions marshal_decodable_by_scanner_Change.

Example ex_containers_nonvacuous :
  wfb gen_schema "Diff" w_diff = true /\ comes_back "Diff" w_diff = Ok w_diff /\
  wfb gen_schema "OSM" w_osm_full = true /\ comes_back "OSM" w_osm_full = Ok w_osm_full.
Proof. exact containers_nonvacuous. Qed.

Theorem marshal_decodable_by_scanner_Diff : forall v,
  wfb gen_schema "Diff" v = true ->
  exists e, encode1 gen_schema "Diff" v = Ok e
            /\ scan_el gen_schema e = (diff_objects (d_of "Diff") (d_of "Action") (d_of "OSM") v, None).
Proof. exact scanner_reads_Diff. Qed.
Print Assumptions marshal_decodable_by_scanner_Diff.

(* All C04 statements of DESIGN.md section 5 are now theorems.  Domain restrictions (wfb) are listed in
   Codec/Wf.v; static obligations on the regenerated schema are vm_compute lemmas in C04/Roundtrip.v
   and C04/SchemaOk.v. *)
