(* Properties/C17.v — GeoJSON conversion maps elements to features exactly; options only subtract.

   ONLY statements, each closed by [exact] of a lemma of C17/Proofs*.v, Print Assumptions, and
   non-vacuity examples.  The model (C17/Model.v) is tied to /repo/osmgeojson by the
   correspondence harness (harness/cmd/c17); UninterestingTags is regenerated from /repo/tag.go
   on every run (gen/GenTags.v).  [join] and [ring_of] (internal/mputil, property C16) are
   universally quantified in every theorem; the executable instance C17/Mputil.v is used by the
   examples and the correspondence check. *)
From Coq Require Import ZArith String List Bool Lia.
From Verif Require Import C17.Model C17.Spec C17.Mputil C17.ProofsPacked C17.Proofs C17.ProofsOpts C17.ProofsGeom
     C17.ProofsRoute C17.ProofsJoin C17.ProofsArea C17.ProofsCarry C17.ProofsGeoEq C17.ProofsDup C17.ProofsAbsorb C17.ProofsOracle C17.ProofsGeoBuild C17.ProofsGeoScene C17.Examples C17.ProofsWitness.
From Verif Require C18.Model C18.Spec C18.Proofs C18.Api C18.Tags Geo.Model Geo.Rings Geo.Orient Geo.Build Geo.Collect Properties.C16.
From VerifGen Require Import GenTags.
Import ListNotations.
Open Scope Z_scope.

(* ---------------------------------------------------------------------------------------
   0. Identifiers.  All theorems quantify over arbitrary integer ids.  Two places of osmgeojson go
      through the packed osm.FeatureID (type code + 40 bits of ref; property C10): buildPolygon reads
      the identity of its feature back out of tagObject.FeatureID(), and the membership map
      ctx.relationMember is keyed by packed ids.  The model follows the code through the packing
      functions regenerated from /repo (gen/GenIds.v): [fid], [unpack].  Outside the packed range the
      code — and the model — get the identity or the memberships wrong (known finding
      polygon-id-outside-packed-range: C17_polygon_relation_id_outside_packed_range_refuted,
      C17_membership_key_clash_refuted below).  The class is a boolean on the input alone
      (Spec.v):   packed_ok d = poly_ids_ok d && negb (key_clash d)
        poly_ids_ok d : every multipolygon/boundary relation and each of its outer way members has
                        an id in [0,2^40)
        key_clash d   : some member entry packs to the FeatureID of a DIFFERENT element of d
      The theorems that speak about the identity of relation-pass features carry [poly_ids_ok d =
      true], those that speak about memberships carry [key_clash d = false]; the theorems about
      way-pass and route features, geometry, tainted flags, the skippable set and the options NoID,
      NoMeta, IncludeInvalidPolygons hold for ALL ids.  Nodes, ways and non-polygon relations may
      have any id (negative, >= 2^40) as long as no member entry collides with them. *)
Theorem C17_polygon_identity_in_range : forall t r,
  t <> TNone -> in40 r = true -> unpack (fid t r) = (t, r).
Proof. exact unpack_fid. Qed.
Print Assumptions C17_polygon_identity_in_range.

Theorem C17_membership_lookup_exact : forall o d e,
  key_clash d = false -> In e (element_keys d) -> rel_summaries o d e = rel_summaries_x o d e.
Proof. exact rel_summaries_exact. Qed.
Print Assumptions C17_membership_lookup_exact.

(* the unconditional claims are false of the faithful model, and of the code (harness corpus cases
   polyNegativeID and keyClash, model = implementation on both): a tagged multipolygon relation
   with id -1 is reported with type "" and id 2^40-1; node -1 inherits the membership of way -1
   and is emitted only because of it, so NoRelationMembership removes a feature *)
Theorem C17_polygon_relation_id_outside_packed_range_refuted :
  exists d f, ids_unique d /\ key_clash d = false /\ poly_ids_ok d = false /\
              In f (convert Mputil.join Mputil.ring_of o0 d) /\
              f_type f = TNone /\ f_ref f = 1099511627775 /\ ~ carries_element o0 d f.
Proof. exact polygon_relation_id_outside_packed_range_refuted. Qed.
Print Assumptions C17_polygon_relation_id_outside_packed_range_refuted.

Theorem C17_membership_key_clash_refuted :
  exists d, ids_unique d /\ poly_ids_ok d = true /\ key_clash d = true /\
    (exists f, In f (convert Mputil.join Mputil.ring_of o0 d) /\ fkey f = (TNode, -1) /\
               f_rels f <> Some (spec_rels d (fkey f))) /\
    convert Mputil.join Mputil.ring_of (set_noRelM true o0) d
      <> map erase_rels (convert Mputil.join Mputil.ring_of (set_noRelM false o0) d).
Proof. exact membership_key_clash_refuted. Qed.
Print Assumptions C17_membership_key_clash_refuted.

Example C17_packed_ok_nonvacuous :
  (* the ordinary example data are outside the class; ids of nodes and ways may be anything *)
  packed_ok d_rich = true /\ packed_ok d_shared = true /\ packed_ok d_polyneg = false /\ packed_ok d_clash = false.
Proof. vm_compute. repeat split. Qed.

(* ---------------------------------------------------------------------------------------
   1. At most one feature per input element.
      FULL STATEMENT (false of the code, see C17_at_most_one_feature_refuted):
        forall o d, ids_unique d -> NoDup (map fkey (convert join ring_of o d)).
      Proved with the hypothesis the proof discovers: no way is the adoption candidate (the
      single outer-role way member of a multipolygon/boundary relation without own tags) of
      two relations.  [adoption_unique] is a predicate on the input alone; the harness assigns
      the known-finding class by its negation. *)
Theorem C17_at_most_one_feature_per_element : forall join ring_of o d,
  poly_ids_ok d = true -> ids_unique d -> adoption_unique d -> NoDup (map fkey (convert join ring_of o d)).
Proof. exact at_most_one_feature_per_element. Qed.
Print Assumptions C17_at_most_one_feature_per_element.

(* the unconditional claim is false of the faithful model: two old-style multipolygon
   relations sharing one outer way yield two features way/10 (replayed on the implementation:
   harness corpus case sharedOuter, known-finding class shared-outer-old-style) *)
Theorem C17_at_most_one_feature_refuted :
  exists d, ids_unique d /\ ~ NoDup (map fkey (convert Mputil.join Mputil.ring_of o0 d)).
Proof. exact at_most_one_feature_refuted. Qed.
Print Assumptions C17_at_most_one_feature_refuted.

(* the finding, exactly.  [adopts d r] (C17/ProofsDup.v) decides on the input alone which way an
   old-style multipolygon relation takes the identity of: multipolygon/boundary, no interesting own
   tag, exactly one way member with role "outer", that way in the data (or annotated on the
   member) with resolvable coordinates forming a valid ring.  The way-typed features of the
   relation pass are exactly the adopted ways, in order; and — for any Ring function that returns
   a single segment's line in one of the two directions, as mputil's does — the feature keys are
   pairwise different IF AND ONLY IF no way is adopted twice.  So the known-finding class
   (harness: inKnownClass = not NoDup of the adopted ways) is exact, not an over-approximation. *)
Theorem C17_adopted_ways_exact : forall join ring_of, ring_single ring_of -> forall o d,
  poly_ids_ok d = true ->
  way_keys (rel_features join ring_of o d) = flat_map (adopts d) (relations d).
Proof. exact adopted_ways_exact. Qed.
Print Assumptions C17_adopted_ways_exact.

Theorem C17_duplicate_feature_iff : forall join ring_of, ring_single ring_of -> forall o d,
  poly_ids_ok d = true -> ids_unique d ->
  (NoDup (map fkey (convert join ring_of o d)) <-> NoDup (flat_map (adopts d) (relations d))).
Proof. exact duplicate_feature_iff. Qed.
Print Assumptions C17_duplicate_feature_iff.

Theorem C17_duplicate_feature_iff_exec : forall o d,
  poly_ids_ok d = true -> ids_unique d ->
  (NoDup (map fkey (convert Mputil.join Mputil.ring_of o d)) <-> NoDup (flat_map (adopts d) (relations d))).
Proof. exact (duplicate_feature_iff Mputil.join Mputil.ring_of ring_single_exec). Qed.
Print Assumptions C17_duplicate_feature_iff_exec.

Example C17_adopts_nonvacuous :
  flat_map (adopts d_shared) (relations d_shared) = [10; 10] /\
  flat_map (adopts d_rich) (relations d_rich) = [].
Proof. vm_compute. split; reflexivity. Qed.

(* non-vacuity: d_rich meets both hypotheses and converts to nine features *)
Example C17_at_most_one_nonvacuous :
  poly_ids_ok d_rich = true /\ ids_unique d_rich /\ adoption_unique d_rich /\
  List.length (convert Mputil.join Mputil.ring_of o0 d_rich) = 9%nat.
Proof.
  split; [vm_compute; reflexivity|]. split; [|split; [|vm_compute; reflexivity]].
  - unfold ids_unique. cbn. repeat split; repeat (constructor; [cbn; intuition discriminate|]); constructor.
  - unfold adoption_unique. vm_compute. constructor.
Qed.

(* ---------------------------------------------------------------------------------------
   2. Nodes: a point for every located node that is not part of a way, or has an interesting
      tag, or is a relation member — and for no other node; the feature is exactly the node's
      point with its type, id, tags, meta and memberships. *)
Theorem C17_node_feature_iff : forall join ring_of o d n,
  packed_ok d = true ->
  In n (nodes d) -> NoDup (map n_id (nodes d)) ->
  ((exists f, In f (convert join ring_of o d) /\ fkey f = (TNode, n_id n)) <-> node_rule d n) /\
  (forall f, In f (convert join ring_of o d) -> fkey f = (TNode, n_id n) -> f = node_point o d n).
Proof. exact node_feature_iff. Qed.
Print Assumptions C17_node_feature_iff.

Example C17_node_rule_nonvacuous :
  (* node 8: free, tagged -> point; node 1: untagged way member -> none; node 5: untagged way
     member but a relation member -> point; node 15: at the origin without version -> none *)
  map (fun f => f_ref f) (node_features o0 d_rich) = [2; 5; 8].
Proof. vm_compute. reflexivity. Qed.

(* ---------------------------------------------------------------------------------------
   3. Ways: every way that is not absorbed by a relation and has at least two resolvable
      coordinates yields a feature with its id and tags; the geometry is the resolvable
      coordinates in order (a line), or for area ways one ring that is closed, has
      non-negative signed area (counter-clockwise; never clockwise for orb's own test) and is
      those coordinates, closed, in one of the two directions.  Conversely every way-pass
      feature has that form. *)
(* "the way's resolvable node coordinates": spelled out on the spec side (Spec.spec_resolve: the
   location annotated on the way node unless it is (0,0), else the location of the LAST node of the
   data with that id, else none) and equal to the model's [resolve]; [spec_coords d w] is the list
   of these, in order *)
Theorem C17_resolve_is_spec : forall d wn, resolve d wn = spec_resolve d wn.
Proof. exact resolve_spec. Qed.
Print Assumptions C17_resolve_is_spec.

Theorem C17_way_geometry : forall join ring_of o d w,
  In w (ways d) -> memZ (w_id w) (skippable join ring_of o d) = false ->
  (2 <= List.length (spec_coords d w))%nat ->
  exists f, In f (convert join ring_of o d) /\ fkey f = (TWay, w_id w) /\
            f_tainted f = unresolved d w /\ f_tags f = tags_map (w_tags w) /\
            way_geometry_spec w (spec_coords d w) (f_geom f).
Proof. exact way_geometry. Qed.
Print Assumptions C17_way_geometry.

Theorem C17_way_pass_feature : forall join ring_of o d f,
  In f (way_features join ring_of o d) ->
  exists w, In w (ways d) /\ memZ (w_id w) (skippable join ring_of o d) = false /\
            (2 <= List.length (spec_coords d w))%nat /\ fkey f = (TWay, w_id w) /\
            f_tainted f = unresolved d w /\ way_geometry_spec w (spec_coords d w) (f_geom f).
Proof. exact way_pass_feature. Qed.
Print Assumptions C17_way_pass_feature.

(* Which ways get no feature of their own, on the INPUT alone (Spec.absorbed): a way that a route
   relation has as member and that has no interesting tag; a way that a multipolygon/boundary has
   as outer member and whose interesting tags are all repeated on the relation, or as inner member
   without interesting tags; a way adopted by an old-style multipolygon (Spec.adopts).  The
   skippable set of the model's way pass is exactly that set — also when the absorbing relation
   itself yields no feature, in which case the way vanishes from the output (allowed by "at most
   one feature per element"; recorded in notes/C17.md).  Theorem 3 restated over it. *)
Theorem C17_skippable_is_absorbed : forall join ring_of, ring_single ring_of -> forall o d id,
  memZ id (skippable join ring_of o d) = absorbed d id.
Proof. exact skippable_absorbed. Qed.
Print Assumptions C17_skippable_is_absorbed.

Theorem C17_way_geometry_input : forall join ring_of, ring_single ring_of -> forall o d w,
  In w (ways d) -> absorbed d (w_id w) = false ->
  (2 <= List.length (spec_coords d w))%nat ->
  exists f, In f (convert join ring_of o d) /\ fkey f = (TWay, w_id w) /\
            f_tainted f = unresolved d w /\ f_tags f = tags_map (w_tags w) /\
            way_geometry_spec w (spec_coords d w) (f_geom f).
Proof. exact way_geometry_input. Qed.
Print Assumptions C17_way_geometry_input.

Theorem C17_absorbed_no_way_feature : forall join ring_of, ring_single ring_of -> forall o d f,
  In f (way_features join ring_of o d) -> absorbed d (f_ref f) = false.
Proof. exact absorbed_no_way_feature. Qed.
Print Assumptions C17_absorbed_no_way_feature.

Example C17_absorbed_nonvacuous :
  (* d_rich: way 12 (only created_by) is absorbed by the route, way 10 (own building tag) is not
     absorbed by the tagged multipolygon; d_shared: way 10 is adopted *)
  map (fun w => absorbed d_rich (w_id w)) (ways d_rich) = [false; false; true; false; false] /\
  absorbed d_shared 10 = true.
Proof. vm_compute. split; reflexivity. Qed.

Example C17_way_geometry_nonvacuous :
  (* way 13 of d_rich is an area way given clockwise: the ring comes out reversed *)
  exists w, In w (ways d_rich) /\ way_area w = true /\
            memZ (w_id w) (skippable Mputil.join Mputil.ring_of o0 d_rich) = false /\
            spec_coords d_rich w = [(12, 12); (14, 12); (14, 14); (12, 12)] /\
            shoelace (spec_coords d_rich w) > 0.
Proof.
  exists (wy 13 [("natural", "water")]%string true [9; 13; 14; 9]).
  split; [cbn; tauto|]. vm_compute. repeat split; reflexivity.
Qed.

(* "area way" is what Way.Polygon() computes: the model's [way_area] is property C18's model of
   polygon.go on the rule table re-read from /repo — never a panic or fuel exhaustion, equal to
   the declarative specification of the polygon rules on the way's node ids and (first-wins)
   tags; in particular at least four nodes, first and last with the same id. *)
Theorem C17_way_area_is_polygon : forall w,
  C18.Model.way_polygon C18.Model.RT (map wn_id (w_nodes w)) (w_tags w) = C18.Model.Val (way_area w).
Proof. exact way_area_polygon. Qed.
Print Assumptions C17_way_area_is_polygon.

Theorem C17_way_area_is_api : forall w,
  way_area w = C18.Api.way_is_area (map wn_id (w_nodes w)) (w_tags w).
Proof. exact way_area_api. Qed.
Print Assumptions C17_way_area_is_api.

Theorem C17_way_area_spec : forall w,
  way_area w = true <->
  C18.Spec.spec_polygon (map wn_id (w_nodes w)) (C18.Proofs.dedup_first (w_tags w)).
Proof. exact way_area_spec. Qed.
Print Assumptions C17_way_area_spec.

Theorem C17_way_area_closed : forall w,
  way_area w = true ->
  (4 <= List.length (w_nodes w))%nat /\
  option_map wn_id (hd_error (w_nodes w)) =
  option_map wn_id (nth_error (w_nodes w) (List.length (w_nodes w) - 1)).
Proof. exact way_area_closed. Qed.
Print Assumptions C17_way_area_closed.

(* ---------------------------------------------------------------------------------------
   3b. Every feature carries its element: Feature.ID (unless NoID), type, id, the tag map, the
      meta object (unless NoMeta) with each of timestamp / version / changeset / user / uid
      present exactly when non-zero and equal to the element's, and (unless
      NoRelationMembership) one membership summary per member entry naming the element, with
      the relation's id, the entry's role and the relation's tag map, in relation order then
      member order — for nodes, ways (of the data, or known only from an annotated multipolygon
      member: no tags, no meta, no memberships) and relations. *)
Theorem C17_feature_carries : forall join ring_of o d f,
  packed_ok d = true ->
  In f (convert join ring_of o d) -> carries_element o d f.
Proof. exact feature_carries. Qed.
Print Assumptions C17_feature_carries.

Theorem C17_meta_fields : forall m,
  mo_ts (meta_obs m) = mt_ts m /\
  (mo_version (meta_obs m) = if mt_version m =? 0 then None else Some (mt_version m)) /\
  (mo_changeset (meta_obs m) = if mt_changeset m =? 0 then None else Some (mt_changeset m)) /\
  (mo_user (meta_obs m) = if String.eqb (mt_user m) "" then None else Some (mt_user m)) /\
  (mo_uid (meta_obs m) = if mt_uid m =? 0 then None else Some (mt_uid m)).
Proof. exact meta_obs_fields. Qed.
Print Assumptions C17_meta_fields.

Theorem C17_membership_summaries : forall o d key,
  key_clash d = false -> In key (element_keys d) ->
  noRelM o = false ->
  (fst key = TWay -> is_some (way_lookup d (snd key)) = true) ->
  rel_summaries o d key = spec_rels d key.
Proof. exact rel_summaries_spec. Qed.
Print Assumptions C17_membership_summaries.

Theorem C17_membership_absent_way : forall o d id,
  key_clash d = false -> In (TWay, id) (element_keys d) ->
  way_lookup d id = None -> rel_summaries o d (TWay, id) = [].
Proof. exact rel_summaries_absent_way. Qed.
Print Assumptions C17_membership_absent_way.

(* the tainted flag: never on points; on a way-pass feature iff a node of the way has no
   coordinates; on a route iff a member way is missing or has such a node; on a multipolygon
   (also when it is reported under an adopted way's id) iff an inner/outer way member is
   missing without annotated nodes or has such a node *)
Theorem C17_tainted_rules : forall join ring_of o d f,
  In f (convert join ring_of o d) ->
  (In f (node_features o d) -> f_tainted f = false) /\
  (In f (way_features join ring_of o d) ->
     exists w, In w (ways d) /\ w_id w = f_ref f /\ f_tainted f = unresolved d w) /\
  (forall r, In r (relations d) -> snd (rel_result join ring_of o d r) = Some f ->
     f_tainted f = if String.eqb (tag_find (r_tags r) "type") "route" then route_tainted d r
                   else mp_tainted d r).
Proof. exact tainted_rules. Qed.
Print Assumptions C17_tainted_rules.

Example C17_carries_nonvacuous :
  (* node 8 of d_rich: all five meta fields present; way 10: member of relation 2 as outer *)
  exists f g, In f (convert Mputil.join Mputil.ring_of o0 d_rich) /\ In g (convert Mputil.join Mputil.ring_of o0 d_rich) /\
    f_meta f = Some {| mo_ts := Some 1300000100; mo_version := Some 1; mo_changeset := Some 123;
                       mo_user := Some "bob"%string; mo_uid := Some 9 |} /\
    f_rels g = Some [{| s_id := 2; s_role := "outer"%string;
                        s_tags := [("type", "multipolygon"); ("landuse", "forest")]%string |}].
Proof.
  eexists. eexists. split; [|split; [|split]].
  - vm_compute. do 8 right. left. reflexivity.
  - vm_compute. do 2 right. left. reflexivity.
  - reflexivity.
  - reflexivity.
Qed.

(* ---------------------------------------------------------------------------------------
   4. Route relations: the feature carries the relation's id and tags, is tainted exactly when
      a member way or one of its nodes is missing, and its line geometry is the join of the
      member ways' coordinate lines — hence preserves every segment whenever [join] conserves
      edges (property C16's join_conserves; here an explicit hypothesis). *)
Theorem C17_route_feature_geometry : forall join ring_of o d r f,
  String.eqb (tag_find (r_tags r) "type") "route" = true ->
  snd (rel_result join ring_of o d r) = Some f ->
  fkey f = (TRel, r_id r) /\ f_tags f = tags_map (r_tags r) /\ f_tainted f = route_tainted d r /\
  geom_lines (f_geom f) = Some (map ms_line (join (flat_map rs_lines (map (route_step d) (r_members r))))).
Proof. exact route_feature_geometry. Qed.
Print Assumptions C17_route_feature_geometry.

(* a route relation yields a feature exactly when one of its member ways is in the data and has
   a resolvable coordinate (input-only: Spec.route_has_line) *)
Theorem C17_route_feature_exists : forall join ring_of o d r,
  is_route r = true -> is_some (snd (rel_result join ring_of o d r)) = route_has_line d r.
Proof. exact route_relation_feature. Qed.
Print Assumptions C17_route_feature_exists.

Theorem C17_route_preserves_segments : forall join ring_of o d r f,
  join_conserves_edges join ->
  String.eqb (tag_find (r_tags r) "type") "route" = true ->
  snd (rel_result join ring_of o d r) = Some f ->
  route_geom_ok d r f = true.
Proof. exact route_preserves_segments. Qed.
Print Assumptions C17_route_preserves_segments.

(* the hypothesis holds of the executable Join used in the correspondence run (for every
   undirected edge the occurrence counts of input and joined lines are equal), so for that
   instance segment preservation is unconditional *)
Theorem C17_join_conserves_edges_exec : join_conserves_edges Mputil.join.
Proof. exact join_conserves_edges_exec. Qed.
Print Assumptions C17_join_conserves_edges_exec.

Theorem C17_route_preserves_segments_exec : forall o d r f,
  String.eqb (tag_find (r_tags r) "type") "route" = true ->
  snd (rel_result Mputil.join Mputil.ring_of o d r) = Some f ->
  route_geom_ok d r f = true.
Proof. exact (fun o d r f => route_preserves_segments Mputil.join Mputil.ring_of o d r f join_conserves_edges_exec). Qed.
Print Assumptions C17_route_preserves_segments_exec.

(* the executable mputil instance is property C16's model (Geo/Model.v), function for function:
   Join and MultiSegment.Ring give the same result on every input (segments translated field by
   field), so C16's theorems (Geo/Api.v) hold of the instance used in the correspondence run *)
Theorem C17_mputil_join_is_geo_join : forall segs,
  Geo.Model.join (tg segs) = Geo.Model.JoinOk (map tg (Mputil.join segs)).
Proof. exact join_geo. Qed.
Print Assumptions C17_mputil_join_is_geo_join.

Theorem C17_mputil_ring_is_geo_ring : forall o ms,
  Geo.Model.ring_of o (tg ms) = Mputil.ring_of o ms.
Proof. exact ring_of_geo. Qed.
Print Assumptions C17_mputil_ring_is_geo_ring.

(* ---------------------------------------------------------------------------------------
   4b. One closed executable model.  With the executable Join / Ring (= C16's, above), buildPolygon
      of the C17 model IS C16's model Geo.Model.build_polygon on the same nodes, ways and members:
      same geometry on the single-outer and the multi-outer path, for either setting of
      IncludeInvalidPolygons, and the same tainted flag.  [convert Mputil.join Mputil.ring_of]
      (= C17/Mputil.convert_exec, what the correspondence run evaluates) therefore has no
      abstract part. *)
Theorem C17_buildPolygon_is_geo_build_polygon : forall o d r,
  Geo.Model.build_polygon (inclInvalid o) (gnodes d) (gways d) (map gmem (r_members r)) =
  (ggeom (option_map f_geom (snd (poly_result Mputil.join Mputil.ring_of o d r))),
   existsb ps_taint (map (poly_step d (r_tags r)) (r_members r))).
Proof. exact poly_result_is_geo. Qed.
Print Assumptions C17_buildPolygon_is_geo_build_polygon.

(* Corollary (C16's recovery theorem, Geo.Collect.build_polygon_recovers = C16_build_polygon_recovers,
   imported, not re-proved): for a multipolygon/boundary relation of the data whose members satisfy
   C16's scene hypotheses, the conversion emits a feature — under the relation's id, or under the
   adopted way's id for an old-style relation — whose geometry is exactly the ground-truth polygon
   set: up to order, for each (outer, holes) of the scene one polygon whose first ring is the outer
   ring, closed, complete, counter-clockwise and whose other rings are exactly its own holes,
   clockwise; not tainted; whatever IncludeInvalidPolygons says. *)
Theorem C17_convert_multipolygon_geometry : forall o d r ds (sc : Geo.Build.gscene),
  In r (relations d) -> is_mp r = true -> poly_in_range r = true ->
  sc <> [] ->
  NoDup (concat (Geo.Build.s_outers sc)) -> NoDup (concat (Geo.Build.s_holes sc)) ->
  Forall (fun ring => (3 <= List.length ring)%nat) (Geo.Build.s_outers sc ++ Geo.Build.s_holes sc) ->
  (forall ring, In ring (Geo.Build.s_outers sc ++ Geo.Build.s_holes sc) ->
                Geo.Orient.shoelace (Geo.Rings.close_ring ring) <> 0) ->
  Geo.Build.contained sc ->
  Forall2 (Geo.Collect.member_ok (gnodes d) (gways d) (Geo.Build.s_outers sc) (Geo.Build.s_holes sc))
          (map gmem (r_members r)) ds ->
  Geo.Collect.is_cut_lines (map Geo.Rings.close_ring (Geo.Build.s_outers sc)) (Geo.Collect.outer_lines ds) ->
  Geo.Collect.is_cut_lines (map Geo.Rings.close_ring (Geo.Build.s_holes sc)) (Geo.Collect.inner_lines ds) ->
  exists f mp sc',
    In f (convert Mputil.join Mputil.ring_of o d) /\
    snd (rel_result Mputil.join Mputil.ring_of o d r) = Some f /\
    (fkey f = (TRel, r_id r) \/ (exists x, adopts d r = [x] /\ fkey f = (TWay, x))) /\
    feature_polys f = Some mp /\ f_tainted f = false /\
    Permutation.Permutation sc' sc /\ Forall2 Geo.Build.poly_recovered sc' mp /\
    List.length (concat (map (@tl (list pt)) mp)) = List.length (Geo.Build.s_holes sc).
Proof. exact convert_multipolygon_geometry. Qed.
Print Assumptions C17_convert_multipolygon_geometry.

(* non-vacuity: C16's own example scene (Properties/C16.v ex8), as C17 data *)
Example C17_convert_multipolygon_nonvacuous :
  gnodes d_ex8 = Properties.C16.ex8_nodes /\ gways d_ex8 = Properties.C16.ex8_ways /\
  map gmem (r_members r_ex8) = Properties.C16.ex8_members /\
  exists f, snd (rel_result Mputil.join Mputil.ring_of o0 d_ex8 r_ex8) = Some f /\
            f_geom f = GPoly [[(1,1); (9,1); (9,9); (1,9); (1,1)]; [(3,3); (3,5); (5,5); (3,3)]] /\
            fkey f = (TRel, 1) /\ f_tainted f = false.
Proof.
  split; [reflexivity|]. split; [reflexivity|]. split; [reflexivity|].
  eexists. split; [vm_compute; reflexivity|]. repeat split.
Qed.

Example C17_convert_multipolygon_hypotheses_met :
  exists f mp sc', snd (rel_result Mputil.join Mputil.ring_of o0 d_ex8 r_ex8) = Some f /\
                   feature_polys f = Some mp /\ Forall2 Geo.Build.poly_recovered sc' mp.
Proof.
  destruct (convert_multipolygon_geometry o0 d_ex8 r_ex8 Properties.C16.ex8_descs Properties.C16.ex8_scene)
    as [f [mp [sc' [_ [H1 [_ [H2 [_ [_ [H3 _]]]]]]]]]].
  - left. reflexivity.
  - reflexivity.
  - vm_compute. reflexivity.
  - discriminate.
  - cbn. repeat (constructor; [cbn; intuition congruence|]). constructor.
  - cbn. repeat (constructor; [cbn; intuition congruence|]). constructor.
  - cbn. repeat (constructor; [cbn; lia|]). constructor.
  - intros ring [<-|[<-|[]]]; vm_compute; discriminate.
  - exact Properties.C16.ex8_contained.
  - exact Properties.C16.ex8_members_ok.
  - exact Properties.C16.ex8_cut_outer.
  - exact Properties.C16.ex8_cut_inner.
  - exists f, mp, sc'. auto.
Qed.

Example C17_route_nonvacuous :
  exists f, nth_error (convert Mputil.join Mputil.ring_of o0 d_rich) 0 = Some f /\
            f_geom f = GLine [(30, 10); (32, 11); (35, 10)] /\ f_tainted f = true.
Proof. eexists. split; [vm_compute; reflexivity|]. split; reflexivity. Qed.

(* ---------------------------------------------------------------------------------------
   5. Options.  NoID, NoMeta, NoRelationMembership: the output with the option is the output
      without it with exactly that field of every feature erased; order, number and every other
      field are unchanged. *)
Theorem C17_option_NoID : forall join ring_of o d,
  convert join ring_of (set_noID true o) d = map erase_id (convert join ring_of (set_noID false o) d).
Proof. exact option_NoID. Qed.
Print Assumptions C17_option_NoID.

Theorem C17_option_NoMeta : forall join ring_of o d,
  convert join ring_of (set_noMeta true o) d = map erase_meta (convert join ring_of (set_noMeta false o) d).
Proof. exact option_NoMeta. Qed.
Print Assumptions C17_option_NoMeta.

Theorem C17_option_NoRelationMembership : forall join ring_of o d,
  key_clash d = false ->
  convert join ring_of (set_noRelM true o) d = map erase_rels (convert join ring_of (set_noRelM false o) d).
Proof. exact option_NoRelationMembership. Qed.
Print Assumptions C17_option_NoRelationMembership.

Example C17_options_nonvacuous :
  (* the erased fields are present in the baseline run *)
  forallb (fun f => match f_id f, f_meta f, f_rels f with Some _, Some _, Some _ => true | _, _, _ => false end)
          (convert Mputil.join Mputil.ring_of o0 d_rich) = true /\
  convert Mputil.join Mputil.ring_of (set_noID true o0) d_rich <> convert Mputil.join Mputil.ring_of o0 d_rich.
Proof. split; [vm_compute; reflexivity|]. vm_compute. discriminate. Qed.

(* IncludeInvalidPolygons only adds to / extends relation features: the skippable set, the way
   pass and the node pass are identical; a relation that is not a multipolygon/boundary gives
   the identical result; every relation feature present without the option is present with it,
   equal in everything but the geometry, and every ring of the old geometry (outer or inner,
   with multiplicity) is still present in the new one.  (Not claimed, and false of the code:
   that each polygon keeps its own holes — with the option an earlier invalid outer ring may
   claim an inner ring that a later valid one held.) *)
Theorem C17_option_IncludeInvalidPolygons : forall join ring_of o d,
  skippable join ring_of (set_incl true o) d = skippable join ring_of (set_incl false o) d /\
  way_features join ring_of (set_incl true o) d = way_features join ring_of (set_incl false o) d /\
  node_features (set_incl true o) d = node_features (set_incl false o) d /\
  forall r,
    (is_mp r = false ->
     rel_result join ring_of (set_incl true o) d r = rel_result join ring_of (set_incl false o) d r) /\
    (forall f, snd (rel_result join ring_of (set_incl false o) d r) = Some f ->
       exists g, snd (rel_result join ring_of (set_incl true o) d r) = Some (with_geom f g) /\
                 rings_sub (geom_rings (f_geom f)) (geom_rings g) = true).
Proof. exact option_IncludeInvalidPolygons. Qed.
Print Assumptions C17_option_IncludeInvalidPolygons.

Example C17_include_invalid_nonvacuous :
  (* corpus scene: an inner ring without any outer yields a feature only with the option *)
  let d := {| nodes := nodes d_shared; ways := ways d_shared;
              relations := [ {| r_id := 1; r_members := [mw 11 "inner"];
                                r_tags := [("type", "multipolygon")]%string; r_meta := meta0 |} ] |} in
  rel_features Mputil.join Mputil.ring_of o0 d = [] /\
  List.length (rel_features Mputil.join Mputil.ring_of (set_incl true o0) d) = 1%nat.
Proof. vm_compute. split; reflexivity. Qed.

(* The STRONGER reading "with IncludeInvalidPolygons every polygon keeps its own holes" (some
   polygon of the new geometry has the same outer ring and at least the same holes,
   Spec.polys_kept) is FALSE of the code:
     forall o d r f f', snd (rel_result (set_incl false o) d r) = Some f ->
                        snd (rel_result (set_incl true o) d r) = Some f' ->
                        polys_kept (f_geom f) (f_geom f') = true.
   Witness d_hole (also a harness corpus case, where model = implementation): a valid square,
   an unclosed bigger outer listed after it, a hole inside both.  Without the option the hole
   belongs to the square; with it the unclosed ring (now admitted, and first in Join order) is
   the first ring that contains the hole by ray casting and takes it.  options.go documents the
   option as returning polygons with a nil outer and "rings whose endpoints do not match"; the
   hole assignment rule itself (first polygon whose outer contains the ring) is unchanged, it
   ranges over more polygons.  Recorded as documented scope, not as a finding (notes/C17.md,
   checks.d/C17.json level_note): what is claimed and proved is C17_option_IncludeInvalidPolygons. *)
Theorem C17_incl_keeps_holes_refuted :
  exists d r f f',
    In r (relations d) /\
    snd (rel_result Mputil.join Mputil.ring_of (set_incl false o0) d r) = Some f /\
    snd (rel_result Mputil.join Mputil.ring_of (set_incl true o0) d r) = Some f' /\
    polys_kept (f_geom f) (f_geom f') = false /\
    rings_sub (geom_rings (f_geom f)) (geom_rings (f_geom f')) = true.
Proof. exact incl_keeps_holes_refuted. Qed.
Print Assumptions C17_incl_keeps_holes_refuted.

(* ---------------------------------------------------------------------------------------
   5b. The judgement-2 oracle says what the theorems say, and the osm-package methods the model
      reads are C18's models.  (The answers of Tags.AnyInteresting, Way.Polygon and
      Relation.Polygon on every element, and the harness's known-finding class, are compared
      with these functions inside Coq on every case: judgement code 3.) *)
Theorem C17_has_interesting_is_AnyInteresting : forall ts,
  has_interesting ts None = C18.Tags.any_interesting uninteresting_tags ts.
Proof. exact has_interesting_any. Qed.
Print Assumptions C17_has_interesting_is_AnyInteresting.

Theorem C17_is_mp_is_Relation_Polygon : forall r,
  is_mp r = relation_area r /\ relation_area r = C18.Api.relation_is_area (r_tags r).
Proof. exact is_mp_is_relation_polygon. Qed.
Print Assumptions C17_is_mp_is_Relation_Polygon.

Theorem C17_oracle_keys_unique_iff : forall fs, keys_unique fs = true <-> NoDup (map fkey fs).
Proof. exact keys_unique_iff. Qed.
Print Assumptions C17_oracle_keys_unique_iff.

Theorem C17_oracle_node_rule_iff : forall d n, spec_node_rule d n = true <-> node_rule d n.
Proof. exact spec_node_rule_iff. Qed.
Print Assumptions C17_oracle_node_rule_iff.

(* the three completeness clauses of the oracle (every node satisfying the rule, every way that no
   relation absorbs, every route relation with a member line has a feature) hold of the model's
   output for all data and options: they cannot raise a false alarm, and — being stated on the
   input alone — they catch a conversion that silently drops features *)
Theorem C17_oracle_completeness_sound : forall join ring_of, ring_single ring_of -> forall o d,
  key_clash d = false ->
  nodes_complete d (convert join ring_of o d) = true /\
  ways_complete d (convert join ring_of o d) = true /\
  routes_complete d (convert join ring_of o d) = true.
Proof. exact oracle_completeness_sound. Qed.
Print Assumptions C17_oracle_completeness_sound.

(* ---------------------------------------------------------------------------------------
   6. Determinism ("conversion of equal input gives equal output") and input immutability are
      NOT carried by a theorem: [convert] is a Gallina function, which says nothing about state an
      implementation might keep between calls or about writes to its argument.  Both clauses are
      judged by the harness only (two passes over all option sets in one process with omitted
      options; whole-input deep comparison and output scribbling): see checks.d/C17.json. *)
