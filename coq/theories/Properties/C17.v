(* Properties/C17.v — GeoJSON conversion maps elements to features exactly; options only subtract.

   ONLY statements, each closed by [exact] of a lemma of C17/Proofs*.v, Print Assumptions, and
   non-vacuity examples.  The model (C17/Model.v) is tied to /repo/osmgeojson by the
   correspondence harness (harness/cmd/c17); UninterestingTags is regenerated from /repo/tag.go
   on every run (gen/GenTags.v).  [join] and [ring_of] (internal/mputil, property C16) are
   universally quantified. *)
From Coq Require Import ZArith String List Bool.
From Verif Require Import C17.Model C17.Spec C17.Mputil C17.Proofs.
Import ListNotations.
Open Scope Z_scope.

(* determinism: the conversion is a function of options and data (plus the correspondence of
   repeated runs in the harness) *)
Theorem C17_convert_deterministic : forall join ring_of o1 o2 d1 d2,
  o1 = o2 -> d1 = d2 -> convert join ring_of o1 d1 = convert join ring_of o2 d2.
Proof. intros; subst; reflexivity. Qed.
Print Assumptions C17_convert_deterministic.
