(* Properties/C06.v — Truncated or damaged PBF input ends in an error after a correct prefix.

   ONLY statements, each closed by [exact] of a lemma of Framing/Proofs.v, C06/Proofs.v or
   C06/ProofsDamage.v, Print Assumptions, and non-vacuity examples.

   Model: Framing/Model.v (io.ReadFull, readFileBlock with its size checks, getData,
   decodeOSMHeader's gate, Start, the reader loop and Next in file order).  [current] is the code
   of /repo as it is now; [legacy] is the code as it was found (before the fix: commits) and only
   occurs in the [_refuted] statements.  Spec: C06/Spec.v ([objs_before], [is_boundary]) and the
   damage classes of Framing/Valid.v.  The constants are tied to the source in Framing/GenOk.v.
   In-block decoding is an oracle value per block (Ok objs | Err | Panic), see checks.d/C06.json. *)
From Coq Require Import ZArith List Bool Lia.
From Verif Require Import Framing.Model Framing.Valid Framing.Proofs Framing.GenOk Framing.Bytes C06.ProofsBytes
                          C06.Spec C06.Proofs C06.ProofsDamage C06.InBlock C06.Bridge C06.Skip C06.Session.
Import ListNotations.
Open Scope Z_scope.

(* 1. A valid stream cut at ANY byte offset k yields exactly the objects of the blocks wholly
      before k, and ends without error iff k is a block boundary (0 or the end of a frame). *)
Theorem C06_truncation : forall (T : Type) (fs : list (frame T)) (k : Z),
  valid_file fs = true -> 0 <= k <= total_size fs ->
  objects (scan current fs k) = objs_before fs k /\
  out (scan current fs k) = (if is_boundary fs k then Done else Failed).
Proof. exact (@truncation). Qed.
Print Assumptions C06_truncation.

(* the same with the blocks as they are handed to the consumer (offset, objects) *)
Theorem C06_truncation_deliveries : forall (T : Type) (fs : list (frame T)) (k : Z),
  valid_file fs = true -> 0 <= k <= total_size fs ->
  scan current fs k = Result (spec_deliveries (frames_before fs k)) (cut_outcome fs k).
Proof. exact (@scan_cut). Qed.
Print Assumptions C06_truncation_deliveries.

(* 1b. The same, literally over BYTES.  The file is the concatenation, block by block, of the 4-byte
   big-endian BlobHeader length, the BlobHeader bytes and the Blob bytes; [b_scan] reads bytes off
   the front (io.ReadFull), decodes the prefix (binary.BigEndian.Uint32) and applies proto.Unmarshal
   as ARBITRARY functions [parse_hdr], [parse_blob] of the bytes read.  For EVERY byte offset k of
   the file, scanning the first k bytes delivers the blocks wholly before k and ends without error
   iff k is a block boundary. *)
Theorem C06_truncation_every_byte_offset :
  forall (T : Type) (parse_hdr : list Z -> hdr) (parse_blob : btype -> list Z -> blobp T)
         (bfs : list bframe) (k : nat),
  valid_bytes parse_hdr parse_blob bfs -> (k <= length (encode bfs))%nat ->
  let fs := map (abstract parse_hdr parse_blob) bfs in
  objects (b_scan parse_hdr parse_blob current (firstn k (encode bfs))) = objs_before fs (Z.of_nat k) /\
  out (b_scan parse_hdr parse_blob current (firstn k (encode bfs)))
  = (if is_boundary fs (Z.of_nat k) then Done else Failed).
Proof. exact (@truncation_bytes_objects). Qed.
Print Assumptions C06_truncation_every_byte_offset.

(* the refinement behind it: on every prefix of the bytes of aligned frames (prefix = header length,
   an in-range datasize = blob length; anything else may be damaged) the byte-level scan IS the
   frame-level scan with avail = k, for both variants of the code *)
Theorem C06_bytes_refine :
  forall (T : Type) (parse_hdr : list Z -> hdr) (parse_blob : btype -> list Z -> blobp T) v
         (bfs : list bframe) (k : nat),
  Forall (aligned parse_hdr) bfs -> Forall (fun bf => 0 <= bf_pfx bf) bfs ->
  (k <= length (encode bfs))%nat ->
  b_scan parse_hdr parse_blob v (firstn k (encode bfs))
  = scan v (map (abstract parse_hdr parse_blob) bfs) (Z.of_nat k).
Proof. exact (@bytes_refine). Qed.
Print Assumptions C06_bytes_refine.

Theorem C06_be32_roundtrip : forall n, 0 <= n < 4294967296 -> be32_dec (be32 n) = n.
Proof. exact be32_roundtrip. Qed.

(* 2. Every enumerated damage class (oversized prefix, unparsable BlobHeader, datasize >= 32 MiB,
      negative, or reaching past the end of the input, unparsable Blob, unexpected block type,
      no/unknown encoding, corrupt zlib data, wrong or out-of-range raw_size, unparsable header
      block, unsupported required feature, in-block damage reported by the block decoder) at any
      block position ends the scan with an error after exactly the intact blocks before it. *)
Theorem C06_damage_detected : forall (T : Type) (good : list (frame T)) bad rest avail,
  valid_file good = true ->
  damaged (match good with [] => true | _ => false end) bad (avail - total_size good) = true ->
  scan current (good ++ bad :: rest) avail = Result (spec_deliveries good) Failed.
Proof. exact (@damage_detected). Qed.
Print Assumptions C06_damage_detected.

Theorem C06_damage_detected_objects : forall (T : Type) (good : list (frame T)) bad rest avail,
  valid_file good = true ->
  damaged (match good with [] => true | _ => false end) bad (avail - total_size good) = true ->
  objects (scan current (good ++ bad :: rest) avail) = objs_of good /\
  out (scan current (good ++ bad :: rest) avail) = Failed.
Proof. exact (@damage_detected_objects). Qed.
Print Assumptions C06_damage_detected_objects.

(* each damage class separately: the damaged frame makes readFileBlock / the block decoder fail *)
Theorem C06_each_damage_fails : forall (T : Type) d first (f : frame T) a,
  has_damage d first f a = true -> rfb_fails first f a.
Proof. exact (@damage_fails). Qed.
Print Assumptions C06_each_damage_fails.

(* 3. The framing layer never panics: for every frame list and any amount of available input the
      scan does not crash, provided no block decoder panics (in-block decoding is layer L1).
      SCOPE: a frame list describes input in which every length field that passes its range check
      tells the truth and nothing follows the last frame; when a prefix differs from the length
      of the BlobHeader, a datasize from the length of the Blob, or bytes follow the last frame,
      the frame model answers [OutOfModel], which satisfies this statement (and 3b) trivially.
      The statement WITHOUT that escape is 3c below, on bytes. *)
Theorem C06_never_crashes : forall (T : Type) (fs : list (frame T)) avail,
  forallb no_dpanic fs = true -> out (scan current fs avail) <> Crashed.
Proof. exact (@scan_never_crashes). Qed.
Print Assumptions C06_never_crashes.

(* ... and with layer L1 (theories/Pbf, the model of decode_data.go) the proviso is discharged:
   when the data payloads are the decodings of ARBITRARY message trees by workers in ARBITRARY
   decoder states (any in-block damage), no input whatsoever crashes the scan. *)
Theorem C06_never_crashes_any_tree :
  forall (c : Verif.Pbf.Model.cfg) (fs : list (frame Verif.Pbf.Model.obj)) avail,
  Forall (from_tree c) fs -> out (scan current fs avail) <> Crashed.
Proof. exact never_crashes_on_trees. Qed.
Print Assumptions C06_never_crashes_any_tree.

(* the "objects of a block" are a function of the block alone, not of the worker that decodes it *)
Theorem C06_block_outcome_state_independent : forall c st1 st2 m,
  decode_tree c st1 m = decode_tree c st2 m.
Proof. exact decode_tree_state_independent. Qed.
Print Assumptions C06_block_outcome_state_independent.

(* 2b. The in-block classes are theorems about the block decoder's model (layer L1), not oracle
   values: a block whose message tree has a plain Node group, a DenseNodes message without
   ids/lat/lon, a dense column shorter than ids, a string-table index out of range at ANY place an
   index is used (dense keys_vals, dense user_sid, way/relation keys, vals, info.user_sid,
   relation roles_sid), vals shorter than keys, way refs/lat/lon or relation roles/memids/types of
   different length, decodes to an error from every decoder state ... *)
Theorem C06_in_block_damage_is_err : forall c m, in_block_damage c m ->
  forall st, exists e, Verif.Pbf.Model.scan_result c st m = Verif.Pbf.Tree.Err e.
Proof. exact in_block_damage_is_err. Qed.
Print Assumptions C06_in_block_damage_is_err.

(* ... and therefore ends the scan with an error after exactly the intact blocks before it. *)
Theorem C06_in_block_damage_detected :
  forall c (good : list (frame Verif.Pbf.Model.obj)) bad rest avail b st m,
  valid_file good = true ->
  block_read bad (avail - total_size good) = Some (TyData, b) ->
  enc_ok (b_enc b) = true -> b_pay b = PData (decode_tree c st m) ->
  in_block_damage c m ->
  scan current (good ++ bad :: rest) avail = Result (spec_deliveries good) Failed.
Proof. exact in_block_damage_detected. Qed.
Print Assumptions C06_in_block_damage_detected.

(* 2c. SCOPE of 2b: the element kinds the scan decodes (every constructor of [in_block_damage] except
   the plain Node group carries skip_* = false).  A kind the scanner is told to skip is stepped
   over at the protobuf level, so damage inside it is not, and cannot be, reported: two block trees
   that differ only inside PrimitiveGroup fields of skipped kinds decode alike from every state
   (so a block damaged there yields what the undamaged block yields: the objects of the other
   kinds).  Stated in checks.d/C06.json `assumptions`. *)
Theorem C06_skipped_kind_is_not_read : forall c st m1 m2,
  Forall2 (same_top c) m1 m2 ->
  Verif.Pbf.Model.scan_result c st m1 = Verif.Pbf.Model.scan_result c st m2.
Proof. exact skipped_kind_is_not_read. Qed.
Print Assumptions C06_skipped_kind_is_not_read.

(* 3b. ... and never hangs (same scope as 3).  The model has ONE source of a hang, the streaming
   czlib reader on bytes that follow the zlib stream (flag v_trailing_spins, false in [current]);
   the content of this statement is that no other model outcome maps to [Hung], which is true by
   construction.  That the pipeline of goroutines always returns is property C02
   (C02_next_returns, on the pipeline LTS); that the real decoder returns is observed by the
   child-process watchdog of the harness. *)
Theorem C06_never_hangs : forall (T : Type) (fs : list (frame T)) avail,
  out (scan current fs avail) <> Hung.
Proof. exact (@scan_never_hangs). Qed.
Print Assumptions C06_never_hangs.

(* 3c. EVERY byte string: no alignment, no validity, lying prefixes and datasizes, stray bytes after
   the last block, garbage.  proto.Unmarshal of BlobHeader and Blob are ARBITRARY functions of the
   bytes read; the payload of a data block is what a worker in any decoder state makes of any
   message tree (layer L1, any in-block damage).  The scan of the current code ends with success or
   with an error: never a crash, never a hang, never an outcome outside the model (in particular
   the reader loop's fuel, one iteration per remaining byte, is never used up). *)
Theorem C06_every_byte_string_ends_in_done_or_error :
  forall (c : Verif.Pbf.Model.cfg) (parse_hdr : list Z -> hdr)
         (parse_blob : btype -> list Z -> blobp Verif.Pbf.Model.obj),
  parses_trees c parse_blob ->
  forall s : list Z,
    out (b_scan parse_hdr parse_blob current s) = Done \/
    out (b_scan parse_hdr parse_blob current s) = Failed.
Proof. exact every_byte_string_settles. Qed.
Print Assumptions C06_every_byte_string_ends_in_done_or_error.

(* the same for any object type and oracle block decoder that does not panic *)
Theorem C06_every_byte_string_generic :
  forall (T : Type) (parse_hdr : list Z -> hdr) (parse_blob : btype -> list Z -> blobp T),
  parse_sound parse_blob ->
  forall s : list Z, settled (out (b_scan parse_hdr parse_blob current s)).
Proof. exact (@b_scan_total). Qed.
Print Assumptions C06_every_byte_string_generic.

Theorem C06_getData_never_panics : forall cap0 e, get_data current cap0 e <> GPanic.
Proof. exact get_data_no_panic. Qed.
Print Assumptions C06_getData_never_panics.

(* getData never lets the inflater produce more than raw_size + 1 bytes (hence less than the blob
   size limit), whatever length n the zlib stream would inflate to: n is unbounded by the file
   format (a 2 MiB stream of zeros inflates to 2 GiB), so memory must not follow it *)
Theorem C06_inflate_bounded : forall e, inflated_bytes current e <= maxBlobSize.
Proof. exact inflated_bytes_bounded. Qed.
Print Assumptions C06_inflate_bounded.

Theorem C06_inflate_follows_raw_size : forall rs z,
  inflated_bytes current (EncZlib rs z) <= Z.max 0 (rs + 1).
Proof. exact inflated_bytes_follow_raw_size. Qed.
Print Assumptions C06_inflate_follows_raw_size.

(* 4. "... THEN STOPS": the Scanner's call interface (scanner.go Scan / Err / Header with its one
   error slot; C06/Session.v) over any decoder that delivers objects and then ends with io.EOF or
   an error ([start] = what Start answers, [fin] = what Next answers at the end, both arbitrary):
   whatever was called before (cs1), once a Scan has returned false, whatever is called after
   (cs2, Close included) - every Scan returns false, every Err returns the same value, every
   Header reports an error, Close returns.  (Scanner not closed before that Scan: after a Close in
   mid-scan the error slot stays empty, Err answers ErrScannerClosed.)  Correspondence: case kind SESSION (call scripts on cut files). *)
Theorem C06_then_stops : forall (T : Type) (start fin : serr),
  nonnil fin = true -> forall (s : sess (O := T)) cs1 cs2,
  closed (sfinal start fin s cs1) = false ->
  snd (sstep start fin (sfinal start fin s cs1) KScan) = RScanFalse ->
  exists e ys, srun start fin s (cs1 ++ KScan :: cs2) = srun start fin s cs1 ++ RScanFalse :: ys /\
               Forall (quiet e) ys.
Proof. exact (@then_stops_any). Qed.
Print Assumptions C06_then_stops.

(* a plain Scan loop on a started scanner returns the decoder's objects, then false *)
Theorem C06_scan_loop : forall (T : Type) (start fin : serr) (l : list T) (s : sess),
  started s = true -> s_err s = ENil -> closed s = false -> feed s = l ->
  srun start fin s (repeat KScan (S (length l))) = map (@RObj T) l ++ [RScanFalse].
Proof. exact (@scan_loop). Qed.
Print Assumptions C06_scan_loop.

(* ---- the code as it was found violates the property (findings, all repaired in /repo) ---- *)
Definition ex_hdr : frame Z :=
  Frame 14 14 (HdrOk TyHeader 30) 30 (BlobOk (Blob EncRaw (PHeader (HOk true)))).
Definition ex_data (objs : list Z) (zl : bool) : frame Z :=
  Frame 12 12 (HdrOk TyData 50) 50
        (BlobOk (Blob (if zl then EncZlib 80 (InflOk 80) else EncRaw) (PData (DOk objs)))).
Definition ex_file : list (frame Z) := [ex_hdr; ex_data [5; 9] false; ex_data [13; 18; 22] true].

(* (a) a cut exactly after a size prefix, or exactly after a BlobHeader: io.EOF -> silent success *)
Theorem C06_truncation_refuted : exists (fs : list (frame Z)) k,
  valid_file fs = true /\ 0 <= k <= total_size fs /\
  is_boundary fs k = false /\ out (scan legacy fs k) = Done.
Proof. exists ex_file, (48 + 4). vm_compute. intuition congruence. Qed.

Theorem C06_truncation_after_header_refuted : exists (fs : list (frame Z)) k,
  valid_file fs = true /\ 0 <= k <= total_size fs /\
  is_boundary fs k = false /\ out (scan legacy fs k) = Done.
Proof. exists ex_file, (48 + 4 + 12). vm_compute. intuition congruence. Qed.

(* (b) negative datasize: slice bounds panic in the reader goroutine *)
Theorem C06_negative_datasize_refuted : exists (good : list (frame Z)) bad,
  valid_file good = true /\
  has_damage DmgDatasizeNegative false bad (total_size [bad]) = true /\
  out (scan legacy (good ++ [bad]) (total_size (good ++ [bad]))) = Crashed.
Proof.
  exists [ex_hdr], (Frame 12 12 (HdrOk TyData (-1)) 50 (BlobOk (Blob EncRaw (PData (DOk [1]))))).
  vm_compute. intuition congruence.
Qed.

(* (c) raw_size 2000000000: int32 overflow in the capacity computation, makeslice panics *)
Theorem C06_rawsize_overflow_refuted : exists (fs : list (frame Z)),
  damaged true (hd ex_hdr fs) (total_size fs) = true /\
  out (scan legacy fs (total_size fs)) = Crashed.
Proof.
  exists [Frame 14 14 (HdrOk TyHeader 30) 30
                (BlobOk (Blob (EncZlib 2000000000 (InflOk 20)) (PHeader (HOk true))))].
  vm_compute. intuition congruence.
Qed.

(* (d) a first block of unknown type was decoded as data: silent success *)
Theorem C06_first_block_type_refuted : exists (fs : list (frame Z)),
  damaged true (hd ex_hdr fs) (total_size fs) = true /\
  out (scan legacy fs (total_size fs)) = Done /\ objects (scan legacy fs (total_size fs)) <> [].
Proof.
  exists [Frame 12 12 (HdrOk TyOther 50) 50 (BlobOk (Blob EncRaw (PData (DOk [7]))))].
  vm_compute. intuition congruence.
Qed.

(* (e) cgo build: bytes after the end of the zlib stream made the streaming czlib reader spin for ever;
   the data are intact, the repaired code returns them *)
Theorem C06_trailing_bytes_refuted : exists (fs : list (frame Z)),
  valid_file fs = true /\
  out (scan legacy fs (total_size fs)) = Hung /\
  scan current fs (total_size fs) = Result [(48, [5; 9])] Done.
Proof.
  exists [ex_hdr; Frame 12 12 (HdrOk TyData 50) 50
                        (BlobOk (Blob (EncZlib 80 (InflTrailing 80)) (PData (DOk [5; 9]))))].
  vm_compute. intuition congruence.
Qed.

(* (f) zip bomb: the whole stream was inflated before its length was compared with raw_size: a
   blob announcing 117 bytes made the decoder produce 2 GiB (memory exhausted; the one-shot czlib
   call of the cgo build panicked at exactly 2^31 bytes).  Replayed with harness/cmd/c06bomb. *)
Theorem C06_inflate_bounded_refuted : ~ (forall e, inflated_bytes legacy e <= maxBlobSize).
Proof.
  intro H. specialize (H (EncZlib 117 (InflOk 2147483648))). vm_compute in H. apply H. reflexivity.
Qed.

(* ---- non-vacuity ---- *)
Example ex_file_valid : valid_file ex_file = true /\ total_size ex_file = 180.
Proof. vm_compute. split; reflexivity. Qed.

(* a cut inside the second data block: objects of the first block, error *)
Example ex_cut_inside :
  scan current ex_file 150 = Result [(48, [5; 9])] Failed /\ is_boundary ex_file 150 = false.
Proof. vm_compute. split; reflexivity. Qed.

(* a cut on a block boundary: success *)
Example ex_cut_boundary :
  scan current ex_file 114 = Result [(48, [5; 9])] Done /\ is_boundary ex_file 114 = true.
Proof. vm_compute. split; reflexivity. Qed.

(* the repaired code at the two cuts that used to succeed silently *)
Example ex_cut_after_prefix :
  out (scan current ex_file 52) = Failed /\ out (scan current ex_file 64) = Failed.
Proof. vm_compute. split; reflexivity. Qed.

(* every damage class is inhabited, and the instance of the theorem computes *)
Definition ex_bad (d : damage) : frame Z :=
  match d with
  | DmgPrefixTooBig => Frame 65536 12 (HdrOk TyData 50) 50 (BlobOk (Blob EncRaw (PData (DOk [1]))))
  | DmgHeaderUnparsable => Frame 12 12 HdrBad 50 (BlobOk (Blob EncRaw (PData (DOk [1]))))
  | DmgDatasizeTooBig => Frame 12 12 (HdrOk TyData 33554432) 50 (BlobOk (Blob EncRaw (PData (DOk [1]))))
  | DmgDatasizeNegative => Frame 12 12 (HdrOk TyData (-1)) 50 (BlobOk (Blob EncRaw (PData (DOk [1]))))
  | DmgDatasizePastEnd => Frame 12 12 (HdrOk TyData 51) 50 (BlobOk (Blob EncRaw (PData (DOk [1]))))
  | DmgBlobUnparsable => Frame 12 12 (HdrOk TyData 50) 50 BlobBad
  | DmgBlockType => Frame 12 12 (HdrOk TyOther 50) 50 (BlobOk (Blob EncRaw (PData (DOk [1]))))
  | DmgEncoding => Frame 12 12 (HdrOk TyData 50) 50 (BlobOk (Blob (EncZlib 81 (InflOk 80)) (PData (DOk [1]))))
  | DmgHeaderBlock => Frame 12 12 (HdrOk TyHeader 50) 50 (BlobOk (Blob EncRaw (PHeader HBad)))
  | DmgFeature => Frame 12 12 (HdrOk TyHeader 50) 50 (BlobOk (Blob EncRaw (PHeader (HOk false))))
  | DmgInBlock => Frame 12 12 (HdrOk TyData 50) 50 (BlobOk (Blob EncRaw (PData DErr)))
  end.

Example ex_every_damage_inhabited :
  forallb (fun d => has_damage d (match d with DmgHeaderBlock | DmgFeature => true | _ => false end)
                               (ex_bad d) 66) all_damages = true.
Proof. vm_compute. reflexivity. Qed.

Example ex_damage_after_two_blocks :
  scan current ([ex_hdr; ex_data [5; 9] false] ++ ex_bad DmgInBlock :: [ex_data [3] false]) 246
  = Result [(48, [5; 9])] Failed.
Proof. vm_compute. reflexivity. Qed.

Example ex_never_crashes_on_garbage :
  out (scan current [ex_bad DmgDatasizeNegative; ex_bad DmgEncoding] 1000) = Failed.
Proof. vm_compute. reflexivity. Qed.

(* in-block damage classes are inhabited: concrete trees, and what the L1 model computes for them *)
Module InBlockExamples.
  Import Verif.Pbf.Tree Verif.Pbf.Model.
  Definition table : Z * wval := (1, WMsg [(1, WStr []); (1, WStr [107]); (1, WStr [118])]).  (* "", "k", "v" *)
  (* a way whose second key index is 3 = the table length *)
  Definition bad_way : msg :=
    [table; (2, WMsg [(3, WMsg [(1, WVar 7); (2, WPacked [1; 3]); (3, WPacked [2; 2]); (8, WPacked [2; 2])])])].
  (* a relation with three roles and two types *)
  Definition bad_rel : msg :=
    [table; (2, WMsg [(4, WMsg [(1, WVar 9); (8, WPacked [1; 1; 2]); (9, WPacked [2; 2; 2]); (10, WPacked [0; 1])])])].
  (* DenseNodes without the lat column *)
  Definition bad_dense : msg := [table; (2, WMsg [(2, WMsg [(1, WPacked [2; 2]); (9, WPacked [2; 2])])])].
  (* a plain Node group after a good way *)
  Definition bad_plain : msg :=
    [table; (2, WMsg [(3, WMsg [(1, WVar 7); (8, WPacked [2])]); (1, WMsg [(1, WVar 5)])])].

  Example bad_way_damaged : in_block_damage cfg_all bad_way.
  Proof.
    eapply (IB_way_tag cfg_all bad_way _ _ [1; 3] [2; 2] 3);
      [right; left; reflexivity|left; reflexivity|reflexivity|reflexivity|reflexivity| |].
    - left. right. left. reflexivity.
    - unfold u32_in_table, in_table. vm_compute. intros [_ [_ H]]. discriminate.
  Qed.
  Example bad_way_result : scan_result cfg_all dstate0 bad_way = Err E_INDEX.
  Proof. vm_compute. reflexivity. Qed.

  Example bad_rel_damaged : in_block_damage cfg_all bad_rel.
  Proof.
    eapply (IB_rel_columns cfg_all bad_rel _ _ [1; 1; 2] [2; 2; 2] [0; 1]);
      [right; left; reflexivity|left; reflexivity|reflexivity|reflexivity|reflexivity|reflexivity|].
    left. cbn. lia.
  Qed.
  Example bad_rel_result : scan_result cfg_all dstate0 bad_rel = Err E_COLUMNS.
  Proof. vm_compute. reflexivity. Qed.

  Example bad_dense_damaged : in_block_damage cfg_all bad_dense.
  Proof.
    eapply (IB_dense_missing cfg_all bad_dense _ _ 8);
      [right; left; reflexivity|left; reflexivity|reflexivity|right; left; reflexivity|reflexivity|reflexivity].
  Qed.
  (* ... while a DenseNodes message with no column at all is a group without nodes *)
  Example empty_dense_ok :
    scan_result cfg_all dstate0 [table; (2, WMsg [(2, WMsg [])])] = Ok [].
  Proof. vm_compute. reflexivity. Qed.
  Example bad_dense_result : scan_result cfg_all dstate0 bad_dense = Err E_NO_LATS.
  Proof. vm_compute. reflexivity. Qed.

  Example bad_plain_damaged : in_block_damage cfg_all bad_plain.
  Proof.
    eapply (IB_plain_node cfg_all bad_plain _ (WMsg [(1, WVar 5)]));
      [right; left; reflexivity|right; left; reflexivity].
  Qed.
  Example bad_plain_result : scan_result cfg_all dstate0 bad_plain = Err E_PLAIN.
  Proof. vm_compute. reflexivity. Qed.
  (* keys_vals ends on a node boundary after two of three nodes: ids = 3 deltas, two delimiters *)
  Definition bad_kv : msg :=
    [table; (2, WMsg [(2, WMsg [(1, WPacked [2; 2; 2]); (8, WPacked [2; 2; 2]); (9, WPacked [2; 2; 2]);
                                (10, WPacked [1; 2; 0; 0])])])].
  Example bad_kv_damaged : in_block_damage cfg_all bad_kv.
  Proof.
    eapply (IB_dense_keyvals_short cfg_all bad_kv _ _ [2; 2; 2] [1; 2; 0; 0]);
      [right; left; reflexivity|left; reflexivity|reflexivity|reflexivity|reflexivity|].
    vm_compute. lia.
  Qed.
  Example bad_kv_result : scan_result cfg_all dstate0 bad_kv = Err E_EOF.
  Proof. vm_compute. reflexivity. Qed.

  (* "never inherits": a block WITHOUT a string table decoded by a worker that has just decoded a
     block WITH one (state st1) still fails: the stale table is not consulted *)
  Definition good_block : msg :=
    [table; (2, WMsg [(3, WMsg [(1, WVar 7); (2, WPacked [1]); (3, WPacked [2]); (8, WPacked [2])])])].
  Definition no_table_block : msg :=
    [(2, WMsg [(3, WMsg [(1, WVar 8); (2, WPacked [1]); (3, WPacked [2]); (8, WPacked [2])])])].
  Example stale_table_not_used :
    match scan_block cfg_all dstate0 good_block with
    | Ok (st1, q) => length q = 1%nat /\ scan_result cfg_all st1 no_table_block = Err E_INDEX
    | _ => False
    end.
  Proof. vm_compute. split; reflexivity. Qed.
End InBlockExamples.

Theorem C06_stringtable_removed_is_err : forall c m g w k ks vs,
  has_field 1 m = false ->
  In (2, Verif.Pbf.Tree.WMsg g) m -> In (3, Verif.Pbf.Tree.WMsg w) g ->
  Verif.Pbf.Model.skip_ways c = false ->
  col 2 w = Some (k :: ks) -> col 3 w = Some vs ->
  forall st, exists e, Verif.Pbf.Model.scan_result c st m = Verif.Pbf.Tree.Err e.
Proof. exact stringtable_removed_way_is_err. Qed.
Print Assumptions C06_stringtable_removed_is_err.

(* byte level: a two-block file of 20 bytes, cut after the second block's prefix *)
Module BytesExample.
  Definition ph (l : list Z) : hdr :=
    match l with [1; n] => HdrOk TyData n | [0; n] => HdrOk TyHeader n | _ => HdrBad end.
  (* the payload is decoded by the decoder the block type selects, whatever the bytes were meant to be *)
  Definition pb (ty : btype) (l : list Z) : blobp Z :=
    match l with
    | [] => BlobBad
    | x :: r =>
        match ty with
        | TyData => BlobOk (Blob EncRaw (PData (if x =? 7 then DOk r else DErr)))
        | TyHeader => BlobOk (Blob EncRaw (PHeader (if (x =? 9) && (Nat.eqb (length r) 0) then HOk true else HBad)))
        | TyOther => BlobOk (Blob EncRaw (PHeader HBad))
        end
    end.
  Definition file : list bframe := [BFrame 2 [0; 1] [9]; BFrame 2 [1; 3] [7; 41; 42]].
  Example file_bytes : encode file = [0; 0; 0; 2; 0; 1; 9;  0; 0; 0; 2; 1; 3; 7; 41; 42].
  Proof. vm_compute. reflexivity. Qed.
  Example file_valid : valid_file (map (abstract ph pb) file) = true.
  Proof. vm_compute. reflexivity. Qed.
  Example whole : b_scan ph pb current (encode file) = Result [(7, [41; 42])] Done.
  Proof. vm_compute. reflexivity. Qed.
  Example cut_after_prefix : b_scan ph pb current (firstn 11 (encode file)) = Result [] Failed
                             /\ b_scan ph pb legacy (firstn 11 (encode file)) = Result [] Done.
  Proof. vm_compute. split; reflexivity. Qed.
  Example cut_on_boundary : b_scan ph pb current (firstn 7 (encode file)) = Result [] Done.
  Proof. vm_compute. reflexivity. Qed.
  (* outside the aligned domain: stray bytes after the file, a prefix that lies, a data block first *)
  Example pb_sound : parse_sound pb.
  Proof.
    intros ty [|x r] b H; cbn in H; [discriminate|].
    destruct ty; inversion H; subst; cbn; try exact I.
    destruct (x =? 7); discriminate.
  Qed.
  Example stray_bytes : b_scan ph pb current (encode file ++ [0; 0; 0]) = Result [(7, [41; 42])] Failed.
  Proof. vm_compute. reflexivity. Qed.
  Example lying_prefix : b_scan ph pb current [0; 0; 0; 3; 0; 1; 9; 0; 0; 0; 2; 1; 3; 7; 41; 42] = Result [] Failed.
  Proof. vm_compute. reflexivity. Qed.
End BytesExample.
