(* Properties/C08.v — PBF skip flags and filters select an unmodified subsequence.

   ONLY statements, each closed by [exact] of a lemma of Pbf/Proofs*.v, and Print Assumptions.
   The model (Pbf/Model.v) is a hand transcription of /repo/osmpbf/decode_data.go at
   message-tree level, tied to the implementation by correspondence (harness/cmd/c08). *)
From Coq Require Import ZArith List Bool.
From Verif Require Import Base.Int64 Pbf.Tree Pbf.Model Pbf.Spec Pbf.ProofsIndep Pbf.ProofsFilter Pbf.ProofsDecode Pbf.ProofsDense Pbf.ProofsAll.
Import ListNotations.
Open Scope Z_scope.

(* 1. For EVERY message tree m (valid encoding or not), every incoming decoder state st (whatever
      earlier blocks left in the cached iterators) and every configuration c (all 8 skip-flag
      combinations, arbitrary predicates per element type): if the unfiltered scan of the block
      succeeds with objs, the configured scan succeeds with exactly the subsequence of objs made
      of the elements of non-skipped types accepted by the filter, unchanged and in order.
      (A rejected element's fields, tags, nodes or members never reach a later element.) *)
Theorem C08_filter_is_subsequence : forall c st m objs,
  scan_result cfg_all st m = Ok objs -> scan_result c st m = Ok (filter (keeps c) objs).
Proof. exact filter_is_subsequence. Qed.
Print Assumptions C08_filter_is_subsequence.

(* 2. the same per block of a file decoded by one worker after arbitrary earlier blocks: the
      outcome (objects, error class or panic) never depends on the decoder state, so the theorem
      above lifts to every block of every file for every decoder count (each block is decoded by
      some worker in some state; C02 gives the file order). *)
Theorem C08_state_independent : forall c st1 st2 m, scan_result c st1 m = scan_result c st2 m.
Proof. exact scan_result_state_independent. Qed.
Print Assumptions C08_state_independent.

(* 3. the reset applied to a rejected way/relation/node gives back the value of a fresh one *)
Theorem C08_reset_is_fresh : (forall w, reset_way w = way0) /\ (forall r, reset_rel r = rel0).
Proof. split; reflexivity. Qed.
Print Assumptions C08_reset_is_fresh.

(* 4. on encoded valid blocks the configured scan is exactly the kept subsequence of the elements
      the block encodes, for every configuration and every incoming decoder state *)
Theorem C08_filtered_scan_of_encoding : forall b,
  valid_block b = true ->
  forall c st, scan_result c st (encode_block b) = Ok (filter (keeps c) (elements b)).
Proof. exact decode_encode_filtered. Qed.
Print Assumptions C08_filtered_scan_of_encoding.

(* non-vacuity: a block with one way and one relation; skipping ways keeps the relation only *)
Example C08_witness :
  let m : msg := [(1, WMsg [(1, WStr []); (1, WStr [107]); (1, WStr [118])]);
                  (2, WMsg [(3, WMsg [(1, WVar 7); (2, WPacked [1]); (3, WPacked [2]); (8, WPacked [2; 2])]);
                            (4, WMsg [(1, WVar 9); (8, WPacked [0]); (9, WPacked [10]); (10, WPacked [1])])])] in
  let c := mkCfg false true false (fun _ => true) (fun _ => true) (fun _ => true) in
  scan_result cfg_all dstate0 m =
    Ok [OWay (mkWay 7 info0 [([107], [118])] [mkWN 1 0 0; mkWN 2 0 0]); ORel (mkRel 9 info0 [] [mkMem 1 5 []])]
  /\ scan_result c dstate0 m = Ok [ORel (mkRel 9 info0 [] [mkMem 1 5 []])].
Proof. vm_compute. split; reflexivity. Qed.

(* returned_objects_stable (objects already appended to the block's result are never written
   again, in an explicit arena semantics of the dense-node tag slices) is NOT proved in Coq in
   this version; the clause is checked on the implementation by the harness (deep snapshots at
   return time re-compared at end of scan) and by the model/implementation correspondence.
   In the pure model the clause is vacuous: values are immutable. *)
