(* Properties/C08.v — PBF skip flags and filters select an unmodified subsequence.

   ONLY statements, each closed by [exact] of a lemma of Pbf/Proofs*.v, and Print Assumptions.
   The model (Pbf/Model.v) is a hand transcription of /repo/osmpbf/decode_data.go at
   message-tree level, tied to the implementation by correspondence (harness/cmd/c08). *)
From Coq Require Import ZArith List Bool.
From Verif Require Import Base.Int64 Pbf.Tree Pbf.Model Pbf.Spec Pbf.CheckLib Pbf.ProofsIndep Pbf.ProofsFilter Pbf.ProofsDecode Pbf.ProofsDense Pbf.ProofsAll Pbf.Arena Pbf.ProofsArena Pbf.ProofsFile Pbf.GenOk C01.Compose.
From VerifGen Require GenPbfCode.
Import ListNotations.
Open Scope Z_scope.

(* 1. For EVERY message tree m (valid encoding or not; the model speaks for the implementation on
      well-typed trees only, see Pbf/Tree.v), every incoming decoder state st (whatever
      earlier blocks left in the cached iterators) and every configuration c (all 8 skip-flag
      combinations, arbitrary predicates per element type): if the unfiltered scan of the block
      succeeds with objs, the configured scan succeeds with exactly the subsequence of objs made
      of the elements of non-skipped types accepted by the filter, unchanged and in order.
      (A rejected element's fields, tags, nodes or members never reach a later element.) *)
Theorem C08_filter_is_subsequence : forall c st m objs,
  scan_result cfg_all st m = Ok objs -> scan_result c st m = Ok (filter (keeps c) objs).
Proof. exact filter_is_subsequence. Qed.
Print Assumptions C08_filter_is_subsequence.

(* 2. the same per block of a file decoded by one worker after arbitrary earlier blocks: the
      outcome (objects, error class or panic) never depends on the decoder state, so the theorem
      above lifts to every block of every file for every decoder count (each block is decoded by
      some worker in some state; C02 gives the file order). *)
Theorem C08_state_independent : forall c st1 st2 m, scan_result c st1 m = scan_result c st2 m.
Proof. exact scan_result_state_independent. Qed.
Print Assumptions C08_state_independent.

(* 2a. ... and so, at file level, for ARBITRARY message trees (valid encodings or not), every
       number of workers n (block k is decoded by worker k mod n, each worker threads its own decoder
       state) and every configuration: if the unfiltered scan of the file succeeds with q, the
       configured scan succeeds with exactly the kept subsequence of q.  Nothing is claimed when the
       unfiltered scan fails (a skip flag can hide the error of a skipped element). *)
Theorem C08_scan_file_filter : forall c n ms q,
  scan_file cfg_all n ms = Ok q -> scan_file c n ms = Ok (filter (keeps c) q).
Proof. exact scan_file_filter. Qed.
Print Assumptions C08_scan_file_filter.

(* 3. the reset applied to a rejected way/relation/node gives back the value of a fresh one
      (ways and relations are modelled BY VALUE, so this only restates the definition of the reset:
      it says nothing about Go memory; see 5 for what is and is not proved about memory) *)
Theorem C08_reset_is_fresh : (forall w, reset_way w = way0) /\ (forall r, reset_rel r = rel0).
Proof. split; reflexivity. Qed.
Print Assumptions C08_reset_is_fresh.

(* 4. on encoded valid blocks the configured scan is exactly the kept subsequence of the elements
      the block encodes, for every configuration and every incoming decoder state *)
Theorem C08_filtered_scan_of_encoding : forall b,
  valid_block b = true ->
  forall c st, scan_result c st (encode_block b) = Ok (filter (keeps c) (elements b)).
Proof. exact decode_encode_filtered. Qed.
Print Assumptions C08_filtered_scan_of_encoding.

(* non-vacuity: a block with one way and one relation; skipping ways keeps the relation only *)
Example C08_witness :
  let m : msg := [(1, WMsg [(1, WStr []); (1, WStr [107]); (1, WStr [118])]);
                  (2, WMsg [(3, WMsg [(1, WVar 7); (2, WPacked [1]); (3, WPacked [2]); (8, WPacked [2; 2])]);
                            (4, WMsg [(1, WVar 9); (8, WPacked [0]); (9, WPacked [10]); (10, WPacked [1])])])] in
  let c := mkCfg false true false (fun _ => true) (fun _ => true) (fun _ => true) in
  scan_result cfg_all dstate0 m =
    Ok [OWay (mkWay 7 info0 [([107], [118])] [mkWN 1 0 0; mkWN 2 0 0]); ORel (mkRel 9 info0 [] [mkMem 1 5 []])]
  /\ scan_result c dstate0 m = Ok [ORel (mkRel 9 info0 [] [mkMem 1 5 []])].
Proof. vm_compute. split; reflexivity. Qed.

(* 5. FULL CLAUSE of the property: "the objects returned are never modified afterwards", i.e. for every
      object o handed to the consumer and every later step of the scanner (later elements of the same
      block, later blocks decoded by the same worker with reused iterators / buffers / string table,
      rejected elements whose memory is reused), every field of o — Tags, Nodes, Members, strings —
      keeps the value it had when it was returned.
      PROVED (hence _partial): only the part of Go memory that is appended to in place, the Tags
      slices of dense nodes inside one extractDenseNodes call, "returned" = appended to dec.q.
      MISSING in Coq: way/relation Tags / Nodes / Members (always freshly made in the source;
      modelled by value, so the clause cannot even be stated for them), strings and string-table /
      dec.data reuse across blocks, anything after the hand-over to the consumer.  Those parts are
      checked at run time only, by a GO-SIDE oracle (deep snapshots at return time, a consumer
      that writes into what it was given, re-comparison at end of scan; harness/cmd/c08 `stable`),
      which is part of the trusted base.
      The proved statement, in the explicit heap semantics of the dense-node tag slices
      (Pbf/Arena.v: backing arrays = slots, n.Tags = (slot, len, cap), make / in-place append /
      reallocating append / [:0] as the Go code performs them, the accepted node handed over and the
      rejected node's array reused): from any heap state satisfying the invariant (working slot not
      referenced by any object already in dec.q), after ANY number of further iterations with ANY
      accept/reject pattern, dec.q has only grown and the value of every object that was already in
      dec.q is unchanged; the invariant holds again (so the statement applies from every later
      moment too: an object is stable from the moment it is appended). *)
Theorem C08_returned_objects_stable_partial : forall c p ids a a',
  Inv a -> extract_loop_a c p ids a = Ok a' ->
  (exists news, a_q a' = a_q a ++ news) /\ view (a_ar a') (a_q a) = view (a_ar a) (a_q a) /\ Inv a'.
Proof. exact returned_objects_stable. Qed.
Print Assumptions C08_returned_objects_stable_partial.

(* 5a. (wave 5) what is established for way / relation slices short of a heap proof - still _partial:
       (i) the working way / relation handed to scanWays / scanRelations is the zero value at every
       iteration of the group loop, for every tree and configuration (so len(way.Nodes) == 0 at entry:
       the node array is MADE in the call that fills it); (ii) tied by translation on every run
       (GenOk.decoder_slice_discipline_matches_source): the set of make / append / re-slice
       operations of decode_data.go is exactly: make per scan call for way Tags/Nodes and relation
       Tags/Members, append only to dec.q and to n.Tags of dense nodes (section 5), re-slicing only
       x[:0] on the reject paths.  A heap semantics of scanWays / scanRelations with these facts as
       lemmas (arrays reachable from dec.q never written) is the missing step. *)
Theorem C08_working_way_and_relation_fresh : forall c m s s',
  g_way s = way0 -> g_rel s = rel0 -> group_loop c m s = Ok s' -> g_way s' = way0 /\ g_rel s' = rel0.
Proof. exact group_loop_fresh. Qed.
Print Assumptions C08_working_way_and_relation_fresh.

Theorem C08_slice_discipline_matches_source : VerifGen.GenPbfCode.slice_ops = Pbf.GenOk.expected_slice_ops.
Proof. exact Pbf.GenOk.decoder_slice_discipline_matches_source. Qed.
Print Assumptions C08_slice_discipline_matches_source.

(* the heap run refines the pure model of Pbf/Model.v: same loop result, and dec.q read through
   the heap is the pure dec.q *)
Theorem C08_arena_refines_model : forall c p ids a a',
  Inv a -> extract_loop_a c p ids a = Ok a' -> x_q (a_x a) = view (a_ar a) (a_q a) ->
  extract_loop c p ids (a_x a) = Ok (a_x a') /\ x_q (a_x a') = view (a_ar a') (a_q a').
Proof. exact arena_refines_model. Qed.
Print Assumptions C08_arena_refines_model.

(* the invariant holds at the start of every extractDenseNodes call *)
Theorem C08_arena_invariant_initially : forall dc q ar qa, Forall (objok ar None) qa ->
  Inv (mkA (mkX dc 0 0 0 0 0 0 0 node0 q) ar None qa).
Proof. exact Inv_init. Qed.
Print Assumptions C08_arena_invariant_initially.

(* non-vacuity: node 1 (two tags) is rejected, node 2 (one tag) re-uses its backing array in place and
   is accepted, node 3 (no tag) is accepted: one backing array in the heap, the returned node reads
   its own tag from it *)
Example C08_witness_arena :
  let p := mkP [[]; [107]; [118]] None None None None in
  let dc := mkDC (Some [2; 2; 2]) ic0 (Some [0; 0; 0]) (Some [0; 0; 0]) (Some [1; 2; 1; 2; 0; 2; 1; 0; 0]) in
  let c := mkCfg false false false (fun n => negb (n_id n =? 1)) (fun _ => true) (fun _ => true) in
  match extract_loop_a c p [2; 2; 2] (mkA (mkX dc 0 0 0 0 0 0 0 node0 []) [] None []) with
  | Ok a' => length (a_ar a') = 1%nat
             /\ map (fun o => match o with ONode n => (n_id n, n_tags n) | _ => (0, []) end) (view (a_ar a') (a_q a'))
                = [(2, [([118], [107])]); (3, [])]
  | _ => False
  end.
Proof. vm_compute. split; reflexivity. Qed.

(* 6. COMPOSITION WITH C02 (C01/Compose.v), with skip flags and filters: the pipeline LTS of
      coq/theories/Pipeline instantiated with the configured block decoder (block i = the positions of
      the kept elements of block i; sound for every decoder state, see C01_pipeline_instantiation_sound).
      For every configuration c, every n >= 1 and every schedule the delivered objects are a prefix of
      filter (keeps c) (elements_file f), and a completed run delivers exactly that sequence with
      Err() = nil.  Uses C02_delivered_is_prefix / C02_completes. *)
Theorem C08_pipeline_delivers_filtered_prefix : forall c f n budget s,
  valid_file f = true -> (1 <= n)%nat -> Compose.PB.reach (pcfg n budget (inst c f)) s ->
  exists t, map (lab c f) (Compose.PL.delivered s) ++ t = filter (keeps c) (elements_file f).
Proof. exact delivered_prefix_of_elements. Qed.
Print Assumptions C08_pipeline_delivers_filtered_prefix.

Theorem C08_pipeline_scans_filtered_prefix_every_schedule : forall c f n budget sched,
  valid_file f = true -> (1 <= n)%nat ->
  exists t, map (lab c f)
              (Compose.PO.scan_vals (snd (Compose.PL.run (pcfg n budget (inst c f)) sched
                                                         (Compose.PL.init (pcfg n budget (inst c f)))))) ++ t
            = filter (keeps c) (elements_file f).
Proof. exact scans_prefix_of_elements. Qed.
Print Assumptions C08_pipeline_scans_filtered_prefix_every_schedule.

Theorem C08_pipeline_completed_run_filtered : forall c f n budget s,
  valid_file f = true -> (1 <= n)%nat -> Compose.PB.reach (pcfg n budget (inst c f)) s ->
  Compose.PL.closed s = false -> Compose.PL.pcancelled s = false -> Compose.PL.s_err s <> 0%Z ->
  map (lab c f) (Compose.PL.delivered s) = filter (keeps c) (elements_file f)
  /\ Compose.PL.s_err s = Compose.PL.eEOF /\ Compose.PL.err_value s = 0%Z.
Proof. exact completed_run_delivers_elements. Qed.
Print Assumptions C08_pipeline_completed_run_filtered.

(* 6a. (wave 5) the same for EVERY configuration record pc of the pipeline model whose input is the
       instantiated file (any worker count, budget, header present or not, header error, either reader
       loop condition for the prefix statement; repair-flag hypotheses as in the C02 theorems used). *)
Theorem C08_pipeline_delivers_filtered_prefix_any_cfg : forall c f pc s,
  valid_file f = true -> Compose.PL.c_inp pc = inst c f -> Compose.PL.wf_cfg pc = true ->
  Compose.PL.c_recheck pc = true -> Compose.PL.c_nextctx pc = true -> Compose.PB.reach pc s ->
  exists t, map (lab c f) (Compose.PL.delivered s) ++ t = filter (keeps c) (elements_file f).
Proof. exact delivered_prefix_any_cfg. Qed.
Print Assumptions C08_pipeline_delivers_filtered_prefix_any_cfg.

Theorem C08_pipeline_completed_run_filtered_any_cfg : forall c f pc s,
  valid_file f = true -> Compose.PL.c_inp pc = inst c f -> Compose.PL.wf_cfg pc = true ->
  Compose.PL.current pc = true -> Compose.PL.c_hdr_err pc = 0%Z -> Compose.PB.reach pc s ->
  Compose.PL.closed s = false -> Compose.PL.pcancelled s = false -> Compose.PL.s_err s <> 0%Z ->
  map (lab c f) (Compose.PL.delivered s) = filter (keeps c) (elements_file f)
  /\ Compose.PL.s_err s = Compose.PL.eEOF /\ Compose.PL.err_value s = 0%Z.
Proof. exact completed_run_any_cfg. Qed.
Print Assumptions C08_pipeline_completed_run_filtered_any_cfg.
