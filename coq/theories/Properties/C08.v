(* Properties/C08.v — PBF skip flags and filters select an unmodified subsequence.
   (work in progress: statements are added as the proofs of Pbf/Proofs*.v land) *)
From Coq Require Import ZArith List Bool.
From Verif Require Import Base.Int64 Pbf.Tree Pbf.Model Pbf.Spec.
Import ListNotations.
Open Scope Z_scope.

(* the reset applied to a rejected way/relation gives back the value of a fresh one *)
Theorem C08_reset_way_fresh : forall w, reset_way w = way0.
Proof. reflexivity. Qed.
Print Assumptions C08_reset_way_fresh.
