(* Properties/C15.v — Applying updates is exact, composable and agrees with geometry-at-time.

   ONLY statements, each closed by a lemma of C15/Proofs.v, Print Assumptions, and non-vacuity
   examples.  The model (C15/Model.v) is a loop-by-loop transcription of way.go, relation.go,
   update.go and the way-member path of internal/mputil.Group; it is tied to /repo by the
   correspondence harness (harness/cmd/c15) on every run.  Times are Z nanoseconds, coordinates Z.
   All statements are for arbitrary lists of children and updates in ANY stored order.

   way_apply / rel_apply : ApplyUpdatesUpTo     spec_node / spec_member : per-child ground truth
   AOk children pending | AErr index half-updated-children updates | APanic (negative index). *)
From Coq Require Import ZArith List Bool Sorted Permutation Lia.
From Verif Require Import C15.Model C15.Spec C15.Proofs C15.GenOk C15.GenOkGroup.
From VerifGen Require Import GenUpdates GenGroup.
Import ListNotations.
Open Scope Z_scope.

(* 1. exactness.  On success every child i is the original child overwritten by the LAST stored
      update with index i and timestamp <= t (version, changeset, lat, lon; for relation members
      the orientation is negated once per such update carrying `reverse` (in int8 arithmetic,
      [flipped], see C15_orientation_flip); id / type / ref / role
      kept), every other child is unchanged (spec_* is the identity when nothing matches), and
      the pending list is exactly the later updates in their original order. *)
Theorem C15_apply_exact_way : forall t ns us ns' p,
  way_apply t ns us = AOk ns' p ->
  ns' = spec_nodes t us ns /\ p = spec_pending t us.
Proof. exact (apply_exact_gen upd_node spec_node child_after_node). Qed.
Print Assumptions C15_apply_exact_way.

Theorem C15_apply_exact_relation : forall t ms us ms' p,
  rel_apply t ms us = AOk ms' p ->
  ms' = spec_members t us ms /\ p = spec_pending t us.
Proof. exact (apply_exact_gen upd_member spec_member child_after_member). Qed.
Print Assumptions C15_apply_exact_relation.

(* the same, read child by child *)
Theorem C15_apply_exact_nth : forall t ns us ns' p k,
  way_apply t ns us = AOk ns' p ->
  length ns' = length ns /\
  nth_error ns' k = option_map (spec_node t us (Z.of_nat k)) (nth_error ns k).
Proof.
  intros t ns us ns' p k H. destruct (apply_ok_inv _ _ _ _ _ _ H) as (_ & Hl & Hk).
  split; [exact Hl|]. rewrite Hk. destruct (nth_error ns k); cbn; [rewrite child_after_node|]; reflexivity.
Qed.
Print Assumptions C15_apply_exact_nth.

Theorem C15_untouched_child : forall t us i n,
  matching t i us = [] -> spec_node t us i n = n.
Proof. intros t us i n H. unfold spec_node. rewrite H. reflexivity. Qed.

Theorem C15_untouched_member : forall t us i m,
  matching t i us = [] -> spec_member t us i m = m.
Proof. intros t us i m H. unfold spec_member. rewrite H. reflexivity. Qed.

(* success happens exactly when every due update names an existing child *)
Theorem C15_apply_succeeds_way : forall t ns us,
  all_in_range t (length ns) us = true ->
  way_apply t ns us = AOk (spec_nodes t us ns) (spec_pending t us).
Proof.
  intros t ns us H. destruct (apply_succeeds upd_node t ns us H) as (ns' & E).
  unfold way_apply. rewrite E. f_equal. exact (proj1 (apply_exact_gen upd_node spec_node child_after_node _ _ _ _ _ E)).
Qed.
Print Assumptions C15_apply_succeeds_way.

Theorem C15_apply_succeeds_relation : forall t ms us,
  all_in_range t (length ms) us = true ->
  rel_apply t ms us = AOk (spec_members t us ms) (spec_pending t us).
Proof.
  intros t ms us H. destruct (apply_succeeds upd_member t ms us H) as (ms' & E).
  unfold rel_apply. rewrite E. f_equal. exact (proj1 (apply_exact_gen upd_member spec_member child_after_member _ _ _ _ _ E)).
Qed.
Print Assumptions C15_apply_succeeds_relation.

(* 2. index errors.  With non-negative indices there is never a panic; if some due update names
      a child beyond the list the result is the typed error carrying the index of the FIRST such
      stored update, the child list keeps its length (no write outside it), the children are
      those obtained by applying the updates stored before the offending one, and the element's
      update list is left as it was. *)
Theorem C15_apply_index_error : forall (C : Type) (upd : update -> C -> C) t cs us,
  nonneg_indices us = true ->
  match find (bad t (length cs)) us with
  | Some u =>
      exists cs', apply_updates_up_to upd t cs us = AErr (u_index u) cs' us /\
                  length cs' = length cs /\
                  exists us1 us2 p, us = us1 ++ u :: us2 /\ existsb (bad t (length cs)) us1 = false /\
                                    apply_updates_up_to upd t cs us1 = AOk cs' p
  | None => exists cs', apply_updates_up_to upd t cs us = AOk cs' (spec_pending t us)
  end.
Proof.
  intros C upd t cs us Hnn.
  pose proof (apply_status upd t cs us) as Hs. rewrite (status_first_bad t _ us Hnn) in Hs.
  destruct (find (bad t (length cs)) us) as [u|] eqn:Ef.
  - destruct (apply_updates_up_to upd t cs us) as [cs' p|i cs' us'|] eqn:E; try discriminate.
    inversion Hs; subst i.
    destruct (apply_err_inv upd _ _ _ _ _ _ E) as (Hus & Hl & us1 & v & us2 & Eus & Hb & Hi & Hn & p & Hd).
    subst us'. exists cs'. split; [reflexivity|]. split; [exact Hl|].
    (* v is the first bad update, hence v = u *)
    assert (Hv : find (bad t (length cs)) us = Some v).
    { rewrite Eus. clear -Hn Hb. induction us1 as [|x r IH]; cbn in *.
      - rewrite Hb. reflexivity.
      - apply orb_false_elim in Hn as [Hx Hr]. rewrite Hx. exact (IH Hr). }
    rewrite Ef in Hv. inversion Hv; subst v. exists us1, us2, p. auto.
  - destruct (apply_updates_up_to upd t cs us) as [cs' p|i cs' us'|] eqn:E; try discriminate.
    exists cs'. f_equal. exact (proj1 (apply_ok_inv upd _ _ _ _ _ E)).
Qed.
Print Assumptions C15_apply_index_error.

Theorem C15_error_only_if_out_of_range : forall (C : Type) (upd : update -> C -> C) t cs us i cs' us',
  apply_updates_up_to upd t cs us = AErr i cs' us' ->
  us' = us /\ length cs' = length cs /\ Z.of_nat (length cs) <= i /\
  exists u, In u us /\ u_ts u <= t /\ u_index u = i.
Proof.
  intros C upd t cs us i cs' us' H.
  destruct (apply_err_inv upd _ _ _ _ _ _ H) as (Hus & Hl & us1 & v & us2 & Eus & Hb & Hi & _).
  unfold bad in Hb. apply andb_prop in Hb as [Hb1 Hb2].
  split; [exact Hus|]. split; [exact Hl|]. split; [lia|].
  exists v. split; [|split; [lia|exact Hi]].
  rewrite Eus. apply in_or_app. right. left. reflexivity.
Qed.
Print Assumptions C15_error_only_if_out_of_range.

(* 3. composition: when each child's updates are stored in time order and t1 <= t2, applying up
      to t1 and then up to t2 gives the same observable result (children and pending list on
      success, the error index otherwise) as applying up to t2 directly. *)
Theorem C15_apply_compose : forall (C : Type) (upd : update -> C -> C) t1 t2 cs us cs1 p1,
  per_index_sorted us = true -> t1 <= t2 ->
  apply_updates_up_to upd t1 cs us = AOk cs1 p1 ->
  obs_of (apply_updates_up_to upd t2 cs1 p1) = obs_of (apply_updates_up_to upd t2 cs us).
Proof. intros C upd. exact (apply_compose_obs upd). Qed.
Print Assumptions C15_apply_compose.

(* without the per-child order the composition claim is false (so the hypothesis is needed):
   child 0 has its newer update stored first *)
Theorem C15_apply_compose_needs_order_refuted : exists t1 t2 ns us ns1 p1,
  t1 <= t2 /\ way_apply t1 ns us = AOk ns1 p1 /\
  obs_of (way_apply t2 ns1 p1) <> obs_of (way_apply t2 ns us).
Proof.
  exists 15, 25, [mkNode 1 1 0 1 1], [mkUpdate 0 3 20 0 3 3 false; mkUpdate 0 2 10 0 2 2 false].
  eexists. eexists. split; [lia|]. split; [vm_compute; reflexivity|]. vm_compute. discriminate.
Qed.

(* 4. UpTo is the filter "stamped at or before t", in stored order; with the pending list it
      partitions the updates *)
Theorem C15_up_to_filter : forall t us,
  up_to t us = filter (fun u => u_ts u <=? t) us /\
  Permutation us (up_to t us ++ spec_pending t us).
Proof. intros t us. split; [apply up_to_spec|apply up_to_pending_partition]. Qed.
Print Assumptions C15_up_to_filter.

(* 5. geometry at time (the repaired code): for a fully annotated way whose due updates are in
      range and annotated, LineStringAt(t) is LineString() of the way with updates applied up
      to t — for every stored order of the update list. *)
Theorem C15_line_string_at_agrees : forall t ns us,
  fully_annotated ns = true -> updates_ok t (length ns) us = true ->
  exists ns' p, way_apply t ns us = AOk ns' p /\
                line_string_at t ns us = Some (line_string ns').
Proof. exact line_string_at_agrees_lemma. Qed.
Print Assumptions C15_line_string_at_agrees.

(* The same with "fully annotated" read AT TIME t, which is how the property text is understood
   here: the stored way is fully annotated, every due update names an existing node, and the
   way is still fully annotated once the due updates are applied.  This hypothesis is implied by
   the one above ([C15_annotated_at_from_updates_ok]) and is the one the per-case oracle uses. *)
Theorem C15_line_string_at_agrees_annotated_at_t : forall t ns us,
  annotated_at t ns us = true ->
  way_apply t ns us = AOk (spec_nodes t us ns) (spec_pending t us) /\
  line_string_at t ns us = Some (line_string (spec_nodes t us ns)).
Proof. exact line_string_at_agrees_at_t. Qed.
Print Assumptions C15_line_string_at_agrees_annotated_at_t.

Theorem C15_annotated_at_from_updates_ok : forall t ns us,
  fully_annotated ns = true -> updates_ok t (length ns) us = true -> annotated_at t ns us = true.
Proof. exact updates_ok_annotated_at. Qed.

(* The hypothesis is needed, and this is the code's behaviour (replayed on /repo, corpus case of
   the harness): a due update that zeroes version, lat and lon of the only node makes the
   applied copy NOT fully annotated; LineString() of the copy drops the node, LineStringAt(t)
   (which tests the STORED node) keeps the point (0,0).  Such a way is not "fully annotated" at t,
   so the property's premise fails there; this is a domain witness, not a finding. *)
Theorem C15_line_string_at_zero_update_hypothesis_needed : exists t ns us ns' p,
  fully_annotated ns = true /\ all_in_range t (length ns) us = true /\ annotated_at t ns us = false /\
  way_apply t ns us = AOk ns' p /\ line_string_at t ns us <> Some (line_string ns').
Proof.
  exists 10, [mkNode 1 1 0 1 1], [mkUpdate 0 0 5 0 0 0 false]. eexists. eexists.
  split; [reflexivity|]. split; [reflexivity|]. split; [reflexivity|].
  split; [vm_compute; reflexivity|]. vm_compute. discriminate.
Qed.

(* without the annotation hypotheses: whenever the due updates are in range, LineStringAt(t) is
   the list of points of the applied copy filtered by which ORIGINAL nodes are annotated (so
   the two queries differ exactly when applying an update changes whether a node counts as
   annotated) *)
Theorem C15_line_string_at_general : forall t ns us,
  all_in_range t (length ns) us = true ->
  exists ns' p, way_apply t ns us = AOk ns' p /\
                line_string_at t ns us = Some (keep_annotated ns (map node_point ns')).
Proof. exact line_string_at_general_lemma. Qed.
Print Assumptions C15_line_string_at_general.

(* the code before fix commit 4e35af7 (`break` on the first too-late update) violates it *)
Theorem C15_line_string_at_break_refuted : exists t ns us ns' p,
  fully_annotated ns = true /\ updates_ok t (length ns) us = true /\
  way_apply t ns us = AOk ns' p /\ line_string_at_break t ns us <> Some (line_string ns').
Proof. exact line_string_at_break_refuted_lemma. Qed.
Print Assumptions C15_line_string_at_break_refuted.

(* consumer (internal/mputil.Group): every segment built for a way member at time [at_] is the
   geometry of that member's way with its updates applied up to [at_], reversed when flagged *)
Theorem C15_group_segments : forall ms ws at_ outer inner tainted,
  ways_ok at_ ws = true -> group ms ws at_ = GOk outer inner tainted ->
  Forall (seg_ok ms ws at_) outer /\ Forall (seg_ok ms ws at_) inner.
Proof. exact group_segments. Qed.
Print Assumptions C15_group_segments.

(* 6. the provided sorts (sort.Sort by contract: a permutation in which no later element is Less
      than an earlier one).  Both Less functions are strict weak orders, so the contract
      applies; a Less-sorted list is ordered by timestamp, resp. by (index, timestamp, version) (the Less of /repo after
      fix 47692a5); and both
      sorted forms satisfy the hypothesis of the composition theorem. *)
Theorem C15_less_ts_strict_weak :
  (forall a, less_ts a a = false) /\
  (forall a b c, less_ts a b = true -> less_ts b c = true -> less_ts a c = true) /\
  (forall a b c, less_ts a b = false -> less_ts b a = false -> less_ts b c = false ->
                 less_ts c b = false -> less_ts a c = false /\ less_ts c a = false).
Proof. split; [exact less_ts_irrefl|split; [exact less_ts_trans|exact less_ts_incomp_trans]]. Qed.

Theorem C15_less_index_strict_weak :
  (forall a, less_index a a = false) /\
  (forall a b c, less_index a b = true -> less_index b c = true -> less_index a c = true) /\
  (forall a b c, less_index a b = false -> less_index b a = false -> less_index b c = false ->
                 less_index c b = false -> less_index a c = false /\ less_index c a = false).
Proof. split; [exact less_index_irrefl|split; [exact less_index_trans|exact less_index_incomp_trans]]. Qed.

Theorem C15_sorted_by_timestamp : forall l',
  sorted_for less_ts l' ->
  StronglySorted (fun a b => u_ts a <= u_ts b) l' /\ per_index_sorted l' = true.
Proof. intros l' H. split; [apply sorted_ts_nondecreasing|apply sorted_ts_per_index_sorted]; exact H. Qed.
Print Assumptions C15_sorted_by_timestamp.

Theorem C15_sorted_by_index : forall l',
  sorted_for less_index l' ->
  StronglySorted (fun a b => u_index a < u_index b \/ (u_index a = u_index b /\
      (u_ts a < u_ts b \/ (u_ts a = u_ts b /\ u_ver a <= u_ver b)))) l' /\
  per_index_sorted l' = true.
Proof. intros l' H. split; [apply sorted_index_lex|apply sorted_index_per_index_sorted]; exact H. Qed.
Print Assumptions C15_sorted_by_index.

(* whatever permutation sort.Sort picks among ties, the sequence of sort keys is determined *)
Theorem C15_sorted_keys_unique : forall l1 l2,
  Permutation l1 l2 ->
  (sorted_for less_ts l1 -> sorted_for less_ts l2 -> map u_ts l1 = map u_ts l2) /\
  (sorted_for less_index l1 -> sorted_for less_index l2 -> map key_index l1 = map key_index l2).
Proof.
  intros l1 l2 Hp. split; intros H1 H2;
    [exact (sorted_ts_keys_unique l1 l2 Hp H1 H2)|exact (sorted_index_keys_unique l1 l2 Hp H1 H2)].
Qed.
Print Assumptions C15_sorted_keys_unique.

(* 7. tie by translation: the bodies of updatesSortTS.Less, updatesSortIndex.Less, Updates.UpTo,
      Way.applyUpdate and Relation.applyUpdate, regenerated from /repo's source on every run
      (VerifGen.GenUpdates), are the model's functions; and one non-skipped iteration of the
      ApplyUpdatesUpTo loop is exactly a call of that applyUpdate. *)
Theorem C15_generated_code_is_model :
  (forall a b, gen_less_ts a b = less_ts a b) /\
  (forall a b, gen_less_index a b = less_index a b) /\
  (forall us t, gen_up_to us t = up_to t us) /\
  (forall ns u, gen_way_apply_update ns u = apply_update upd_node ns u) /\
  (forall ms u, gen_rel_apply_update ms u = apply_update upd_member ms u).
Proof.
  split; [exact gen_less_ts_ok|]. split; [exact gen_less_index_ok|]. split; [exact gen_up_to_ok|].
  split; [exact gen_way_apply_update_ok|exact gen_rel_apply_update_ok].
Qed.
Print Assumptions C15_generated_code_is_model.

(* ... and so are the loops themselves (wave 4): Way.ApplyUpdatesUpTo and Relation.ApplyUpdatesUpTo
   (the whole loop with the notApplied slice and the error return), Way.LineString and
   Way.LineStringAt (three loops, the last an in-place compaction).  The two sorts are
   one call of the package sort on the receiver, each with the order generated as gen_less_..  With C15_generated_code_is_model every function the
   theorems above talk about is regenerated from source (the consumer mputil.Group: next theorem). *)
Theorem C15_generated_loops_are_model :
  (forall ns us t, gen_way_apply_updates_up_to ns us t = way_apply t ns us) /\
  (forall ms us t, gen_rel_apply_updates_up_to ms us t = rel_apply t ms us) /\
  (forall ns, gen_way_line_string ns = line_string ns) /\
  (forall ns us t, gen_way_line_string_at ns us t = line_string_at t ns us) /\
  (sortform_Updates_SortByIndex, sortform_Updates_SortByTimestamp) = sort_calls_expected.
Proof.
  split; [exact gen_way_apply_updates_up_to_ok|]. split; [exact gen_rel_apply_updates_up_to_ok|].
  split; [exact gen_way_line_string_ok|]. split; [exact gen_way_line_string_at_ok|exact gen_sort_calls].
Qed.
Print Assumptions C15_generated_loops_are_model.

(* the consumer too: internal/mputil.Group as regenerated from source is the model's [group]
   (member type and roles interned as the harness does, the ways map as an association list) *)
Theorem C15_generated_group_is_model : forall ws ms at_, gen_group ws ms at_ = group ms ws at_.
Proof. exact gen_group_ok. Qed.

(* Segment.Reverse (called by Group) is regenerated too; orb.LineString.Reverse is [rev] *)
Theorem C15_generated_segment_reverse_is_model : forall s,
  gen_segment_reverse (s_index s) (s_orient s) (s_reversed s) (s_line s) = seg_reverse s.
Proof. exact gen_segment_reverse_ok. Qed.
Print Assumptions C15_generated_group_is_model.

Theorem C15_loop_iteration_is_generated_apply_update :
  (forall t u r ns pend,
     apply_loop upd_node t (u :: r) ns pend =
     if t <? u_ts u then apply_loop upd_node t r ns (pend ++ [u])
     else match gen_way_apply_update ns u with
          | AU_Err i => LErr i ns
          | AU_Panic _ => LPanic
          | AU_Ok ns' => apply_loop upd_node t r ns' pend
          end) /\
  (forall t u r ms pend,
     apply_loop upd_member t (u :: r) ms pend =
     if t <? u_ts u then apply_loop upd_member t r ms (pend ++ [u])
     else match gen_rel_apply_update ms u with
          | AU_Err i => LErr i ms
          | AU_Panic _ => LPanic
          | AU_Ok ms' => apply_loop upd_member t r ms' pend
          end).
Proof. split; [exact way_apply_loop_gen|exact rel_apply_loop_gen]. Qed.
Print Assumptions C15_loop_iteration_is_generated_apply_update.

(* orb.Orientation is an int8 and the flip is computed with wrap-around ([flipped]); on every
   orientation except -128 this is plain negation per applied reverse *)
Theorem C15_orientation_flip : forall o k,
  -127 <= o <= 127 -> flipped o k = if Nat.even k then o else - o.
Proof. exact flipped_small. Qed.
Print Assumptions C15_orientation_flip.

(* ---------- non-vacuity ---------- *)
Definition ex_nodes := [mkNode 1 1 7 1 1; mkNode 2 1 7 2 2; mkNode 3 2 8 3 3].
(* stored index-sorted (as annotation produces): NOT in time order *)
Definition ex_updates :=
  [mkUpdate 0 3 30 4 30 31 true; mkUpdate 0 5 50 6 50 51 false;
   mkUpdate 1 2 10 3 20 21 false; mkUpdate 1 4 40 5 40 41 true].
Definition ex_members := [mkMember 1 5 0 1 0 0 0 (-1) 7; mkMember 0 6 2 1 0 5 6 0 0].

Example C15_ex_hyps :
  fully_annotated ex_nodes = true /\ updates_ok 45 (length ex_nodes) ex_updates = true /\
  per_index_sorted ex_updates = true /\ all_in_range 45 (length ex_nodes) ex_updates = true /\
  nonneg_indices ex_updates = true /\ sorted_for less_index ex_updates.
Proof.
  repeat split; try reflexivity. unfold sorted_for, ex_updates.
  repeat (constructor; [|repeat constructor]). constructor.
Qed.

Example C15_ex_apply :
  way_apply 45 ex_nodes ex_updates
  = AOk [mkNode 1 3 4 30 31; mkNode 2 4 5 40 41; mkNode 3 2 8 3 3] [mkUpdate 0 5 50 6 50 51 false]
  /\ line_string_at 45 ex_nodes ex_updates = Some [(31, 30); (41, 40); (3, 3)]
  /\ line_string_at_break 45 ex_nodes ex_updates = Some [(31, 30); (2, 2); (3, 3)].
Proof. repeat split; vm_compute; reflexivity. Qed.

(* outside the annotation hypotheses the two geometry queries really differ: node 1 is not
   annotated in the stored way, the update annotates it *)
Example C15_ex_general_differs :
  all_in_range 20 2 [mkUpdate 0 2 10 0 5 5 false] = true /\
  line_string_at 20 [mkNode 1 0 0 0 0; mkNode 2 1 0 2 2] [mkUpdate 0 2 10 0 5 5 false] = Some [(2, 2)] /\
  way_apply 20 [mkNode 1 0 0 0 0; mkNode 2 1 0 2 2] [mkUpdate 0 2 10 0 5 5 false]
  = AOk [mkNode 1 2 0 5 5; mkNode 2 1 0 2 2] [] /\
  line_string [mkNode 1 2 0 5 5; mkNode 2 1 0 2 2] = [(5, 5); (2, 2)].
Proof. repeat split; vm_compute; reflexivity. Qed.

Example C15_ex_relation :
  rel_apply 45 ex_members ex_updates
  = AOk [mkMember 1 5 0 3 4 30 31 1 7; mkMember 0 6 2 4 5 40 41 0 0] [mkUpdate 0 5 50 6 50 51 false].
Proof. vm_compute. reflexivity. Qed.

Example C15_ex_index_error :
  nonneg_indices [mkUpdate 0 2 10 0 9 9 false; mkUpdate 3 2 10 0 0 0 false; mkUpdate 5 2 10 0 0 0 false] = true /\
  way_apply 10 ex_nodes [mkUpdate 0 2 10 0 9 9 false; mkUpdate 3 2 10 0 0 0 false; mkUpdate 5 2 10 0 0 0 false]
  = AErr 3 [mkNode 1 2 0 9 9; mkNode 2 1 7 2 2; mkNode 3 2 8 3 3]
         [mkUpdate 0 2 10 0 9 9 false; mkUpdate 3 2 10 0 0 0 false; mkUpdate 5 2 10 0 0 0 false].
Proof. split; vm_compute; reflexivity. Qed.

Example C15_ex_compose :
  exists ns1 p1, way_apply 20 ex_nodes ex_updates = AOk ns1 p1 /\ p1 <> [] /\ ns1 <> ex_nodes /\
                 obs_of (way_apply 45 ns1 p1) = obs_of (way_apply 45 ex_nodes ex_updates).
Proof.
  eexists. eexists. split; [vm_compute; reflexivity|]. repeat split; try discriminate.
Qed.

Example C15_ex_group :
  ways_ok 45 [mkWay 5 ex_nodes ex_updates] = true /\
  group ex_members [mkWay 5 ex_nodes ex_updates] 45
  = GOk [mkSeg 0 (-1) true [(3, 3); (41, 40); (31, 30)]] [] false.
Proof. split; vm_compute; reflexivity. Qed.
