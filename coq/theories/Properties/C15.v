(* Properties/C15.v — placeholder, filled below *)
From Verif Require Import C15.Model C15.Spec.
