(* Properties/C16.v — Multipolygon assembly recovers the original rings for any split and order.

   ONLY statements, each closed by [exact] of a lemma of Geo/*.v, Print Assumptions, and
   non-vacuity examples.  The model (Geo/Model.v) is tied to /repo by the correspondence harness
   harness/cmd/c16 (osmgeojson.Convert, annotate.Relations, and mputil.Join/Ring/Orientation,
   polygonContains, addToMultiPolygon through the verif-tagged hook osmgeojson/verif_export.go).

   What is proved, for ALL inputs (unbounded; nothing is partial):
   1  termination of the joining loop;
   2  conservation of segments, vertices and edges, with the exact trimming structure of chains;
   3  join_closes_rings: for every cut of vertex-disjoint rings, every reversal and order, the
      chains are in bijection with the rings and each chain line is exactly its ring;
   4  winding of Ring(o) with truthful / partial / no member orientations;
   5  orientation_annotation_truthful: what annotate_orientation writes on every member;
   6  independence from the coordinate source (lines, and in 8b the whole result);
   7  holes_assigned: every hole goes to its own outer and no other; ray casting is the exact
      rational even-odd rule and does not depend on how the rings are written;
   8  build_polygon_recovers on the arguments of buildPolygon (nodes, ways, relation members),
      with all / some / no truthful annotations, both paths, either IncludeInvalidPolygons;
   9  the decision structure of the model equals the one regenerated from /repo (translator);
   10 a Jordan-style theorem: points reachable from the kernel point of a star-shaped ring have an
      odd crossing number, so 7 and 8 are also stated over geometric containment (10b);
   11 addToMultiPolygon on arbitrary (malformed) input: what is kept and what is dropped.
   12 reflection lemmas between the oracle vocabulary of the case checker and the theorems';
   13 rotation of a ring is without loss of generality (ring lines, hypotheses, ray casting).
   SCOPE of 7 / 8 (holes_assigned, build_polygon_recovers): the property text says "each inner
   strictly inside one outer, outers non-nested and disjoint".  The theorems formalise this as
   [contained]: by the even-odd rule (crossing parity, exact rationals: 7c) some vertex of each
   hole is inside its own outer and no vertex is inside any other outer - for outers of ANY
   shape, bounding boxes may overlap.  That this holds for every scene of vertex-disjoint,
   non-nested simple rings with strictly nested holes is the Jordan curve theorem for polygons,
   which is NOT proved in general: 10b derives [contained] from geometric hypotheses when the
   hole's own outer is star-shaped about a kernel point (reachability by axis-parallel legs) and
   the other outers are of any shape (reachability from a point outside their bounding box).
   FULL STATEMENT not proved: 8 with [contained] replaced by "rings simple, pairwise disjoint,
   outers non-nested, every hole in the bounded component of its outer's complement".
   The harness executes also the classes outside 10b (concave interlocking outers with
   overlapping bounding boxes) and evaluates [contained] on every case (judgement 3).
   Way.Updates are not modelled here (C15); the Member.Nodes fallback of buildPolygon is modelled
   but excluded from the recovery theorems (members resolve through the way table). *)
From Coq Require Import ZArith List Bool Permutation Lia.
From Verif Require Import Geo.Model Geo.JoinProofs Geo.Conserve Geo.Closes Geo.Cut Geo.Orient Geo.Sources Geo.Holes Geo.Annotate Geo.Edges Geo.Rings Geo.GroupIdx Geo.Recover Geo.Contain Geo.Assign Geo.Truthful Geo.Build Geo.Collect Geo.Jordan Geo.BuildGeo Geo.Invalid Geo.AnnotateMembers Geo.Rotate C16.Spec C16.Reflect C16.RayQ Geo.Tables C16.GenOk.
From VerifGen Require Import GenMputil.
Import ListNotations.
Open Scope Z_scope.

(* 1. join_terminates: the greedy loop finishes within the fuel of the model, for every input *)
Theorem C16_join_terminates : forall segments, join segments <> JoinOutOfFuel.
Proof. exact join_terminates. Qed.
Print Assumptions C16_join_terminates.

(* 2. join_conserves: the input segments with >= 2 points are used exactly once each (a
      permutation), whole or reversed; [chain_rel] is the trimming structure spelled out in 2b/2c *)
Theorem C16_join_conserves : forall segments chains, join segments = JoinOk chains ->
  exists obss : list (list oseg),
    Forall2 chain_rel obss chains /\
    Permutation (map fst (concat obss)) (compact segments).
Proof. exact join_conserves. Qed.
Print Assumptions C16_join_conserves.

(* 2b. every chain = segments before a seed without their last point, the seed whole, segments
       after it without their first point; consecutive untrimmed segments share the joint;
       Index and Orientation untouched, Reversed flipped exactly when the line was reversed *)
Theorem C16_chain_structure : forall obs cur, chain_rel obs cur ->
  (exists pre seed post, obs = pre ++ seed :: post /\
     cur = map (fun ob => trim_last (orient ob)) pre ++ orient seed ::
           map (fun ob => trim_first (orient ob)) post) /\
  linked (map orient obs) /\ Forall (fun ob => len2 (fst ob)) obs.
Proof. exact chain_rel_explicit. Qed.
Print Assumptions C16_chain_structure.

(* 2c. no vertex lost, duplicated or invented: the line of a chain is the lines of its segments
       glued at the shared joints *)
Theorem C16_chain_line : forall obs cur, chain_rel obs cur ->
  ms_line cur = merge_lines (map (fun ob => seg_line (orient ob)) obs).
Proof. exact chain_rel_line. Qed.
Print Assumptions C16_chain_line.

(* 2e. the undirected edges of all chain lines are, as a multiset, exactly the edges of the input
       segments with >= 2 points (exported to C17 through Geo/Api.v) *)
Theorem C16_join_conserves_edges : forall segments chains, join segments = JoinOk chains ->
  Permutation (map uedge (flat_map seg_edges (compact segments)))
              (map uedge (flat_map (fun c => line_edges (ms_line c)) chains)).
Proof. exact join_conserves_edges. Qed.
Print Assumptions C16_join_conserves_edges.

(* 2d. no chain and no line of a chain is empty: the Go code's First()/Last() never index an
       empty slice on the result, and the model's origin default is never used *)
Theorem C16_join_lines_nonempty : forall segments chains, join segments = JoinOk chains ->
  Forall (fun ms => ms <> [] /\ Forall (fun s => seg_line s <> []) ms) chains.
Proof. exact join_lines_nonempty. Qed.
Print Assumptions C16_join_lines_nonempty.

(* 3. every chain is closed whenever every point is an end of an even number of segment ends *)
Theorem C16_join_closes : forall segments chains,
  eulerian (compact segments) -> join segments = JoinOk chains -> Forall closed chains.
Proof. exact join_closes. Qed.
Print Assumptions C16_join_closes.

Theorem C16_eulerianb_sound : forall segs, eulerianb segs = true -> eulerian segs.
Proof. exact eulerianb_sound. Qed.

(* 3b. join_closes_rings (FULL).  rs: the rings as lists of pairwise distinct vertices (first
       vertex not repeated; all vertices of the scene distinct; >= 3 vertices each), each written
       from one of its cut vertices; segs: ANY cut of the closed rings into consecutive pieces
       ([cut_of]), ANY subset of pieces reversed, in ANY order ([is_cut]).  Then the chains of
       join are in bijection with the rings and the line of each chain is exactly its ring:
       closed, from some start vertex, forwards or backwards ([is_ring_line]). *)
Theorem C16_join_closes_rings : forall (rs : list line) segs chains,
  NoDup (concat rs) -> Forall (fun r => (3 <= length r)%nat) rs ->
  is_cut (map Rings.close_ring rs) segs -> join segs = JoinOk chains ->
  exists rs', Permutation rs' rs /\
              Forall2 (fun r c => is_ring_line r (ms_line c)) rs' chains.
Proof. exact join_closes_rings. Qed.
Print Assumptions C16_join_closes_rings.

(* the graph fact behind it: closed walks whose undirected edges are, together, exactly the edges
   of vertex-disjoint simple rings are those rings *)
Theorem C16_trails_are_rings : forall (Ls : list line) (R : list line),
  NoDup (concat R) -> Forall (fun r => (3 <= length r)%nat) R ->
  Forall (fun L => (2 <= length L)%nat /\ lfirst L = llast L) Ls ->
  Permutation (map uedge (flat_map line_edges Ls)) (map uedge (flat_map ringE R)) ->
  exists R', Permutation R' R /\ Forall2 is_ring_line R' Ls.
Proof. exact trails_are_rings. Qed.
Print Assumptions C16_trails_are_rings.

(* closedness alone needs no distinctness of vertices *)
Theorem C16_join_closes_cut : forall rings segs chains,
  is_cut rings segs -> join segs = JoinOk chains -> Forall closed chains.
Proof. exact join_closes_cut. Qed.
Print Assumptions C16_join_closes_cut.

(* 4. ring_orientation: on a closed chain of non-zero area, Ring(o) is the chain's line or its
      reverse, closed, and wound as o, when every member annotation that is present is truthful
      (states the direction of the original way) — all, some or none present *)
Theorem C16_ring_orientation : forall o ms,
  (o = 1 \/ o = -1) ->
  line_closed (ms_line ms) -> shoelace (ms_line ms) <> 0 ->
  truthful (sign (shoelace (ms_line ms))) ms ->
  sign (shoelace (ring_of o ms)) = o /\
  line_closed (ring_of o ms) /\
  (ring_of o ms = ms_line ms \/ ring_of o ms = rev (ms_line ms)).
Proof. exact ring_of_orientation. Qed.
Print Assumptions C16_ring_orientation.

Theorem C16_ring_orientation_none : forall o ms,
  (o = 1 \/ o = -1) -> line_closed (ms_line ms) -> shoelace (ms_line ms) <> 0 ->
  (forall s, In s ms -> seg_orient s = 0) ->
  sign (shoelace (ring_of o ms)) = o /\ line_closed (ring_of o ms).
Proof. exact ring_of_orientation_none. Qed.
Print Assumptions C16_ring_orientation_none.

(* the code's two offset shoelace sums are the textbook signed area on closed lines *)
Theorem C16_ring_area : forall r, line_closed r -> ring_area2 r = shoelace r.
Proof. exact ring_area2_eq. Qed.
Theorem C16_ms_area : forall ms, line_closed (ms_line ms) -> ms_area2 ms = shoelace (ms_line ms).
Proof. exact ms_area2_eq. Qed.
Theorem C16_reverse_negates : forall l, shoelace (rev l) = - shoelace l.
Proof. exact shoelace_rev. Qed.

(* 5. orientation_annotation_truthful (FULL).  ros / rhs: the outer and inner rings (distinct
      vertices, >= 3 each, non-zero area); the outer / inner segments mputil.Group builds from
      the members are ANY cut of them (any reversal, any member order).  Then annotate_orientation
      succeeds, its chains are in bijection with the rings, each chain line IS its ring (from
      some start vertex, in one direction), and every member whose way lies in chain c ends up
      with the winding of that ring as traversed by the member's ORIGINAL way: the winding of
      the chain line, negated iff Group/join reversed the way. *)
Theorem C16_orientation_annotation_truthful : forall members ways ros rhs os t,
  NoDup (concat ros) -> Forall (fun r => (3 <= length r)%nat) ros ->
  NoDup (concat rhs) -> Forall (fun r => (3 <= length r)%nat) rhs ->
  (forall r, In r (ros ++ rhs) -> Orient.shoelace (Rings.close_ring r) <> 0) ->
  is_cut (map Rings.close_ring ros) (grp_outer (group members ways)) ->
  is_cut (map Rings.close_ring rhs) (grp_inner (group members ways)) ->
  annotate_orientation members ways = Some (os, t) ->
  exists outers inners ros' rhs',
    join (grp_outer (group members ways)) = JoinOk outers /\
    join (grp_inner (group members ways)) = JoinOk inners /\
    Permutation ros' ros /\ Permutation rhs' rhs /\
    Forall2 (fun r c => is_ring_line r (ms_line c)) ros' outers /\
    Forall2 (fun r c => is_ring_line r (ms_line c)) rhs' inners /\
    forall c s, In c (outers ++ inners) -> In s c ->
      nth (idx s) os 0 = way_direction (sign (Orient.shoelace (ms_line c))) s.
Proof. exact annotate_orientation_recovers. Qed.
Print Assumptions C16_orientation_annotation_truthful.

(* 5m. orientation_annotation_truthful at the level of relation MEMBERS, from hypotheses on the
       arguments of annotate (members, ways - no intermediate value of the model): ds describes
       every member ([amember_ok]: ignored, or a way of role outer / inner that is found and whose
       annotated way nodes give the line l of >= 2 points); the lines as written in the data are
       any cut of the rings.  Then EVERY such way member i ends up with d = nth i os 0 where its
       way runs around one of its role's rings in direction d ([runs r d l]: every edge of l is
       a forward step of r and d is r's winding, or every edge is a backward step and d is the
       opposite) - whatever orientations the members carried before.  Corollary: the members as
       annotate leaves them satisfy theorem 8's [mem_truthful], so annotate -> convert is closed. *)
Theorem C16_orientation_annotation_members : forall members ways ds ros rhs os t,
  NoDup (concat ros) -> Forall (fun r => (3 <= length r)%nat) ros ->
  NoDup (concat rhs) -> Forall (fun r => (3 <= length r)%nat) rhs ->
  (forall r, In r (ros ++ rhs) -> Orient.shoelace (Rings.close_ring r) <> 0) ->
  Forall2 (amember_ok ways) members ds ->
  is_cut_lines (map Rings.close_ring ros) (outer_lines ds) ->
  is_cut_lines (map Rings.close_ring rhs) (inner_lines ds) ->
  annotate_orientation members ways = Some (os, t) ->
  forall i m ro l, nth_error members i = Some m -> nth_error ds i = Some (MPiece ro l) ->
    exists r d, In r (rings_of_role ros rhs ro) /\ runs r d l /\ nth i os 0 = d.
Proof. exact annotate_members_truthful. Qed.
Print Assumptions C16_orientation_annotation_members.

Theorem C16_annotated_members_mem_truthful : forall members ways ds ros rhs os t,
  NoDup (concat ros) -> Forall (fun r => (3 <= length r)%nat) ros ->
  NoDup (concat rhs) -> Forall (fun r => (3 <= length r)%nat) rhs ->
  (forall r, In r (ros ++ rhs) -> Orient.shoelace (Rings.close_ring r) <> 0) ->
  Forall2 (amember_ok ways) members ds ->
  is_cut_lines (map Rings.close_ring ros) (outer_lines ds) ->
  is_cut_lines (map Rings.close_ring rhs) (inner_lines ds) ->
  annotate_orientation members ways = Some (os, t) ->
  forall i m ro l, nth_error members i = Some m -> nth_error ds i = Some (MPiece ro l) ->
    mem_truthful (rings_of_role ros rhs ro) (set_orient m (nth i os 0)) l.
Proof. exact annotated_members_mem_truthful. Qed.
Print Assumptions C16_annotated_members_mem_truthful.

(* Group numbers segments by member position: after the two joins the indices are distinct and
   in range (hypotheses of the chain-level theorem below, discharged for every input) *)
Theorem C16_grouped_chain_indices : forall members ways outers inners,
  join (grp_outer (group members ways)) = JoinOk outers ->
  join (grp_inner (group members ways)) = JoinOk inners ->
  NoDup (map idx (concat (outers ++ inners))) /\
  (forall ms s, In ms (outers ++ inners) -> In s ms -> (idx s < length members)%nat).
Proof. exact grouped_chain_indices. Qed.
Print Assumptions C16_grouped_chain_indices.

(* chain-level form, for arbitrary (also malformed) relations: members in closed chains of
   non-zero area get the direction of their original way; needs no scene hypotheses *)
Theorem C16_orientation_annotation_chains : forall members ways outers inners os t,
  join (grp_outer (group members ways)) = JoinOk outers ->
  join (grp_inner (group members ways)) = JoinOk inners ->
  annotate_orientation members ways = Some (os, t) ->
  NoDup (map idx (concat (outers ++ inners))) ->
  (forall ms, In ms (outers ++ inners) -> line_closed (ms_line ms) /\ Orient.shoelace (ms_line ms) <> 0) ->
  (forall ms s, In ms (outers ++ inners) -> In s ms -> (idx s < length members)%nat) ->
  forall ms s, In ms (outers ++ inners) -> In s ms ->
    nth (idx s) os 0 = way_direction (sign (Orient.shoelace (ms_line ms))) s.
Proof. exact annotate_orientation_truthful. Qed.
Print Assumptions C16_orientation_annotation_chains.

(* one chain *)
Theorem C16_annotate_chain : forall o ms os s,
  (o = 1 \/ o = -1) -> line_closed (ms_line ms) -> shoelace (ms_line ms) <> 0 ->
  NoDup (map idx ms) -> In s ms -> (idx s < length os)%nat ->
  nth (idx s) (annotate_ms o os ms) 0 = way_direction (sign (shoelace (ms_line ms))) s.
Proof. exact annotate_ms_truthful. Qed.
Print Assumptions C16_annotate_chain.

Theorem C16_orientation_annotation_frame : forall o ms os i,
  (forall s, In s ms -> idx s <> i) -> nth i (annotate_ms o os ms) 0 = nth i os 0.
Proof. exact annotate_ms_frame. Qed.

(* 6. both ways of supplying coordinates give the same line (hypothesis: no vertex at (0,0),
      every referenced node exists) *)
Theorem C16_coordinate_sources : forall nodes ids,
  Forall not_origin nodes ->
  (forall id, In id ids -> lookup_node nodes id <> None) ->
  way_to_line [] (map (annotated nodes) ids) = way_to_line nodes (map bare ids) /\
  way_to_line nodes (map (annotated nodes) ids) = way_to_line nodes (map bare ids) /\
  snd (way_to_line nodes (map bare ids)) = false /\
  length (fst (way_to_line nodes (map bare ids))) = length ids.
Proof. exact way_to_line_sources. Qed.
Print Assumptions C16_coordinate_sources.

(* 7. holes_assigned.  For a scene whose holes are contained in their outers as the even-odd rule
      defines it and avoid the bounding boxes of the other outers ([contained], exactly what the
      scene generator asserts with exact integer arithmetic), whose outer lines / hole lines are
      the rings written from any start vertex in any direction: folding addToMultiPolygon over
      the hole lines IN ANY ORDER puts every hole into the polygon of its own outer and into no
      other, and creates no extra hole.  (7c: the code's test is exactly the rational even-odd
      rule; 10 / 10b: for star-shaped outers it follows from geometric containment, and
      C16_holes_assigned_geo states this theorem over it.) *)
Theorem C16_holes_assigned : forall incl (sc' : gscene) orings rhs' hlines,
  NoDup (concat (s_outers sc')) -> NoDup (concat (s_holes sc')) ->
  Forall (fun r => (3 <= length r)%nat) (s_outers sc' ++ s_holes sc') ->
  contained sc' ->
  Forall2 (fun oh ol => ccw_line (fst oh) ol) sc' orings ->
  Forall2 cw_line rhs' hlines -> Permutation rhs' (s_holes sc') ->
  let mp := add_all incl (map (fun r => [r]) orings) hlines in
  Forall2 poly_recovered sc' mp /\
  length (concat (map (@tl line) mp)) = length (s_holes sc').
Proof. exact assign_core. Qed.
Print Assumptions C16_holes_assigned.

(* one step, for arbitrary input: the hole goes where ray casting says *)
Theorem C16_hole_goes_where_ray_casting_says : forall incl mp ring k poly,
  nth_error mp k = Some poly ->
  polygon_contains (hd [] poly) ring = true ->
  (forall j p, j <> k -> nth_error mp j = Some p -> polygon_contains (hd [] p) ring = false) ->
  add_to_multipolygon incl mp ring = firstn k mp ++ (poly ++ [ring]) :: skipn (S k) mp.
Proof. exact holes_assigned. Qed.
Print Assumptions C16_hole_goes_where_ray_casting_says.

Theorem C16_contains_outside_bbox : forall outer r,
  (forall p, In p r -> outside_bbox outer p) -> polygon_contains outer r = false.
Proof. exact contains_outside_bbox. Qed.
Print Assumptions C16_contains_outside_bbox.

(* 7c. the ray-casting test of the code (cross-multiplied integers in the model) IS the even-odd
       rule with exact rational arithmetic over the cyclic edges of the ring: the Jordan-curve
       notion of "inside" for a simple ring and a point off its boundary *)
Theorem C16_ray_casting_is_even_odd_rule : forall outer p,
  point_in_ring outer p = spec_inside (llast outer :: outer) p.
Proof. exact point_in_ring_is_spec. Qed.
Print Assumptions C16_ray_casting_is_even_odd_rule.

(* 8. build_polygon_recovers (FULL), on the arguments of buildPolygon: node objects, ways, relation
      members.  sc: the scene, a list of (outer ring, its holes), rings as lists of pairwise
      distinct vertices (>= 3 each, non-zero area), each written from one of its cut vertices;
      holes contained in their outer ([contained], see 7).  ds describes every member
      ([member_ok]): ignored (not a way, or a role other than outer/inner), or a way of role
      outer / inner that is found, resolves completely - from node objects or from annotated way
      nodes - to a line of >= 2 points, and whose orientation annotation, IF PRESENT, is the
      direction in which that way runs around its ring ([mem_truthful]; all, some or none of the
      members may be annotated).  The outer (inner) lines as written in the data are ANY cut of
      the outer (hole) rings into consecutive pieces, ANY subset reversed, in ANY member order
      ([is_cut_lines]).
      Then buildPolygon (single-outer path or multi-outer path, either setting of
      IncludeInvalidPolygons) yields a Polygon / MultiPolygon, not tainted, whose polygons are,
      up to order, exactly the scene's: first ring = the outer ring (closed, complete, from some
      start vertex, counter-clockwise), the other rings = exactly its own holes (each closed,
      complete, clockwise; every own hole present, no foreign hole), and the number of hole
      rings is the number of holes (none duplicated). *)
Theorem C16_build_polygon_recovers : forall incl nodes ways members ds (sc : gscene),
  sc <> [] ->
  NoDup (concat (s_outers sc)) -> NoDup (concat (s_holes sc)) ->
  Forall (fun r => (3 <= length r)%nat) (s_outers sc ++ s_holes sc) ->
  (forall r, In r (s_outers sc ++ s_holes sc) -> Orient.shoelace (Rings.close_ring r) <> 0) ->
  contained sc ->
  Forall2 (member_ok nodes ways (s_outers sc) (s_holes sc)) members ds ->
  is_cut_lines (map Rings.close_ring (s_outers sc)) (outer_lines ds) ->
  is_cut_lines (map Rings.close_ring (s_holes sc)) (inner_lines ds) ->
  exists mp sc',
    geom_polys (fst (build_polygon incl nodes ways members)) = Some mp /\
    snd (build_polygon incl nodes ways members) = false /\
    Permutation sc' sc /\ Forall2 poly_recovered sc' mp /\
    length (concat (map (@tl line) mp)) = length (s_holes sc).
Proof. exact build_polygon_recovers. Qed.
Print Assumptions C16_build_polygon_recovers.

(* 8b. the whole result (geometry and tainted flag) is the same whether coordinates come from
       node objects, from annotated way nodes without any node object, or from both - for ANY
       members (also malformed relations), provided no node is at (0,0) and every referenced
       node exists *)
Theorem C16_build_polygon_sources : forall incl nodes raw members,
  Forall not_origin nodes ->
  (forall w id, In w raw -> In id (snd w) -> lookup_node nodes id <> None) ->
  Forall (fun m => mem_nodes m = []) members ->
  build_polygon incl [] (ways_annot nodes raw) members = build_polygon incl nodes (ways_bare raw) members /\
  build_polygon incl nodes (ways_annot nodes raw) members = build_polygon incl nodes (ways_bare raw) members.
Proof. exact build_polygon_sources. Qed.
Print Assumptions C16_build_polygon_sources.

(* 8c. the same on already collected segments (segment-level truthfulness [seg_truthful]) *)
Theorem C16_build_geometry_recovers : forall incl (c : collected) (sc : gscene),
  sc <> [] ->
  NoDup (concat (s_outers sc)) -> NoDup (concat (s_holes sc)) ->
  Forall (fun r => (3 <= length r)%nat) (s_outers sc ++ s_holes sc) ->
  (forall r, In r (s_outers sc ++ s_holes sc) -> Orient.shoelace (Rings.close_ring r) <> 0) ->
  contained sc ->
  is_cut (map Rings.close_ring (s_outers sc)) (col_outer c) ->
  is_cut (map Rings.close_ring (s_holes sc)) (col_inner c) ->
  (forall s, In s (col_outer c) -> seg_truthful (s_outers sc) s) ->
  (forall s, In s (col_inner c) -> seg_truthful (s_holes sc) s) ->
  exists mp sc',
    geom_polys (build_geometry incl c) = Some mp /\ Permutation sc' sc /\
    Forall2 poly_recovered sc' mp /\
    length (concat (map (@tl line) mp)) = length (s_holes sc).
Proof. exact build_geometry_recovers. Qed.
Print Assumptions C16_build_geometry_recovers.

(* ray casting does not depend on how the two rings are written (start vertex, direction) *)
Theorem C16_contains_ring_lines : forall o OL h HL, (1 <= length o)%nat -> (1 <= length h)%nat ->
  is_ring_line o OL -> is_ring_line h HL ->
  polygon_contains OL HL = existsb (point_in_ring (Rings.close_ring o)) h.
Proof. exact contains_ring_lines. Qed.
Print Assumptions C16_contains_ring_lines.

(* 10. Jordan-style characterisation for star-shaped rings.  [kernel r c]: every edge of the
       closed ring r has c strictly on its left (r is star-shaped about c, counter-clockwise) and
       exactly one edge crosses c's height upwards.  [reach r c p]: p is joined to c by
       axis-parallel legs none of which meets r ([clear_h] / [clear_v]: the edge stays strictly on
       one side of the leg's line, or the leg's end points are strictly on the same side of the
       edge's line).  Then polygonContains' test reports p inside: the kernel point has an odd
       crossing number and the parity does not change along a leg that meets no edge - with the
       code's half-open tie rule.  So "strictly inside" in 7 / 8 can be read geometrically. *)
Theorem C16_kernel_inside : forall r c, line_closed r -> kernel r c -> point_in_ring r c = true.
Proof. exact kernel_inside. Qed.
Theorem C16_leg_parity : forall r p q, line_closed r -> leg_clear r p q ->
  point_in_ring r p = point_in_ring r q.
Proof. exact leg_parity. Qed.
Theorem C16_reach_inside : forall r c p, line_closed r -> kernel r c -> reach r c p ->
  point_in_ring r p = true.
Proof. exact reach_inside. Qed.
Print Assumptions C16_reach_inside.

(* 10b. holes_assigned and build_polygon_recovers over GEOMETRIC containment ([contained_geo]:
        every outer ring is star-shaped about a kernel point, in either drawing direction, every
        vertex of each of its holes is reachable from that point without meeting the ring, and
        holes avoid the bounding boxes of the other outers) - the scene class of the generator,
        which asserts exactly these predicates with exact integer arithmetic *)
Theorem C16_contained_geo : forall sc,
  Forall (fun r => (3 <= length r)%nat) (s_outers sc) -> contained_geo sc -> contained sc.
Proof. exact contained_geo_contained. Qed.
Theorem C16_holes_assigned_geo : forall incl (sc' : gscene) orings rhs' hlines,
  NoDup (concat (s_outers sc')) -> NoDup (concat (s_holes sc')) ->
  Forall (fun r => (3 <= length r)%nat) (s_outers sc' ++ s_holes sc') ->
  contained_geo sc' ->
  Forall2 (fun oh ol => ccw_line (fst oh) ol) sc' orings ->
  Forall2 cw_line rhs' hlines -> Permutation rhs' (s_holes sc') ->
  let mp := add_all incl (map (fun r => [r]) orings) hlines in
  Forall2 poly_recovered sc' mp /\
  length (concat (map (@tl line) mp)) = length (s_holes sc').
Proof. exact holes_assigned_geo. Qed.
Print Assumptions C16_holes_assigned_geo.
Theorem C16_build_polygon_recovers_geo : forall incl nodes ways members ds (sc : gscene),
  sc <> [] ->
  NoDup (concat (s_outers sc)) -> NoDup (concat (s_holes sc)) ->
  Forall (fun r => (3 <= length r)%nat) (s_outers sc ++ s_holes sc) ->
  (forall r, In r (s_outers sc ++ s_holes sc) -> Orient.shoelace (Rings.close_ring r) <> 0) ->
  contained_geo sc ->
  Forall2 (member_ok nodes ways (s_outers sc) (s_holes sc)) members ds ->
  is_cut_lines (map Rings.close_ring (s_outers sc)) (outer_lines ds) ->
  is_cut_lines (map Rings.close_ring (s_holes sc)) (inner_lines ds) ->
  exists mp sc',
    geom_polys (fst (build_polygon incl nodes ways members)) = Some mp /\
    snd (build_polygon incl nodes ways members) = false /\
    Permutation sc' sc /\ Forall2 poly_recovered sc' mp /\
    length (concat (map (@tl line) mp)) = length (s_holes sc).
Proof. exact build_polygon_recovers_geo. Qed.
Print Assumptions C16_build_polygon_recovers_geo.

(* 11. addToMultiPolygon on ARBITRARY input (malformed relations: rings that no outer contains,
       unclosed or missing outer rings), with and without IncludeInvalidPolygons.
       [add_cases]: exactly one of three things happens - the ring is appended to the FIRST
       polygon whose first ring contains it; or nothing changes (no container, option off); or
       (no container, option on) it is appended to the first polygon if that one's outer ring is
       non-empty and unclosed, else to the first polygon without outer ring, else to a new
       polygon [[]; ring] at the end.
       [add_all_kept]: for the whole inner loop of buildPolygon - no polygon or ring already
       there is lost or reordered and only rings of the list are added; with the option every
       ring of the list is kept exactly once; without it exactly the rings contained in some
       first ring are kept, once each, the others are dropped, and no polygon is created. *)
Theorem C16_add_cases : forall incl mp ring,
  let res := add_to_multipolygon incl mp ring in
  (contains_in mp ring = true /\
   exists k poly, @nth_error polygon mp k = Some poly /\ polygon_contains (hd [] poly) ring = true /\
     (forall j p, (j < k)%nat -> @nth_error polygon mp j = Some p -> polygon_contains (hd [] p) ring = false) /\
     res = upd k (poly ++ [ring]) mp) \/
  (contains_in mp ring = false /\ incl = false /\ res = mp) \/
  (contains_in mp ring = false /\ incl = true /\
   ((exists k poly, @nth_error polygon mp k = Some poly /\ res = upd k (poly ++ [ring]) mp /\
       ((k = 0%nat /\ hd [] poly <> [] /\ closedb (hd [] poly) = false) \/ hd [] poly = [])) \/
    res = mp ++ [[[]; ring]])).
Proof. exact add_cases. Qed.
Print Assumptions C16_add_cases.

Theorem C16_add_all_kept : forall incl0 ls mp0, nonempty_polys mp0 ->
  let res := add_all incl0 mp0 ls in
  nonempty_polys res /\
  (incl0 = true -> holes_total res = (holes_total mp0 + length ls)%nat) /\
  (incl0 = false -> holes_total res = (holes_total mp0 + length (filter (contains_in mp0) ls))%nat /\
                    map (hd []) res = map (hd []) mp0) /\
  (forall k poly, @nth_error polygon mp0 k = Some poly ->
     exists extra, @nth_error polygon res k = Some (poly ++ extra) /\ List.incl extra ls).
Proof. exact add_all_kept. Qed.
Print Assumptions C16_add_all_kept.

(* 12. reflection between the executable oracle vocabulary of the case checker (C16/Spec.v:
       judgement 2 [polygons_match], judgement 3 [valid_cuts] / [piece_line] / expected
       orientations) and the vocabulary of the theorems.  Proved: every ring line of the theorems
       ([is_ring_line], [ccw_line], [cw_line] - the conclusions of 3b, 7, 8) is accepted by the
       oracle's ring test; the oracle's pieces run around their ring, in the theorems' sense
       [runs], in the direction the oracle expects.  The containment hypothesis [contained] is
       evaluated on every case (judgement 3).  NOT proved: [valid_cuts] => [is_cut_lines] and
       [Forall2 poly_recovered] => the greedy bijection of [polygons_match] (trusted, ~80 lines
       of executable checker). *)
Theorem C16_ring_line_accepted : forall r L, (3 <= length r)%nat -> is_ring_line r L ->
  ring_matches r L = true.
Proof. exact is_ring_line_matches. Qed.
Theorem C16_ccw_line_accepted : forall o ol, (3 <= length o)%nat -> ccw_line o ol ->
  ring_matches o ol && ccwb ol = true.
Proof. exact ccw_line_accepted. Qed.
Theorem C16_cw_line_accepted : forall h hl, (3 <= length h)%nat -> cw_line h hl ->
  ring_matches h hl && cwb hl = true.
Proof. exact cw_line_accepted. Qed.
Theorem C16_piece_orientation_runs : forall (r : line) p,
  (3 <= length r)%nat -> (pc_start p < length r)%nat -> (pc_edges p <= length r)%nat ->
  runs r (piece_orientation r p) (piece_line r p).
Proof. exact piece_orientation_runs. Qed.
Print Assumptions C16_piece_orientation_runs.

(* 13. "rings written from one of their cut vertices" (3b, 5, 7, 8) is without loss of generality:
       a ring line of the rotated ring is a ring line of the ring and conversely, and the
       hypotheses are invariant under rotation - distinct vertices, signed area, and the verdict
       of ray casting against the ring (hence [contained]). *)
Theorem C16_ring_line_of_rotated : forall k (r L : line), (k < length r)%nat ->
  is_ring_line (Rings.rot k r) L -> is_ring_line r L.
Proof. exact is_ring_line_of_rot. Qed.
Theorem C16_ring_line_rotated : forall k (r L : line), (k < length r)%nat ->
  is_ring_line r L -> is_ring_line (Rings.rot k r) L.
Proof. exact is_ring_line_rot. Qed.
Theorem C16_nodup_rotated : forall k (r : line), NoDup r -> NoDup (Rings.rot k r).
Proof. exact nodup_rot. Qed.
Theorem C16_area_rotated : forall k (r : line), (k < length r)%nat ->
  Orient.shoelace (Rings.close_ring (Rings.rot k r)) = Orient.shoelace (Rings.close_ring r).
Proof. exact area_rot. Qed.
Theorem C16_ray_casting_rotated : forall k (o : line) p, (k < length o)%nat ->
  point_in_ring (Rings.close_ring (Rings.rot k o)) p = point_in_ring (Rings.close_ring o) p.
Proof. exact point_in_ring_rot. Qed.
Print Assumptions C16_ring_line_of_rotated.

(* 9. tie by translation.  gen/GenMputil.v is regenerated from /repo's Go source on every run by
      translator/cmd/mputil (go/ast): Join's if / else-if chain as a table, the first-half test of
      the removal, compact's test, MultiSegment.Orientation's term and sign test,
      MultiSegment.Ring's three tests, polygonContains' crossing condition over exact rationals.
      Every recognised item equals the model's ([when]: an item the translator did not recognise
      carries no obligation; the three core items must be recognised). *)
Theorem C16_tie_join_cases : when gen_join_cases (fun t => t = map case_tuple join_cases).
Proof. exact genok_join_cases. Qed.
Theorem C16_join_cases_are_the_model : forall cur first last s,
  option_map (apply_fit cur s) (match_seg first last s) =
  option_map (case_apply cur s) (first_case first last s join_cases).
Proof. exact match_seg_is_table. Qed.
Theorem C16_tie_orientation_term : when gen_orientation_term (fun g =>
  forall prev offset pt, g prev offset pt = cross_off offset prev pt).
Proof. exact genok_orientation_term. Qed.
Theorem C16_tie_contains_crosses : when gen_contains_crosses (fun g =>
  forall p vi vj, g (fst p) (snd p) (fst vi) (snd vi) (fst vj) (snd vj) = crosses p vi vj).
Proof. exact genok_contains_crosses. Qed.
Theorem C16_tie_core_recognised :
  gen_join_cases <> None /\ gen_orientation_term <> None /\ gen_contains_crosses <> None.
Proof. exact genok_core_recognised. Qed.
Print Assumptions C16_tie_contains_crosses.

(* ------------------------------------------------------------------ non-vacuity *)
Definition ex_ring : line := [(1,1); (5,1); (5,5); (1,5); (1,1)].
Definition ex_pieces : list line := [[(1,1); (5,1); (5,5)]; [(5,5); (1,5)]; [(1,5); (1,1)]].
(* the middle piece first and reversed, the first piece reversed *)
Definition ex_segs : list segment :=
  [mkSeg 0 0 false [(1,5); (5,5)]; mkSeg 1 0 false [(1,5); (1,1)]; mkSeg 2 0 false [(5,5); (5,1); (1,1)]].

Example ex_is_cut : is_cut [ex_ring] ex_segs.
Proof.
  split; [repeat constructor|].
  exists [ex_pieces], [([(1,1); (5,1); (5,5)], true); ([(5,5); (1,5)], true); ([(1,5); (1,1)], false)].
  split; [|split].
  - constructor; [|constructor]. unfold cut_of, ex_pieces. split; [discriminate|].
    split; [repeat constructor|]. split; [simpl; auto|reflexivity].
  - reflexivity.
  - simpl. unfold flip. simpl.
    symmetry. apply (Permutation_cons_app [_; _] []). reflexivity.
Qed.

Example ex_join : join ex_segs =
  JoinOk [[mkSeg 0 0 false [(1,5)]; mkSeg 2 0 false [(5,5); (5,1); (1,1)]; mkSeg 1 0 true [(1,5)]]].
Proof. vm_compute. reflexivity. Qed.

Example ex_closed : Forall closed [[mkSeg 0 0 false [(1,5)]; mkSeg 2 0 false [(5,5); (5,1); (1,1)]; mkSeg 1 0 true [(1,5)]]].
Proof. exact (C16_join_closes_cut _ _ _ ex_is_cut ex_join). Qed.

Example ex_eulerianb : eulerianb ex_segs = true.
Proof. vm_compute. reflexivity. Qed.

(* the joined chain runs clockwise; member 1 was reversed by join, members 0 and 2 not:
   truthful annotations are -1, 1, -1 for members 0, 1, 2; here member 2 carries none *)
Definition ex_chain : multisegment :=
  [mkSeg 0 (-1) false [(1,5)]; mkSeg 2 0 false [(5,5); (5,1); (1,1)]; mkSeg 1 1 true [(1,5)]].
Example ex_chain_area : shoelace (ms_line ex_chain) = -32.
Proof. vm_compute. reflexivity. Qed.
Example ex_truthful : truthful (sign (shoelace (ms_line ex_chain))) ex_chain.
Proof.
  intros s [<-|[<-|[<-|[]]]]; vm_compute; auto.
Qed.
Example ex_ring_ccw : ring_of 1 ex_chain = [(1,5); (1,1); (5,1); (5,5); (1,5)].
Proof. vm_compute. reflexivity. Qed.
Example ex_annotate : annotate_ms (-1) [0; 0; 0] ex_chain = [-1; 1; -1].
Proof. vm_compute. reflexivity. Qed.

Example ex_sources :
  let nodes := [mkNode 7 5 1; mkNode 3 1 1; mkNode 9 5 5] in
  way_to_line [] (map (annotated nodes) [3; 7; 9]) = ([(1,1); (5,1); (5,5)], false) /\
  way_to_line nodes (map bare [3; 7; 9]) = ([(1,1); (5,1); (5,5)], false).
Proof. vm_compute. split; reflexivity. Qed.

(* a hole of the second polygon: outside the bounding box of the first outer, inside its own *)
Definition ex_mp : multipolygon :=
  [[[(1,1); (5,1); (5,5); (1,5); (1,1)]]; [[(10,1); (20,1); (20,9); (10,9); (10,1)]]].
Definition ex_hole : line := [(12,3); (12,5); (14,5); (12,3)].
Example ex_hole_outside_first : forall p, In p ex_hole -> outside_bbox [(1,1); (5,1); (5,5); (1,5); (1,1)] p.
Proof.
  intros p Hp. right; right; left. intros q Hq. simpl in Hp, Hq.
  repeat (destruct Hq as [<-|Hq]; [repeat (destruct Hp as [<-|Hp]; [simpl; lia|]); destruct Hp|]). destruct Hq.
Qed.
Example ex_holes_assigned :
  add_to_multipolygon false ex_mp ex_hole =
  [[[(1,1); (5,1); (5,5); (1,5); (1,1)]]; [[(10,1); (20,1); (20,9); (10,9); (10,1)]; ex_hole]].
Proof.
  apply (C16_hole_goes_where_ray_casting_says false ex_mp ex_hole 1 [[(10,1); (20,1); (20,9); (10,9); (10,1)]]).
  - reflexivity.
  - vm_compute. reflexivity.
  - intros [|[|j]] p Hj Hn; simpl in Hn.
    + inversion Hn; subst. apply C16_contains_outside_bbox. exact ex_hole_outside_first.
    + congruence.
    + destruct j; discriminate.
Qed.

(* a complete annotate_orientation run on the cut square: ways 1,2,3 = the three segments *)
Definition ex_ways : list way :=
  [mkWay 1 [mkWN 1 0 1 5; mkWN 2 0 5 5]; mkWay 2 [mkWN 1 0 1 5; mkWN 3 0 1 1];
   mkWay 3 [mkWN 2 0 5 5; mkWN 4 0 5 1; mkWN 3 0 1 1]].
Definition ex_members : list member :=
  [mkMem true 1 Outer 0 []; mkMem true 2 Outer 0 []; mkMem true 3 Outer 0 []].
Example ex_annotate_orientation :
  annotate_orientation ex_members ex_ways = Some ([-1; 1; -1], false).
Proof. vm_compute. reflexivity. Qed.

(* join_closes_rings on the cut square: hypotheses hold, the conclusion names the ring *)
Example ex_rings_hyp : NoDup (concat [[(1,1); (5,1); (5,5); (1,5)]]) /\
  Forall (fun r : line => (3 <= length r)%nat) [[(1,1); (5,1); (5,5); (1,5)]] /\
  is_cut (map Rings.close_ring [[(1,1); (5,1); (5,5); (1,5)]]) ex_segs.
Proof.
  split; [|split; [repeat constructor|exact ex_is_cut]].
  simpl. repeat constructor; simpl; intuition congruence.
Qed.
Example ex_ring_line : is_ring_line [(1,1); (5,1); (5,5); (1,5)]
  (ms_line [mkSeg 0 0 false [(1,5)]; mkSeg 2 0 false [(5,5); (5,1); (1,1)]; mkSeg 1 0 true [(1,5)]]).
Proof. exists 3%nat. split; [simpl; lia|right; reflexivity]. Qed.

(* build_polygon_recovers on a square with a triangular hole, outer cut in two pieces (one
   reversed), hole in one piece *)
Definition ex_scene : gscene := [([(1,1); (9,1); (9,9); (1,9)], [[(3,3); (3,5); (5,5)]])].
Definition ex_collected : collected :=
  mkCol [mkSeg 0 0 false [(9,9); (9,1); (1,1)] ; mkSeg 0 0 false [(9,9); (1,9); (1,1)]]
        [mkSeg 0 0 false [(3,3); (3,5); (5,5); (3,3)]] false 2.
Example ex_contained : contained ex_scene.
Proof.
  split.
  - intros o hs h [E|[]] Hh. inversion E; subst. destruct Hh as [<-|[]]. vm_compute. reflexivity.
  - intros o hs h o' hs' [E|[]] Hh [E'|[]] Hne. inversion E; inversion E'; subst. congruence.
Qed.
Example ex_build : geom_polys (build_geometry false ex_collected) =
  Some [[[(9,9); (1,9); (1,1); (9,1); (9,9)]; [(3,3); (3,5); (5,5); (3,3)]]].
Proof. vm_compute. reflexivity. Qed.

(* ------------------------------------------------------------------ non-vacuity of theorem 8 *)
(* square with a triangular hole; way 11 = first half of the outer ring written BACKWARDS and
   annotated (truthfully) clockwise, way 12 = second half, not annotated, way 13 = the hole, one
   closed way annotated clockwise; coordinates on annotated way nodes only for 11, node objects
   for 12 and 13; a node member and a way with another role are ignored *)
Definition ex8_scene : gscene := [([(1,1); (9,1); (9,9); (1,9)], [[(3,3); (3,5); (5,5)]])].
Definition ex8_nodes : list node :=
  [mkNode 1 1 1; mkNode 2 9 1; mkNode 3 9 9; mkNode 4 1 9; mkNode 5 3 3; mkNode 6 3 5; mkNode 7 5 5].
Definition ex8_ways : list way :=
  [mkWay 11 [mkWN 3 0 9 9; mkWN 2 0 9 1; mkWN 1 0 1 1];
   mkWay 12 [mkWN 3 0 0 0; mkWN 4 0 0 0; mkWN 1 0 0 0];
   mkWay 13 [mkWN 5 0 0 0; mkWN 6 0 0 0; mkWN 7 0 0 0; mkWN 5 0 0 0];
   mkWay 14 [mkWN 1 0 0 0; mkWN 5 0 0 0]].
Definition ex8_members : list member :=
  [mkMem true 13 Inner (-1) []; mkMem false 1 Outer 0 []; mkMem true 12 Outer 0 [];
   mkMem true 14 OtherRole 0 []; mkMem true 11 Outer (-1) []].
Definition ex8_descs : list mdesc :=
  [MPiece Inner [(3,3); (3,5); (5,5); (3,3)]; MIgnored; MPiece Outer [(9,9); (1,9); (1,1)];
   MIgnored; MPiece Outer [(9,9); (9,1); (1,1)]].

Ltac ex_step i := exists i; split; [simpl; lia|split; reflexivity].

Example ex8_members_ok :
  Forall2 (member_ok ex8_nodes ex8_ways (s_outers ex8_scene) (s_holes ex8_scene)) ex8_members ex8_descs.
Proof.
  constructor; [|constructor; [|constructor; [|constructor; [|constructor; [|constructor]]]]].
  - split; [reflexivity|]. split; [reflexivity|]. split; [simpl; lia|].
    split; [eexists; split; reflexivity|].
    right. exists [(3,3); (3,5); (5,5)], (-1). split; [left; reflexivity|]. split; [|reflexivity].
    left. split; [|vm_compute; reflexivity].
    intros e [<-|[<-|[<-|[]]]]; [ex_step 0%nat|ex_step 1%nat|ex_step 2%nat].
  - left. reflexivity.
  - split; [reflexivity|]. split; [reflexivity|]. split; [simpl; lia|].
    split; [eexists; split; reflexivity|]. left. reflexivity.
  - right. reflexivity.
  - split; [reflexivity|]. split; [reflexivity|]. split; [simpl; lia|].
    split; [eexists; split; reflexivity|].
    right. exists [(1,1); (9,1); (9,9); (1,9)], (-1). split; [left; reflexivity|]. split; [|reflexivity].
    right. split; [|vm_compute; reflexivity].
    intros e [<-|[<-|[]]]; [ex_step 1%nat|ex_step 0%nat].
Qed.

Example ex8_cut_outer : is_cut_lines (map Rings.close_ring (s_outers ex8_scene)) (outer_lines ex8_descs).
Proof.
  split; [repeat constructor|].
  exists [[[(1,1); (9,1); (9,9)]; [(9,9); (1,9); (1,1)]]],
         [([(1,1); (9,1); (9,9)], true); ([(9,9); (1,9); (1,1)], false)].
  split; [|split].
  - constructor; [|constructor]. split; [discriminate|]. split; [repeat constructor|]. split; [simpl; auto|reflexivity].
  - reflexivity.
  - simpl. unfold flip. simpl. apply perm_swap.
Qed.

Example ex8_cut_inner : is_cut_lines (map Rings.close_ring (s_holes ex8_scene)) (inner_lines ex8_descs).
Proof.
  split; [repeat constructor|].
  exists [[[(3,3); (3,5); (5,5); (3,3)]]], [([(3,3); (3,5); (5,5); (3,3)], false)].
  split; [|split].
  - constructor; [|constructor]. split; [discriminate|]. split; [repeat constructor|]. split; [exact I|reflexivity].
  - reflexivity.
  - reflexivity.
Qed.

Example ex8_contained : contained ex8_scene.
Proof.
  split.
  - intros o hs h [E|[]] Hh. inversion E; subst. destruct Hh as [<-|[]]. vm_compute. reflexivity.
  - intros o hs h o' hs' [E|[]] Hh [E'|[]] Hne. inversion E; inversion E'; subst. congruence.
Qed.

Example ex8_result : build_polygon false ex8_nodes ex8_ways ex8_members =
  (GPolygon [[(1,1); (9,1); (9,9); (1,9); (1,1)]; [(3,3); (3,5); (5,5); (3,3)]], false).
Proof. vm_compute. reflexivity. Qed.

(* the hole of ex8 is geometrically inside the square: kernel point (6,6); (3,3) and (3,5) are
   reached by a horizontal then a vertical leg, (5,5) by two legs as well *)
Ltac ex_clear := first
  [ left; split; simpl; lia
  | right; left; split; simpl; lia
  | right; right; left; split; vm_compute; reflexivity
  | right; right; right; split; vm_compute; reflexivity ].
Ltac ex_leg_h := left; split; [reflexivity|]; intros e [<-|[<-|[<-|[<-|[]]]]]; ex_clear.
Ltac ex_leg_v := right; split; [reflexivity|]; intros e [<-|[<-|[<-|[<-|[]]]]]; ex_clear.
Example ex9_inside_star : inside_star [(1,1); (9,1); (9,9); (1,9)] [(3,3); (3,5); (5,5)].
Proof.
  split; [discriminate|]. exists (6, 6). left. split.
  - split; [|reflexivity]. intros e [<-|[<-|[<-|[<-|[]]]]]; vm_compute; reflexivity.
  - intros p [<-|[<-|[<-|[]]]].
    + exists [(3, 6); (3, 3)]. split; [|reflexivity]. split; [ex_leg_h|]. split; [ex_leg_v|exact I].
    + exists [(3, 6); (3, 5)]. split; [|reflexivity]. split; [ex_leg_h|]. split; [ex_leg_v|exact I].
    + exists [(5, 6); (5, 5)]. split; [|reflexivity]. split; [ex_leg_h|]. split; [ex_leg_v|exact I].
Qed.
Example ex9_contained_geo : contained_geo ex8_scene.
Proof.
  split.
  - intros o hs h [E|[]] Hh. inversion E; subst. destruct Hh as [<-|[]]. exact ex9_inside_star.
  - intros o hs h o' hs' [E|[]] Hh [E'|[]] Hne. inversion E; inversion E'; subst. congruence.
Qed.

(* 11 on a malformed case: one closed outer, one unclosed outer first, a ring nobody contains *)
Definition ex11_mp : multipolygon := [[[(0,0); (4,0); (4,4)]]; [[(10,10); (20,10); (20,20); (10,10)]]].
Example ex11_on : add_to_multipolygon true ex11_mp [(50,50); (51,50); (50,51); (50,50)] =
  [[[(0,0); (4,0); (4,4)]; [(50,50); (51,50); (50,51); (50,50)]]; [[(10,10); (20,10); (20,20); (10,10)]]].
Proof. vm_compute. reflexivity. Qed.
Example ex11_off : add_to_multipolygon false ex11_mp [(50,50); (51,50); (50,51); (50,50)] = ex11_mp.
Proof. vm_compute. reflexivity. Qed.

(* non-vacuity of 5m: the ex8 relation with all way nodes annotated; stale orientations on input *)
Definition ex8a_ways : list way :=
  [mkWay 11 [mkWN 3 0 9 9; mkWN 2 0 9 1; mkWN 1 0 1 1];
   mkWay 12 [mkWN 3 0 9 9; mkWN 4 0 1 9; mkWN 1 0 1 1];
   mkWay 13 [mkWN 5 0 3 3; mkWN 6 0 3 5; mkWN 7 0 5 5; mkWN 5 0 3 3];
   mkWay 14 [mkWN 1 0 1 1; mkWN 5 0 3 3]].
Example ex8a_members_ok : Forall2 (amember_ok ex8a_ways) ex8_members ex8_descs.
Proof.
  constructor; [|constructor; [|constructor; [|constructor; [|constructor; [|constructor]]]]].
  - split; [reflexivity|]. split; [reflexivity|]. split; [discriminate|]. split; [simpl; lia|]. eexists. split; reflexivity.
  - left. reflexivity.
  - split; [reflexivity|]. split; [reflexivity|]. split; [discriminate|]. split; [simpl; lia|]. eexists. split; reflexivity.
  - right. reflexivity.
  - split; [reflexivity|]. split; [reflexivity|]. split; [discriminate|]. split; [simpl; lia|]. eexists. split; reflexivity.
Qed.
Example ex8a_annotate : annotate_orientation ex8_members ex8a_ways = Some ([-1; 0; 1; 0; -1], false).
Proof. vm_compute. reflexivity. Qed.

(* a kernel point of a NON-convex star-shaped ring (a dart with a reflex vertex at (4,4)) *)
Example ex_kernel_dart : kernel (Rings.close_ring [(2,2); (10,4); (2,6); (4,4)]) (6, 4).
Proof.
  split; [|reflexivity]. intros e [<-|[<-|[<-|[<-|[]]]]]; vm_compute; reflexivity.
Qed.
Example ex_dart_inside : point_in_ring (Rings.close_ring [(2,2); (10,4); (2,6); (4,4)]) (6, 4) = true.
Proof. apply C16_kernel_inside; [reflexivity|exact ex_kernel_dart]. Qed.
