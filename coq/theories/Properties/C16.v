(* Properties/C16.v — Multipolygon assembly recovers the original rings for any split and order.

   ONLY statements, each closed by [exact] of a lemma of Geo/*Proofs.v or C16/Proofs.v, and
   Print Assumptions.  The model (Geo/Model.v) is tied to /repo by the correspondence harness
   harness/cmd/c16 (osmgeojson.Convert, annotate.Relations, mputil.Join/Group through the
   verif-tagged hook osmgeojson/verif_export.go). *)
From Coq Require Import ZArith List Bool.
From Verif Require Import Geo.Model Geo.JoinProofs.
Import ListNotations.
Open Scope Z_scope.

(* 1. the greedy joining loop terminates within the fuel the model gives it, for every input *)
Theorem C16_join_terminates : forall segments, join segments <> JoinOutOfFuel.
Proof. exact join_terminates. Qed.
Print Assumptions C16_join_terminates.
