(* Properties/C14.v — Child-first relation ordering emits children before parents, once,
   always ends.

   ONLY statements closed by lemmas of C14/Proofs*.v, Print Assumptions and non-vacuity
   examples.  [order ds fuel ids] is the model of the producer of annotate/order.go: it walks
   the requested ids in order with [walk] (post-order over all relation members of all
   versions, path-based cut) and returns the status and the list of ids sent on the channel.
   [ds] is any datasource (any graph: cycles, self references, missing histories, several
   versions, non-relation members are dropped by [rel_members]).  The model is tied to the
   implementation by correspondence on the exact emission sequence (harness/cmd/c14). *)
From Coq Require Import ZArith List Bool Lia.
From Verif Require Import C14.Model C14.Proofs C14.ProofsTerm C14.ProofsOrder C14.ProofsProto.
Import ListNotations.
Open Scope Z_scope.

(* 1. always ends: for ANY graph, fuel above the number of relations with history + 3 is never
      exhausted (paths are duplicate-free).  [hs] is any list holding the ids with a history. *)
Theorem C14_walk_terminates : forall ds hs fuel ids,
  (forall id, has_history ds id = true -> In id hs) ->
  (length hs + 3 <= fuel)%nat -> fst (order ds fuel ids) <> SFuel.
Proof. intros ds hs fuel ids H2 H3. exact (order_terminates ds hs H2 fuel ids H3). Qed.
Print Assumptions C14_walk_terminates.

(* 2. never an id twice — whatever the status, so also for every prefix delivered before a
      Close, a cancel or a datasource error *)
Theorem C14_order_nodup : forall ds fuel ids s out, order ds fuel ids = (s, out) -> NoDup out.
Proof. exact order_nodup. Qed.
Print Assumptions C14_order_nodup.

(* 3. never an id without history *)
Theorem C14_order_only_with_history : forall ds fuel ids s out,
  order ds fuel ids = (s, out) -> forall y, In y out -> has_history ds y = true.
Proof. exact order_only_with_history. Qed.
Print Assumptions C14_order_only_with_history.

(* 4. every requested relation that has a history is emitted (with 2: exactly once) *)
Theorem C14_order_complete : forall ds fuel ids out,
  order ds fuel ids = (SOk, out) ->
  forall id, In id ids -> has_history ds id = true -> In id out.
Proof. exact order_complete. Qed.
Print Assumptions C14_order_complete.

(* 5. graphs with cycles or self references (no hypothesis on the graph at all): the iteration
      terminates normally and emits every requested relation with a history, provided the
      datasource itself does not fail *)
Theorem C14_cyclic_terminates_and_complete : forall ds hs fuel ids,
  (forall id, has_history ds id = true -> In id hs) ->
  (forall id, ds id <> HErr) -> (length hs + 3 <= fuel)%nat ->
  exists out, order ds fuel ids = (SOk, out) /\ NoDup out /\
    forall id, In id ids -> has_history ds id = true -> In id out.
Proof.
  intros ds hs fuel ids H2 H3 H4.
  pose proof (order_ok ds hs H2 H3 fuel ids H4) as Hok.
  destruct (order ds fuel ids) as [s out] eqn:E. cbn in Hok. subst s. exists out.
  split; [reflexivity|]. split; [exact (order_nodup ds fuel ids SOk out E)|].
  exact (order_complete ds fuel ids out E).
Qed.
Print Assumptions C14_cyclic_terminates_and_complete.

(* 6. acyclic member graph (given by a rank that decreases along every member edge between
      relations with history): every relation is emitted only after every relation with a
      history reachable from it through relation members of any of its versions *)
Theorem C14_order_children_first : forall ds (rank : Z -> nat),
  (forall x m, has_history ds x = true -> In m (members_of ds x) -> has_history ds m = true ->
     (rank m < rank x)%nat) ->
  forall fuel ids s out, order ds fuel ids = (s, out) ->
  forall r y, reach ds r y -> has_history ds y = true ->
  forall l1 l2, out = l1 ++ r :: l2 -> In y l1.
Proof. intros ds rank Hr. exact (order_children_first ds rank Hr). Qed.
Print Assumptions C14_order_children_first.

(* 6'. The acyclicity test of the case oracle (C14/Check.v evaluates [acyclicb] on every harness
       graph before demanding children-first of the implementation's output) IS such a rank:
       the oracle and theorem 6 talk about the same graphs.  [nodes] lists the ids with a
       history.  A graph accepted by [acyclicb] has no relation that reaches itself. *)
Theorem C14_acyclicb_rank : forall ds nodes,
  acyclicb ds nodes = true ->
  (forall id, has_history ds id = true -> In id nodes) ->
  forall x m, has_history ds x = true -> In m (members_of ds x) -> has_history ds m = true ->
    (rank_of ds nodes m < rank_of ds nodes x)%nat.
Proof. exact acyclicb_rank. Qed.
Print Assumptions C14_acyclicb_rank.

Theorem C14_order_children_first_oracle : forall ds nodes,
  acyclicb ds nodes = true ->
  (forall id, has_history ds id = true -> In id nodes) ->
  forall fuel ids s out, order ds fuel ids = (s, out) ->
  forall r y, reach ds r y -> has_history ds y = true ->
  forall l1 l2, out = l1 ++ r :: l2 -> In y l1.
Proof. exact order_children_first_acyclicb. Qed.
Print Assumptions C14_order_children_first_oracle.

Theorem C14_acyclicb_no_cycle : forall ds nodes,
  acyclicb ds nodes = true ->
  (forall id, has_history ds id = true -> In id nodes) ->
  forall x, has_history ds x = true -> ~ reach ds x x.
Proof.
  intros ds nodes H Hall x Hx Hr. pose proof (acyclicb_no_cycle ds nodes H Hall x x Hr Hx). lia.
Qed.
Print Assumptions C14_acyclicb_no_cycle.

(* 6''. The property oracle of the case checker (C14/Check.v judgement 2: nodupb, has_history,
        completeness of the requests, members_firstb on graphs accepted by acyclicb) is made of the
        predicates of theorems 2, 3, 4, 6 ([nodupb l = true <-> NoDup l], [members_firstb = true <->
        cf]) and holds of the model's own output for every graph: an implementation whose
        emission sequence equals the model's (judgement 1) cannot fail judgement 2. *)
Theorem C14_oracle_holds_of_model : forall ds nodes fuel ids s out,
  order ds fuel ids = (s, out) ->
  (forall id, has_history ds id = true -> In id nodes) ->
  nodupb out = true /\
  forallb (has_history ds) out = true /\
  (s = SOk -> forallb (fun r => negb (has_history ds r) || memZ r out) ids = true) /\
  (acyclicb ds nodes = true -> members_firstb ds [] out = true).
Proof. exact oracle_holds_of_model. Qed.
Print Assumptions C14_oracle_holds_of_model.

Theorem C14_oracle_predicates : (forall l, nodupb l = true <-> NoDup l) /\
  (forall ds l before, members_firstb ds before l = true <-> cf ds before l).
Proof. split; [exact nodupb_NoDup|exact members_firstb_cf]. Qed.

(* 6c. CompletedIndex (the public restart position): after a run that no error stopped it is
       the index of the last requested id (the code stores i, not i+1: "number finished" in its
       doc comment is one more).  Correspondence: read after Close in every full run. *)
Theorem C14_completed_index : forall ds fuel ids out,
  order ds fuel ids = (SOk, out) ->
  completed_index ds fuel ids = Z.max 0 (Z.of_nat (length ids) - 1).
Proof. exact completed_index_ok. Qed.
Print Assumptions C14_completed_index.

(* 7. Close or context cancellation at any point.  The transition system of Model.v runs the
      producer's PROGRAM -- the finite sequence of datasource lookups and sends the walk performs,
      [program ds fuel ids]; its sends are exactly the ids of theorems 1-6 (7a) -- against a
      consumer that may call Next, Close or cancel the parent context at any moment.  The context
      is consulted where the Go code consults it: not before a lookup; a lookup in progress may
      return its answer (datasources that ignore the context, like osm.HistoryDatasource) or,
      once cancelled, end with the context's error (datasources that honour the derived context
      they are handed); before every send, and in the select of the send.
      After the cancellation (7b): only finitely many steps are possible -- at most the lookups
      left before the next send, each started and returned, plus two; for the real producer at
      most 2*|program|+1 (7c) -- at most ONE more id is delivered (to a Next already waiting when
      the cancellation happened: Go's select may take either ready case), the system cannot get
      stuck before the producer has returned (7d), and a returned producer stays returned (7e).
      Assumption: every lookup returns (with an answer, or with the context's error). *)
Theorem C14_program_is_the_walk : forall ds fuel ids,
  order ds fuel ids = (fst (program ds fuel ids), sends (snd (program ds fuel ids))).
Proof. exact program_order. Qed.
Print Assumptions C14_program_is_the_walk.

Theorem C14_close_terminates : forall s n s',
  cancelled s = true -> steps n s s' ->
  (n <= after_cancel_bound (prod s))%nat /\ cancelled s' = true /\
  (received s' = received s \/ exists id p, prod s = PSend id p /\ received s' = received s ++ [id]).
Proof. exact close_terminates. Qed.
Print Assumptions C14_close_terminates.

Theorem C14_close_bound_by_program : forall prog c r,
  (after_cancel_bound (prod {| prod := PRun prog; cancelled := c; received := r |}) <= 2 * length prog + 1)%nat.
Proof. exact close_bound_program. Qed.

Theorem C14_close_no_deadlock : forall s,
  cancelled s = true -> prod s <> PDone -> exists s', step s s'.
Proof. exact cancelled_progress. Qed.
Print Assumptions C14_close_no_deadlock.

Theorem C14_done_is_final : forall s s', prod s = PDone -> step s s' ->
  prod s' = PDone /\ received s' = received s.
Proof. exact done_is_final. Qed.

(* cancellation is possible in every state that is not yet cancelled *)
Theorem C14_cancel_anytime : forall p r,
  step {| prod := p; cancelled := false; received := r |} {| prod := p; cancelled := true; received := r |}.
Proof. intros. apply st_cancel. Qed.

(* ---- non-vacuity ---- *)
(* a graph with a cycle 1 -> 2 -> 3 -> 1, a self reference 4 -> 4, a missing history 9, two
   versions of 1 with different members, and a way member carrying number 2 *)
Definition ex_cyc (id : Z) : hist :=
  if id =? 1 then HFound [[(true, 2); (false, 2)]; [(true, 9); (true, 4)]]
  else if id =? 2 then HFound [[(true, 3)]]
  else if id =? 3 then HFound [[(true, 1)]]
  else if id =? 4 then HFound [[(true, 4); (true, 2)]]
  else HNotFound.

Example ex_cyc_run : order ex_cyc 7 [3; 9; 1; 3] = (SOk, [2; 1; 3]).
Proof. vm_compute. reflexivity. Qed.

Example ex_cyc_hyps :
  (forall id, has_history ex_cyc id = true -> In id [1; 2; 3; 4]) /\
  (forall id, ex_cyc id <> HErr).
Proof.
  split.
  - intros id. unfold has_history, ex_cyc.
    destruct (Z.eqb_spec id 1); [subst; cbn; tauto|]. destruct (Z.eqb_spec id 2); [subst; cbn; tauto|].
    destruct (Z.eqb_spec id 3); [subst; cbn; tauto|]. destruct (Z.eqb_spec id 4); [subst; cbn; tauto|].
    discriminate.
  - intros id. unfold ex_cyc. destruct (id =? 1); [discriminate|]. destruct (id =? 2); [discriminate|].
    destruct (id =? 3); [discriminate|]. destruct (id =? 4); discriminate.
Qed.

(* an acyclic graph (a diamond 1 -> {2,3} -> 4) with its rank *)
Definition ex_dag (id : Z) : hist :=
  if id =? 1 then HFound [[(true, 2)]; [(true, 3)]]
  else if id =? 2 then HFound [[(true, 4)]]
  else if id =? 3 then HFound [[(true, 4); (true, 8)]]
  else if id =? 4 then HFound [[]]
  else HNotFound.

Example ex_dag_rank : forall x m,
  has_history ex_dag x = true -> In m (members_of ex_dag x) -> has_history ex_dag m = true ->
  (Z.to_nat (5 - m) < Z.to_nat (5 - x))%nat.
Proof.
  intros x m Hx Hm Hh. unfold has_history, members_of, ex_dag in *.
  destruct (Z.eqb_spec x 1); [subst; cbn in Hm; intuition (subst; lia)|].
  destruct (Z.eqb_spec x 2); [subst; cbn in Hm; intuition (subst; lia)|].
  destruct (Z.eqb_spec x 3).
  { subst. cbn in Hm. destruct Hm as [Hm|[Hm|[]]]; subst; [lia|]. cbn in Hh. discriminate. }
  destruct (Z.eqb_spec x 4); [subst; cbn in Hm; destruct Hm|]. discriminate.
Qed.

Example ex_dag_run : order ex_dag 7 [1; 4] = (SOk, [4; 2; 3; 1]).
Proof. vm_compute. reflexivity. Qed.

(* the chain 1 -> 2 -> 3 requested as [1], cancelled before the first Next, with a datasource that
   ignores the context: three lookups are still made (started and returned) before the walk
   reaches the context test in front of its first send *)
Definition ex_chain (id : Z) : hist :=
  if id =? 1 then HFound [[(true, 2)]] else if id =? 2 then HFound [[(true, 3)]]
  else if id =? 3 then HFound [[]] else HNotFound.

Example ex_chain_program : program ex_chain 6 [1] = (SOk, [ALookup; ALookup; ALookup; ASend 3; ASend 2; ASend 1]).
Proof. vm_compute. reflexivity. Qed.

Example ex_lts_cancel_ignoring_datasource :
  steps 7 {| prod := PRun [ALookup; ALookup; ALookup; ASend 3; ASend 2; ASend 1]; cancelled := true; received := [] |}
          {| prod := PDone; cancelled := true; received := [] |}
  /\ after_cancel_bound (PRun [ALookup; ALookup; ALookup; ASend 3; ASend 2; ASend 1]) = 7%nat.
Proof.
  split; [|reflexivity].
  eapply steps_S; [apply st_lookup_start|]. eapply steps_S; [apply st_lookup_return|].
  eapply steps_S; [apply st_lookup_start|]. eapply steps_S; [apply st_lookup_return|].
  eapply steps_S; [apply st_lookup_start|]. eapply steps_S; [apply st_lookup_return|].
  eapply steps_S; [apply st_walk_cancelled|]. apply steps_O.
Qed.

(* Close while a context-honouring datasource is inside a lookup *)
Example ex_lts_close_in_lookup :
  steps 1 {| prod := PLookup [ASend 5; ASend 6]; cancelled := true; received := [4] |}
          {| prod := PDone; cancelled := true; received := [4] |}.
Proof. eapply steps_S; [apply st_lookup_cancelled|]. apply steps_O. Qed.

(* a Next already waiting when the context is cancelled may still get the id *)
Example ex_lts_last_delivery :
  steps 2 {| prod := PSend 5 [ASend 6]; cancelled := true; received := [4] |}
          {| prod := PDone; cancelled := true; received := [4; 5] |}.
Proof. eapply steps_S; [apply st_rendezvous|]. eapply steps_S; [apply st_walk_cancelled|]. apply steps_O. Qed.

Example ex_dag_acyclicb : acyclicb ex_dag [1; 2; 3; 4] = true /\ acyclicb ex_cyc [1; 2; 3; 4] = false.
Proof. vm_compute. split; reflexivity. Qed.
