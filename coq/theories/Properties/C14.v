(* Properties/C14.v — placeholder, replaced below once the proofs are in place. *)
From Verif Require Import C14.Model.
