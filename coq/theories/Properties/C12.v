(* Properties/C12.v — Annotation is deterministic and orders updates by index, time, version.

   ONLY statements, each closed by [exact] of a lemma, and Print Assumptions.
   Model: Annotate/Model.v ([compute_with]: core.Compute of annotate/internal/core/compute.go with
   its two sources of nondeterminism as explicit arguments: the order [entries] in which the map
   of child locations is iterated, and the function [sortf] standing for sort.Sort in
   Updates.SortByIndex).  [sort_spec less sortf] is all that sort.Sort promises: the result is a
   permutation of its input in which no element is Less than its predecessor.
   [less] is updatesSortIndex.Less of update.go after the repair (fix: commit 47692a5);
   [less_v0] is the comparison of the pinned snapshot. *)
From Coq Require Import ZArith List Bool Permutation Sorted.
From Verif Require Import Annotate.Model Annotate.SortProofs Annotate.Plans Annotate.Determinism C12.Proofs.
From Verif Require Annotate.GenOk.
From VerifGen Require GenAnnotate.
Import ListNotations.
Open Scope Z_scope.

(* 1. "either all succeed ... or all fail": for every pair of map iteration orders and every pair
      of sort behaviours, one run fails iff the other fails (which error is reported may differ). *)
Theorem C12_status_order_independent :
  forall cis o ps hist entries entries' sortf sortf',
  valid_order o ps entries -> valid_order o ps entries' ->
  ((exists e, compute_with cis o ps hist entries sortf = Err e) <->
   (exists e', compute_with cis o ps hist entries' sortf' = Err e')).
Proof. exact compute_status_order_independent. Qed.
Print Assumptions C12_status_order_independent.

(* 2. "... with identical annotated elements and identical update lists, independent of hash-map
      iteration order": any two successful runs return the same parents and the same update lists.
      [hist_ok]: the versions of one element in the datasource are distinct. *)
Theorem C12_compute_deterministic :
  forall cis o ps hist entries entries' sortf sortf' r r',
  hist_ok hist -> valid_order o ps entries -> valid_order o ps entries' ->
  sort_spec less sortf -> sort_spec less sortf' ->
  compute_with cis o ps hist entries sortf = Ok r ->
  compute_with cis o ps hist entries' sortf' = Ok r' ->
  r = r'.
Proof. exact compute_deterministic. Qed.
Print Assumptions C12_compute_deterministic.

(* 3. every update list is ordered by child index, then time, then child version *)
Theorem C12_updates_sorted_index_time_version :
  forall cis o ps hist entries sortf ps' results,
  sort_spec less sortf ->
  compute_with cis o ps hist entries sortf = Ok (ps', results) ->
  forall us, In us results -> StronglySorted itv_le us.
Proof. exact updates_sorted_index_time_version. Qed.
Print Assumptions C12_updates_sorted_index_time_version.

(* 3'. so versions of one child that share a timestamp are applied oldest to newest *)
Theorem C12_same_stamp_oldest_first :
  forall us pre a mid b post,
  StronglySorted itv_le us -> us = pre ++ a :: mid ++ b :: post ->
  u_index a = u_index b -> u_timestamp a = u_timestamp b -> u_version a <= u_version b.
Proof. exact sorted_same_stamp_versions. Qed.
Print Assumptions C12_same_stamp_oldest_first.

(* 4. sort.Sort itself: any two behaviours allowed by its contract agree on lists whose
      (index, timestamp, version) keys identify the elements *)
Theorem C12_sort_unique :
  forall sortf sortf' l l',
  sort_spec less sortf -> sort_spec less sortf' -> Permutation l l' -> key_functional l ->
  sortf l = sortf' l'.
Proof. exact sort_unique. Qed.
Print Assumptions C12_sort_unique.

(* 5. REFUTED for the code of the pinned snapshot (finding, repaired by the fix: commit):
      with Less = (index, timestamp) two legal results of sort.Sort give different update lists
      for one input, and applying one of them leaves the older version of the node.
      Full statement that is false for less_v0:
        forall ... , sort_spec less_v0 sortf -> sort_spec less_v0 sortf' -> ... -> r = r'  *)
Theorem C12_compute_order_v0_refuted :
  exists r r',
    sort_spec less_v0 (sort_a less_v0) /\ sort_spec less_v0 (sort_b less_v0) /\
    compute_with w_cis w_opts w_parents w_hist w_entries (sort_a less_v0) = Ok r /\
    compute_with w_cis w_opts w_parents w_hist w_entries (sort_b less_v0) = Ok r' /\
    map (map u_version) (snd r) = [[3; 2]] /\ map (map u_version) (snd r') = [[2; 3]] /\
    (exists refs pend, apply_updates_up_to false (w_t 9000) (flat_map p_refs (fst r)) (concat (snd r))
                       = ApplyOk refs pend /\ map r_version refs = [2]) /\
    (exists refs pend, apply_updates_up_to false (w_t 9000) (flat_map p_refs (fst r')) (concat (snd r'))
                       = ApplyOk refs pend /\ map r_version refs = [3]).
Proof. exact compute_order_refuted_v0. Qed.
Print Assumptions C12_compute_order_v0_refuted.

(* 6. tie by translation: updatesSortIndex.Less regenerated from update.go on every run is [less] *)
Theorem C12_generated_less_is_model : forall a b, GenAnnotate.gen_less_index a b = less a b.
Proof. exact GenOk.gen_less_index_ok. Qed.

(* The determinism theorems are about a model that handles the children one after the other (in
   any order).  The code reachable from core.Compute / annotate.Ways / annotate.Relations contains
   no go statement, channel, select, sync or sync/atomic use (counted by the translator on every
   run): it is sequential code, the only nondeterminism is the one modelled (map order, sort). *)
Theorem C12_annotation_code_is_sequential : GenAnnotate.gen_concurrent_constructs = 0%Z.
Proof. exact GenOk.gen_sequential_ok. Qed.
Print Assumptions C12_generated_less_is_model.

(* non-vacuity: a concrete history meeting every hypothesis of theorems 1-3, two different sort
   behaviours meeting sort_spec, a successful non-empty result *)
Example C12_hyps_hist_ok : hist_ok w_hist.
Proof. exact w_hist_ok. Qed.
Example C12_hyps_valid_order : valid_order w_opts w_parents w_entries.
Proof. exact w_valid_order. Qed.
Example C12_hyps_sort_a : sort_spec less (sort_a less).
Proof. exact (isort_sort_spec _ less less_asym). Qed.
Example C12_hyps_sort_b : sort_spec less (sort_b less).
Proof. exact (isort_rev_sort_spec _ less less_asym). Qed.
Example C12_instance :
  exists r,
    compute_with w_cis w_opts w_parents w_hist w_entries (sort_a less) = Ok r /\
    compute_with w_cis w_opts w_parents w_hist w_entries (sort_b less) = Ok r /\
    map (map u_version) (snd r) = [[2; 3]].
Proof. exact w_deterministic_instance. Qed.
