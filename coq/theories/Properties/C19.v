(* Properties/C19.v — Replication state lookup by time terminates with the first state at or
   after t.

   ONLY statements, each closed by [exact]/[apply] of a lemma of C19/Proofs*.v, Print
   Assumptions, and non-vacuity examples.  [search] is the model of searchTimestamp /
   findBound / findInRange of /repo/replication/search.go AS REPAIRED by /repo commit c41151f
   (the statements below are false of the code before that commit: see C19/Orig.v for the
   refutations); it returns the answer together with the list of state files requested
   (0 = the current state file).  The model is tied to the implementation by correspondence on
   answer and request sequence (harness/cmd/c19), the URL data by translator/cmd/replication. *)
From Coq Require Import ZArith List String Bool Lia.
From Verif Require Import C19.Model C19.Proofs C19.ProofsUrl C19.Urls C19.GenOk C19.Orig.
From Verif Require Import C19.Decode C19.DecodeGen C19.ProofsDecode.
From VerifGen Require Import GenReplication.
From VerifGen Require GenReplicationCode.
From Verif Require C19.GenOkCode.
Import ListNotations.
Open Scope Z_scope.

(* Domain of the search theorems: every request is answered by a whole well-formed state file or
   by a 404, state file n names sequence number n (the code takes the number from the file
   body), and files below [min] are not looked at ("first available" = first in min..current).
   Other outcomes (other statuses, broken transfers, damaged files, cancellation) are outside
   the model: see checks.d/C19.json assumptions.
   Hypotheses, for a directory [st] searched from [min] with current state [c]:
     min <= fst c                 the newest sequence number is not below the first one
     st (fst c) = Some (snd c)    the current state file names the newest file and its stamp
     mono st min (fst c)          stamps are non-decreasing over the present files
   and nothing about which files are missing. *)

(* 1. The search terminates (fuel linear in the range always suffices: no gap pattern makes a
      loop spin) and the number of requests is logarithmic in the range plus the number of
      missing files:  2 + 2*log2_up(cur-min+1) + #missing(min..cur-1). *)
Theorem C19_search_terminates : forall st min c t fuel,
  (enough_fuel min c <= fuel)%nat ->
  min <= fst c -> st (fst c) = Some (snd c) -> mono st min (fst c) ->
  exists s tr, search fuel st min (Some c) t = Some (Found s, tr) /\
    Z.of_nat (List.length tr) <= request_bound st min c.
Proof.
  intros st min c t fuel Hf Hm Hc Hmono.
  destruct (search_spec st min c t fuel Hf Hm Hc Hmono) as (s & tr & H1 & _ & _ & H4).
  exists s, tr. split; assumption.
Qed.
Print Assumptions C19_search_terminates.

(* 1'. The same bound written out as in the property text: the number of requests (the current
       state file included) is at most
         2 + 2 * ceil(log2 (sequence range))  +  number of missing state files in the range,
       i.e. logarithmic in the sequence range plus the missing files that may have to be
       stepped over.  [missing st min k] counts the n in min .. min+k-1 with st n = None. *)
Theorem C19_request_bound_explicit : forall st min c t fuel,
  (enough_fuel min c <= fuel)%nat ->
  min <= fst c -> st (fst c) = Some (snd c) -> mono st min (fst c) ->
  exists s tr, search fuel st min (Some c) t = Some (Found s, tr) /\
    Z.of_nat (List.length tr) <=
      2 + 2 * Z.log2_up (fst c - min + 1) + missing st min (Z.to_nat (fst c - min)).
Proof. exact C19_search_terminates. Qed.
Print Assumptions C19_request_bound_explicit.

(* with no file missing the bound is purely logarithmic *)
Theorem C19_request_bound_no_gaps : forall st min c t fuel,
  (enough_fuel min c <= fuel)%nat ->
  min <= fst c -> st (fst c) = Some (snd c) -> mono st min (fst c) ->
  (forall n, min <= n < fst c -> st n <> None) ->
  exists s tr, search fuel st min (Some c) t = Some (Found s, tr) /\
    Z.of_nat (List.length tr) <= 2 + 2 * Z.log2_up (fst c - min + 1).
Proof.
  intros st min c t fuel Hf Hm Hc Hmono Hall.
  destruct (C19_search_terminates st min c t fuel Hf Hm Hc Hmono) as (s & tr & H1 & H2).
  exists s, tr. split; [exact H1|]. unfold request_bound in H2.
  rewrite (missing_none st (Z.to_nat (fst c - min)) min) in H2; [lia|].
  intros n Hn. apply Hall. lia.
Qed.
Print Assumptions C19_request_bound_no_gaps.

(* 2. The answer is the first available state written at or after t — present, not before t,
      and every present state below it is before t — or the newest state when t is later than
      all of them. *)
Theorem C19_search_correct : forall st min c t fuel,
  (enough_fuel min c <= fuel)%nat ->
  min <= fst c -> st (fst c) = Some (snd c) -> mono st min (fst c) ->
  exists s tr, search fuel st min (Some c) t = Some (Found s, tr) /\
    (if snd c <? t then s = c
     else min <= fst s <= fst c /\ st (fst s) = Some (snd s) /\ t <= snd s /\
          forall m tm, min <= m < fst s -> st m = Some tm -> tm < t).
Proof.
  intros st min c t fuel Hf Hm Hc Hmono.
  destruct (search_spec st min c t fuel Hf Hm Hc Hmono) as (s & tr & H1 & H2 & _ & _).
  exists s, tr. split; [exact H1|exact H2].
Qed.
Print Assumptions C19_search_correct.

(* 2'. the same against the executable specification (a linear scan for the first state at or
       after t) that the correspondence run evaluates on the implementation's answers *)
Theorem C19_search_matches_spec : forall st min c t fuel,
  (enough_fuel min c <= fuel)%nat ->
  min <= fst c -> st (fst c) = Some (snd c) -> mono st min (fst c) ->
  exists s tr, search fuel st min (Some c) t = Some (Found s, tr) /\
    fst s = spec_search st min c t.
Proof.
  intros st min c t fuel Hf Hm Hc Hmono.
  destruct (search_spec st min c t fuel Hf Hm Hc Hmono) as (s & tr & H1 & _ & H3 & _).
  exists s, tr. split; [exact H1|exact H3].
Qed.
Print Assumptions C19_search_matches_spec.

(* the boolean form of the hypothesis used by the examples and the harness *)
Theorem C19_monob_sound : forall st min cur, monob st min cur = true -> mono st min cur.
Proof. exact monob_sound. Qed.
Print Assumptions C19_monob_sound.

(* a missing current state file ends the search after that one request (definitional: this is
   how [search] models the NotFound return of searchTimestamp) *)
Theorem C19_no_current : forall fuel st min t, search fuel st min None t = Some (ErrNotFound, [0]).
Proof. reflexivity. Qed.
Print Assumptions C19_no_current.

(* 3. URL layout.  [state_url]/[data_url] are fmt.Sprintf (modelled) applied to the format
      strings and argument expressions re-read from baseSeqURL / baseChangesetURL on every run.
      For every kind and every n < 10^9 the request is
        <base>/replication/<dir>/AAA/BBB/CCC<suffix>
      with AAA = n/10^6, BBB = n/10^3 mod 10^3, CCC = n mod 10^3, three digits each. *)
Theorem C19_state_url_layout : forall k base n, 0 <= n < 1000000000 ->
  state_url k base n = Some (planet_path base (kind_dir k) n ++ ".state.txt")%string.
Proof. exact state_url_planet. Qed.
Print Assumptions C19_state_url_layout.

Theorem C19_data_url_layout : forall k base n, 0 <= n < 1000000000 ->
  data_url k base n =
  Some (planet_path base (kind_dir k) n ++ (if Z.eqb k 3 then ".osm.gz" else ".osc.gz"))%string.
Proof. exact data_url_planet. Qed.
Print Assumptions C19_data_url_layout.

(* (first conjunct: definitional unfolding of [planet_path], kept to display the layout) *)
Theorem C19_path_components : forall base dir n,
  planet_path base dir n =
  (base ++ "/replication/" ++ dir ++ "/" ++ d3 (n / 1000000) ++ "/" ++ d3 ((n / 1000) mod 1000)
        ++ "/" ++ d3 (n mod 1000))%string
  /\ (forall x, String.length (d3 x) = 3%nat).
Proof. intros. split; [reflexivity|exact d3_length]. Qed.
Print Assumptions C19_path_components.

(* reading the path back gives n; distinct sequence numbers give distinct paths *)
Theorem C19_path_parse_roundtrip : forall base dir suffix n, 0 <= n < 1000000000 ->
  parse_path base dir suffix (planet_path base dir n ++ suffix) = Some n.
Proof. exact parse_path_planet. Qed.
Print Assumptions C19_path_parse_roundtrip.

Theorem C19_path_injective : forall base dir n m,
  0 <= n < 1000000000 -> 0 <= m < 1000000000 ->
  planet_path base dir n = planet_path base dir m -> n = m.
Proof. exact planet_path_inj. Qed.
Print Assumptions C19_path_injective.

Theorem C19_current_url : forall k base,
  current_url k base =
  Some (base ++ "/replication/" ++ kind_dir k ++ (if Z.eqb k 3 then "/state.yaml" else "/state.txt"))%string.
Proof.
  intros k base. unfold current_url.
  destruct (Z.eqb k 3); [exact (proj2 (gen_current base (kind_dir k)))|exact (proj1 (gen_current base (kind_dir k)))].
Qed.
Print Assumptions C19_current_url.

Theorem C19_dirs_and_first_numbers :
  (kind_dir 0 = "minute" /\ kind_dir 1 = "hour" /\ kind_dir 2 = "day" /\ kind_dir 3 = "changesets")%string
  /\ forall k, 1 <= kind_min k.
Proof. split; [repeat split; reflexivity|exact gen_min_pos]. Qed.
Print Assumptions C19_dirs_and_first_numbers.

(* 4. the changeset state's off-by-one: the current state file (n = 0) carries the number
      before the newest file; a numbered file is given the number of its name, whatever the
      number inside.  Interval state files are taken at their word. *)
Theorem C19_changeset_off_by_one : forall n inside,
  fetched_seq 3 0 inside = inside + 1 /\ (n <> 0 -> fetched_seq 3 n inside = n) /\
  forall k, k <> 3 -> fetched_seq k n inside = inside.
Proof.
  intros n inside. split; [exact (proj1 (gen_changeset_fix n inside))|].
  split; [exact (proj2 (gen_changeset_fix n inside))|].
  intros k Hk. unfold fetched_seq. destruct (Z.eqb_spec k 3); [contradiction|reflexivity].
Qed.
Print Assumptions C19_changeset_off_by_one.

Theorem C19_time_formats :
  In "2006-01-02T15\:04\:05Z"%string time_formats /\
  In "2006-01-02 15:04:05.999999999 Z"%string time_formats /\
  In "2006-01-02 15:04:05.999999999 +00:00"%string time_formats.
Proof. exact gen_time_formats. Qed.
Print Assumptions C19_time_formats.

(* 4'. State files are read as the planet server writes them.  [decode_interval_gen] /
       [decode_changeset_gen] are the byte-level models of decodeIntervalState /
       decodeChangesetState / decodeTime instantiated with the keys, separators, line numbers
       and time formats re-read from the source on every run; a time is its civil fields.
       [render_interval] is the osmosis state.txt (comment line, the seven keys, the time
       stamp with escaped colons 2016-07-16T06\:14\:02Z); [render_changeset k] the three-line
       changeset state with the time as "... .422137422 Z" (k=0) or "... +00:00" (k=1). *)
Theorem C19_decode_time_roundtrip : forall k t, valid t -> (k = 0 \/ k = 1 \/ (k = 2 /\ t_nsec t = 0)) ->
  decode_time time_formats (render_time k t) = Some t.
Proof. exact gen_reads_planet_times. Qed.
Print Assumptions C19_decode_time_roundtrip.

Theorem C19_decode_interval_roundtrip : forall comment seq t txn txnq ready active,
  valid t -> t_nsec t = 0 -> 0 <= seq < two63 -> 0 <= txn < two63 -> 0 <= txnq < two63 ->
  nocharb nlc comment = true -> nocharb nlc ready = true -> nocharb nlc active = true ->
  decode_interval_gen (render_interval comment seq t txn txnq ready active)
  = Some (DOk {| i_seq := seq; i_time := t; i_txn := txn; i_txnq := txnq |}).
Proof.
  intros. rewrite decode_interval_gen_eq. f_equal. apply decode_interval_planet; try assumption.
  exact gen_reads_planet_times.
Qed.
Print Assumptions C19_decode_interval_roundtrip.

Theorem C19_decode_changeset_roundtrip : forall k seq t, (k = 0 \/ k = 1) -> valid t -> 0 <= seq < two64 ->
  decode_changeset_gen (render_changeset k seq t) = Some (DOk (seq, t)).
Proof.
  intros. rewrite decode_changeset_gen_eq. f_equal. apply decode_changeset_planet; try assumption.
  exact gen_reads_planet_times.
Qed.
Print Assumptions C19_decode_changeset_roundtrip.

(* damaged files (missing or repeated lines, junk values, wrong separators, anything): when the
   decoders return a state at all, its sequence number and time are those of the last line
   carrying them (a valid number, a valid calendar time) or the zero value when no line does.
   Other damage gives an error or -- see notes/C19.md -- an index-out-of-range panic ([DPanic]),
   never an invented state. *)
Theorem C19_decode_interval_no_garbage : forall keys fmts ls kv data st,
  decode_interval keys fmts ls kv data = DOk st ->
  (match last_val keys kv FSeq (split_on ls data) with
   | Some v => exists n, atoi v = Some n /\ i_seq st = n mod two64
   | None => i_seq st = 0
   end) /\
  (match last_val keys kv FTime (split_on ls data) with
   | Some v => decode_time fmts v = Some (i_time st)
   | None => i_time st = zero_tm
   end).
Proof. exact decode_interval_no_garbage. Qed.
Print Assumptions C19_decode_interval_no_garbage.

Theorem C19_decode_changeset_no_garbage : forall fmts ls kv data n t,
  decode_changeset fmts ls kv 1 2 data = DOk (n, t) ->
  exists l1 l2 p, nth_error (split_on ls data) 1 = Some l1 /\ nth_error (split_on ls data) 2 = Some l2 /\
    decode_time fmts (trim (join kv (tl (split_on kv l1)))) = Some t /\
    nth_error (split_on kv l2) 1 = Some p /\ parse_uint (trim p) = Some n.
Proof. exact decode_changeset_no_garbage. Qed.
Print Assumptions C19_decode_changeset_no_garbage.

Theorem C19_decode_time_real_day : forall fmts s t, decode_time fmts s = Some t ->
  1 <= t_day t <= days_in (t_mon t) (t_year t).
Proof. exact decode_time_real_day. Qed.
Print Assumptions C19_decode_time_real_day.

(* 4''. Tie by sampled behaviour: the translator also drives the exported entry points with a
        recording transport on every run; the URLs requested for 16 sequence numbers x 4 kinds x
        {state, data} + the current state files, and the sequence numbers returned for 9
        (file name, number inside) pairs, are exactly what the model computes -- independently of
        how the source spells the path (Sprintf, helper functions, concatenation). *)
Theorem C19_sampled_urls_and_correction :
  forallb sample_url_ok url_samples = true /\
  forallb (fun '(n, k, r) => fetched_seq 3 n k =? r) fix_samples = true.
Proof.
  pose proof gen_url_samples as U. pose proof gen_fix_samples as F.
  apply andb_prop in U. destruct U as [_ U].
  apply andb_prop in F. destruct F as [F _]. apply andb_prop in F. destruct F as [F _].
  apply andb_prop in F. destruct F as [_ F]. split; assumption.
Qed.
Print Assumptions C19_sampled_urls_and_correction.

(* 5. The code before the repair violated 1 and 2 (C19/Orig.v models it loop by loop):
      with the files next to the split missing no amount of fuel suffices, and t at or before
      the first state gives the second one.  Found against the real implementation, fixed by
      /repo commit c41151f, kept here as documentation. *)
Theorem C19_orig_search_terminates_refuted :
  exists st c t, 1 <= fst c /\ st (fst c) = Some (snd c) /\ mono st 1 (fst c) /\
    forall fuel, o_search st fuel 1 c t = None.
Proof. exact orig_search_terminates_refuted. Qed.
Print Assumptions C19_orig_search_terminates_refuted.

Theorem C19_orig_search_correct_refuted :
  exists st c t s tr, 1 <= fst c /\ st (fst c) = Some (snd c) /\ mono st 1 (fst c) /\
    o_search st 100 1 c t = Some (s, tr) /\ fst s <> spec_search st 1 c t.
Proof. exact orig_search_correct_refuted. Qed.
Print Assumptions C19_orig_search_correct_refuted.

(* ---- non-vacuity: a directory with gaps next to the bounds and the split meets the
        hypotheses, and the search answers as stated ---- *)
Definition ex_st (n : Z) : option Z :=
  if n =? 3 then Some 30 else if n =? 4 then Some 40 else if n =? 11 then Some 110
  else if n =? 20 then Some 200 else None.

Example ex_hyps : 1 <= 20 /\ ex_st 20 = Some 200 /\ mono ex_st 1 20.
Proof. split; [lia|]. split; [reflexivity|]. apply monob_sound. vm_compute. reflexivity. Qed.

Example ex_run_between :
  search (enough_fuel 1 (20, 200)) ex_st 1 (Some (20, 200)) 41
  = Some (Found (11, 110), [0; 1; 10; 15; 17; 18; 19; 10; 9; 8; 7; 6; 5; 4; 15; 14; 13; 12; 11]).
Proof. vm_compute. reflexivity. Qed.

Example ex_run_before_first :
  search (enough_fuel 1 (20, 200)) ex_st 1 (Some (20, 200)) 7
  = Some (Found (3, 30), [0; 1; 10; 15; 17; 18; 19; 10; 9; 8; 7; 6; 5; 4; 2; 1; 3]).
Proof. vm_compute. reflexivity. Qed.

Example ex_run_after : search (enough_fuel 1 (20, 200)) ex_st 1 (Some (20, 200)) 201
  = Some (Found (20, 200), [0]).
Proof. vm_compute. reflexivity. Qed.

Example ex_bound : request_bound ex_st 1 (20, 200) = 28.
Proof. vm_compute. reflexivity. Qed.

(* the instance of the explicit bound for that directory: 19 requests were made (ex_run_between),
   2 + 2 * log2_up 20 + 16 missing files = 2 + 10 + 16 = 28 are allowed *)
Example ex_bound_explicit :
  Z.log2_up (20 - 1 + 1) = 5 /\ missing ex_st 1 (Z.to_nat (20 - 1)) = 16 /\
  Z.of_nat (List.length [0; 1; 10; 15; 17; 18; 19; 10; 9; 8; 7; 6; 5; 4; 15; 14; 13; 12; 11]) = 19 /\
  19 <= 2 + 2 * 5 + 16.
Proof. vm_compute. repeat split; discriminate. Qed.

(* a complete directory of a million files: at most 42 requests *)
Example ex_bound_million : 2 + 2 * Z.log2_up (1000000 - 1 + 1) = 42.
Proof. vm_compute. reflexivity. Qed.

Example ex_url : state_url 3 "https://planet.osm.org" 2008004
  = Some "https://planet.osm.org/replication/changesets/002/008/004.state.txt"%string.
Proof. vm_compute. reflexivity. Qed.

Example ex_url_big : state_url 0 "" 1234567890 = Some "/replication/minute/1234/567/890.state.txt"%string.
Proof. vm_compute. reflexivity. Qed.

Definition ex_tm : tm := {| t_year := 2016; t_mon := 7; t_day := 16; t_hour := 6; t_min := 14; t_sec := 2; t_nsec := 0 |}.
Example ex_valid_tm : valid ex_tm.
Proof. apply valid_tm_valid. reflexivity. Qed.

Example ex_interval_file :
  render_interval "Sat Jul 16 06:14:03 UTC 2016" 2010580 ex_tm 836439235 836439235 "" "836439008" =
  ("#Sat Jul 16 06:14:03 UTC 2016" ++ nl ++ "txnMaxQueried=836439235" ++ nl ++ "sequenceNumber=2010580" ++ nl ++
   "timestamp=2016-07-16T06\:14\:02Z" ++ nl ++ "txnReadyList=" ++ nl ++ "txnMax=836439235" ++ nl ++
   "txnActiveList=836439008" ++ nl)%string.
Proof. vm_compute. reflexivity. Qed.

Example ex_interval_decode :
  decode_interval_gen ("sequenceNumber=12" ++ nl ++ "timestamp=2016-02-30T06\:14\:02Z" ++ nl)%string = Some DErr /\
  decode_interval_gen ("sequenceNumber" ++ nl)%string = Some DPanic /\
  decode_interval_gen ("timestamp= 2016-02-29T6\:14\:02.5Z " ++ nl)%string =
    Some (DOk {| i_seq := 0; i_time := {| t_year := 2016; t_mon := 2; t_day := 29; t_hour := 6; t_min := 14; t_sec := 2; t_nsec := 500000000 |}; i_txn := 0; i_txnq := 0 |}).
Proof. vm_compute. repeat split; reflexivity. Qed.

Example ex_changeset_decode :
  decode_changeset_gen ("---" ++ nl ++ "last_run: 2016-07-02 22:46:01.422137422 +00:00" ++ nl ++ "sequence: 1912325" ++ nl)%string
  = Some (DOk (1912325, {| t_year := 2016; t_mon := 7; t_day := 2; t_hour := 22; t_min := 46; t_sec := 1; t_nsec := 422137422 |})).
Proof. vm_compute. reflexivity. Qed.

(* ==== BEGIN generated-code tie (added by the C11/C12 builder; files translator/cmd/replicationcode,
   coq/gen/GenReplicationCode.v, C19/GenOkCode.v) ==== *)
(* searchTimestamp, findBound and findInRange as regenerated from /repo/replication/search.go on
   every run ARE the hand model above — result and request trace — for every directory [st],
   every fuel, minimum, time and current state.  [state_fn st] / [cur_fn cur] present a directory
   as the s.State / s.Current parameter functions of the generated code; [embed] maps the model's
   result to the (state, error) pair of the Go signature. *)
Theorem C19_generated_code_is_model :
  (forall st fuel C min t lowerID upper tr,
     GenReplicationCode.gen_find_in_range fuel C (GenOkCode.state_fn st) min lowerID (Some upper) t tr =
     option_map (fun r => ((Some (fst r), GenReplicationCode.GNil), (tr ++ snd r)%list)) (find_in_range st fuel lowerID upper t)) /\
  (forall st fuel C min t upper tr,
     GenReplicationCode.gen_find_bound fuel C (GenOkCode.state_fn st) min (Some upper) t tr =
     option_map (fun r => ((Some (fst (fst r)), Some (snd (fst r)), GenReplicationCode.GNil), (tr ++ snd r)%list))
                (find_bound st fuel min upper t)) /\
  (forall st fuel min cur t,
     GenReplicationCode.gen_search_timestamp fuel (GenOkCode.cur_fn cur) (GenOkCode.state_fn st) min t [] =
     GenOkCode.embed (search fuel st min cur t)).
Proof. exact GenOkCode.generated_search_code_is_model. Qed.
Print Assumptions C19_generated_code_is_model.
(* ==== END generated-code tie ==== *)
