(* Properties/C19.v — Replication state lookup by time terminates with the first state at or
   after t.

   ONLY statements, each closed by [exact]/[apply] of a lemma of C19/Proofs*.v, Print
   Assumptions, and non-vacuity examples.  [search] is the model of searchTimestamp /
   findBound / findInRange of /repo/replication/search.go AS REPAIRED by /repo commit c41151f
   (the statements below are false of the code before that commit: see C19/Orig.v for the
   refutations); it returns the answer together with the list of state files requested
   (0 = the current state file).  The model is tied to the implementation by correspondence on
   answer and request sequence (harness/cmd/c19), the URL data by translator/cmd/replication. *)
From Coq Require Import ZArith List String Bool Lia.
From Verif Require Import C19.Model C19.Proofs.
Import ListNotations.
Open Scope Z_scope.

(* Hypotheses, for a directory [st] searched from [min] with current state [c]:
     min <= fst c                 the newest sequence number is not below the first one
     st (fst c) = Some (snd c)    the current state file names the newest file and its stamp
     mono st min (fst c)          stamps are non-decreasing over the present files
   and nothing about which files are missing. *)

(* 1. The search terminates (fuel linear in the range always suffices: no gap pattern makes a
      loop spin) and the number of requests is logarithmic in the range plus the number of
      missing files:  2 + 2*log2_up(cur-min+1) + #missing(min..cur-1). *)
Theorem C19_search_terminates : forall st min c t fuel,
  (enough_fuel min c <= fuel)%nat ->
  min <= fst c -> st (fst c) = Some (snd c) -> mono st min (fst c) ->
  exists s tr, search fuel st min (Some c) t = Some (Found s, tr) /\
    Z.of_nat (List.length tr) <= request_bound st min c.
Proof.
  intros st min c t fuel Hf Hm Hc Hmono.
  destruct (search_spec st min c t fuel Hf Hm Hc Hmono) as (s & tr & H1 & _ & _ & H4).
  exists s, tr. split; assumption.
Qed.
Print Assumptions C19_search_terminates.

(* 2. The answer is the first available state written at or after t — present, not before t,
      and every present state below it is before t — or the newest state when t is later than
      all of them. *)
Theorem C19_search_correct : forall st min c t fuel,
  (enough_fuel min c <= fuel)%nat ->
  min <= fst c -> st (fst c) = Some (snd c) -> mono st min (fst c) ->
  exists s tr, search fuel st min (Some c) t = Some (Found s, tr) /\
    (if snd c <? t then s = c
     else min <= fst s <= fst c /\ st (fst s) = Some (snd s) /\ t <= snd s /\
          forall m tm, min <= m < fst s -> st m = Some tm -> tm < t).
Proof.
  intros st min c t fuel Hf Hm Hc Hmono.
  destruct (search_spec st min c t fuel Hf Hm Hc Hmono) as (s & tr & H1 & H2 & _ & _).
  exists s, tr. split; [exact H1|exact H2].
Qed.
Print Assumptions C19_search_correct.

(* 2'. the same against the executable specification (a linear scan for the first state at or
       after t) that the correspondence run evaluates on the implementation's answers *)
Theorem C19_search_matches_spec : forall st min c t fuel,
  (enough_fuel min c <= fuel)%nat ->
  min <= fst c -> st (fst c) = Some (snd c) -> mono st min (fst c) ->
  exists s tr, search fuel st min (Some c) t = Some (Found s, tr) /\
    fst s = spec_search st min c t.
Proof.
  intros st min c t fuel Hf Hm Hc Hmono.
  destruct (search_spec st min c t fuel Hf Hm Hc Hmono) as (s & tr & H1 & _ & H3 & _).
  exists s, tr. split; [exact H1|exact H3].
Qed.
Print Assumptions C19_search_matches_spec.

(* the boolean form of the hypothesis used by the examples and the harness *)
Theorem C19_monob_sound : forall st min cur, monob st min cur = true -> mono st min cur.
Proof. exact monob_sound. Qed.
Print Assumptions C19_monob_sound.

(* a missing current state file ends the search after that one request *)
Theorem C19_no_current : forall fuel st min t, search fuel st min None t = Some (ErrNotFound, [0]).
Proof. reflexivity. Qed.

(* ---- non-vacuity: a directory with gaps next to the bounds and the split meets the
        hypotheses, and the search answers as stated ---- *)
Definition ex_st (n : Z) : option Z :=
  if n =? 3 then Some 30 else if n =? 4 then Some 40 else if n =? 11 then Some 110
  else if n =? 20 then Some 200 else None.

Example ex_hyps : 1 <= 20 /\ ex_st 20 = Some 200 /\ mono ex_st 1 20.
Proof. split; [lia|]. split; [reflexivity|]. apply monob_sound. vm_compute. reflexivity. Qed.

Example ex_run_between :
  search (enough_fuel 1 (20, 200)) ex_st 1 (Some (20, 200)) 41
  = Some (Found (11, 110), [0; 1; 10; 15; 17; 18; 19; 10; 9; 8; 7; 6; 5; 4; 15; 14; 13; 12; 11]).
Proof. vm_compute. reflexivity. Qed.

Example ex_run_before_first :
  search (enough_fuel 1 (20, 200)) ex_st 1 (Some (20, 200)) 7
  = Some (Found (3, 30), [0; 1; 10; 15; 17; 18; 19; 10; 9; 8; 7; 6; 5; 4; 2; 1; 3]).
Proof. vm_compute. reflexivity. Qed.

Example ex_run_after : search (enough_fuel 1 (20, 200)) ex_st 1 (Some (20, 200)) 201
  = Some (Found (20, 200), [0]).
Proof. vm_compute. reflexivity. Qed.

Example ex_bound : request_bound ex_st 1 (20, 200) = 28.
Proof. vm_compute. reflexivity. Qed.
