(* Properties/C10.v — Packed object/element/feature ids are lossless, ordered and parseable.

   Print Assumptions is issued once, at the end, on the tuple of ALL theorems of the file (one traversal of the shared dependencies instead of one per theorem: the file
   compiles in a few seconds instead of thirty).
   ONLY statements, each closed by [exact] of a lemma of C10/Proofs.v, and Print Assumptions.
   The constructors and decoders mentioned here (module VerifGen.GenIds) are regenerated from
   /repo's Go source on every run by translator/cmd/ids; the String/Parse model is tied by
   correspondence (harness/cmd/c10). *)
From Coq Require Import ZArith List String Sorted Permutation Lia Bool.
From Verif Require Import Base.Int64 C10.Model C10.Proofs C10.Conv C10.OutOfRange C10.ParseComplete.
From VerifGen Require Import GenIds.
Import ListNotations.
Open Scope Z_scope.

(* 1. the generated constructors compute the arithmetic layout kind*2^56 + ref*2^16 + version,
      for every kind, every ref in [0,2^40) and every version in [0,2^16); the result is a
      non-negative int64, so Go's wrapping arithmetic never wraps here. *)
Theorem C10_object_id_layout : forall k r v,
  in_range r v -> object_id k r v = pack k (norm_r k r) (norm_v k v).
Proof. exact object_id_pack. Qed.

Theorem C10_element_id_layout : forall k r v,
  is_element k = true -> in_range r v ->
  element_id k r v = pack k r v /\ object_id k r v = element_id k r v.
Proof. intros k r v Hk H. split; [exact (element_id_pack k r v Hk H)|exact (object_id_is_element_id k r v Hk)]. Qed.

Theorem C10_feature_id_layout : forall k r,
  is_element k = true -> 0 <= r < two40 -> feature_id k r = pack k r 0.
Proof. exact feature_id_pack. Qed.

Theorem C10_no_wrap : forall k r v, in_range r v -> 0 <= pack k r v < two63.
Proof. exact pack_range. Qed.

(* 2. lossless: the decoders return exactly kind, ref and version *)
Theorem C10_decode_object : forall k r v, in_range r v ->
  let id := object_id k r v in
  ObjectID_Type id = kind_name k /\ ObjectID_Ref id = norm_r k r /\ ObjectID_Version id = norm_v k v.
Proof.
  intros k r v H id. subst id. rewrite (object_id_pack k r v H).
  pose proof (norm_in_range k r v H) as Hn.
  split; [exact (object_type_pack _ _ _ Hn)|split; [exact (ref_pack _ _ _ Hn)|exact (version_pack _ _ _ Hn)]].
Qed.

Theorem C10_decode_element : forall k r v, is_element k = true -> in_range r v ->
  let id := element_id k r v in
  ElementID_Type id = kind_name k /\ ElementID_Ref id = r /\ ElementID_Version id = v /\
  ElementID_FeatureID id = feature_id k r /\
  FeatureID_Type (feature_id k r) = kind_name k /\ FeatureID_Ref (feature_id k r) = r.
Proof.
  intros k r v Hk H id. subst id. rewrite (element_id_pack k r v Hk H).
  assert (in_range r 0) as H0 by (destruct H as [Hr Hv]; split; [exact Hr|unfold two16; lia]).
  rewrite (feature_id_pack k r Hk (proj1 H)).
  repeat split.
  - exact (element_type_pack _ _ _ Hk H).
  - exact (ref_pack _ _ _ H).
  - exact (version_pack _ _ _ H).
  - exact (feature_of_pack _ _ _ H).
  - exact (feature_type_pack _ _ _ Hk H0).
  - exact (ref_pack _ _ _ H0).
Qed.

Theorem C10_kind_names_distinct : forall a b, kind_name a = kind_name b -> a = b.
Proof. exact kind_name_inj. Qed.

(* 3. distinct inputs give distinct identifiers *)
Theorem C10_injective : forall a b,
  in_range3 a -> in_range3 b -> pack3 a = pack3 b -> a = b.
Proof. exact pack_inj. Qed.

(* 4. integer order = (kind, ref, version) order, bounds < node < way < relation < ... *)
Theorem C10_order : forall a b,
  in_range3 a -> in_range3 b -> (pack3 a < pack3 b <-> lex_lt a b).
Proof. exact pack_lt_iff. Qed.

Example C10_node_way_relation : rank KNode < rank KWay < rank KRelation.
Proof. cbn. lia. Qed.

(* 5. the provided sorts (sort.Sort with Less = integer <): any permutation of the input that
      is sorted on the packed integers is sorted by (type, id, version), and it is unique. *)
Theorem C10_sorted_is_lex_sorted : forall l,
  Forall in_range3 l -> StronglySorted Z.le (map pack3 l) -> StronglySorted lex_le l.
Proof. exact sorted_pack_lex. Qed.

Theorem C10_sort_result_unique : forall l1 l2 : list Z,
  Permutation l1 l2 -> StronglySorted Z.le l1 -> StronglySorted Z.le l2 -> l1 = l2.
Proof. exact sorted_perm_unique. Qed.

(* 6. text round trip *)
Theorem C10_parse_object_string : forall k r v, in_range r v ->
  parse_object_id (object_id_string (object_id k r v)) = Some (object_id k r v).
Proof. exact parse_object_string. Qed.

Theorem C10_parse_element_string : forall k r v, is_element k = true -> in_range r v ->
  parse_element_id (element_id_string (element_id k r v)) = Some (element_id k r v).
Proof. exact parse_element_string. Qed.

Theorem C10_parse_feature_string : forall k r, is_element k = true -> 0 <= r < two40 ->
  parse_feature_id (feature_id_string (feature_id k r)) = Some (feature_id k r).
Proof. exact parse_feature_string. Qed.

(* 7. rejection: whatever the parsers accept has the kind/ref[:version] shape with a known
      kind (an element kind for element and feature ids); everything else is an error. *)
Theorem C10_parse_object_rejects : forall s, ~ has_shape false true s -> parse_object_id s = None.
Proof.
  intros s H. destruct (parse_object_id s) eqn:E; [|reflexivity].
  exfalso. apply H. eapply parse_object_id_shape; exact E.
Qed.

Theorem C10_parse_element_rejects : forall s, ~ has_shape true true s -> parse_element_id s = None.
Proof.
  intros s H. destruct (parse_element_id s) eqn:E; [|reflexivity].
  exfalso. apply H. eapply parse_element_id_shape; exact E.
Qed.

Theorem C10_parse_feature_rejects : forall s, ~ has_shape true false s -> parse_feature_id s = None.
Proof.
  intros s H. destruct (parse_feature_id s) eqn:E; [|reflexivity].
  exfalso. apply H. eapply parse_feature_id_shape; exact E.
Qed.

(* 8. the panicking conversions FeatureID/ElementID .NodeID() .WayID() .RelationID()
      (generated as partial functions, None = panic): on the packed id of ANY of the seven kinds
      the conversion to element kind K returns the reference exactly when the id IS of kind K
      and panics otherwise.  So an identifier never decodes as another kind through them.
      (Before fix 8024a58 in /repo the guard was a subset test and relation ids converted to
      nodes and ways: C10_old_guard_witness records the witness.) *)
Theorem C10_conv_feature : forall K k r v,
  is_element K = true -> in_range r v ->
  conv_feature K (pack k r v) = if kind_eqb K k then Some r else None.
Proof. exact conv_feature_pack. Qed.

Theorem C10_conv_element : forall K k r v,
  is_element K = true -> in_range r v ->
  conv_element K (pack k r v) = if kind_eqb K k then Some r else None.
Proof. exact conv_element_pack. Qed.

Theorem C10_conv_of_constructors : forall K k r v,
  is_element K = true -> is_element k = true -> in_range r v ->
  conv_feature K (feature_id k r) = (if kind_eqb K k then Some r else None) /\
  conv_element K (element_id k r v) = (if kind_eqb K k then Some r else None).
Proof.
  intros K k r v HK Hk H. split.
  - exact (conv_feature_id K k r HK Hk (proj1 H)).
  - exact (conv_element_id K k r v HK Hk H).
Qed.

Theorem C10_old_guard_witness :
  exists r, old_guard_passes c_nodeMask (pack KRelation r 0) = true
            /\ old_guard_passes c_wayMask (pack KRelation r 0) = true
            /\ ObjectID_Ref (pack KRelation r 0) = r.
Proof. exact old_guard_witness. Qed.

(* 9. Type.objectID / Type.FeatureID on ARBITRARY type strings, ids of way nodes and members *)
Theorem C10_type_objectID : forall t r v,
  Type_objectID t r v = match kind_of_name t with Some k => Some (object_id k r v) | None => None end.
Proof. exact type_objectID_spec. Qed.

Theorem C10_type_featureID : forall t r,
  Type_FeatureID t r =
  match kind_of_name t with
  | Some k => if is_element k then Some (feature_id k r) else None
  | None => None
  end.
Proof. exact type_featureID_spec. Qed.

Theorem C10_kind_of_name : forall t k, kind_of_name t = Some k <-> t = kind_name k.
Proof. exact kind_of_name_spec. Qed.

Theorem C10_way_node_ids : forall id ver, in_range id ver ->
  way_node_feature_id id = pack KNode id 0 /\ way_node_element_id id ver = pack KNode id ver.
Proof. exact way_node_ids. Qed.

Theorem C10_member_ids : forall k r v, is_element k = true -> in_range r v ->
  member_feature_id (kind_name k) r = Some (pack k r 0) /\
  member_element_id (kind_name k) r v = Some (pack k r v).
Proof. exact member_ids. Qed.

Theorem C10_member_ids_panic : forall typ ref ver,
  (forall k, is_element k = true -> typ <> kind_name k) ->
  member_feature_id typ ref = None /\ member_element_id typ ref ver = None.
Proof. exact member_ids_panic. Qed.

(* 10. Counts and the id lists *)
Theorem C10_element_ids_counts : forall l, Forall in_range3 l ->
  element_ids_counts (map pack3 l) = (count_kind KNode l, count_kind KWay l, count_kind KRelation l).
Proof. exact element_ids_counts_spec. Qed.

Theorem C10_feature_ids_counts : forall l, Forall in_range3 l ->
  feature_ids_counts (map pack3 l) = (count_kind KNode l, count_kind KWay l, count_kind KRelation l).
Proof. exact feature_ids_counts_spec. Qed.

Theorem C10_counts_total : forall l,
  Forall (fun t => is_element (fst (fst t)) = true) l ->
  count_kind KNode l + count_kind KWay l + count_kind KRelation l = Z.of_nat (List.length l).
Proof. exact counts_total. Qed.

Theorem C10_elements_id_lists : forall l,
  Forall in_range3 l -> Forall (fun t => is_element (fst (fst t)) = true) l ->
  elements_element_ids l = map pack3 l /\
  elements_feature_ids l = map (fun '(k, r, v) => pack k r 0) l.
Proof.
  intros l H1 H2. split; [exact (elements_element_ids_spec l H1 H2)|exact (elements_feature_ids_spec l H1 H2)].
Qed.

Theorem C10_objects_id_list : forall l, Forall in_range3 l ->
  objects_object_ids l = map (fun '(k, r, v) => pack k (norm_r k r) (norm_v k v)) l.
Proof. exact objects_object_ids_spec. Qed.

(* 10a. the methods of the objects themselves (Node, Way, Relation .ObjectID/ElementID/
        FeatureID; Changeset, Note, User, Bounds .ObjectID), regenerated from source: the
        per-id constructors applied to the fields ID and Version, for ALL field values *)
Theorem C10_struct_methods : forall k r v,
  struct_object_id k r v = object_id k r v /\ struct_element_id k r v = element_id k r v /\
  struct_feature_id k r = feature_id k r.
Proof.
  intros k r v. split; [exact (struct_object_id_eq k r v)|].
  split; [exact (struct_element_id_eq k r v)|exact (struct_feature_id_eq k r)].
Qed.

(* 10b. the collection-level id functions (WayNodes, Members, Nodes, Ways, Relations, OSM):
        the i-th id is the packed id of the i-th item, whatever its version (0 included), so it
        decodes to exactly that kind, reference and version, and equal id lists come from equal
        item lists *)
Theorem C10_collection_ids : forall which l,
  Forall in_range3 l -> Forall (fun t => is_element (fst (fst t)) = true) l ->
  coll_element_ids which l = map pack3 (coll_order which l) /\
  coll_feature_ids which l = map (fun '(k, r, v) => pack k r 0) (coll_order which l).
Proof. exact coll_ids_spec. Qed.

Theorem C10_collection_ids_injective : forall which l1 l2,
  Forall in_range3 l1 -> Forall (fun t => is_element (fst (fst t)) = true) l1 ->
  Forall in_range3 l2 -> Forall (fun t => is_element (fst (fst t)) = true) l2 ->
  coll_element_ids which l1 = coll_element_ids which l2 -> coll_order which l1 = coll_order which l2.
Proof. exact coll_element_ids_injective. Qed.

Example C10_partially_annotated_way_witness :
  coll_element_ids 0 [(KNode, 9, 0); (KNode, 9, 1); (KNode, 9, 2)]
  = [pack KNode 9 0; pack KNode 9 1; pack KNode 9 2].
Proof. vm_compute. reflexivity. Qed.

(* 11. OUTSIDE the domain of the property (no guarantee of the library; what the code does):
       for every int64 reference r and every version v, for the element kinds *)
Theorem C10_any_ref_reads_back_mod_2_40 : forall k r,
  is_element k = true -> FeatureID_Ref (feature_id k r) = r mod two40.
Proof. exact feature_ref_any. Qed.

Theorem C10_any_ref_clobbers_type_bits : forall k r,
  is_element k = true ->
  Z.land (feature_id k r) c_typeMask = Z.lor (kcode k) ((r / two40) mod 128) * two56.
Proof. exact feature_type_bits_any. Qed.

Theorem C10_any_ref_sign : forall k r,
  is_element k = true -> Z.testbit (feature_id k r) 63 = Z.testbit r 47.
Proof. exact feature_sign_any. Qed.

Theorem C10_any_version_reads_back_mod_2_16 : forall k r v,
  is_element k = true -> ElementID_Version (element_id k r v) = v mod two16.
Proof. exact element_version_any. Qed.

Theorem C10_negative_ref : forall k r,
  is_element k = true -> - two40 <= r < 0 ->
  FeatureID_Ref (feature_id k r) = r + two40 /\ FeatureID_Type (feature_id k r) = ""%string.
Proof. exact negative_ref. Qed.

Theorem C10_large_refs_collide :
  feature_id KNode (2 ^ 45) = feature_id KRelation 0 /\
  feature_id KNode (2 ^ 44 + 7) = feature_id KNode 7 /\
  FeatureID_Type (feature_id KNode (2 ^ 40)) = ""%string /\
  feature_id KNode (2 ^ 48 + 7) = feature_id KNode 7 /\
  feature_id KWay (2 ^ 47) < 0.
Proof. exact ref_collisions. Qed.

(* 12. the parsers, completely: closed formulas for EVERY string.  [shapeb] decides the
       kind/ref[:version] shape on the text alone, [denoted] reads kind, reference and version
       off the text (decimal value by Horner's rule).  Accepted iff shape and numbers within
       int64; the result is the constructor applied to what the text denotes. *)
Theorem C10_parse_int64_complete : forall s,
  parse_int64 s =
  if decimalb s then (if in_int64b (dec_val s) then Some (dec_val s) else None) else None.
Proof. exact parse_int64_char. Qed.

Theorem C10_parse_object_id_closed_form : forall s,
  parse_object_id s =
  if shapeb 0 s then
    match denoted 0 s with
    | Some (k, r, v) => if in_int64b r && in_int64b v then Some (object_id k r v) else None
    | None => None
    end
  else None.
Proof. exact parse_object_id_char. Qed.

Theorem C10_parse_element_id_closed_form : forall s,
  parse_element_id s =
  if shapeb 1 s then
    match denoted 1 s with
    | Some (k, r, v) => if in_int64b r && in_int64b v then Some (element_id k r v) else None
    | None => None
    end
  else None.
Proof. exact parse_element_id_char. Qed.

Theorem C10_parse_feature_id_closed_form : forall s,
  parse_feature_id s =
  if shapeb 2 s then
    match denoted 2 s with
    | Some (k, r, v) => if in_int64b r then Some (feature_id k r) else None
    | None => None
    end
  else None.
Proof. exact parse_feature_id_char. Qed.

(* completeness in the domain of the property: shape + numbers in range => the packed id *)
Theorem C10_parse_object_id_complete : forall s k r v,
  shapeb 0 s = true -> denoted 0 s = Some (k, r, v) -> in_range r v ->
  parse_object_id s = Some (pack k (norm_r k r) (norm_v k v)).
Proof. exact parse_object_id_complete. Qed.

Theorem C10_parse_element_id_complete : forall s k r v,
  shapeb 1 s = true -> denoted 1 s = Some (k, r, v) -> in_range r v ->
  is_element k = true /\ parse_element_id s = Some (pack k r v).
Proof. exact parse_element_id_complete. Qed.

Theorem C10_parse_feature_id_complete : forall s k r v,
  shapeb 2 s = true -> denoted 2 s = Some (k, r, v) -> 0 <= r < two40 ->
  is_element k = true /\ parse_feature_id s = Some (pack k r 0).
Proof. exact parse_feature_id_complete. Qed.

Example C10_conv_witness :
  conv_feature KNode (feature_id KNode 1099511627775) = Some 1099511627775 /\
  conv_feature KNode (feature_id KRelation 5) = None /\
  conv_element KWay (element_id KRelation 5 3) = None /\
  conv_element KRelation (element_id KRelation 5 3) = Some 5.
Proof. vm_compute. repeat split. Qed.
Example C10_counts_witness :
  element_ids_counts (map pack3 [(KNode, 1, 1); (KChangeset, 5, 0); (KWay, 2, 7); (KNode, 3, 0)]) = (2, 1, 0).
Proof. vm_compute. reflexivity. Qed.
Example C10_member_witness :
  member_element_id "way" 77 3 = Some (pack KWay 77 3) /\ member_feature_id "changeset" 5 = None.
Proof. vm_compute. split; reflexivity. Qed.
Example C10_parse_complete_witness :
  shapeb 1 "way/+0077:65535" = true /\ denoted 1 "way/+0077:65535" = Some (KWay, 77, 65535) /\
  parse_element_id "way/+0077:65535" = Some (pack KWay 77 65535) /\
  shapeb 2 "node/0x10" = false /\ parse_feature_id "node/0x10" = None /\
  shapeb 0 "bounds/5:7" = true /\ parse_object_id "bounds/5:7" = Some (pack KBounds 0 0).
Proof. vm_compute. repeat split. Qed.

(* 7b. rejection, stated with the text-level shape predicate (independent of the parser's own
       stages): no shape, no id *)
Theorem C10_no_shape_no_id : forall s,
  (shapeb 0 s = false -> parse_object_id s = None) /\
  (shapeb 1 s = false -> parse_element_id s = None) /\
  (shapeb 2 s = false -> parse_feature_id s = None).
Proof.
  intros s. repeat split; intros H.
  - rewrite parse_object_id_char, H. reflexivity.
  - rewrite parse_element_id_char, H. reflexivity.
  - rewrite parse_feature_id_char, H. reflexivity.
Qed.

(* 5b. the sort clause composed with the generated constructors: whatever sorted permutation
       of the element ids of a list of elements a sort returns, it is the list of packed ids of
       a permutation of the elements that is ordered by (type, id, version) *)
Theorem C10_sorted_element_ids : forall l out,
  Forall in_range3 l -> Forall (fun t => is_element (fst (fst t)) = true) l ->
  Permutation (elements_element_ids l) out -> StronglySorted Z.le out ->
  exists l', Permutation l l' /\ out = map pack3 l' /\ StronglySorted lex_le l'.
Proof. exact sorted_element_ids. Qed.

(* non-vacuity: hypotheses are satisfiable by non-trivial values, and the statements compute *)
Example C10_in_range_witness : in_range 1099511627775 65535 /\ in_range3 (KRelation, 1099511627775, 65535).
Proof. unfold in_range3, in_range, two40, two16. lia. Qed.
Example C10_roundtrip_witness :
  parse_object_id (object_id_string (object_id KWay 1099511627775 65535))
  = Some (object_id KWay 1099511627775 65535)
  /\ object_id_string (object_id KWay 1099511627775 65535) = "way/1099511627775:65535"%string.
Proof. split; vm_compute; reflexivity. Qed.
Example C10_reject_witness :
  parse_object_id "node/1/2" = None /\ parse_object_id "nodes/1" = None /\
  parse_element_id "changeset/1" = None /\ parse_object_id "node/1:2:3" = None.
Proof. repeat split; vm_compute; reflexivity. Qed.

(* every theorem of this file, closed under the global context (no axioms) *)
Definition C10_all_theorems :=
  (C10_object_id_layout,
   C10_element_id_layout,
   C10_feature_id_layout,
   C10_no_wrap,
   C10_decode_object,
   C10_decode_element,
   C10_kind_names_distinct,
   C10_injective,
   C10_order,
   C10_sorted_is_lex_sorted,
   C10_sort_result_unique,
   C10_parse_object_string,
   C10_parse_element_string,
   C10_parse_feature_string,
   C10_parse_object_rejects,
   C10_parse_element_rejects,
   C10_parse_feature_rejects,
   C10_conv_feature,
   C10_conv_element,
   C10_conv_of_constructors,
   C10_old_guard_witness,
   C10_type_objectID,
   C10_type_featureID,
   C10_kind_of_name,
   C10_way_node_ids,
   C10_member_ids,
   C10_member_ids_panic,
   C10_element_ids_counts,
   C10_feature_ids_counts,
   C10_counts_total,
   C10_elements_id_lists,
   C10_objects_id_list,
   C10_struct_methods,
   C10_collection_ids,
   C10_no_shape_no_id,
   C10_sorted_element_ids,
   C10_collection_ids_injective,
   C10_any_ref_reads_back_mod_2_40,
   C10_any_ref_clobbers_type_bits,
   C10_any_ref_sign,
   C10_any_version_reads_back_mod_2_16,
   C10_negative_ref,
   C10_large_refs_collide,
   C10_parse_int64_complete,
   C10_parse_object_id_closed_form,
   C10_parse_element_id_closed_form,
   C10_parse_feature_id_closed_form,
   C10_parse_object_id_complete,
   C10_parse_element_id_complete,
   C10_parse_feature_id_complete).
Print Assumptions C10_all_theorems.
