(* Properties/C10.v — Packed object/element/feature ids are lossless, ordered and parseable.

   ONLY statements, each closed by [exact] of a lemma of C10/Proofs.v, and Print Assumptions.
   The constructors and decoders mentioned here (module VerifGen.GenIds) are regenerated from
   /repo's Go source on every run by translator/cmd/ids; the String/Parse model is tied by
   correspondence (harness/cmd/c10). *)
From Coq Require Import ZArith List String Sorted Permutation Lia.
From Verif Require Import Base.Int64 C10.Model C10.Proofs.
From VerifGen Require Import GenIds.
Import ListNotations.
Open Scope Z_scope.

(* 1. the generated constructors compute the arithmetic layout kind*2^56 + ref*2^16 + version,
      for every kind, every ref in [0,2^40) and every version in [0,2^16); the result is a
      non-negative int64, so Go's wrapping arithmetic never wraps here. *)
Theorem C10_object_id_layout : forall k r v,
  in_range r v -> object_id k r v = pack k (norm_r k r) (norm_v k v).
Proof. exact object_id_pack. Qed.
Print Assumptions C10_object_id_layout.

Theorem C10_element_id_layout : forall k r v,
  is_element k = true -> in_range r v ->
  element_id k r v = pack k r v /\ object_id k r v = element_id k r v.
Proof. intros k r v Hk H. split; [exact (element_id_pack k r v Hk H)|exact (object_id_is_element_id k r v Hk)]. Qed.
Print Assumptions C10_element_id_layout.

Theorem C10_feature_id_layout : forall k r,
  is_element k = true -> 0 <= r < two40 -> feature_id k r = pack k r 0.
Proof. exact feature_id_pack. Qed.
Print Assumptions C10_feature_id_layout.

Theorem C10_no_wrap : forall k r v, in_range r v -> 0 <= pack k r v < two63.
Proof. exact pack_range. Qed.
Print Assumptions C10_no_wrap.

(* 2. lossless: the decoders return exactly kind, ref and version *)
Theorem C10_decode_object : forall k r v, in_range r v ->
  let id := object_id k r v in
  ObjectID_Type id = kind_name k /\ ObjectID_Ref id = norm_r k r /\ ObjectID_Version id = norm_v k v.
Proof.
  intros k r v H id. subst id. rewrite (object_id_pack k r v H).
  pose proof (norm_in_range k r v H) as Hn.
  split; [exact (object_type_pack _ _ _ Hn)|split; [exact (ref_pack _ _ _ Hn)|exact (version_pack _ _ _ Hn)]].
Qed.
Print Assumptions C10_decode_object.

Theorem C10_decode_element : forall k r v, is_element k = true -> in_range r v ->
  let id := element_id k r v in
  ElementID_Type id = kind_name k /\ ElementID_Ref id = r /\ ElementID_Version id = v /\
  ElementID_FeatureID id = feature_id k r /\
  FeatureID_Type (feature_id k r) = kind_name k /\ FeatureID_Ref (feature_id k r) = r.
Proof.
  intros k r v Hk H id. subst id. rewrite (element_id_pack k r v Hk H).
  assert (in_range r 0) as H0 by (destruct H as [Hr Hv]; split; [exact Hr|unfold two16; lia]).
  rewrite (feature_id_pack k r Hk (proj1 H)).
  repeat split.
  - exact (element_type_pack _ _ _ Hk H).
  - exact (ref_pack _ _ _ H).
  - exact (version_pack _ _ _ H).
  - exact (feature_of_pack _ _ _ H).
  - exact (feature_type_pack _ _ _ Hk H0).
  - exact (ref_pack _ _ _ H0).
Qed.
Print Assumptions C10_decode_element.

Theorem C10_kind_names_distinct : forall a b, kind_name a = kind_name b -> a = b.
Proof. exact kind_name_inj. Qed.

(* 3. distinct inputs give distinct identifiers *)
Theorem C10_injective : forall a b,
  in_range3 a -> in_range3 b -> pack3 a = pack3 b -> a = b.
Proof. exact pack_inj. Qed.
Print Assumptions C10_injective.

(* 4. integer order = (kind, ref, version) order, bounds < node < way < relation < ... *)
Theorem C10_order : forall a b,
  in_range3 a -> in_range3 b -> (pack3 a < pack3 b <-> lex_lt a b).
Proof. exact pack_lt_iff. Qed.
Print Assumptions C10_order.

Example C10_node_way_relation : rank KNode < rank KWay < rank KRelation.
Proof. cbn. lia. Qed.

(* 5. the provided sorts (sort.Sort with Less = integer <): any permutation of the input that
      is sorted on the packed integers is sorted by (type, id, version), and it is unique. *)
Theorem C10_sorted_is_lex_sorted : forall l,
  Forall in_range3 l -> StronglySorted Z.le (map pack3 l) -> StronglySorted lex_le l.
Proof. exact sorted_pack_lex. Qed.
Print Assumptions C10_sorted_is_lex_sorted.

Theorem C10_sort_result_unique : forall l1 l2 : list Z,
  Permutation l1 l2 -> StronglySorted Z.le l1 -> StronglySorted Z.le l2 -> l1 = l2.
Proof. exact sorted_perm_unique. Qed.
Print Assumptions C10_sort_result_unique.

(* 6. text round trip *)
Theorem C10_parse_object_string : forall k r v, in_range r v ->
  parse_object_id (object_id_string (object_id k r v)) = Some (object_id k r v).
Proof. exact parse_object_string. Qed.
Print Assumptions C10_parse_object_string.

Theorem C10_parse_element_string : forall k r v, is_element k = true -> in_range r v ->
  parse_element_id (element_id_string (element_id k r v)) = Some (element_id k r v).
Proof. exact parse_element_string. Qed.
Print Assumptions C10_parse_element_string.

Theorem C10_parse_feature_string : forall k r, is_element k = true -> 0 <= r < two40 ->
  parse_feature_id (feature_id_string (feature_id k r)) = Some (feature_id k r).
Proof. exact parse_feature_string. Qed.
Print Assumptions C10_parse_feature_string.

(* 7. rejection: whatever the parsers accept has the kind/ref[:version] shape with a known
      kind (an element kind for element and feature ids); everything else is an error. *)
Theorem C10_parse_object_rejects : forall s, ~ has_shape false true s -> parse_object_id s = None.
Proof.
  intros s H. destruct (parse_object_id s) eqn:E; [|reflexivity].
  exfalso. apply H. eapply parse_object_id_shape; exact E.
Qed.
Print Assumptions C10_parse_object_rejects.

Theorem C10_parse_element_rejects : forall s, ~ has_shape true true s -> parse_element_id s = None.
Proof.
  intros s H. destruct (parse_element_id s) eqn:E; [|reflexivity].
  exfalso. apply H. eapply parse_element_id_shape; exact E.
Qed.
Print Assumptions C10_parse_element_rejects.

Theorem C10_parse_feature_rejects : forall s, ~ has_shape true false s -> parse_feature_id s = None.
Proof.
  intros s H. destruct (parse_feature_id s) eqn:E; [|reflexivity].
  exfalso. apply H. eapply parse_feature_id_shape; exact E.
Qed.
Print Assumptions C10_parse_feature_rejects.

(* non-vacuity: hypotheses are satisfiable by non-trivial values, and the statements compute *)
Example C10_in_range_witness : in_range 1099511627775 65535 /\ in_range3 (KRelation, 1099511627775, 65535).
Proof. unfold in_range3, in_range, two40, two16. lia. Qed.
Example C10_roundtrip_witness :
  parse_object_id (object_id_string (object_id KWay 1099511627775 65535))
  = Some (object_id KWay 1099511627775 65535)
  /\ object_id_string (object_id KWay 1099511627775 65535) = "way/1099511627775:65535"%string.
Proof. split; vm_compute; reflexivity. Qed.
Example C10_reject_witness :
  parse_object_id "node/1/2" = None /\ parse_object_id "nodes/1" = None /\
  parse_element_id "changeset/1" = None /\ parse_object_id "node/1:2:3" = None.
Proof. repeat split; vm_compute; reflexivity. Qed.
