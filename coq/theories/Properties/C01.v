(* Properties/C01.v — PBF scan yields exactly the encoded header and elements, field for field.

   ONLY statements, each closed by [exact] of a lemma of Pbf/Proofs*.v, and Print Assumptions.
   The model (Pbf/Model.v, Pbf/Header.v) is a hand transcription of /repo/osmpbf/decode_data.go
   and decodeOSMHeader at message-tree level, tied to the implementation by correspondence
   (harness/cmd/c01); the specification (Pbf/Spec.v: elements, encode_block, valid_block) is
   written from osmformat.proto. *)
From Coq Require Import ZArith List Bool.
From Verif Require Import Base.Int64 Pbf.Tree Pbf.Model Pbf.Spec Pbf.ProofsArith Pbf.ProofsIndep.
Import ListNotations.
Open Scope Z_scope.

(* 1. "An optional column or field that is absent in one block ... never inherits a value from an
      earlier block": for EVERY message tree (valid encoding or not), every configuration and
      every two incoming decoder states (whatever earlier blocks left in the cached iterators,
      string table and block parameters), the outcome of decoding the block — the objects, or the
      error class, or the panic — is the same.  Unbounded: no two-block test, any history. *)
Theorem C01_never_inherits : forall c st1 st2 m, scan_result c st1 m = scan_result c st2 m.
Proof. exact scan_result_state_independent. Qed.
Print Assumptions C01_never_inherits.

(* 2. the wrapping delta coding of ids, coordinates, timestamps, changesets, member refs is
      lossless for every previous value (so no range condition on the deltas is needed) *)
Theorem C01_delta_lossless : forall prev x, in_int64 x ->
  wrap64 (prev + sint64 (zig64 (wrap64 (x - prev)))) = x.
Proof. exact delta64_roundtrip. Qed.
Print Assumptions C01_delta_lossless.

Theorem C01_delta32_lossless : forall prev x, - two31 <= x < two31 ->
  wrap32 (prev + sint32 (zig64 (wrap32 (x - prev)))) = x.
Proof. exact delta32_roundtrip. Qed.
Print Assumptions C01_delta32_lossless.
