(* Properties/C01.v — PBF scan yields exactly the encoded header and elements, field for field.

   ONLY statements, each closed by [exact] of a lemma of Pbf/Proofs*.v, and Print Assumptions.
   The model (Pbf/Model.v, Pbf/Header.v) is a hand transcription of /repo/osmpbf/decode_data.go
   and decodeOSMHeader at message-tree level, tied to the implementation by correspondence
   (harness/cmd/c01); the specification (Pbf/Spec.v: elements, encode_block, valid_block) is
   written from osmformat.proto. *)
From Coq Require Import ZArith List Bool.
From Verif Require Import Base.Int64 Pbf.Tree Pbf.Model Pbf.Spec Pbf.ProofsArith Pbf.ProofsIndep Pbf.ProofsDecode Pbf.ProofsDense Pbf.ProofsAll.
Import ListNotations.
Open Scope Z_scope.

(* 1. "An optional column or field that is absent in one block ... never inherits a value from an
      earlier block": for EVERY message tree (valid encoding or not), every configuration and
      every two incoming decoder states (whatever earlier blocks left in the cached iterators,
      string table and block parameters), the outcome of decoding the block — the objects, or the
      error class, or the panic — is the same.  Unbounded: no two-block test, any history. *)
Theorem C01_never_inherits : forall c st1 st2 m, scan_result c st1 m = scan_result c st2 m.
Proof. exact scan_result_state_independent. Qed.
Print Assumptions C01_never_inherits.

(* 2. the wrapping delta coding of ids, coordinates, timestamps, changesets, member refs is
      lossless for every previous value (so no range condition on the deltas is needed) *)
Theorem C01_delta_lossless : forall prev x, in_int64 x ->
  wrap64 (prev + sint64 (zig64 (wrap64 (x - prev)))) = x.
Proof. exact delta64_roundtrip. Qed.
Print Assumptions C01_delta_lossless.

Theorem C01_delta32_lossless : forall prev x, - two31 <= x < two31 ->
  wrap32 (prev + sint32 (zig64 (wrap32 (x - prev)))) = x.
Proof. exact delta32_roundtrip. Qed.
Print Assumptions C01_delta32_lossless.

(* 3. decode_encode_block: decoding the reference encoding of ANY valid block description (dense
      groups with every subset of the six DenseInfo columns and with or without keys_vals, ways with
      or without Info / each Info field / tags / refs / node locations, relations with members,
      changesets, any granularity / offsets / date granularity / string table, mixed groups) yields
      exactly the elements the description means, in order, field for field, from EVERY incoming
      decoder state. *)
Theorem C01_decode_encode_block : forall b,
  valid_block b = true ->
  forall st, scan_result cfg_all st (encode_block b) = Ok (elements b).
Proof. exact decode_encode_block. Qed.
Print Assumptions C01_decode_encode_block.

(* the block-level composition for arbitrary items (dense included): if every item decodes to its
   meaning from any state with the block's parameters, the block does *)
Theorem C01_decode_encode_from_items : forall b,
  valid_block b = true -> Forall (Forall (item_decodes b)) (b_groups b) ->
  forall st, scan_result cfg_all st (encode_block b) = Ok (elements b).
Proof. exact decode_encode_from_items. Qed.
Print Assumptions C01_decode_encode_from_items.

(* non-vacuity: a valid block with a dense group (3 of 6 info columns, keys_vals, an empty key), a way
   (Info, tags, located refs) and a relation *)
Example C01_witness_block : block_d :=
  mkBlockD [[]; [107]; [118]; [117]; []] false (Some 1000) None (Some 5) None
    [[IDense (mkDense [mkDN 10 100 (-200) (mkInfoD 3 1400000000 0 7 3 false) [(1, 2); (4, 2)];
                       mkDN 12 101 (-199) (mkInfoD 4 1400000060 0 8 0 true) []]
                      true (mkFl true true false false true false) true)];
     [IWay (mkWayD 7 true (mkFl true true false false true false) (mkInfoD 3 1400000000 0 0 3 true)
                   [(1, 2)] false [10; 8] false true [1; 2] [-1; -2]);
      IRel (mkRelD 9 false (mkFl false false false false false false) (mkInfoD 0 0 0 0 0 true)
                   [] true [mkMemD 1 5 1; mkMemD 0 (-3) 0] false)]].
Example C01_witness_valid : valid_block C01_witness_block = true.
Proof. vm_compute. reflexivity. Qed.
Example C01_witness_run :
  scan_result cfg_all dstate0 (encode_block C01_witness_block) = Ok (elements C01_witness_block)
  /\ length (elements C01_witness_block) = 4%nat.
Proof. vm_compute. split; reflexivity. Qed.

(* header_faithful (decode_header (encode_header h) = Ok (header_of h)) and field_order_irrelevant
   (scan_block c st m = scan_block c st (canon_block m)) are stated in notes/C01_C08.md and are
   checked per generated file by the correspondence run (judgements 1-3 of C01/Check.v); they are
   not proved in Coq in this version. *)
