(* Properties/C01.v — PBF scan yields exactly the encoded header and elements, field for field.
   (work in progress: statements are added as the proofs of Pbf/Proofs*.v land) *)
From Coq Require Import ZArith List Bool.
From Verif Require Import Base.Int64 Pbf.Tree Pbf.Model Pbf.Spec Pbf.ProofsArith.
Import ListNotations.
Open Scope Z_scope.

(* the wrapping delta coding of ids/coordinates/timestamps is lossless for every previous value *)
Theorem C01_delta_lossless : forall prev x, in_int64 x ->
  wrap64 (prev + sint64 (zig64 (wrap64 (x - prev)))) = x.
Proof. exact delta64_roundtrip. Qed.
Print Assumptions C01_delta_lossless.
