(* Properties/C01.v — PBF scan yields exactly the encoded header and elements, field for field.

   ONLY statements, each closed by [exact] of a lemma of Pbf/Proofs*.v, and Print Assumptions.
   The model (Pbf/Model.v, Pbf/Header.v) is a hand transcription of /repo/osmpbf/decode_data.go
   and decodeOSMHeader at message-tree level, tied to the implementation by correspondence
   (harness/cmd/c01); the specification (Pbf/Spec.v: elements, encode_block, valid_block) is
   written from osmformat.proto. *)
From Coq Require Import ZArith List Bool.
From Verif Require Import Base.Int64 Pbf.Tree Pbf.Model Pbf.Spec Pbf.Header Pbf.CheckLib Pbf.ProofsArith Pbf.ProofsIndep
     Pbf.ProofsDecode Pbf.ProofsDense Pbf.ProofsAll Pbf.ProofsHeader Pbf.ProofsFile Pbf.ProofsNoPanic Pbf.ProofsLayout Pbf.ProofsHeaderLayout Pbf.ProtoTypes Pbf.Dispatch Pbf.GenOk C01.Compose Pipeline.Exec.
From VerifGen Require GenProto GenPbfCode.
Import ListNotations.
Open Scope Z_scope.

(* 1. "An optional column or field that is absent in one block ... never inherits a value from an
      earlier block": for EVERY message tree (valid encoding or not; about the implementation on
      well-typed trees only, see Pbf/Tree.v: protoscan checks no wire types), every configuration and
      every two incoming decoder states (whatever earlier blocks left in the cached iterators,
      string table and block parameters), the outcome of decoding the block — the objects, or the
      error class, or the panic — is the same.  Unbounded: no two-block test, any history. *)
Theorem C01_never_inherits : forall c st1 st2 m, scan_result c st1 m = scan_result c st2 m.
Proof. exact scan_result_state_independent. Qed.
Print Assumptions C01_never_inherits.

(* 2. the wrapping delta coding of ids, coordinates, timestamps, changesets, member refs is
      lossless for every previous value (so no range condition on the deltas is needed) *)
Theorem C01_delta_lossless : forall prev x, in_int64 x ->
  wrap64 (prev + sint64 (zig64 (wrap64 (x - prev)))) = x.
Proof. exact delta64_roundtrip. Qed.
Print Assumptions C01_delta_lossless.

Theorem C01_delta32_lossless : forall prev x, - two31 <= x < two31 ->
  wrap32 (prev + sint32 (zig64 (wrap32 (x - prev)))) = x.
Proof. exact delta32_roundtrip. Qed.
Print Assumptions C01_delta32_lossless.

(* 3. decode_encode_block: decoding the reference encoding of ANY valid block description (dense
      groups with every subset of the six DenseInfo columns and with or without keys_vals, ways with
      or without Info / each Info field / tags / refs / node locations, relations with members
      (any int32 in the member type column: a value outside the enum 0..2 means a member without
      a known type, never the type of an earlier member), changesets, any granularity / offsets / date granularity / string table, mixed groups) yields
      exactly the elements the description means, in order, field for field, from EVERY incoming
      decoder state. *)
Theorem C01_decode_encode_block : forall b,
  valid_block b = true ->
  forall st, scan_result cfg_all st (encode_block b) = Ok (elements b).
Proof. exact decode_encode_block. Qed.
Print Assumptions C01_decode_encode_block.

(* 3a. THE DOMAIN valid_block AND THE FORMAT.  valid_block is "valid with respect to the format"
       (format_valid_block) minus ONE class of items: plain (non-dense) Node messages, field 1 of a
       PrimitiveGroup.  On that class the full statement of theorem 3 is FALSE of the faithful model
       and of the implementation (replayed; known finding "plain-node-group" in
       known_findings.d/C01.json; the harness assigns the class from the input alone: "a
       PrimitiveGroup carries field 1"): the decoder answers every such block, under every
       configuration and from every state, with the error "plain (non-dense) nodes are not
       supported" although the block encodes a node.  FULL STATEMENT (false):
         forall b, format_valid_block b = true -> forall st, scan_result cfg_all st (encode_block b) = Ok (elements b). *)
Theorem C01_valid_block_is_format_valid_without_plain_nodes : forall b,
  valid_block b = (format_valid_block b && no_plain_nodes b).
Proof. exact valid_block_is_format_valid_without_plain_nodes. Qed.
Print Assumptions C01_valid_block_is_format_valid_without_plain_nodes.

Theorem C01_plain_nodes_refuted :
  format_valid_block plain_witness = true
  /\ elements plain_witness = [ONode (mkNode 7 1000 2000 (mkInfo 2 None 0 0 [] true) [([107], [118])])]
  /\ forall c st, scan_result c st (encode_block plain_witness) = Err E_PLAIN.
Proof. exact plain_nodes_refuted. Qed.
Print Assumptions C01_plain_nodes_refuted.

(* the block-level composition for arbitrary items (dense included): if every item decodes to its
   meaning from any state with the block's parameters, the block does *)
Theorem C01_decode_encode_from_items : forall b,
  valid_block b = true -> Forall (Forall (item_decodes b)) (b_groups b) ->
  forall st, scan_result cfg_all st (encode_block b) = Ok (elements b).
Proof. exact decode_encode_from_items. Qed.
Print Assumptions C01_decode_encode_from_items.

(* non-vacuity: a valid block with a dense group (3 of 6 info columns, keys_vals, an empty key), a way
   (Info, tags, located refs) and a relation *)
Example C01_witness_block : block_d :=
  mkBlockD [[]; [107]; [118]; [117]; []] false (Some 1000) None (Some 5) None
    [[IDense (mkDense [mkDN 10 100 (-200) (mkInfoD 3 1400000000 0 7 3 false) [(1, 2); (4, 2)];
                       mkDN 12 101 (-199) (mkInfoD 4 1400000060 0 8 0 true) []]
                      true (mkFl true true false false true false) true false)];
     [IWay (mkWayD 7 true (mkFl true true false false true false) (mkInfoD 3 1400000000 0 0 3 true)
                   [(1, 2)] false [10; 8] false true [1; 2] [-1; -2]);
      IRel (mkRelD 9 false (mkFl false false false false false false) (mkInfoD 0 0 0 0 0 true)
                   [] true [mkMemD 1 5 1; mkMemD 0 (-3) 0] false)]].
Example C01_witness_valid : valid_block C01_witness_block = true.
Proof. vm_compute. reflexivity. Qed.
Example C01_witness_run :
  scan_result cfg_all dstate0 (encode_block C01_witness_block) = Ok (elements C01_witness_block)
  /\ length (elements C01_witness_block) = 4%nat.
Proof. vm_compute. split; reflexivity. Qed.

(* both encodings of a group without nodes: the empty DenseNodes message (what protobuf encoders
   write; accepted since fix d133072) and the three mandatory columns with length 0 *)
Example C01_witness_empty_dense :
  let fl0 := mkFl false false false false false false in
  let b := mkBlockD [[]] false None None None None
             [[IDense (mkDense [] false fl0 false true)]; [IDense (mkDense [] false fl0 false false)];
              [IDense (mkDense [mkDN 1 2 3 (mkInfoD 0 0 0 0 0 true) []] false fl0 false true)]] in
  valid_block b = true
  /\ encode_block b = [(1, WMsg [(1, WStr [])]); (2, WMsg [(2, WMsg [])]);
                       (2, WMsg [(2, WMsg [(1, WPacked []); (8, WPacked []); (9, WPacked [])])]);
                       (2, WMsg [(2, WMsg [(1, WPacked [2]); (8, WPacked [4]); (9, WPacked [6])])])]
  /\ scan_result cfg_all dstate0 (encode_block b) = Ok [ONode (mkNode 1 200 300 info0 [])].
Proof. vm_compute. repeat split; reflexivity. Qed.

(* 4. header_faithful: Header() reports the header block unchanged — bounding box in integer
      nanodegrees (left/right/bottom/top -> MinLon/MaxLon/MinLat/MaxLat), required and optional
      features in order, writing program, source, replication timestamp / sequence number / base
      url; optional parts that are absent stay absent (no bounds, zero time, "" / 0). *)
Theorem C01_header_faithful : forall h,
  valid_header h = true -> decode_header (encode_header h) = Ok (header_of h).
Proof. exact header_faithful. Qed.
Print Assumptions C01_header_faithful.

Example C01_witness_header :
  let h := mkHeaderD (Some (-1000, 2000, 3000, -4000)) [[68; 101; 110; 115; 101; 78; 111; 100; 101; 115]] [[104]] (Some [112]) None
                     (Some 1395698102) None (Some []) in
  valid_header h = true /\
  decode_header (encode_header h)
  = Ok (mkHeader (Some (-1000, 2000, -4000, 3000)) [[68; 101; 110; 115; 101; 78; 111; 100; 101; 115]] [[104]] [112] [] (Some 1395698102) 0 []).
Proof. vm_compute. split; reflexivity. Qed.

(* 5. whole files.  (a) one decoder reused for every block; (b) n workers with round-robin dispatch
      and concatenation in file order, for EVERY n; (c) any assignment of decoder states to blocks
      (any worker, any history, any schedule): block k contributes exactly the kept elements of
      block k.  The composition with the PROVED order theorems of C02 (the pipeline LTS of
      coq/theories/Pipeline, every decoder count and every schedule) is section 10 below. *)
Theorem C01_scan_file_sequential : forall f, valid_file f = true -> forall c st,
  scan_blocks c st (encode_file f) = Ok (map (fun b => filter (keeps c) (elements b)) f).
Proof. exact scan_blocks_encode. Qed.
Print Assumptions C01_scan_file_sequential.

Theorem C01_scan_file_every_decoder_count : forall f, valid_file f = true -> forall c n,
  scan_file c n (encode_file f) = Ok (filter (keeps c) (elements_file f)).
Proof. exact scan_file_encode. Qed.
Print Assumptions C01_scan_file_every_decoder_count.

Theorem C01_scan_file_any_schedule : forall f, valid_file f = true -> forall c (sts : nat -> dstate),
  concat (map (fun kb => match scan_result c (sts (fst kb)) (encode_block (snd kb)) with Ok q => q | _ => [] end)
              (combine (seq 0 (length f)) f))
  = filter (keeps c) (elements_file f)
  /\ Forall (fun kb => exists q, scan_result c (sts (fst kb)) (encode_block (snd kb)) = Ok q)
            (combine (seq 0 (length f)) f).
Proof. exact blocks_any_states. Qed.
Print Assumptions C01_scan_file_any_schedule.


(* 6. the block decoder never panics, for every message tree, configuration and decoder state
      (used by C06: a panic in a worker goroutine would be a process crash).  A statement about the
      model; it transfers to the implementation for well-typed trees (Pbf/Tree.v) — what protoscan
      does with a known field of another wire type is not modelled here. *)
Theorem C01_block_decoder_never_panics : forall c st m, scan_block c st m <> Panic.
Proof. exact scan_block_never_panics. Qed.
Print Assumptions C01_block_decoder_never_panics.

(* 7. field_order_irrelevant: theorem 3 for EVERY layout.  canon_block m is m with the unknown field
      numbers dropped and the fields of every message (block, dense, dense info, way, relation, info)
      stably sorted by number — primitive groups keep the order of their items, because that is the
      order of the elements.  Any message tree m whose canonical form is the reference encoding of a
      valid description b — i.e. b's fields written in any order, at every nesting level, with
      unknown fields interspersed whose numbers no OSM PBF message uses (outside 1-10, 16-20, 32-34:
      known_num is one set for all messages, so e.g. an extension field numbered 6 inside a Way is
      not dropped by canon_block and such a tree is outside this theorem) — decodes, under every configuration and from every decoder state,
      to exactly the kept elements of b.  (Judgement 3 of the correspondence check establishes the
      hypothesis canon_block m = encode_block b for every block fed to the implementation.) *)
Theorem C01_field_order_irrelevant : forall b m,
  valid_block b = true -> canon_block m = encode_block b ->
  forall c st, scan_result c st m = Ok (filter (keeps c) (elements b)).
Proof. exact field_order_irrelevant. Qed.
Print Assumptions C01_field_order_irrelevant.

(* 7a. WHAT canon_block DOES NOT IDENTIFY.  The protobuf encoding rules also allow a packed repeated
       field to be written as several chunks (same field number more than once; a parser must
       concatenate them).  mcanon_block is canon_block followed by that concatenation.  With
       mcanon_block in place of canon_block theorem 7 is FALSE of the faithful model and of the
       implementation (replayed; known finding "packed-column-split", class assigned from the input
       alone: "some packed column of some message occurs more than once"): the decoder keeps only the
       LAST chunk and silently returns a shorter way.  FULL STATEMENT (false):
         forall b m, valid_block b = true -> mcanon_block m = encode_block b ->
           forall c st, scan_result c st m = Ok (filter (keeps c) (elements b)). *)
Theorem C01_split_packed_refuted :
  valid_block split_witness_block = true
  /\ mcanon_block split_witness_tree = encode_block split_witness_block
  /\ elements split_witness_block = [OWay (mkWay 7 info0 [] [mkWN 1 0 0; mkWN 2 0 0])]
  /\ forall st, scan_result cfg_all st split_witness_tree = Ok [OWay (mkWay 7 info0 [] [mkWN 1 0 0])].
Proof. exact split_packed_refuted. Qed.
Print Assumptions C01_split_packed_refuted.

(* non-vacuity: the witness block with parameters first, groups reversed inside their messages,
   unknown fields 99 / 1000 at three levels *)
Example C01_witness_layout :
  let m : msg :=
    [(19, WVar 5); (99, WVar 7); (17, WVar 1000);
     (2, WMsg [(1000, WStr [1]);
               (2, WMsg [(10, WPacked [1; 2; 4; 2; 0; 0]); (9, WPacked [399; 2]); (8, WPacked [200; 2]);
                         (5, WMsg [(5, WPacked [6; 5]); (99, WVar 0); (2, WPacked [2800000000; 120]); (1, WPacked [3; 4])]);
                         (1, WPacked [20; 4])])]);
     (1, WMsg [(1, WStr []); (1, WStr [107]); (1, WStr [118]); (1, WStr [117]); (1, WStr [])]);
     (2, WMsg [(3, WMsg [(10, WPacked [1; 1]); (8, WPacked [20; 3]); (9, WPacked [2; 2]);
                         (4, WMsg [(5, WVar 3); (2, WVar 1400000000); (1, WVar 3)]);
                         (3, WPacked [2]); (2, WPacked [1]); (1, WVar 7)]);
               (4, WMsg [(10, WPacked [1; 0]); (9, WPacked [10; 15]); (8, WPacked [1; 0]); (3, WPacked []);
                         (2, WPacked []); (1, WVar 9)])])] in
  canon_block m = encode_block C01_witness_block
  /\ scan_result cfg_all dstate0 m = Ok (elements C01_witness_block).
Proof. vm_compute. split; reflexivity. Qed.

(* 8. the same for the header: for EVERY message tree the header decoder gives the same result on the
      tree and on its canonical form (unknown fields dropped, fields and the bbox sub-message stably
      sorted); hence any layout of a valid header description is reported unchanged by Header(). *)
Theorem C01_header_decoder_layout_independent : forall m, decode_header (canon_header m) = decode_header m.
Proof. exact decode_header_canon. Qed.
Print Assumptions C01_header_decoder_layout_independent.

Theorem C01_header_faithful_every_layout : forall h m,
  valid_header h = true -> canon_header m = encode_header h -> decode_header m = Ok (header_of h).
Proof. exact header_layout_irrelevant. Qed.
Print Assumptions C01_header_faithful_every_layout.

(* 9. TIE BY TRANSLATION.  coq/gen/GenPbfCode.v is re-read on every run from osmpbf/decode_data.go,
      decode.go and the generated *.pb.go (go/ast), coq/gen/GenProto.v from the two .proto files.
      (a) Every field loop of the model is the table-driven loop of Pbf/Dispatch.v; (b) the tables are
      exactly the source's `switch x.FieldNumber()` dispatch: field number, skip-flag guard, accessor
      called on the message, accessors called on the elements of the iterator (followed into
      extractDenseNodes / scanTags / extractMembers), receiving object fields; (c) that dispatch agrees
      with the .proto numbering, types, labels and packing, covers every field of every message (changesets
      ignored by design), and the defaults are granularity 100 / date_granularity 1000.  More obligations
      (offset defaults, getters, the 1e-9 literal, capability set, generated Go structs = .proto, header
      field map and numbers) are in Pbf/GenOk.v (C_*, D_* lemmas). *)
Theorem C01_decoder_dispatch_matches_proto :
  (forall p f, pass1_step p f = pass1_step_t p f) /\ (forall c s f, group_step c s f = group_step_t c s f)
  /\ (forall s f, dense_step s f = dense_step_t s f) /\ (forall s f, dinfo_step s f = dinfo_step_t s f)
  /\ (forall p s f, way_step p s f = way_step_t p s f) /\ (forall p s f, rel_step p s f = rel_step_t p s f)
  /\ (forall p i f, info_step p i f = info_step_t p i f) /\ (forall p v x, extract_pre p v x = extract_pre_t p v x)
  /\ (forall m, Header.decode_header m = decode_header_t m)
  /\ map (view p1_targets yes) pass1_table = GenPbfCode.dispatch_scanPrimitiveBlock
  /\ map (view p2_targets yes) pass2_table = GenPbfCode.dispatch_scanPrimitiveBlock_pass2
  /\ map (view g_targets g_call) group_table = GenPbfCode.dispatch_scanPrimitiveGroup
  /\ map (view d_targets yes) dense_table = GenPbfCode.dispatch_scanDenseNodes
  /\ map (view (i_targets sNode) yes) dinfo_table = GenPbfCode.dispatch_scanDenseNodes_info
  /\ map (view w_targets yes) way_table = GenPbfCode.dispatch_scanWays
  /\ map (view (i_targets sWay) yes) info_table = GenPbfCode.dispatch_scanWays_info
  /\ map (view r_targets yes) rel_table = GenPbfCode.dispatch_scanRelations
  /\ map (view (i_targets sRelation) yes) info_table = GenPbfCode.dispatch_scanRelations_info
  /\ map (fun r => (fst (fst r), snd (fst r))) header_table = GenPbfCode.header_map
  /\ proto_agrees = true
  /\ proto_default sPrimitiveBlock 17 = Some (gran p0) /\ proto_default sPrimitiveBlock 18 = Some (dgran p0).
Proof. exact decoder_dispatch_matches_proto. Qed.
Print Assumptions C01_decoder_dispatch_matches_proto.

(* 10. COMPOSITION WITH C02 (C01/Compose.v).  The pipeline LTS of coq/theories/Pipeline moves abstract
      objects and treats file block i as [IBlock os_i], a block that decodes to os_i whichever worker in
      whatever private state decodes it.  [inst c f] instantiates it for a valid file description f and
      a scanner configuration c: os_i = the positions, in the kept element sequence of the file, of the
      elements of block i; [lab c f] reads a position back as the object.
      (a) the instantiation is sound: for EVERY decoder state st the block decoder applied to the
          encoding of block i returns exactly the objects labelled os_i (decode_encode_block + filter
          theorem; the worker's private state does not matter);
      (b) for every n >= 1, every channel budget and EVERY reachable state of the pipeline — every
          interleaving of reader, n workers, serializer, consumer and API calls (Scan, Err, Close, cancel,
          cancel from another goroutine), every resolution of every select — the objects delivered so far
          are a prefix of elements_file f;
      (c) the same for the objects returned by the successful Scans of any schedule (a list of labels);
      (d) a completed run (no Close, no cancellation, the scan has ended) delivered exactly
          elements_file f, ended with EOF, and Err() = nil.
      (b)-(d) use C02_delivered_is_prefix / C02_scans_are_prefix / C02_completes (Properties/C02.v). *)
Theorem C01_pipeline_instantiation_sound : forall c f, valid_file f = true ->
  Forall2 (fun it b => exists os, it = Compose.PL.IBlock os /\
             forall st, scan_result c st (encode_block b) = Ok (map (lab c f) os))
          (inst c f) f.
Proof. exact instantiation_sound. Qed.
Print Assumptions C01_pipeline_instantiation_sound.

Theorem C01_pipeline_delivers_prefix : forall f n budget s,
  valid_file f = true -> (1 <= n)%nat -> Compose.PB.reach (pcfg n budget (inst cfg_all f)) s ->
  exists t, map (lab cfg_all f) (Compose.PL.delivered s) ++ t = elements_file f.
Proof. intros f n budget s Hv Hn Hr. rewrite <- kept_all. exact (delivered_prefix_of_elements cfg_all f n budget s Hv Hn Hr). Qed.
Print Assumptions C01_pipeline_delivers_prefix.

Theorem C01_pipeline_scans_prefix_every_schedule : forall f n budget sched,
  valid_file f = true -> (1 <= n)%nat ->
  exists t, map (lab cfg_all f)
              (Compose.PO.scan_vals (snd (Compose.PL.run (pcfg n budget (inst cfg_all f)) sched
                                                         (Compose.PL.init (pcfg n budget (inst cfg_all f)))))) ++ t
            = elements_file f.
Proof. intros f n budget sched Hv Hn. rewrite <- kept_all. exact (scans_prefix_of_elements cfg_all f n budget sched Hv Hn). Qed.
Print Assumptions C01_pipeline_scans_prefix_every_schedule.

Theorem C01_pipeline_completed_run : forall f n budget s,
  valid_file f = true -> (1 <= n)%nat -> Compose.PB.reach (pcfg n budget (inst cfg_all f)) s ->
  Compose.PL.closed s = false -> Compose.PL.pcancelled s = false -> Compose.PL.s_err s <> 0%Z ->
  map (lab cfg_all f) (Compose.PL.delivered s) = elements_file f
  /\ Compose.PL.s_err s = Compose.PL.eEOF /\ Compose.PL.err_value s = 0%Z.
Proof.
  intros f n budget s Hv Hn Hr H1 H2 H3. rewrite <- kept_all.
  exact (completed_run_delivers_elements cfg_all f n budget s Hv Hn Hr H1 H2 H3).
Qed.
Print Assumptions C01_pipeline_completed_run.

(* non-vacuity: the witness block as a two-block file: the instantiated input (next Example: a state
   reached by a complete fair run of 3 workers satisfies the hypotheses of C01_pipeline_completed_run) *)
Example C01_witness_pipeline :
  let f := [C01_witness_block; C01_witness_block] in
  valid_file f = true /\ inst cfg_all f = [Compose.PL.IBlock [0; 1; 2; 3]%Z; Compose.PL.IBlock [4; 5; 6; 7]%Z]
  /\ map (lab cfg_all f) [0; 1; 2; 3; 4; 5; 6; 7]%Z = elements_file f.
Proof. vm_compute. repeat split; reflexivity. Qed.

Example C01_witness_pipeline_run :
  let f := [C01_witness_block; C01_witness_block] in
  let c := pcfg 3 8 (inst cfg_all f) in
  let r := Verif.Pipeline.Exec.scan_all c 200 20 (Compose.PL.init c) in
  map (lab cfg_all f) (Compose.PL.delivered (fst r)) = elements_file f /\ snd r = true
  /\ Compose.PL.err_value (fst r) = 0%Z /\ Compose.PL.s_err (fst r) = Compose.PL.eEOF
  /\ Compose.PL.closed (fst r) = false /\ Compose.PL.pcancelled (fst r) = false.
Proof. vm_compute. repeat split; reflexivity. Qed.

(* 10a. (wave 5) the same for EVERY configuration record pc of the pipeline model whose input is the
       instantiated file: any number of workers >= 1 (wf_cfg), any channel budget, with or without a
       header block (c_resume = true: a restart stream that starts with data), any header error and
       either form of the reader loop condition for the prefix statement; the hypotheses on the repair
       flags are those of the C02 theorems used (c_recheck, c_nextctx; PL.current for completion). *)
Theorem C01_pipeline_delivers_prefix_any_cfg : forall f pc s,
  valid_file f = true -> Compose.PL.c_inp pc = inst cfg_all f -> Compose.PL.wf_cfg pc = true ->
  Compose.PL.c_recheck pc = true -> Compose.PL.c_nextctx pc = true -> Compose.PB.reach pc s ->
  exists t, map (lab cfg_all f) (Compose.PL.delivered s) ++ t = elements_file f.
Proof. exact delivered_prefix_any_cfg_all. Qed.
Print Assumptions C01_pipeline_delivers_prefix_any_cfg.

Theorem C01_pipeline_completed_run_any_cfg : forall f pc s,
  valid_file f = true -> Compose.PL.c_inp pc = inst cfg_all f -> Compose.PL.wf_cfg pc = true ->
  Compose.PL.current pc = true -> Compose.PL.c_hdr_err pc = 0%Z -> Compose.PB.reach pc s ->
  Compose.PL.closed s = false -> Compose.PL.pcancelled s = false -> Compose.PL.s_err s <> 0%Z ->
  map (lab cfg_all f) (Compose.PL.delivered s) = elements_file f
  /\ Compose.PL.s_err s = Compose.PL.eEOF /\ Compose.PL.err_value s = 0%Z.
Proof. exact completed_run_any_cfg_all. Qed.
Print Assumptions C01_pipeline_completed_run_any_cfg.

(* non-vacuity: a HEADERLESS restart stream (c_resume = true), 2 workers: the hypotheses hold and a
   complete fair run delivers the elements of the file *)
Example C01_witness_pipeline_headerless :
  let f := [C01_witness_block; C01_witness_block] in
  let pc := Compose.PL.mkCfg 2 (inst cfg_all f) true 0%Z true true true 4 in
  let r := Verif.Pipeline.Exec.scan_all pc 200 20 (Compose.PL.init pc) in
  Compose.PL.wf_cfg pc = true /\ Compose.PL.current pc = true
  /\ map (lab cfg_all f) (Compose.PL.delivered (fst r)) = elements_file f /\ snd r = true
  /\ Compose.PL.s_err (fst r) = Compose.PL.eEOF /\ Compose.PL.closed (fst r) = false.
Proof. vm_compute. repeat split; reflexivity. Qed.

(* 7b. (wave 5) theorem 7 at FILE level: the trees actually fed to the n workers (block k on worker
       k mod n) are, block by block, SOME layout of the valid descriptions of f: the scan of the file
       is the kept elements of f in file order, for every configuration and worker count. *)
Theorem C01_scan_file_every_layout : forall c n (f : list block_d) ms,
  forallb valid_block f = true -> Forall2 (fun m b => canon_block m = encode_block b) ms f ->
  scan_file c n ms = Ok (filter (keeps c) (flat_map elements f)).
Proof. exact scan_file_layout. Qed.
Print Assumptions C01_scan_file_every_layout.

(* 3b. (wave 5) the 1e-10 degree clause as a Coq statement: PbfFloat/CoordFloat.v (its own file because
       of the classical-reals axioms) proves elements_coord_float_error: for every block with
       coords_small b = true (every coordinate of every element within 4e14 nanodegrees - a boolean of
       Pbf/Spec.v that the correspondence check evaluates on every case, code 4), every coordinate n
       of every element satisfies |RN(RN(1e-9) * RN(n)) - n * 1e-9| <= 1e-10 in binary64. *)

(* 11. TIE BY TRANSLATION, loop bodies.  Beyond the dispatch (section 9) the translator re-reads, on
      every run, (a) the found-flag rules of scanDenseNodes / scanWays / scanRelations — which
      `if !foundX` sets which iterators to nil, which ones return an error (mandatory columns), which
      conjunction of flags enables scanTags / extractMembers —, flags and iterators named by the
      dispatch arm that sets / fills them; (b) for every packed column whether its elements are DELTA
      accumulated (x += v, prev = v + prev) and in which integer type (int64 / int32) or used as they
      are; (c) the value formulas of timestamps and coordinates (locals replaced by the generated
      getter that defines them).  The model's nil_info / dense_fixup / extract_pre / fill are equal to
      rule- and table-driven versions, and the rules, accumulation kinds and formulas equal the source's.
      Still tied by correspondence only: the filter / reset-on-reject code, the keys_vals inner loop
      shape, slice allocation, the two-pass structure of scanPrimitiveBlock. *)
Theorem C01_decoder_loop_structure_matches_source :
  (forall fi ic, nil_info fi ic = nil_info_t fi ic) /\ (forall s, dense_fixup s = dense_fixup_t s)
  /\ (forall fd, dense_empty fd = dense_empty_t fd)
  /\ (forall p v x, extract_pre p v x = extract_pre_t p v x)
  /\ (forall f l prev index nodes, fill f l prev index nodes = fill_t ASint64 (kind_of 8 way_accum) f l prev index nodes)
  /\ dense_rules = GenPbfCode.found_scanDenseNodes /\ way_rules = GenPbfCode.found_scanWays
  /\ rel_rules = GenPbfCode.found_scanRelations
  /\ accum_view dense_accum = GenPbfCode.accum_scanDenseNodes
  /\ accum_view dinfo_accum = GenPbfCode.accum_scanDenseNodes_info
  /\ accum_view way_accum = GenPbfCode.accum_scanWays /\ accum_view rel_accum = GenPbfCode.accum_scanRelations
  /\ expected_formulas = GenPbfCode.formulas.
Proof. exact decoder_loop_structure_matches_source. Qed.
Print Assumptions C01_decoder_loop_structure_matches_source.
