(* Properties/C03.v — OSM XML decoding is faithful; the streaming scan equals whole-document
   decode.  Only statements; proofs are in Verif.Codec.*, Verif.C03.* (and the C04 round trips).

   FULL STATEMENTS (DESIGN section 5; not proved in this generality):
     decode_faithful : forall T doc, doc_ok T doc = true ->       (* C03/Spec.v: the OSM XML vocabulary
         in its places, any interleaving / repetition of children and blocks, unknown attributes,
         clean unknown elements *)
       decode gen_schema T doc = Ok (written T doc)                (* written: the value read off the
                                                                     document by the vocabulary alone *)
     scanner_eq_decode : forall T doc v, doc_ok T doc = true -> decode gen_schema T doc = Ok v ->
       scan_el gen_schema doc = (objs, None) /\ every per-kind / per-block list of v is the
       sub-sequence of objs with that enclosing block and kind.
   PROVED (the _partial theorems below) — the DOMAIN is NOT doc_ok but the family
       { doc | noise unknown_gen e doc,  encode1 gen_schema T v = Ok e,  wfb gen_schema T v }
     i.e. the document the model of the library's own writer produces for a well-formed value
     (canonical child order: one block per action, lists in struct order; its names are the OSM XML
     vocabulary by C04.schema_ok), with any NOISE (C03/Noise.v): unknown attributes anywhere in any
     start element, unknown element subtrees anywhere among any children, at any depth.  A name
     is unknown when the regenerated schema does not use it anywhere and it is not, in any ASCII
     letter case, a scanner object name (closedness: a vm_compute obligation).  For this family
     scanner output = flatten (decoded value).  NOT covered by a theorem, only by the per-case
     oracle of Check.v on doc_ok documents of the independent writer: repeated / interleaved
     osmChange blocks (there scan = flatten(decode) is FALSE — the interleaved_blocks example —
     and only the sub-sequence formulation can hold), children reordered across names, explicit
     default attribute values, known names in foreign places; building blocks for them:
     decode_faithful_osm_any_child_order (cross-name order at the top level of <osm>: PROVED in wave 5),
     decoder_independent_of_child_interleaving, decoder_is_fieldwise, field_skips_foreign_children,
     unknown_attr_ignored, unknown_child_ignored,
     attribute_order_irrelevant (one attribute list; not lifted to documents).
   REFUTED on the real code (known findings, known_findings.d/C03.json): scanner = decoder fails when
     an unknown element wraps an object element, and when an element is named like an object kind
     up to letter case (scanner_eq_decode_refuted, scanner_case_fold_refuted).
   Whitespace, comments, escaping, self-closing tags, lexical forms, namespaces are below the
   tree model (DESIGN section 7) and exercised by the independent writer of the harness. *)
From Coq Require Import List String Bool ZArith Permutation.
From Verif Require Import Codec.Schema Codec.Value Codec.Xml Codec.Wf Codec.Scan Codec.ProofsAttr Codec.ProofsKids
     Codec.ProofsRT C04.Roundtrip C03.Spec C03.Proofs C03.Noise C03.Faithful.
Require Verif.C03.Check.
From VerifGen Require Import GenSchema.
Import ListNotations.
Open Scope string_scope.
Open Scope list_scope.

(* --- decoding yields exactly what was written, whatever unknown attributes / elements are added --- *)
Theorem decode_faithful_partial : forall T v doc e,
  In T ["Node"; "Way"; "Relation"; "Changeset"; "Note"; "User"; "Bounds"; "OSM"; "Change"; "Diff"] ->
  wfb gen_schema T v = true ->
  encode1 gen_schema T v = Ok e -> noise unknown_gen e doc ->
  decode gen_schema T doc = Ok v.
Proof. exact decode_faithful_gen. Qed.
Print Assumptions decode_faithful_partial.

(* --- the streaming scanner yields, in document order, the objects of the value the
       whole-document decoder returns (flatten: the object itself; bounds, nodes, ways, relations,
       changesets, notes, users of an <osm>; the same per create / modify / delete block of an
       osmChange; per diff action the created element, the objects of old, of new, then the
       changesets) --- *)
Theorem scanner_eq_decode_partial : forall T v doc e,
  In T ["Node"; "Way"; "Relation"; "Changeset"; "Note"; "User"; "Bounds"; "OSM"; "Change"; "Diff"] ->
  wfb gen_schema T v = true ->
  encode1 gen_schema T v = Ok e -> noise unknown_gen e doc ->
  decode gen_schema T doc = Ok v /\ scan_el gen_schema doc = (flatten T v, None).
Proof. exact scanner_eq_decode_gen. Qed.
Print Assumptions scanner_eq_decode_partial.

(* --- children order across names (wave 5): an <osm> document whose children come in ANY order
       that keeps the order within each kind (node, way, node, ...; bounds anywhere), with any
       elements added that are none of its children, decodes to the value written.
       [same_per_field]: for every field of the OSM struct the sub-sequence of its own children is
       the canonical one. --- *)
Theorem decode_faithful_osm_any_child_order : forall v,
  wfb gen_schema "OSM" v = true ->
  exists al kids,
    encode1 gen_schema "OSM" v = Ok (Elem "osm" al kids (AStr []))
    /\ forall kids' t, same_per_field gen_schema (struct_fields (d_of "OSM")) kids kids' ->
                       decode gen_schema "OSM" (Elem "osm" al kids' t) = Ok v.
Proof. exact osm_any_child_order. Qed.
Print Assumptions decode_faithful_osm_any_child_order.

(* the generic form, for any struct element: if the per-field folds of the children succeed, the
   decoder returns them for ANY interleaving that keeps each field's own sequence — this is what
   makes repeated / interleaved blocks and cross-name order irrelevant at one level *)
Theorem decoder_independent_of_child_interleaving : forall sch unm kids kids' fs st st',
  parents_ok fs = true ->
  nodup_strb (elem_keys sch fs) = true ->
  same_per_field sch fs kids kids' ->
  Forall3 (fun f x x' => absorb_kids sch unm f x kids = Ok x') fs st st' ->
  unmarshal_kids sch unm fs st [] false kids' = Ok st'.
Proof. exact kids_any_interleaving. Qed.
Print Assumptions decoder_independent_of_child_interleaving.

(* --- the generic invariance behind both, for any schema closed under the unknown predicate:
       decoder and scanner do not see the noise --- *)
Theorem noise_invisible_to_decoder : forall sch unknown fz m ty cur e e',
  closed sch unknown = true -> noise unknown e e' ->
  unmarshal sch fz m ty cur e' = unmarshal sch fz m ty cur e.
Proof. exact noise_unmarshal. Qed.
Print Assumptions noise_invisible_to_decoder.

Theorem noise_invisible_to_scanner : forall sch unknown e e',
  closed sch unknown = true -> kinds_known unknown -> noise unknown e e' ->
  scan_el sch e' = scan_el sch e.
Proof. intros sch unknown e e' Hc Hk. exact (proj1 (noise_scan sch unknown Hc Hk) e e'). Qed.
Print Assumptions noise_invisible_to_scanner.

(* --- Scanner.Close (wave 5): the objects yielded before Close are a prefix of the document's
       objects, at most as many as asked for --- *)
Theorem scan_then_close_is_prefix : forall doc k,
  exists rest, fst (scan_el gen_schema doc) = Verif.C03.Check.scan_then_close doc k ++ rest
               /\ (List.length (Verif.C03.Check.scan_then_close doc k) <= k)%nat.
Proof.
  intros doc k. exists (skipn k (fst (scan_el gen_schema doc))). unfold Verif.C03.Check.scan_then_close.
  split; [symmetry; apply firstn_skipn | apply firstn_le_length].
Qed.
Print Assumptions scan_then_close_is_prefix.

(* --- attribute order: any permutation of attributes with pairwise different names decodes to
       the same fields --- *)
Theorem attribute_order_irrelevant : forall sch al al', Permutation al al' -> NoDup (map fst al) ->
  forall fs vs r, unmarshal_attrs sch fs vs al = Ok r -> unmarshal_attrs sch fs vs al' = Ok r.
Proof. exact unmarshal_attrs_perm. Qed.
Print Assumptions attribute_order_irrelevant.

(* --- building blocks, also used for documents outside the noise relation --- *)
Theorem unknown_attr_ignored : forall sch a1 fs vs an a a2,
  List.length fs = List.length vs ->
  (forall f, In f fs -> attr_hit sch f an = false) ->
  unmarshal_attrs sch fs vs (a1 ++ (an, a) :: a2) = unmarshal_attrs sch fs vs (a1 ++ a2).
Proof. exact unknown_attr_ignored_gen. Qed.
Print Assumptions unknown_attr_ignored.

Theorem unknown_child_ignored : forall sch unm k1 fs vs c k2,
  (forall f, In f fs -> path_match sch f [] (xname c) = PNone) ->
  List.length fs = List.length vs ->
  unmarshal_kids sch unm fs vs [] false (k1 ++ c :: k2) = unmarshal_kids sch unm fs vs [] false (k1 ++ k2).
Proof. exact unknown_child_ignored_gen. Qed.
Print Assumptions unknown_child_ignored.

(* independence of the interleaving of children with different names (repeated / interleaved
   blocks): the decoder's loops compute a per-field fold of the field's own children *)
Theorem decoder_is_fieldwise : forall sch unm d bs e st1 st2,
  all_supported (struct_fields d) = true ->
  (String.eqb (xmlname_tag d) "" || String.eqb (xmlname_tag d) (xname e)) = true ->
  parents_ok (struct_fields d) = true ->
  nodup_strb (elem_keys sch (struct_fields d)) = true ->
  Forall3 (fun f b r => absorb_attrs sch f b (xattrs e) = Ok r) (struct_fields d) bs st1 ->
  Forall3 (fun f b r => absorb_kids sch unm f b (xkids e) = Ok r) (struct_fields d) st1 st2 ->
  unmarshal_struct sch unm d (VStruct bs) e = Ok (VStruct st2).
Proof. exact unmarshal_struct_fieldwise. Qed.
Print Assumptions decoder_is_fieldwise.

Theorem field_skips_foreign_children : forall sch unm f kids x,
  (forall c, In c kids -> key_hit sch f (xname c) = false) -> absorb_kids sch unm f x kids = Ok x.
Proof. exact absorb_kids_skip. Qed.
Print Assumptions field_skips_foreign_children.

(* REFUTED (known finding scanner-descends-unknown-wrapper): an unknown element wrapping a known
   object element is stepped into by the token-level scanner but skipped as a whole by the
   document decoder: the scanner yields an object the decoded value does not contain. *)
Theorem scanner_eq_decode_refuted :
  exists doc, doc_ok "OSM" doc = false /\
              fst (scan_el gen_schema doc) <> [] /\
              decode gen_schema "OSM" doc = Ok (zero gen_schema FUEL (TNamed "OSM")).
Proof. exact scanner_descends_unknown. Qed.
Print Assumptions scanner_eq_decode_refuted.

(* REFUTED (known finding scanner-case-folds-object-name): <Node> is ignored by the decoder and
   stops the scanner with an error; <Bounds> is ignored by the decoder and yielded by the scanner *)
Theorem scanner_case_fold_refuted :
  (match decode gen_schema "OSM" case_variant_doc with Ok _ => true | Err _ => false end = true
   /\ scan_el gen_schema case_variant_doc = ([], Some EName))
  /\ (decode gen_schema "OSM" case_bounds_doc = Ok (zero gen_schema FUEL (TNamed "OSM"))
      /\ map fst (fst (scan_el gen_schema case_bounds_doc)) = ["Bounds"]).
Proof. exact scanner_case_fold. Qed.
Print Assumptions scanner_case_fold_refuted.

(* non-vacuity / instances *)
Example interleaved_blocks :
  doc_ok "Change" interleaved_doc = true /\
  node_ids (fst (scan_el gen_schema interleaved_doc)) = [VInt 1; VInt 2; VInt 3] /\
  (* both create blocks accumulate (nodes 1, 3), modify holds node 2: decode groups by block while
     the scanner keeps document order 1, 2, 3 — so only the sub-sequence formulation holds here *)
  match decode gen_schema "Change" interleaved_doc with
  | Ok v => (block_node_ids v "Create", block_node_ids v "Modify", block_node_ids v "Delete")
  | Err _ => ([], [], [])
  end = ([VInt 1; VInt 3], [VInt 2], []).
Proof. exact interleaved_blocks_example. Qed.

Example noisy_document :
  unknown_gen "zzattr" = true /\ unknown_gen "zzfoo" = true /\ unknown_gen "id" = false /\ unknown_gen "Node" = false
  /\ decode gen_schema "Node" nv_doc = Ok nv_node /\ scan_el gen_schema nv_doc = ([("Node", nv_node)], None).
Proof.
  destruct nv_unknowns as (H1 & _ & H3 & _ & H5 & H6). destruct nv_decodes as [D1 D2].
  repeat split; assumption.
Qed.
