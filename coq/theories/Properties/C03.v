(* Properties/C03.v — OSM XML decoding is faithful; the streaming scan equals whole-document
   decode.  Only statements; proofs are in Verif.Codec.*, Verif.C03.* (and the C04 round trips).

   The documents: for a well-formed value v of any of the ten document types, the tree e the
   writer model produces (encode1; its names are the OSM XML vocabulary by C04.schema_ok), with any
   NOISE (C03/Noise.v): unknown attributes inserted anywhere in any start element, unknown elements
   — whole subtrees of unknown names — inserted anywhere among any children, at any depth.
   A name is unknown when the schema regenerated from /repo does not use it and it is not, in any
   letter case, one of the scanner's object names (closedness is a vm_compute obligation).
   Attribute ORDER is covered separately (attribute_order_irrelevant); whitespace, comments,
   escaping, self-closing tags, lexical forms are below the tree model (DESIGN section 7) and
   exercised by the independent writer of the harness.

   PARTIAL: repeated / interleaved osmChange blocks and children reordered across names are not in
   the noise relation; for those the per-field theorem decoder_is_fieldwise (the loops compute a
   per-field fold of the field's own children, whatever is interleaved) and the example
   interleaved_blocks are what is proved; the full statement for them is evaluated by Check.v. *)
From Coq Require Import List String Bool ZArith Permutation.
From Verif Require Import Codec.Schema Codec.Value Codec.Xml Codec.Wf Codec.Scan Codec.ProofsAttr Codec.ProofsKids
     Codec.ProofsRT C03.Spec C03.Proofs C03.Noise C03.Faithful.
From VerifGen Require Import GenSchema.
Import ListNotations.
Open Scope string_scope.
Open Scope list_scope.

(* --- decoding yields exactly what was written, whatever unknown attributes / elements are added --- *)
Theorem decode_faithful : forall T v doc e,
  In T ["Node"; "Way"; "Relation"; "Changeset"; "Note"; "User"; "Bounds"; "OSM"; "Change"; "Diff"] ->
  wfb gen_schema T v = true ->
  encode1 gen_schema T v = Ok e -> noise unknown_gen e doc ->
  decode gen_schema T doc = Ok v.
Proof. exact decode_faithful_gen. Qed.
Print Assumptions decode_faithful.

(* --- the streaming scanner yields, in document order, the objects of the value the
       whole-document decoder returns (flatten: the object itself; bounds, nodes, ways, relations,
       changesets, notes, users of an <osm>; the same per create / modify / delete block of an
       osmChange; per diff action the created element, the objects of old, of new, then the
       changesets) --- *)
Theorem scanner_eq_decode : forall T v doc e,
  In T ["Node"; "Way"; "Relation"; "Changeset"; "Note"; "User"; "Bounds"; "OSM"; "Change"; "Diff"] ->
  wfb gen_schema T v = true ->
  encode1 gen_schema T v = Ok e -> noise unknown_gen e doc ->
  decode gen_schema T doc = Ok v /\ scan_el gen_schema doc = (flatten T v, None).
Proof. exact scanner_eq_decode_gen. Qed.
Print Assumptions scanner_eq_decode.

(* --- the generic invariance behind both, for any schema closed under the unknown predicate:
       decoder and scanner do not see the noise --- *)
Theorem noise_invisible_to_decoder : forall sch unknown fz m ty cur e e',
  closed sch unknown = true -> noise unknown e e' ->
  unmarshal sch fz m ty cur e' = unmarshal sch fz m ty cur e.
Proof. exact noise_unmarshal. Qed.
Print Assumptions noise_invisible_to_decoder.

Theorem noise_invisible_to_scanner : forall sch unknown e e',
  closed sch unknown = true -> kinds_known unknown -> noise unknown e e' ->
  scan_el sch e' = scan_el sch e.
Proof. intros sch unknown e e' Hc Hk. exact (proj1 (noise_scan sch unknown Hc Hk) e e'). Qed.
Print Assumptions noise_invisible_to_scanner.

(* --- attribute order: any permutation of attributes with pairwise different names decodes to
       the same fields --- *)
Theorem attribute_order_irrelevant : forall sch al al', Permutation al al' -> NoDup (map fst al) ->
  forall fs vs r, unmarshal_attrs sch fs vs al = Ok r -> unmarshal_attrs sch fs vs al' = Ok r.
Proof. exact unmarshal_attrs_perm. Qed.
Print Assumptions attribute_order_irrelevant.

(* --- building blocks, also used for documents outside the noise relation --- *)
Theorem unknown_attr_ignored : forall sch a1 fs vs an a a2,
  List.length fs = List.length vs ->
  (forall f, In f fs -> attr_hit sch f an = false) ->
  unmarshal_attrs sch fs vs (a1 ++ (an, a) :: a2) = unmarshal_attrs sch fs vs (a1 ++ a2).
Proof. exact unknown_attr_ignored_gen. Qed.
Print Assumptions unknown_attr_ignored.

Theorem unknown_child_ignored : forall sch unm k1 fs vs c k2,
  (forall f, In f fs -> path_match sch f [] (xname c) = PNone) ->
  List.length fs = List.length vs ->
  unmarshal_kids sch unm fs vs [] false (k1 ++ c :: k2) = unmarshal_kids sch unm fs vs [] false (k1 ++ k2).
Proof. exact unknown_child_ignored_gen. Qed.
Print Assumptions unknown_child_ignored.

(* independence of the interleaving of children with different names (repeated / interleaved
   blocks): the decoder's loops compute a per-field fold of the field's own children *)
Theorem decoder_is_fieldwise : forall sch unm d bs e st1 st2,
  all_supported (struct_fields d) = true ->
  (String.eqb (xmlname_tag d) "" || String.eqb (xmlname_tag d) (xname e)) = true ->
  parents_ok (struct_fields d) = true ->
  nodup_strb (elem_keys sch (struct_fields d)) = true ->
  Forall3 (fun f b r => absorb_attrs sch f b (xattrs e) = Ok r) (struct_fields d) bs st1 ->
  Forall3 (fun f b r => absorb_kids sch unm f b (xkids e) = Ok r) (struct_fields d) st1 st2 ->
  unmarshal_struct sch unm d (VStruct bs) e = Ok (VStruct st2).
Proof. exact unmarshal_struct_fieldwise. Qed.
Print Assumptions decoder_is_fieldwise.

Theorem field_skips_foreign_children : forall sch unm f kids x,
  (forall c, In c kids -> key_hit sch f (xname c) = false) -> absorb_kids sch unm f x kids = Ok x.
Proof. exact absorb_kids_skip. Qed.
Print Assumptions field_skips_foreign_children.

(* Boundary of the domain: an unknown element wrapping a known object element is stepped into
   by the token-level scanner but skipped as a whole by the document decoder, so the two
   readers differ there; the noise relation (all_unknown subtrees) and doc_ok exclude it. *)
Theorem scanner_descends_unknown_example :
  exists doc, doc_ok "OSM" doc = false /\
              fst (scan_el gen_schema doc) <> [] /\
              decode gen_schema "OSM" doc = Ok (zero gen_schema FUEL (TNamed "OSM")).
Proof. exact scanner_descends_unknown. Qed.
Print Assumptions scanner_descends_unknown_example.

(* non-vacuity / instances *)
Example interleaved_blocks :
  doc_ok "Change" interleaved_doc = true /\
  node_ids (fst (scan_el gen_schema interleaved_doc)) = [VInt 1; VInt 2; VInt 3] /\
  match decode gen_schema "Change" interleaved_doc with Ok _ => true | Err _ => false end = true.
Proof. exact interleaved_blocks_example. Qed.

Example noisy_document :
  unknown_gen "zzattr" = true /\ unknown_gen "zzfoo" = true /\ unknown_gen "id" = false /\ unknown_gen "Node" = false
  /\ decode gen_schema "Node" nv_doc = Ok nv_node /\ scan_el gen_schema nv_doc = ([("Node", nv_node)], None).
Proof.
  destruct nv_unknowns as (H1 & _ & H3 & _ & H5 & H6). destruct nv_decodes as [D1 D2].
  repeat split; assumption.
Qed.
