(* Properties/C03.v — OSM XML decoding is faithful; the streaming scan equals whole-document
   decode.  Only statements; proofs are in Verif.C03.*. *)
From Coq Require Import List String Bool ZArith.
From Verif Require Import Codec.Schema Codec.Value Codec.Xml Codec.Scan C03.Spec C03.Proofs.
From VerifGen Require Import GenSchema.
Import ListNotations.
Open Scope string_scope.

(* Boundary of the domain: an unknown element wrapping a known object element is stepped into
   by the token-level scanner but skipped as a whole by the document decoder, so the two
   readers differ there; such documents are excluded by doc_ok (clean unknown elements). *)
Theorem scanner_descends_unknown_example :
  exists doc, doc_ok "OSM" doc = false /\
              fst (scan_el gen_schema doc) <> [] /\
              decode gen_schema "OSM" doc = Ok (zero gen_schema FUEL (TNamed "OSM")).
Proof. exact scanner_descends_unknown. Qed.
Print Assumptions scanner_descends_unknown_example.
